// Package ldu holds the forced-collision id universe shared by the ldiff checks (C07, C08, C12) and a
// re-implementation of the range subdivision used only to *choose* query ranges (never as an oracle).
package ldu

import (
	"math/bits"

	"github.com/cespare/xxhash"
)

// Ids found by an offline search over "o<n>", n < 6e7 (see DESIGN C07): T* share a 36-bit hash prefix,
// P* share a 51-bit prefix, the others are unrelated.
var (
	Triple = []string{"o25749178", "o6097305", "o4185115"}
	Pair   = []string{"o29621316", "o51892676"}
	Loose  = []string{"o1", "o2", "o3"}
)

func H(id string) uint64 { return xxhash.Sum64([]byte(id)) }

// SharedPrefix returns the number of leading hash bits shared by all ids.
func SharedPrefix(ids ...string) int {
	n := 64
	for _, a := range ids[1:] {
		if k := bits.LeadingZeros64(H(ids[0]) ^ H(a)); k < n {
			n = k
		}
	}
	return n
}

type Tuple struct{ From, To uint64 }

// Split mirrors ldiff's subdivision of [from,to] into df sub-ranges.
func Split(from, to uint64, df int) (out []Tuple) {
	d := uint64(df)
	per := (to - from) / d
	align := ((to-from)%d + 1) % d
	if align == 0 {
		per++
	}
	j := from
	for i := 0; i < df; i++ {
		if i == df-1 {
			per += align
		}
		out = append(out, Tuple{j, j + per - 1})
		j += per
	}
	return
}

// PathRanges returns, for hash h, the sub-ranges (with all their siblings) met when descending from the top
// range towards h, for at most maxLevels levels.
func PathRanges(h uint64, df, maxLevels int) (out []Tuple) {
	cur := Tuple{0, ^uint64(0)}
	for l := 0; l < maxLevels; l++ {
		if cur.To-cur.From < uint64(df) {
			break
		}
		subs := Split(cur.From, cur.To, df)
		out = append(out, subs...)
		next := subs[len(subs)-1]
		for _, s := range subs {
			if h >= s.From && h <= s.To {
				next = s
				break
			}
		}
		cur = next
	}
	return
}
