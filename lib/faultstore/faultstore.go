// Package faultstore is engine F: a wrapper around anystore.DB that numbers every storage-call boundary a piece
// of any-sync code crosses (begin of a write transaction, every insert / upsert / update / delete, index and
// collection creation, commit) and can, at a chosen boundary, (a) call back so that the harness copies the
// database files (crash image: what would be on disk had the process died there) or (b) make the call return an
// error without executing it (for Commit: roll back, then fail). any-sync only ever sees the anystore interfaces,
// so no hook inside /repo is needed.
package faultstore

import (
	"context"
	"errors"
	"fmt"
	"strings"
	"sync"

	anystore "github.com/anyproto/any-store"
	"github.com/anyproto/any-store/anyenc"
	"github.com/anyproto/any-store/query"
)

var ErrInjected = errors.New("faultstore: injected storage error")

// Ctl decides what happens at each boundary.
type Ctl struct {
	mu      sync.Mutex
	Enabled bool
	N       int      // boundaries seen since Reset
	Labels  []string // label of each boundary
	FailAt  int      // boundary index that fails (-1: none)
	SnapAt  int      // boundary index before which OnSnap is called (-1: none)
	OnSnap  func()
	Failed  bool
}

func NewCtl() *Ctl { return &Ctl{FailAt: -1, SnapAt: -1} }

// Reset starts a new counted section.
func (c *Ctl) Reset(failAt, snapAt int, onSnap func()) {
	c.mu.Lock()
	defer c.mu.Unlock()
	c.Enabled, c.N, c.Labels, c.FailAt, c.SnapAt, c.OnSnap, c.Failed = true, 0, nil, failAt, snapAt, onSnap, false
}

func (c *Ctl) Stop() {
	c.mu.Lock()
	c.Enabled = false
	c.mu.Unlock()
}

// boundary is called before a mutating storage call; it reports whether the call must fail instead of running.
func (c *Ctl) boundary(label string) (fail bool) {
	c.mu.Lock()
	if !c.Enabled {
		c.mu.Unlock()
		return false
	}
	idx := c.N
	c.N++
	c.Labels = append(c.Labels, label)
	snap := idx == c.SnapAt && c.OnSnap != nil
	fail = idx == c.FailAt
	if fail {
		c.Failed = true
	}
	on := c.OnSnap
	c.mu.Unlock()
	if snap {
		on()
	}
	return fail
}

type DB struct {
	anystore.DB
	ctl *Ctl
}

func Wrap(db anystore.DB, ctl *Ctl) *DB { return &DB{DB: db, ctl: ctl} }

func (d *DB) Unwrap() anystore.DB { return d.DB }

func (d *DB) CreateCollection(ctx context.Context, name string) (anystore.Collection, error) {
	if d.ctl.boundary("CreateCollection:" + name) {
		return nil, ErrInjected
	}
	c, err := d.DB.CreateCollection(ctx, name)
	if err != nil {
		return nil, err
	}
	return &coll{Collection: c, d: d}, nil
}

func (d *DB) OpenCollection(ctx context.Context, name string) (anystore.Collection, error) {
	c, err := d.DB.OpenCollection(ctx, name)
	if err != nil {
		return nil, err
	}
	return &coll{Collection: c, d: d}, nil
}

func (d *DB) Collection(ctx context.Context, name string) (anystore.Collection, error) {
	c, err := d.DB.OpenCollection(ctx, name)
	if err == nil {
		return &coll{Collection: c, d: d}, nil
	}
	if !errors.Is(err, anystore.ErrCollectionNotFound) {
		return nil, err
	}
	return d.CreateCollection(ctx, name)
}

func (d *DB) WriteTx(ctx context.Context) (anystore.WriteTx, error) {
	t, err := d.DB.WriteTx(ctx)
	if err != nil {
		return nil, err
	}
	// a WriteTx opened inside another one is a savepoint: it is not a durability boundary, neither is its commit
	if strings.Contains(fmt.Sprintf("%T", t), "savepoint") {
		return t, nil
	}
	if d.ctl.boundary("WriteTx") {
		_ = t.Rollback()
		return nil, ErrInjected
	}
	return &tx{WriteTx: t, d: d}, nil
}

type tx struct {
	anystore.WriteTx
	d *DB
}

func (t *tx) Commit() error {
	if t.d.ctl.boundary("Commit") {
		_ = t.WriteTx.Rollback()
		return ErrInjected
	}
	return t.WriteTx.Commit()
}

type coll struct {
	anystore.Collection
	d *DB
}

func (c *coll) b(op string) bool { return c.d.ctl.boundary(op + ":" + c.Name()) }

func (c *coll) Insert(ctx context.Context, docs ...*anyenc.Value) error {
	if c.b("Insert") {
		return ErrInjected
	}
	return c.Collection.Insert(ctx, docs...)
}

func (c *coll) UpdateOne(ctx context.Context, doc *anyenc.Value) error {
	if c.b("UpdateOne") {
		return ErrInjected
	}
	return c.Collection.UpdateOne(ctx, doc)
}

func (c *coll) UpdateId(ctx context.Context, id any, mod query.Modifier) (anystore.ModifyResult, error) {
	if c.b("UpdateId") {
		return anystore.ModifyResult{}, ErrInjected
	}
	return c.Collection.UpdateId(ctx, id, mod)
}

func (c *coll) UpsertOne(ctx context.Context, doc *anyenc.Value) error {
	if c.b("UpsertOne") {
		return ErrInjected
	}
	return c.Collection.UpsertOne(ctx, doc)
}

func (c *coll) UpsertId(ctx context.Context, id any, mod query.Modifier) (anystore.ModifyResult, error) {
	if c.b("UpsertId") {
		return anystore.ModifyResult{}, ErrInjected
	}
	return c.Collection.UpsertId(ctx, id, mod)
}

func (c *coll) DeleteId(ctx context.Context, id any) error {
	if c.b("DeleteId") {
		return ErrInjected
	}
	return c.Collection.DeleteId(ctx, id)
}

func (c *coll) CreateIndex(ctx context.Context, info ...anystore.IndexInfo) error {
	if c.b("CreateIndex") {
		return ErrInjected
	}
	return c.Collection.CreateIndex(ctx, info...)
}

func (c *coll) EnsureIndex(ctx context.Context, info ...anystore.IndexInfo) error {
	// a boundary only when it really creates something
	have := map[string]bool{}
	for _, ix := range c.Collection.GetIndexes() {
		have[ix.Info().Name] = true
	}
	creates := false
	for _, i := range info {
		name := i.Name
		if name == "" {
			name = fmt.Sprint(i.Fields)
		}
		_ = name
		creates = true
		for _, ix := range c.Collection.GetIndexes() {
			if fmt.Sprint(ix.Info().Fields) == fmt.Sprint(i.Fields) {
				creates = false
			}
		}
	}
	if creates && c.b("EnsureIndex") {
		return ErrInjected
	}
	return c.Collection.EnsureIndex(ctx, info...)
}

func (c *coll) Drop(ctx context.Context) error {
	if c.b("Drop") {
		return ErrInjected
	}
	return c.Collection.Drop(ctx)
}

func (c *coll) WriteTx(ctx context.Context) (anystore.WriteTx, error) { return c.d.WriteTx(ctx) }

func (c *coll) Find(filter any) anystore.Query {
	// any-sync passes a Query as the filter of a second Find in places: hand the real one through
	if q, ok := filter.(*qry); ok {
		filter = q.Query
	}
	return &qry{Query: c.Collection.Find(filter), c: c}
}

type qry struct {
	anystore.Query
	c *coll
}

func (q *qry) Limit(l uint) anystore.Query  { return &qry{Query: q.Query.Limit(l), c: q.c} }
func (q *qry) Offset(o uint) anystore.Query { return &qry{Query: q.Query.Offset(o), c: q.c} }
func (q *qry) Sort(s ...any) anystore.Query { return &qry{Query: q.Query.Sort(s...), c: q.c} }
func (q *qry) IndexHint(h ...anystore.IndexHint) anystore.Query {
	return &qry{Query: q.Query.IndexHint(h...), c: q.c}
}

func (q *qry) Update(ctx context.Context, modifier any) (anystore.ModifyResult, error) {
	if q.c.b("Query.Update") {
		return anystore.ModifyResult{}, ErrInjected
	}
	return q.Query.Update(ctx, modifier)
}

func (q *qry) Delete(ctx context.Context) (anystore.ModifyResult, error) {
	if q.c.b("Query.Delete") {
		return anystore.ModifyResult{}, ErrInjected
	}
	return q.Query.Delete(ctx)
}

// Dump renders every document of every collection of db, sorted: the canonical durable state.
func Dump(ctx context.Context, db anystore.DB) (string, error) {
	names, err := db.GetCollectionNames(ctx)
	if err != nil {
		return "", err
	}
	sortStrings(names)
	out := ""
	for _, n := range names {
		c, err := db.OpenCollection(ctx, n)
		if err != nil {
			return "", err
		}
		it, err := c.Find(nil).Sort("id").Iter(ctx)
		if err != nil {
			return "", err
		}
		out += "== " + n + "\n"
		for it.Next() {
			d, err := it.Doc()
			if err != nil {
				it.Close()
				return "", err
			}
			out += d.Value().String() + "\n"
		}
		it.Close()
	}
	return out, nil
}

func sortStrings(s []string) {
	for i := 1; i < len(s); i++ {
		for j := i; j > 0 && s[j] < s[j-1]; j-- {
			s[j], s[j-1] = s[j-1], s[j]
		}
	}
}
