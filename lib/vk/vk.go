// Package vk is the shared runtime of every check: tiers, seeds, process sharding, counters, distinct-set
// counting, known-findings matching, evidence writing and the VIOLATION / KNOWN-FINDING protocol.
//
// A check is a Go test binary whose single test calls vk.Main. The first process (the "parent") spawns
// N shard children of the same binary, merges what they report, writes /verif/evidence/<ID>.json, prints the
// protocol lines and exits 0 / 1 / 2.
package vk

import (
	"bytes"
	"context"
	"encoding/binary"
	"encoding/json"
	"fmt"
	"hash/fnv"
	"os"
	"os/exec"
	"path/filepath"
	"regexp"
	"runtime"
	"runtime/debug"
	"sort"
	"strconv"
	"strings"
	"sync"
	"sync/atomic"
	"time"
)

const Root = "/verif"

// Spec describes one check.
type Spec struct {
	Prop        string // "C08"
	Level       string // evidence level
	Rule        string // how cases are enumerated, what makes one distinct / non-trivial
	Assumptions []string
	// Shards returns the number of child processes for the tier (default 1).
	Shards func(tier string) int
	// Budget is the internal deadline per tier (soft: the body polls c.TimeUp()).
	Budget func(tier string) time.Duration
	// MaxProcs sets GOMAXPROCS in each child (0 = leave alone).
	MaxProcs int
}

type Violation struct {
	Key    string `json:"key"`  // classification used to match known findings
	What   string `json:"what"` // human readable
	Replay any    `json:"replay,omitempty"`
}

type shardResult struct {
	Counters      map[string]int64    `json:"counters"`
	Sets          map[string][]uint64 `json:"-"`
	SetFiles      map[string]string   `json:"set_files"`
	Samples       []any               `json:"samples"`
	Violations    []Violation         `json:"violations"`
	NotExhaustive []string            `json:"not_exhaustive"`
	Bounds        map[string]any      `json:"bounds"`
	Notes         []string            `json:"notes"`
	Broken        []string            `json:"broken"`
}

// Ctx is handed to the body of a check (in a shard child).
type Ctx struct {
	Spec    Spec
	Tier    string
	Seed    int64
	Shard   int
	NShards int
	Replay  string // path of a replay file, or ""
	Scratch string // per-process scratch dir (removed on exit)
	Shared  string // directory shared by all shards of this run (level exchange of distributed searches)

	start    time.Time
	deadline time.Time
	// memory guard (see TimeUp); TimeUp is called from the search loop of one goroutine, or from several: the two
	// fields are only a cache, a race on them costs one more sample
	sliceEnd   atomic.Int64 // unix nanoseconds; 0 = no slice (see Slice)
	memChecked atomic.Int64 // unix nanoseconds of the last sample
	memTight   atomic.Bool
	mu         sync.Mutex
	counters map[string]*atomic.Int64
	sets     map[string]*hashSet
	res      shardResult
	vioKeys  map[string]int
}

type hashSet struct {
	mu sync.Mutex
	m  map[uint64]struct{}
}

func (c *Ctx) Quick() bool    { return c.Tier == "quick" }
func (c *Ctx) Thorough() bool { return c.Tier == "thorough" }

// Pick returns q for the quick tier and t for the thorough tier.
func Pick[T any](c *Ctx, q, t T) T {
	if c.Quick() {
		return q
	}
	return t
}

// Mine deals case index i to shards round-robin.
func (c *Ctx) Mine(i int) bool { return c.NShards <= 1 || i%c.NShards == c.Shard }

func (c *Ctx) counter(name string) *atomic.Int64 {
	c.mu.Lock()
	defer c.mu.Unlock()
	v, ok := c.counters[name]
	if !ok {
		v = new(atomic.Int64)
		c.counters[name] = v
	}
	return v
}

// Counter returns a counter that can be bumped without locking.
func (c *Ctx) Counter(name string) *atomic.Int64 { return c.counter(name) }

// Count adds n to a named counter. Standard names: "evaluations", "transitions", "executions".
func (c *Ctx) Count(name string, n int64) { c.counter(name).Add(n) }

func Hash64(b []byte) uint64 {
	h := fnv.New64a()
	h.Write(b)
	return h.Sum64()
}

func HashStr(s string) uint64 {
	h := fnv.New64a()
	h.Write([]byte(s))
	return h.Sum64()
}

func (c *Ctx) set(name string) *hashSet {
	c.mu.Lock()
	defer c.mu.Unlock()
	s, ok := c.sets[name]
	if !ok {
		s = &hashSet{m: map[uint64]struct{}{}}
		c.sets[name] = s
	}
	return s
}

// Distinct records key in the named set and reports whether it was new (in this shard). Standard names:
// "states" (canonical states) and "distinct" (distinct non-trivial cases / outcome classes).
func (c *Ctx) Distinct(set string, key string) bool { return c.DistinctH(set, HashStr(key)) }

func (c *Ctx) DistinctH(set string, h uint64) bool {
	s := c.set(set)
	s.mu.Lock()
	defer s.mu.Unlock()
	if _, ok := s.m[h]; ok {
		return false
	}
	s.m[h] = struct{}{}
	return true
}

// Sample records an actual case (at most 6 per shard are kept).
func (c *Ctx) Sample(v any) {
	c.mu.Lock()
	defer c.mu.Unlock()
	if len(c.res.Samples) < 6 {
		c.res.Samples = append(c.res.Samples, v)
	}
}

// Violation records a property violation. key classifies it (matched against known_findings.json); at most
// 3 violations per key are kept per shard (the count is kept in counter "violations_raw").
func (c *Ctx) Violation(key, what string, replay any) {
	c.Count("violations_raw", 1)
	c.mu.Lock()
	defer c.mu.Unlock()
	c.vioKeys[key]++
	if c.vioKeys[key] > 3 || len(c.res.Violations) > 200 {
		return
	}
	c.res.Violations = append(c.res.Violations, Violation{Key: key, What: what, Replay: replay})
}

// NViolations returns the number of violations recorded so far in this shard.
func (c *Ctx) NViolations() int {
	c.mu.Lock()
	defer c.mu.Unlock()
	n := 0
	for _, v := range c.vioKeys {
		n += v
	}
	return n
}

// NotExhaustive marks the run as not having completed its enumeration (cap / deadline hit).
func (c *Ctx) NotExhaustive(reason string) {
	c.mu.Lock()
	defer c.mu.Unlock()
	for _, r := range c.res.NotExhaustive {
		if r == reason {
			return
		}
	}
	c.res.NotExhaustive = append(c.res.NotExhaustive, reason)
}

// Bound records a bound that was completed (shown in the evidence).
func (c *Ctx) Bound(name string, v any) {
	c.mu.Lock()
	defer c.mu.Unlock()
	c.res.Bounds[name] = v
}

func (c *Ctx) Note(format string, a ...any) {
	c.mu.Lock()
	defer c.mu.Unlock()
	if len(c.res.Notes) < 40 {
		c.res.Notes = append(c.res.Notes, fmt.Sprintf(format, a...))
	}
}

// Broken reports that the harness itself is not working as designed (vacuity guard failed, replay diverged…):
// exit 2, never a VIOLATION.
func (c *Ctx) Broken(format string, a ...any) {
	c.mu.Lock()
	defer c.mu.Unlock()
	c.res.Broken = append(c.res.Broken, fmt.Sprintf(format, a...))
}

// Require is a vacuity / sanity guard.
func (c *Ctx) Require(cond bool, format string, a ...any) {
	if !cond {
		c.Broken(format, a...)
	}
}

// TimeUp reports whether the tier's internal deadline has passed.
//
// It also reports true once the process holds more heap than the memory guard allows (default 3 GiB per shard,
// VERIF_MEM_LIMIT_MB): the machine has no memory limit and 16 shards share it, so a search that outgrows the guard is
// stopped the way the deadline stops it (the caller reports NotExhaustive) instead of being killed by the kernel.
func (c *Ctx) TimeUp() bool {
	now := time.Now()
	if now.After(c.deadline) {
		return true
	}
	if se := c.sliceEnd.Load(); se != 0 && now.UnixNano() > se {
		return true
	}
	if c.memTight.Load() {
		return true
	}
	if last := c.memChecked.Load(); now.UnixNano()-last > int64(2*time.Second) && c.memChecked.CompareAndSwap(last, now.UnixNano()) {
		var ms runtime.MemStats
		runtime.ReadMemStats(&ms)
		limit := uint64(3 << 30)
		if v, err := strconv.Atoi(os.Getenv("VERIF_MEM_LIMIT_MB")); err == nil && v > 0 {
			limit = uint64(v) << 20
		}
		if ms.HeapAlloc > limit {
			c.memTight.Store(true)
			c.Note("memory guard: shard %d holds %d MiB of heap (limit %d MiB); exploration stopped as at the deadline", c.Shard, ms.HeapAlloc>>20, limit>>20)
			return true
		}
	}
	return false
}

func (c *Ctx) Elapsed() time.Duration { return time.Since(c.start) }

// Slice gives the part of a check that starts now an equal share of the time left, assuming `remaining` parts
// (this one included) still have to run: until EndSlice, TimeUp also reports true once that share is used up. A check
// with several independent searches uses it so that the first one cannot eat the whole budget.
func (c *Ctx) Slice(remaining int) {
	if remaining < 1 {
		remaining = 1
	}
	left := time.Until(c.deadline)
	if left < 0 {
		left = 0
	}
	c.sliceEnd.Store(time.Now().Add(left / time.Duration(remaining)).UnixNano())
}

func (c *Ctx) EndSlice() { c.sliceEnd.Store(0) }

// ---------------------------------------------------------------------------------------------------

type tb interface {
	Fatalf(format string, args ...any)
	Logf(format string, args ...any)
}

func envInt(name string, def int64) int64 {
	if v := os.Getenv(name); v != "" {
		if n, err := strconv.ParseInt(v, 10, 64); err == nil {
			return n
		}
	}
	return def
}

func tier() string {
	t := os.Getenv("VERIF_TIER")
	if t != "thorough" {
		t = "quick"
	}
	return t
}

// Main is called from the single test of a check binary.
func Main(t tb, spec Spec, body func(c *Ctx)) {
	if rp := os.Getenv("VERIF_REPLAY"); rp != "" && os.Getenv("VERIF_SHARD") == "" {
		// a violation recorded as a process crash has no case to re-execute, only the dump of the crash: its replay
		// is the whole check again (no evidence is written for a replay)
		var rf struct {
			Case map[string]any `json:"case"`
		}
		if err := ReadJSON(rp, &rf); err == nil {
			if _, isDump := rf.Case["dump"]; isDump && len(rf.Case) == 1 {
				fmt.Fprintln(os.Stderr, "replay of a recorded process crash: the whole check is run again")
				os.Unsetenv("VERIF_REPLAY")
				os.Setenv("VERIF_NO_EVIDENCE", "1")
			}
		}
	}
	if os.Getenv("VERIF_SHARD") != "" {
		child(spec, body)
		return
	}
	parent(spec)
}

func scratchBase() string {
	if st, err := os.Stat("/dev/shm"); err == nil && st.IsDir() {
		return "/dev/shm"
	}
	return os.TempDir()
}

func child(spec Spec, body func(c *Ctx)) {
	var shard, n int
	fmt.Sscanf(os.Getenv("VERIF_SHARD"), "%d/%d", &shard, &n)
	if spec.MaxProcs > 0 {
		runtime.GOMAXPROCS(spec.MaxProcs)
	}
	tr := tier()
	budget := 10 * time.Minute
	if spec.Budget != nil {
		budget = spec.Budget(tr)
	}
	if v := envInt("VERIF_BUDGET_S", 0); v > 0 {
		budget = time.Duration(v) * time.Second
	}
	scratch, err := os.MkdirTemp(scratchBase(), "verif-"+strings.ToLower(spec.Prop)+"-")
	if err != nil {
		fmt.Fprintln(os.Stderr, "scratch:", err)
		os.Exit(2)
	}
	c := &Ctx{
		Spec: spec, Tier: tr, Seed: envInt("VERIF_SEED", 1), Shard: shard, NShards: n,
		Replay: os.Getenv("VERIF_REPLAY"), Scratch: scratch, Shared: os.Getenv("VERIF_SHARED"),
		start: time.Now(), deadline: time.Now().Add(budget),
		counters: map[string]*atomic.Int64{}, sets: map[string]*hashSet{}, vioKeys: map[string]int{},
	}
	c.res.Bounds = map[string]any{}
	debug.SetTraceback("all")
	func() {
		defer os.RemoveAll(scratch)
		body(c)
	}()
	c.flush()
	os.Exit(0)
}

// FlushAndExit writes this shard's results and ends the process immediately. Used when the code under test has
// left goroutines blocked forever (a deadlock that was already recorded as a violation), so that the enclosing
// synctest bubble could never be left in an orderly way.
func (c *Ctx) FlushAndExit() {
	c.NotExhaustive("shard stopped early after an unrecoverable deadlock in the code under test")
	if c.Shared != "" {
		os.WriteFile(filepath.Join(c.Shared, "abort"), []byte("shard left early"), 0o644)
	}
	os.RemoveAll(c.Scratch)
	c.flush()
	os.Exit(0)
}

func (c *Ctx) flush() {
	out := os.Getenv("VERIF_OUT")
	c.mu.Lock()
	defer c.mu.Unlock()
	c.res.Counters = map[string]int64{}
	for k, v := range c.counters {
		c.res.Counters[k] = v.Load()
	}
	c.res.SetFiles = map[string]string{}
	for name, s := range c.sets {
		fn := out + ".set." + name
		buf := make([]byte, 0, 8*len(s.m))
		for h := range s.m {
			buf = binary.LittleEndian.AppendUint64(buf, h)
		}
		if err := os.WriteFile(fn, buf, 0o644); err != nil {
			fmt.Fprintln(os.Stderr, "write set:", err)
			os.Exit(2)
		}
		c.res.SetFiles[name] = fn
	}
	b, err := json.Marshal(&c.res)
	if err != nil {
		fmt.Fprintln(os.Stderr, "marshal result:", err)
		os.Exit(2)
	}
	if err := os.WriteFile(out, b, 0o644); err != nil {
		fmt.Fprintln(os.Stderr, "write result:", err)
		os.Exit(2)
	}
}

type knownFile struct {
	Findings []struct {
		Property string `json:"property"`
		Match    string `json:"match"` // regexp, must match the whole violation key
		What     string `json:"what"`
	} `json:"findings"`
	Fixed []string `json:"fixed"`
}

func loadKnown() (kf knownFile) {
	b, err := os.ReadFile(filepath.Join(Root, "known_findings.json"))
	if err != nil {
		return
	}
	if err := json.Unmarshal(b, &kf); err != nil {
		fmt.Fprintln(os.Stderr, "known_findings.json:", err)
		os.Exit(2)
	}
	return
}

// a crash of the child process: Go runtime fatal errors / uncaught panics, or a zap Fatal log line (zap's Fatal calls
// os.Exit(1) after writing the entry)
var crashRe = regexp.MustCompile(`(?m)^(fatal error: .*|panic: .*|runtime: goroutine stack exceeds.*|SIGSEGV.*|unexpected fault address.*|\S+\s+FATAL\s+.*)$`)

func parent(spec Spec) {
	start := time.Now()
	tr := tier()
	n := 1
	if spec.Shards != nil {
		n = spec.Shards(tr)
	}
	if v := envInt("VERIF_SHARDS", 0); v > 0 {
		n = int(v)
	}
	if os.Getenv("VERIF_REPLAY") != "" {
		n = 1
	}
	if n < 1 {
		n = 1
	}
	tmp, err := os.MkdirTemp(scratchBase(), "verif-par-"+strings.ToLower(spec.Prop)+"-")
	if err != nil {
		fmt.Fprintln(os.Stderr, "scratch:", err)
		os.Exit(2)
	}
	defer os.RemoveAll(tmp)
	exit := func(code int) {
		os.RemoveAll(tmp)
		os.Exit(code)
	}

	type childRun struct {
		out    string
		stderr bytes.Buffer
		err    error
	}
	runs := make([]*childRun, n)
	// watchdog: the body polls its soft deadline; a child that is still alive long after it is hung (e.g. the code
	// under test dead-locked inside the storage layer) and is killed: the check then reports itself broken (exit 2)
	budget := 10 * time.Minute
	if spec.Budget != nil {
		budget = spec.Budget(tr)
	}
	if v := envInt("VERIF_BUDGET_S", 0); v > 0 {
		budget = time.Duration(v) * time.Second
	}
	wctx, wcancel := context.WithTimeout(context.Background(), budget+budget/2+2*time.Minute)
	defer wcancel()
	shared := filepath.Join(tmp, "shared")
	os.MkdirAll(shared, 0o755)
	var wg sync.WaitGroup
	for i := 0; i < n; i++ {
		cr := &childRun{out: filepath.Join(tmp, fmt.Sprintf("shard%d.json", i))}
		runs[i] = cr
		cmd := exec.CommandContext(wctx, os.Args[0], "-test.run", "^TestCheck$", "-test.timeout", "0", "-test.v=false")
		cmd.Env = append(os.Environ(), fmt.Sprintf("VERIF_SHARD=%d/%d", i, n), "VERIF_OUT="+cr.out, "VERIF_TIER="+tr,
			"GOTRACEBACK=all", "VERIF_SHARED="+shared)
		cmd.Stdout = os.Stderr
		cmd.Stderr = &cr.stderr
		wg.Add(1)
		go func() {
			defer wg.Done()
			cr.err = cmd.Run()
			if cr.err != nil {
				// a shard died: release the others from any level barrier they may be waiting at
				os.WriteFile(filepath.Join(shared, "abort"), []byte("shard died"), 0o644)
			}
		}()
	}
	wg.Wait()

	merged := shardResult{Counters: map[string]int64{}, Bounds: map[string]any{}}
	sets := map[string]map[uint64]struct{}{}
	var crashes []Violation
	broken := false
	for i, cr := range runs {
		if cr.err != nil && wctx.Err() != nil {
			fmt.Fprintf(os.Stderr, "shard %d was killed by the watchdog after %s (soft deadline %s): the check hung\n%s\n", i, time.Since(start).Round(time.Second), budget, tailStr(cr.stderr.String(), 2000))
			broken = true
			continue
		}
		if cr.err != nil {
			se := cr.stderr.String()
			if m := crashRe.FindString(se); m != "" {
				// the code under test (or the harness) crashed the process: report as a violation with the dump
				dump := filepath.Join(Root, "replays", fmt.Sprintf("%s-crash-shard%d.txt", spec.Prop, i))
				os.MkdirAll(filepath.Dir(dump), 0o755)
				tail := se
				if len(tail) > 200000 {
					tail = tail[:200000]
				}
				os.WriteFile(dump, []byte(tail), 0o644)
				site := firstAnySyncFrame(se)
				if strings.Contains(m, "\tFATAL\t") || strings.Contains(m, " FATAL ") {
					if f := strings.Fields(m); len(f) >= 3 {
						site = "log.Fatal:" + strings.Join(f[2:min(len(f), 7)], " ")
					}
				}
				crashes = append(crashes, Violation{Key: "process-crash:" + site, What: m, Replay: map[string]string{"dump": dump}})
				continue
			}
			fmt.Fprintf(os.Stderr, "shard %d failed: %v\n%s\n", i, cr.err, tailStr(se, 4000))
			broken = true
			continue
		}
		if s := cr.stderr.String(); strings.TrimSpace(s) != "" && os.Getenv("VERIF_VERBOSE") != "" {
			fmt.Fprintf(os.Stderr, "[shard %d stderr]\n%s\n", i, tailStr(s, 4000))
		}
		b, err := os.ReadFile(cr.out)
		if err != nil {
			fmt.Fprintf(os.Stderr, "shard %d: no result: %v\n%s\n", i, err, tailStr(cr.stderr.String(), 4000))
			broken = true
			continue
		}
		var r shardResult
		if err := json.Unmarshal(b, &r); err != nil {
			fmt.Fprintf(os.Stderr, "shard %d: bad result: %v\n", i, err)
			broken = true
			continue
		}
		for k, v := range r.Counters {
			merged.Counters[k] += v
		}
		for name, fn := range r.SetFiles {
			buf, err := os.ReadFile(fn)
			if err != nil {
				fmt.Fprintf(os.Stderr, "shard %d: set %s: %v\n", i, name, err)
				broken = true
				continue
			}
			m := sets[name]
			if m == nil {
				m = map[uint64]struct{}{}
				sets[name] = m
			}
			for o := 0; o+8 <= len(buf); o += 8 {
				m[binary.LittleEndian.Uint64(buf[o:])] = struct{}{}
			}
		}
		for _, s := range r.Samples {
			if len(merged.Samples) < 8 {
				merged.Samples = append(merged.Samples, s)
			}
		}
		merged.Violations = append(merged.Violations, r.Violations...)
		merged.NotExhaustive = append(merged.NotExhaustive, r.NotExhaustive...)
		merged.Notes = append(merged.Notes, r.Notes...)
		merged.Broken = append(merged.Broken, r.Broken...)
		for k, v := range r.Bounds {
			merged.Bounds[k] = v
		}
	}
	merged.Violations = append(merged.Violations, crashes...)
	if len(merged.Broken) > 0 {
		// a vacuity guard ("vacuity: ..." from Require) says that the exploration did not reach a situation the check
		// is about. When violations were found as well, the code under test changed so much that it both broke the
		// property and never reaches that situation: the violations are the verdict. Alone, it leaves no verdict.
		onlyVacuity := true
		for _, b := range merged.Broken {
			fmt.Fprintln(os.Stderr, "BROKEN:", b)
			if !strings.HasPrefix(b, "vacuity:") {
				onlyVacuity = false
			}
		}
		if !(onlyVacuity && len(merged.Violations) > 0) {
			broken = true
		}
	}
	if broken {
		fmt.Fprintf(os.Stderr, "check %s is broken (harness failure); no verdict\n", spec.Prop)
		exit(2)
	}

	// classify violations
	kf := loadKnown()
	type group struct {
		v     Violation
		count int
	}
	groups := map[string]*group{}
	var order []string
	for _, v := range merged.Violations {
		g, ok := groups[v.Key]
		if !ok {
			g = &group{v: v}
			groups[v.Key] = g
			order = append(order, v.Key)
		}
		g.count++
	}
	sort.Strings(order)
	unlisted := 0
	knownPrinted := map[string]bool{}
	var lines []string
	for _, key := range order {
		g := groups[key]
		matched := ""
		for _, f := range kf.Findings {
			if f.Property != spec.Prop {
				continue
			}
			re, err := regexp.Compile("^(?:" + f.Match + ")$")
			if err != nil {
				fmt.Fprintln(os.Stderr, "known_findings.json: bad match regexp:", err)
				exit(2)
			}
			if re.MatchString(key) {
				matched = f.What
				break
			}
		}
		if matched != "" {
			if !knownPrinted[matched] {
				knownPrinted[matched] = true
				lines = append(lines, fmt.Sprintf("KNOWN-FINDING: property=%s %s", spec.Prop, matched))
			}
			continue
		}
		unlisted++
		path := filepath.Join(Root, "replays", fmt.Sprintf("%s-%016x.json", spec.Prop, HashStr(key)))
		os.MkdirAll(filepath.Dir(path), 0o755)
		rb, _ := json.MarshalIndent(map[string]any{"property": spec.Prop, "key": g.v.Key, "what": g.v.What, "case": g.v.Replay, "tier": tr, "seed": envInt("VERIF_SEED", 1)}, "", " ")
		os.WriteFile(path, rb, 0o644)
		fmt.Fprintf(os.Stderr, "violation [%s]: %s\n", g.v.Key, g.v.What)
		lines = append(lines, fmt.Sprintf("VIOLATION property=%s replay=%s", spec.Prop, path))
	}

	// evidence
	cov := map[string]any{}
	for k, v := range merged.Counters {
		switch k {
		case "evaluations", "transitions":
			cov[k] = v
		case "executions":
			cov["traces_validated_against_impl"] = v
		default:
			cov["n_"+k] = v
		}
	}
	for name, m := range sets {
		switch name {
		case "states":
			cov["states"] = len(m)
		case "distinct":
			cov["distinct_nontrivial"] = len(m)
		default:
			cov["distinct_"+name] = len(m)
		}
	}
	if _, ok := cov["evaluations"]; !ok {
		if v, ok := cov["traces_validated_against_impl"]; ok {
			cov["evaluations"] = v
		} else if v, ok := cov["transitions"]; ok {
			cov["evaluations"] = v
		}
	}
	if _, ok := cov["traces_validated_against_impl"]; !ok {
		if v, ok := cov["evaluations"]; ok {
			cov["traces_validated_against_impl"] = v
		}
	}
	if _, ok := cov["distinct_nontrivial"]; !ok {
		if v, ok := cov["states"]; ok {
			cov["distinct_nontrivial"] = v
		}
	}
	cov["rule"] = spec.Rule
	if len(merged.Samples) == 0 {
		merged.Samples = []any{}
	}
	cov["samples"] = merged.Samples
	cov["exhaustive"] = len(merged.NotExhaustive) == 0
	if len(merged.NotExhaustive) > 0 {
		cov["caps_hit"] = uniq(merged.NotExhaustive)
	}
	cov["bounds"] = merged.Bounds
	cov["shards"] = n
	if len(merged.Notes) > 0 {
		cov["notes"] = uniq(merged.Notes)
	}
	if len(knownPrinted) > 0 {
		var k []string
		for w := range knownPrinted {
			k = append(k, w)
		}
		sort.Strings(k)
		cov["known_findings_reproduced"] = k
	}
	ev := map[string]any{
		"property_id": spec.Prop,
		"tier":        tr,
		"seed":        envInt("VERIF_SEED", 1),
		"level":       spec.Level,
		"coverage":    cov,
		"assumptions": spec.Assumptions,
		"wall_s":      float64(int(time.Since(start).Seconds()*100)) / 100,
		"violations":  unlisted,
	}
	if os.Getenv("VERIF_REPLAY") == "" && os.Getenv("VERIF_NO_EVIDENCE") == "" {
		eb, _ := json.MarshalIndent(ev, "", " ")
		os.MkdirAll(filepath.Join(Root, "evidence"), 0o755)
		if err := os.WriteFile(filepath.Join(Root, "evidence", spec.Prop+".json"), append(eb, '\n'), 0o644); err != nil {
			fmt.Fprintln(os.Stderr, "evidence:", err)
			exit(2)
		}
	}
	// summary
	var keys []string
	for k := range cov {
		keys = append(keys, k)
	}
	sort.Strings(keys)
	var sb strings.Builder
	for _, k := range keys {
		switch k {
		case "rule", "samples", "notes", "bounds", "known_findings_reproduced":
			continue
		}
		fmt.Fprintf(&sb, " %s=%v", k, cov[k])
	}
	fmt.Printf("%s %s:%s wall=%.1fs\n", spec.Prop, tr, sb.String(), time.Since(start).Seconds())
	if bb, _ := json.Marshal(merged.Bounds); len(merged.Bounds) > 0 {
		fmt.Printf("%s bounds: %s\n", spec.Prop, bb)
	}
	for _, l := range lines {
		fmt.Println(l)
	}
	if unlisted > 0 {
		exit(1)
	}
	exit(0)
}

func uniq(in []string) []string {
	seen := map[string]bool{}
	var out []string
	for _, s := range in {
		if !seen[s] {
			seen[s] = true
			out = append(out, s)
		}
	}
	return out
}

func tailStr(s string, n int) string {
	if len(s) > n {
		return "…" + s[len(s)-n:]
	}
	return s
}

var frameRe = regexp.MustCompile(`github\.com/anyproto/any-sync/[^\s(]+(\([^)]*\))?[^\s(]*`)

func firstAnySyncFrame(stderr string) string {
	if m := frameRe.FindString(stderr); m != "" {
		return m
	}
	return "unknown"
}

// Recover runs f and converts a panic into (true, description with a trimmed stack).
func Recover(f func()) (panicked bool, what string) {
	defer func() {
		if r := recover(); r != nil {
			panicked = true
			st := string(debug.Stack())
			what = fmt.Sprintf("panic: %v @ %s", r, PanicSite(st))
		}
	}()
	f()
	return
}

// PanicSite extracts the first any-sync frame below the panic from a stack dump.
func PanicSite(stack string) string {
	idx := strings.Index(stack, "panic(")
	s := stack
	if idx >= 0 {
		s = stack[idx:]
	}
	for _, m := range frameRe.FindAllString(s, -1) {
		if strings.Contains(m, "/verifshim/") {
			continue
		}
		return m
	}
	return "unknown"
}

// ReadJSON loads a JSON file into v.
func ReadJSON(path string, v any) error {
	b, err := os.ReadFile(path)
	if err != nil {
		return err
	}
	return json.Unmarshal(b, v)
}

// ---- distributed level-synchronous search support ------------------------------------------------------

// Item is one element exchanged between shards at a level barrier (typically a newly found state: Key is the hash of
// its canonical form, Data how to reach it).
type Item struct {
	Key  uint64 `json:"k"`
	Data []byte `json:"d"`
}

type exchangeFile struct {
	Stop  bool   `json:"stop"`
	Items []Item `json:"items"`
}

// Exchange is a barrier: every shard contributes its items under the same tag; all shards get back the union, sorted by
// (Key, Data), identical in every shard. stop is true if any shard asked to stop (deadline). ok is false when another
// shard died (the caller should return; the parent reports the failure).
func (c *Ctx) Exchange(tag string, items []Item, wantStop bool) (all []Item, stop bool, ok bool) {
	return c.exchange(tag, items, wantStop, false)
}

// ExchangeOwned is Exchange for searches in which a shard only ever looks at the Data of the keys it Owns: the Data of
// every other item is dropped while the files are read (every shard still learns every Key), which keeps the memory
// of a level with millions of states in bounds.
func (c *Ctx) ExchangeOwned(tag string, items []Item, wantStop bool) (all []Item, stop bool, ok bool) {
	return c.exchange(tag, items, wantStop, true)
}

func (c *Ctx) exchange(tag string, items []Item, wantStop bool, ownedOnly bool) (all []Item, stop bool, ok bool) {
	if c.NShards <= 1 || c.Shared == "" {
		sort.Slice(items, func(i, j int) bool {
			if items[i].Key != items[j].Key {
				return items[i].Key < items[j].Key
			}
			return bytes.Compare(items[i].Data, items[j].Data) < 0
		})
		return items, wantStop, true
	}
	b, err := json.Marshal(exchangeFile{Stop: wantStop, Items: items})
	if err != nil {
		c.Broken("exchange: %v", err)
		return nil, true, false
	}
	name := func(i int) string { return filepath.Join(c.Shared, fmt.Sprintf("%s.%d", tag, i)) }
	tmp := name(c.Shard) + ".tmp"
	if err := os.WriteFile(tmp, b, 0o644); err != nil {
		c.Broken("exchange: %v", err)
		return nil, true, false
	}
	os.Rename(tmp, name(c.Shard))
	waitStart := time.Now()
	for i := 0; i < c.NShards; i++ {
		for {
			if _, err := os.Stat(name(i)); err == nil {
				break
			}
			if _, err := os.Stat(filepath.Join(c.Shared, "abort")); err == nil {
				return nil, true, false
			}
			if time.Since(waitStart) > 45*time.Minute {
				c.Broken("exchange %s: shard %d never arrived", tag, i)
				return nil, true, false
			}
			time.Sleep(3 * time.Millisecond)
		}
		fb, err := os.ReadFile(name(i))
		if err != nil {
			c.Broken("exchange: %v", err)
			return nil, true, false
		}
		var ef exchangeFile
		if err := json.Unmarshal(fb, &ef); err != nil {
			c.Broken("exchange: %v", err)
			return nil, true, false
		}
		stop = stop || ef.Stop
		if ownedOnly {
			for k := range ef.Items {
				if !c.Owns(ef.Items[k].Key) {
					ef.Items[k].Data = nil
				}
			}
		}
		all = append(all, ef.Items...)
		fb = nil
	}
	sort.Slice(all, func(i, j int) bool {
		if all[i].Key != all[j].Key {
			return all[i].Key < all[j].Key
		}
		return bytes.Compare(all[i].Data, all[j].Data) < 0
	})
	return all, stop, true
}

// Owns deals a key to a shard.
func (c *Ctx) Owns(key uint64) bool { return c.NShards <= 1 || int(key%uint64(c.NShards)) == c.Shard }
