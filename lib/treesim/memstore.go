package treesim

// In-memory implementations of spacestorage.SpaceStorage, headstorage.HeadStorage and objecttree.Storage. They mirror
// the observable semantics of the any-store backed ones (ordered scan by OrderId from >= the given id, unique ids and
// unique OrderIds per tree, changes + heads + common snapshot updated together or not at all) and exist only to make
// deep searches of the *sync logic* affordable: opening and closing a real database costs ~100x more than a whole
// replica operation. The any-store backed world (Backend "anystore") runs the same scenarios at shallower bounds, and
// the storage layer itself is the subject of C10.

import (
	"context"
	"fmt"
	"sort"
	"sync"
	"sync/atomic"

	anystore "github.com/anyproto/any-store"

	"github.com/anyproto/any-sync/app"
	"github.com/anyproto/any-sync/commonspace/headsync/headstorage"
	"github.com/anyproto/any-sync/commonspace/headsync/statestorage"
	"github.com/anyproto/any-sync/commonspace/object/acl/list"
	"github.com/anyproto/any-sync/commonspace/object/tree/objecttree"
	"github.com/anyproto/any-sync/commonspace/object/tree/treechangeproto"
	"github.com/anyproto/any-sync/commonspace/object/tree/treestorage"
	"github.com/anyproto/any-sync/commonspace/spacestorage"
	"github.com/anyproto/any-sync/consensus/consensusproto"
)

type memHeads struct {
	mu        sync.Mutex
	entries   map[string]headstorage.HeadsEntry
	observers []headstorage.Observer
}

func newMemHeads() *memHeads { return &memHeads{entries: map[string]headstorage.HeadsEntry{}} }

func (h *memHeads) AddObserver(o headstorage.Observer) { h.observers = append(h.observers, o) }

func (h *memHeads) IterateEntries(ctx context.Context, opts headstorage.IterOpts, iter headstorage.EntryIterator) error {
	h.mu.Lock()
	var ids []string
	for id := range h.entries {
		ids = append(ids, id)
	}
	sort.Strings(ids)
	var es []headstorage.HeadsEntry
	for _, id := range ids {
		es = append(es, h.entries[id])
	}
	h.mu.Unlock()
	for _, e := range es {
		if (e.DeletedStatus != headstorage.DeletedStatusNotDeleted) != opts.Deleted && !opts.Deleted {
			continue
		}
		if e.LastAddSeq < opts.MinLastAddSeq {
			continue
		}
		ok, err := iter(e)
		if !ok || err != nil {
			return err
		}
	}
	return nil
}

func (h *memHeads) GetEntry(ctx context.Context, id string) (headstorage.HeadsEntry, error) {
	h.mu.Lock()
	defer h.mu.Unlock()
	e, ok := h.entries[id]
	if !ok {
		return headstorage.HeadsEntry{}, anystore.ErrDocNotFound
	}
	e.Heads = append([]string{}, e.Heads...)
	return e, nil
}

func (h *memHeads) GetEntriesByParentId(ctx context.Context, parentId string) (out []headstorage.HeadsEntry, err error) {
	h.mu.Lock()
	defer h.mu.Unlock()
	for _, e := range h.entries {
		if e.ParentId == parentId {
			out = append(out, e)
		}
	}
	return
}

func (h *memHeads) MaxLastAddSeq(ctx context.Context) (m uint64, err error) {
	h.mu.Lock()
	defer h.mu.Unlock()
	for _, e := range h.entries {
		if e.LastAddSeq > m {
			m = e.LastAddSeq
		}
	}
	return
}

func (h *memHeads) DeleteEntry(ctx context.Context, id string) error {
	h.mu.Lock()
	defer h.mu.Unlock()
	delete(h.entries, id)
	return nil
}

func (h *memHeads) UpdateEntry(ctx context.Context, u headstorage.HeadsUpdate) error {
	h.mu.Lock()
	e := h.entries[u.Id]
	e.Id = u.Id
	if u.DeletedStatus != nil {
		e.DeletedStatus = *u.DeletedStatus
	}
	if u.CommonSnapshot != nil {
		e.CommonSnapshot = *u.CommonSnapshot
	}
	if u.Heads != nil {
		e.Heads = append([]string{}, u.Heads...)
	}
	if u.IsDerived != nil {
		e.IsDerived = *u.IsDerived
	}
	if u.ParentId != nil {
		e.ParentId = *u.ParentId
	}
	if u.LastAddSeq != nil {
		e.LastAddSeq = *u.LastAddSeq
	}
	h.entries[u.Id] = e
	obs := h.observers
	h.mu.Unlock()
	for _, o := range obs {
		o.OnUpdate(e)
	}
	return nil
}

type memTree struct {
	mu      sync.Mutex
	id      string
	heads   *memHeads
	changes map[string]objecttree.StorageChange
	orders  map[string]string // order id -> change id
	addSeq  *atomic.Uint64
	// FailAdd, when set, makes the next AddAll fail with this error (fault injection for callers that want it)
	FailAdd error
}

func (t *memTree) Id() string { return t.id }

func (t *memTree) Root(ctx context.Context) (objecttree.StorageChange, error) {
	t.mu.Lock()
	defer t.mu.Unlock()
	return t.changes[t.id], nil
}

func (t *memTree) Heads(ctx context.Context) ([]string, error) {
	e, err := t.heads.GetEntry(ctx, t.id)
	if err != nil {
		return nil, fmt.Errorf("failed to get heads entry: %w", err)
	}
	return e.Heads, nil
}

func (t *memTree) CommonSnapshot(ctx context.Context) (string, error) {
	e, err := t.heads.GetEntry(ctx, t.id)
	if err != nil {
		return "", err
	}
	return e.CommonSnapshot, nil
}

func (t *memTree) Has(ctx context.Context, id string) (bool, error) {
	t.mu.Lock()
	defer t.mu.Unlock()
	_, ok := t.changes[id]
	return ok, nil
}

func (t *memTree) Get(ctx context.Context, id string) (objecttree.StorageChange, error) {
	t.mu.Lock()
	defer t.mu.Unlock()
	c, ok := t.changes[id]
	if !ok {
		return objecttree.StorageChange{}, anystore.ErrDocNotFound
	}
	return c, nil
}

func (t *memTree) sorted(filter func(c objecttree.StorageChange) bool) []objecttree.StorageChange {
	t.mu.Lock()
	defer t.mu.Unlock()
	var out []objecttree.StorageChange
	for _, c := range t.changes {
		if filter(c) {
			out = append(out, c)
		}
	}
	sort.Slice(out, func(i, j int) bool { return out[i].OrderId < out[j].OrderId })
	return out
}

func (t *memTree) GetAfterOrder(ctx context.Context, orderId string, iter objecttree.StorageIterator) error {
	for _, c := range t.sorted(func(c objecttree.StorageChange) bool { return c.OrderId >= orderId }) {
		cont, err := iter(ctx, c)
		if !cont {
			return err
		}
	}
	return nil
}

func (t *memTree) GetAfterAddSeq(ctx context.Context, addSeq uint64, iter objecttree.StorageIterator) error {
	for _, c := range t.sorted(func(c objecttree.StorageChange) bool { return c.AddSeq > addSeq }) {
		cont, err := iter(ctx, c)
		if !cont {
			return err
		}
	}
	return nil
}

func (t *memTree) add(ctx context.Context, changes []objecttree.StorageChange, heads []string, commonSnapshot string, tolerateDup bool) error {
	t.mu.Lock()
	if t.FailAdd != nil {
		err := t.FailAdd
		t.FailAdd = nil
		t.mu.Unlock()
		return err
	}
	seq := t.addSeq.Add(1)
	// all or nothing: validate first
	newOrders := map[string]string{}
	for _, c := range changes {
		if _, ok := t.changes[c.Id]; ok {
			if tolerateDup {
				continue
			}
			t.mu.Unlock()
			return anystore.ErrDocExists
		}
		if other, ok := t.orders[c.OrderId]; ok && other != c.Id {
			t.mu.Unlock()
			return fmt.Errorf("%w: order id %q of %s already used by %s", anystore.ErrUniqueConstraint, c.OrderId, c.Id, other)
		}
		if other, ok := newOrders[c.OrderId]; ok && other != c.Id {
			t.mu.Unlock()
			return fmt.Errorf("%w: order id %q used twice in one batch", anystore.ErrUniqueConstraint, c.OrderId)
		}
		newOrders[c.OrderId] = c.Id
	}
	for i := range changes {
		c := changes[i]
		if _, ok := t.changes[c.Id]; ok {
			continue
		}
		changes[i].AddSeq = seq
		changes[i].TreeId = t.id
		c = changes[i]
		c.PrevIds = append([]string{}, c.PrevIds...)
		c.RawChange = append([]byte{}, c.RawChange...)
		t.changes[c.Id] = c
		t.orders[c.OrderId] = c.Id
	}
	t.mu.Unlock()
	return t.heads.UpdateEntry(ctx, headstorage.HeadsUpdate{Id: t.id, Heads: heads, CommonSnapshot: &commonSnapshot, LastAddSeq: &seq})
}

func (t *memTree) AddAll(ctx context.Context, changes []objecttree.StorageChange, heads []string, commonSnapshot string) error {
	return t.add(ctx, changes, heads, commonSnapshot, false)
}

func (t *memTree) AddAllNoError(ctx context.Context, changes []objecttree.StorageChange, heads []string, commonSnapshot string) error {
	return t.add(ctx, changes, heads, commonSnapshot, true)
}

func (t *memTree) Delete(ctx context.Context) error {
	t.mu.Lock()
	t.changes = map[string]objecttree.StorageChange{}
	t.orders = map[string]string{}
	t.mu.Unlock()
	return nil
}

func (t *memTree) Close() error { return nil }

func (t *memTree) SetAddSeq(seq *atomic.Uint64) { t.addSeq = seq }

type memSpace struct {
	id     string
	heads  *memHeads
	trees  map[string]*memTree
	acl    list.Storage
	addSeq atomic.Uint64
	mu     sync.Mutex
}

func newMemSpace(payload spacestorage.SpaceStorageCreatePayload) (*memSpace, error) {
	acl, err := list.NewInMemoryStorage(payload.AclWithId.Id, []*consensusproto.RawRecordWithId{payload.AclWithId})
	if err != nil {
		return nil, err
	}
	return &memSpace{id: payload.SpaceHeaderWithId.Id, heads: newMemHeads(), trees: map[string]*memTree{}, acl: acl}, nil
}

func (s *memSpace) Init(a *app.App) error                   { return nil }
func (s *memSpace) Name() string                            { return spacestorage.CName }
func (s *memSpace) Run(ctx context.Context) error           { return nil }
func (s *memSpace) Close(ctx context.Context) error         { return nil }
func (s *memSpace) Id() string                              { return s.id }
func (s *memSpace) HeadStorage() headstorage.HeadStorage    { return s.heads }
func (s *memSpace) StateStorage() statestorage.StateStorage { return nil }
func (s *memSpace) AclStorage() (list.Storage, error)       { return s.acl, nil }
func (s *memSpace) AnyStore() anystore.DB                   { return nil }

func (s *memSpace) TreeStorage(ctx context.Context, id string) (objecttree.Storage, error) {
	s.mu.Lock()
	defer s.mu.Unlock()
	t, ok := s.trees[id]
	if !ok {
		return nil, treestorage.ErrUnknownTreeId
	}
	return t, nil
}

func (s *memSpace) CreateTreeStorage(ctx context.Context, payload treestorage.TreeStorageCreatePayload) (objecttree.Storage, error) {
	s.mu.Lock()
	defer s.mu.Unlock()
	root := payload.RootRawChange
	if _, ok := s.trees[root.Id]; ok {
		return nil, treestorage.ErrTreeExists
	}
	t := &memTree{id: root.Id, heads: s.heads, changes: map[string]objecttree.StorageChange{}, orders: map[string]string{}, addSeq: &s.addSeq}
	first := objecttree.VerifFirstOrderId()
	t.changes[root.Id] = objecttree.StorageChange{RawChange: root.RawChange, Id: root.Id, SnapshotCounter: 1, OrderId: first, TreeId: root.Id, ChangeSize: len(root.RawChange)}
	t.orders[first] = root.Id
	s.trees[root.Id] = t
	f := false
	if err := s.heads.UpdateEntry(ctx, headstorage.HeadsUpdate{Id: root.Id, Heads: []string{root.Id}, CommonSnapshot: &root.Id, IsDerived: &f}); err != nil {
		return nil, err
	}
	return t, nil
}

func (s *memSpace) CreateStorageWithDeferredCreation(ctx context.Context, payload treestorage.TreeStorageCreatePayload) (objecttree.Storage, error) {
	return s.CreateTreeStorage(ctx, payload)
}

// NewMemTreeStorage returns a stand-alone in-memory tree storage holding only root (for checks that drive an
// object tree directly, without a space around it).
func NewMemTreeStorage(root *treechangeproto.RawTreeChangeWithId) objecttree.Storage {
	heads := newMemHeads()
	seq := &atomic.Uint64{}
	t := &memTree{id: root.Id, heads: heads, changes: map[string]objecttree.StorageChange{}, orders: map[string]string{}, addSeq: seq}
	first := objecttree.VerifFirstOrderId()
	t.changes[root.Id] = objecttree.StorageChange{RawChange: root.RawChange, Id: root.Id, SnapshotCounter: 1, OrderId: first, TreeId: root.Id, ChangeSize: len(root.RawChange)}
	t.orders[first] = root.Id
	f := false
	_ = heads.UpdateEntry(context.Background(), headstorage.HeadsUpdate{Id: root.Id, Heads: []string{root.Id}, CommonSnapshot: &root.Id, IsDerived: &f})
	return t
}
