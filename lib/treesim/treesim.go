// Package treesim runs several real replicas of one object tree (real any-store storage, real space storage,
// real ACL list, real synctree.SyncTree with the real objecttree underneath) connected by a network the harness
// owns: everything a replica hands to its SyncClient is captured as an in-flight message, and the harness decides
// which message is delivered, dropped or duplicated, calling the real HandleHeadUpdate / HandleStreamRequest /
// HandleResponse of the receiver.
package treesim

import (
	"context"
	"fmt"
	"math/rand"
	"os"
	"path/filepath"
	"sort"
	"strings"
	"sync"

	anystore "github.com/anyproto/any-store"
	"google.golang.org/protobuf/proto"

	"github.com/anyproto/any-sync/commonspace/object/accountdata"
	"github.com/anyproto/any-sync/commonspace/object/acl/list"
	"github.com/anyproto/any-sync/commonspace/object/acl/recordverifier"
	"github.com/anyproto/any-sync/commonspace/object/tree/objecttree"
	"github.com/anyproto/any-sync/commonspace/object/tree/synctree"
	"github.com/anyproto/any-sync/commonspace/object/tree/synctree/response"
	"github.com/anyproto/any-sync/commonspace/object/tree/treechangeproto"
	"github.com/anyproto/any-sync/commonspace/object/tree/treestorage"
	"github.com/anyproto/any-sync/commonspace/spacepayloads"
	"github.com/anyproto/any-sync/commonspace/spacestorage"
	"github.com/anyproto/any-sync/commonspace/spacesyncproto"
	"github.com/anyproto/any-sync/commonspace/sync/objectsync/objectmessages"
	"github.com/anyproto/any-sync/commonspace/sync/syncdeps"
	"github.com/anyproto/any-sync/commonspace/syncstatus"
	"github.com/anyproto/any-sync/consensus/consensusproto"
	"github.com/anyproto/any-sync/net/peer"
	"github.com/anyproto/any-sync/util/crypto"
)

// Fixture is what all replicas of a world share: the account, the space payload and the tree root.
type Fixture struct {
	tmplOnce sync.Once
	tmpl     map[string][]byte // files of a pristine replica database (space created, tree put)
	tmplErr  error
	Seed     int64
	Keys     *accountdata.AccountKeys
	Payload  spacestorage.SpaceStorageCreatePayload
	SpaceId  string
	TreeRoot *treechangeproto.RawTreeChangeWithId
}

func seeded(seed int64) *rand.Rand { return rand.New(rand.NewSource(seed)) }

// NewFixture builds a derived space (ACL root without a read key, so every byte is a function of the seed) and the
// root of one object tree in it.
func NewFixture(seed int64) (*Fixture, error) {
	r := seeded(seed*7 + 1)
	sign, _, err := crypto.GenerateEd25519Key(r)
	if err != nil {
		return nil, err
	}
	peerKey, _, _ := crypto.GenerateEd25519Key(r)
	master, _, _ := crypto.GenerateEd25519Key(r)
	keys := accountdata.New(peerKey, sign)
	payload, err := spacepayloads.StoragePayloadForSpaceDerive(spacepayloads.SpaceDerivePayload{
		SigningKey: sign, MasterKey: master, SpaceType: "verif",
	})
	if err != nil {
		return nil, err
	}
	f := &Fixture{Seed: seed, Keys: keys, Payload: payload, SpaceId: payload.SpaceHeaderWithId.Id}
	aclSt, err := list.NewInMemoryStorage(payload.AclWithId.Id, []*consensusproto.RawRecordWithId{payload.AclWithId})
	if err != nil {
		return nil, err
	}
	acl, err := list.BuildAclListWithIdentity(keys, aclSt, recordverifier.NewValidateFull())
	if err != nil {
		return nil, err
	}
	root, err := objecttree.CreateObjectTreeRoot(objecttree.ObjectTreeCreatePayload{
		PrivKey: sign, ChangeType: "verif.doc", ChangePayload: []byte("payload"), SpaceId: f.SpaceId,
		IsEncrypted: false, Seed: []byte(fmt.Sprintf("seed-%d", seed)), Timestamp: 1700000000,
	}, acl)
	if err != nil {
		return nil, err
	}
	f.TreeRoot = root
	return f, nil
}

// Msg is one in-flight message.
type Msg struct {
	Kind    string // "hu" head update, "req" full sync request, "resp" response stream
	Src     int
	Dst     int
	Bytes   []byte                              // hu / req payload
	Batches []*spacesyncproto.ObjectSyncMessage // resp: the batches handed to send(), in order
	// decoded summary (for canonical forms and oracles)
	Heads   []string
	Changes []string
	Path    []string
	Seq     int
}

func (m *Msg) Canon() string {
	s := fmt.Sprintf("%s %d>%d h=%v c=%v p=%v", m.Kind, m.Src, m.Dst, sortedCopy(m.Heads), m.Changes, m.Path)
	if m.Kind == "resp" {
		s += fmt.Sprintf(" batches=%d", len(m.Batches))
	}
	return s
}

func sortedCopy(s []string) []string {
	c := append([]string{}, s...)
	sort.Strings(c)
	return c
}

type Replica struct {
	Idx    int
	PeerId string
	Dir    string
	DB     anystore.DB // the real database (closed by World.Close)
	Store  anystore.DB // what the replica's storages use (DB, or a wrapper around it)
	Space  spacestorage.SpaceStorage
	Acl    list.AclList
	Tree   synctree.SyncTree
	w      *World
}

// WrapDB, when set, is applied to the database of every any-store backed replica (index given) right after it is
// opened: engine F installs its fault-injecting wrapper here.
var WrapDB func(idx int, db anystore.DB) anystore.DB

type World struct {
	Backend  string // "mem" (default) or "anystore"
	F        *Fixture
	Replicas []*Replica
	Net      []*Msg
	seq      int
	ts       int64
	nchange  int
	Log      []string // human readable event log
	scratch  string
}

type client struct {
	synctree.RequestFactory
	r *Replica
}

func (c *client) Broadcast(ctx context.Context, hu *objectmessages.HeadUpdate) error {
	w := c.r.w
	for _, o := range w.Replicas {
		if o == c.r {
			continue
		}
		b, err := hu.Update.Marshall(objectmessages.ObjectMeta{PeerId: o.PeerId, ObjectId: hu.Meta.ObjectId, SpaceId: hu.Meta.SpaceId})
		if err != nil {
			return err
		}
		m := &Msg{Kind: "hu", Src: c.r.Idx, Dst: o.Idx, Bytes: append([]byte{}, b...)}
		w.describe(m)
		w.push(m)
	}
	return nil
}

func (c *client) SendTreeRequest(ctx context.Context, req syncdeps.Request, collector syncdeps.ResponseCollector) error {
	return fmt.Errorf("treesim: synchronous tree requests are not modelled")
}

func (c *client) QueueRequest(ctx context.Context, req syncdeps.Request) error {
	return c.r.w.pushRequest(c.r.Idx, req)
}

func (w *World) push(m *Msg) {
	w.seq++
	m.Seq = w.seq
	w.Net = append(w.Net, m)
}

func (w *World) pushRequest(src int, req syncdeps.Request) error {
	pm, err := req.Proto()
	if err != nil {
		return err
	}
	osm, ok := pm.(*spacesyncproto.ObjectSyncMessage)
	if !ok {
		return fmt.Errorf("unexpected request proto %T", pm)
	}
	dst := w.byPeer(req.PeerId())
	if dst < 0 {
		return fmt.Errorf("request to unknown peer %q", req.PeerId())
	}
	m := &Msg{Kind: "req", Src: src, Dst: dst, Bytes: append([]byte{}, osm.Payload...)}
	w.describe(m)
	w.push(m)
	return nil
}

func (w *World) byPeer(id string) int {
	for _, r := range w.Replicas {
		if r.PeerId == id {
			return r.Idx
		}
	}
	return -1
}

// describe decodes the tree-sync payload of a message into its summary fields.
func (w *World) describe(m *Msg) {
	tm := &treechangeproto.TreeSyncMessage{}
	if err := tm.UnmarshalVT(m.Bytes); err != nil {
		return
	}
	switch {
	case tm.GetContent().GetHeadUpdate() != nil:
		hu := tm.GetContent().GetHeadUpdate()
		m.Heads, m.Path = hu.Heads, hu.SnapshotPath
		for _, c := range hu.Changes {
			m.Changes = append(m.Changes, c.Id)
		}
	case tm.GetContent().GetFullSyncRequest() != nil:
		rq := tm.GetContent().GetFullSyncRequest()
		m.Heads, m.Path = rq.Heads, rq.SnapshotPath
	}
}

// NewWorld creates n replicas over in-memory storage, each with the tree created from the shared root.
func NewWorld(f *Fixture, n int, scratch string) (*World, error) {
	return NewWorldOn("mem", f, n, scratch)
}

// NewWorldOn is NewWorld with an explicit storage backend: "mem" or "anystore" (real database files under scratch).
func NewWorldOn(backend string, f *Fixture, n int, scratch string) (*World, error) {
	w := &World{Backend: backend, F: f, ts: 1700000100, scratch: scratch}
	for i := 0; i < n; i++ {
		var r *Replica
		var err error
		if backend == "mem" {
			r, err = w.newMemReplica(i)
		} else {
			r, err = w.newReplica(i)
		}
		if err != nil {
			w.Close()
			return nil, err
		}
		w.Replicas = append(w.Replicas, r)
	}
	for _, r := range w.Replicas {
		var err error
		if backend == "mem" {
			err = r.putTree()
		} else {
			// the tree already exists in the template database: open it like a locally stored tree
			err = r.Reopen()
		}
		if err != nil {
			w.Close()
			return nil, err
		}
	}
	// the broadcasts of tree creation are not interesting (all replicas start with the root)
	w.Net = nil
	return w, nil
}

// newStoreCfg returns a fresh config (any-store's Open fills defaults into the value it is given).
func newStoreCfg() *anystore.Config {
	return &anystore.Config{
		ReadConnections:                           1,
		SQLiteConnectionOptions:                   map[string]string{"synchronous": "off"},
		SQLiteGlobalPageCachePreallocateSizeBytes: -1,
	}
}

// template builds one pristine replica database (space storage created, tree put), closes it and keeps its files:
// creating the SQLite schema dominates the cost of a fresh replica, copying a ready-made file does not.
func (f *Fixture) template(scratch string) (map[string][]byte, error) {
	f.tmplOnce.Do(func() {
		ctx := context.Background()
		dir, err := os.MkdirTemp(scratch, "tmpl-")
		if err != nil {
			f.tmplErr = err
			return
		}
		defer os.RemoveAll(dir)
		db, err := anystore.Open(ctx, filepath.Join(dir, "db"), newStoreCfg())
		if err != nil {
			f.tmplErr = err
			return
		}
		w := &World{F: f, scratch: scratch}
		r := &Replica{Idx: 0, PeerId: "tmpl", Dir: dir, DB: db, w: w}
		w.Replicas = []*Replica{r}
		if r.Space, err = spacestorage.Create(ctx, db, f.Payload); err == nil {
			var aclSt list.Storage
			if aclSt, err = r.Space.AclStorage(); err == nil {
				if r.Acl, err = list.BuildAclListWithIdentity(f.Keys, aclSt, recordverifier.NewValidateFull()); err == nil {
					err = r.putTree()
				}
			}
		}
		if err == nil {
			err = db.Flush(ctx, 0, anystore.FlushModeCheckpointFull)
		}
		if cerr := db.Close(); err == nil {
			err = cerr
		}
		if err != nil {
			f.tmplErr = err
			return
		}
		files := map[string][]byte{}
		ents, _ := os.ReadDir(dir)
		for _, e := range ents {
			if e.IsDir() {
				continue
			}
			b, err := os.ReadFile(filepath.Join(dir, e.Name()))
			if err != nil {
				f.tmplErr = err
				return
			}
			files[e.Name()] = b
		}
		f.tmpl = files
	})
	return f.tmpl, f.tmplErr
}

func (w *World) newReplica(i int) (*Replica, error) {
	ctx := context.Background()
	files, err := w.F.template(w.scratch)
	if err != nil {
		return nil, err
	}
	dir, err := os.MkdirTemp(w.scratch, fmt.Sprintf("r%d-", i))
	if err != nil {
		return nil, err
	}
	for name, b := range files {
		if err := os.WriteFile(filepath.Join(dir, name), b, 0o644); err != nil {
			return nil, err
		}
	}
	db, err := anystore.Open(ctx, filepath.Join(dir, "db"), newStoreCfg())
	if err != nil {
		return nil, err
	}
	r := &Replica{Idx: i, PeerId: fmt.Sprintf("peer%d", i), Dir: dir, DB: db, w: w}
	if WrapDB != nil {
		db = WrapDB(i, db)
	}
	r.Store = db
	r.Space, err = spacestorage.New(ctx, w.F.SpaceId, db)
	if err != nil {
		return nil, err
	}
	aclSt, err := r.Space.AclStorage()
	if err != nil {
		return nil, err
	}
	r.Acl, err = list.BuildAclListWithIdentity(w.F.Keys, aclSt, recordverifier.NewValidateFull())
	if err != nil {
		return nil, err
	}
	return r, nil
}

func (w *World) newMemReplica(i int) (*Replica, error) {
	sp, err := newMemSpace(w.F.Payload)
	if err != nil {
		return nil, err
	}
	r := &Replica{Idx: i, PeerId: fmt.Sprintf("peer%d", i), w: w, Space: sp}
	r.Acl, err = list.BuildAclListWithIdentity(w.F.Keys, sp.acl, recordverifier.NewValidateFull())
	if err != nil {
		return nil, err
	}
	return r, nil
}

type noHeads struct{}

func (noHeads) UpdateHeads(string, []string) {}

func (r *Replica) deps() synctree.BuildDeps {
	return synctree.BuildDeps{
		SpaceId:         r.w.F.SpaceId,
		SyncClient:      &client{RequestFactory: synctree.NewRequestFactory(r.w.F.SpaceId), r: r},
		HeadNotifiable:  noHeads{},
		AclList:         r.Acl,
		SpaceStorage:    r.Space,
		OnClose:         func(string) {},
		SyncStatus:      syncstatus.NewNoOpSyncStatus(),
		BuildObjectTree: objecttree.BuildObjectTree,
	}
}

func (r *Replica) putTree() error {
	t, err := synctree.PutSyncTree(context.Background(), treestorage.TreeStorageCreatePayload{
		RootRawChange: r.w.F.TreeRoot, Heads: []string{r.w.F.TreeRoot.Id},
	}, r.deps())
	if err != nil {
		return err
	}
	r.Tree = t
	return nil
}

// Reopen drops the live tree object and builds a new one from this replica's storage (a restart).
func (r *Replica) Reopen() error {
	ctx := context.Background()
	// the public constructor used for locally stored trees
	t, err := synctree.BuildSyncTreeOrGetRemote(ctx, r.w.F.TreeRoot.Id, r.deps())
	if err != nil {
		return err
	}
	r.Tree = t
	return nil
}

var closeQ = func() chan *Replica {
	q := make(chan *Replica, 256)
	for i := 0; i < 16; i++ {
		go func() {
			for r := range q {
				_ = r.DB.Close()
				_ = os.RemoveAll(r.Dir)
			}
		}()
	}
	return q
}()

// Close releases the replicas' databases (asynchronously: closing an any-store database costs more than using it).
func (w *World) Close() {
	for _, r := range w.Replicas {
		if r.DB != nil {
			closeQ <- r
		} else if r.Dir != "" {
			_ = os.RemoveAll(r.Dir)
		}
	}
	w.Replicas = nil
}

// ---- events ------------------------------------------------------------------------------------------

// Edit makes a local change on replica i.
func (w *World) Edit(i int, snapshot bool) (objecttree.AddResult, error) {
	r := w.Replicas[i]
	w.ts++
	w.nchange++
	r.Tree.Lock()
	defer r.Tree.Unlock()
	res, err := r.Tree.AddContent(context.Background(), objecttree.SignableChangeContent{
		Data:       []byte(fmt.Sprintf("edit-%d-by-%d", w.nchange, i)),
		Key:        w.F.Keys.SignKey,
		IsSnapshot: snapshot,
		Timestamp:  w.ts,
		DataType:   "verif",
	})
	w.Log = append(w.Log, fmt.Sprintf("edit(r%d,snapshot=%v) -> %v err=%v", i, snapshot, short(res.Heads), err))
	return res, err
}

// SyncWithPeer makes replica i queue a full-sync request to replica j (anti-entropy).
func (w *World) SyncWithPeer(i, j int) error {
	err := w.Replicas[i].Tree.SyncWithPeer(context.Background(), &fakePeer{id: w.Replicas[j].PeerId})
	w.Log = append(w.Log, fmt.Sprintf("sync(r%d->r%d) err=%v", i, j, err))
	return err
}

type fakePeer struct {
	peer.Peer
	id string
}

func (p *fakePeer) Id() string { return p.id }

// Take removes the k-th in-flight message and returns it.
func (w *World) Take(k int) *Msg {
	m := w.Net[k]
	w.Net = append(append([]*Msg{}, w.Net[:k]...), w.Net[k+1:]...)
	return m
}

type noQueue struct{}

func (noQueue) UpdateQueueSize(size uint64, msgType int, add bool) {}

// Deliver hands message m to its destination's real handlers. cut >= 0 delivers only the first cut batches of a
// response stream (connection loss). Handler errors are returned, never fatal.
func (w *World) Deliver(m *Msg, cut int) (err error) {
	dst, src := w.Replicas[m.Dst], w.Replicas[m.Src]
	ctx := peer.CtxWithPeerId(context.Background(), src.PeerId)
	treeId := w.F.TreeRoot.Id
	switch m.Kind {
	case "hu":
		hu := &objectmessages.HeadUpdate{Meta: objectmessages.ObjectMeta{PeerId: src.PeerId, ObjectId: treeId, SpaceId: w.F.SpaceId}, Bytes: append([]byte{}, m.Bytes...)}
		var req syncdeps.Request
		req, err = dst.Tree.HandleHeadUpdate(ctx, syncstatus.NewNoOpSyncStatus(), hu)
		if err == nil && req != nil {
			err = w.pushRequest(dst.Idx, req)
		}
	case "req":
		req := objectmessages.NewByteRequest(src.PeerId, w.F.SpaceId, treeId, append([]byte{}, m.Bytes...))
		resp := &Msg{Kind: "resp", Src: dst.Idx, Dst: src.Idx}
		var back syncdeps.Request
		back, err = dst.Tree.HandleStreamRequest(ctx, req, noQueue{}, func(pm proto.Message) error {
			osm, ok := pm.(*spacesyncproto.ObjectSyncMessage)
			if !ok {
				return fmt.Errorf("unexpected response proto %T", pm)
			}
			resp.Batches = append(resp.Batches, cloneOSM(osm))
			return nil
		})
		if len(resp.Batches) > 0 {
			for _, b := range resp.Batches {
				r := &response.Response{}
				if e := r.SetProtoMessage(b); e == nil {
					resp.Heads = r.Heads
					for _, c := range r.Changes {
						resp.Changes = append(resp.Changes, c.Id)
					}
				}
			}
			w.push(resp)
		}
		if err == nil && back != nil {
			// the counter request is addressed to the requester
			err = w.pushRequest(dst.Idx, back)
		}
	case "resp":
		for k, b := range m.Batches {
			if cut >= 0 && k >= cut {
				break
			}
			r := &response.Response{}
			if err = r.SetProtoMessage(cloneOSM(b)); err != nil {
				break
			}
			if err = dst.Tree.HandleResponse(ctx, src.PeerId, treeId, r); err != nil {
				break
			}
		}
	}
	w.Log = append(w.Log, fmt.Sprintf("deliver(%s cut=%d) err=%v", m.Canon(), cut, err))
	return err
}

func short(ids []string) []string {
	var o []string
	for _, id := range ids {
		if len(id) > 8 {
			o = append(o, id[len(id)-6:])
		} else {
			o = append(o, id)
		}
	}
	return o
}

// ---- observation -------------------------------------------------------------------------------------

type Stored struct {
	Id       string
	PrevIds  []string
	Snapshot string
	OrderId  string
	IsSnap   bool
}

type View struct {
	Heads        []string // live tree heads (sorted)
	StorageHeads []string // head storage entry (sorted)
	Stored       []Stored // by OrderId
	RootId       string   // in-memory root
	Attached     []string // ids presented by IterateRoot, in order
}

func (r *Replica) View() (v View, err error) {
	ctx := context.Background()
	r.Tree.Lock()
	defer r.Tree.Unlock()
	v.Heads = sortedCopy(r.Tree.Heads())
	v.RootId = r.Tree.Root().Id
	err = r.Tree.IterateRoot(nil, func(c *objecttree.Change) bool {
		v.Attached = append(v.Attached, c.Id)
		return true
	})
	if err != nil {
		return
	}
	st := r.Tree.Storage()
	err = st.GetAfterOrder(ctx, "", func(ctx context.Context, ch objecttree.StorageChange) (bool, error) {
		v.Stored = append(v.Stored, Stored{Id: ch.Id, PrevIds: append([]string{}, ch.PrevIds...), Snapshot: ch.SnapshotId, OrderId: ch.OrderId, IsSnap: ch.SnapshotCounter > 0 || ch.Id == r.w.F.TreeRoot.Id})
		return true, nil
	})
	if err != nil {
		return
	}
	e, err := r.Space.HeadStorage().GetEntry(ctx, r.w.F.TreeRoot.Id)
	if err != nil {
		return
	}
	v.StorageHeads = sortedCopy(e.Heads)
	return
}

func (v View) StoredIds() []string {
	var ids []string
	for _, s := range v.Stored {
		ids = append(ids, s.Id)
	}
	sort.Strings(ids)
	return ids
}

// Canon renders the world's canonical state: per replica (stored ids, heads, storage heads, in-memory root,
// attached count) and the multiset of in-flight messages.
func (w *World) Canon() (string, error) {
	var sb strings.Builder
	for _, r := range w.Replicas {
		v, err := r.View()
		if err != nil {
			return "", err
		}
		fmt.Fprintf(&sb, "r%d stored=%v heads=%v sheads=%v root=%s att=%d\n", r.Idx, v.StoredIds(), v.Heads, v.StorageHeads, v.RootId, len(v.Attached))
	}
	var ms []string
	for _, m := range w.Net {
		ms = append(ms, m.Canon())
	}
	sort.Strings(ms)
	sb.WriteString(strings.Join(ms, "\n"))
	return sb.String(), nil
}

// cloneOSM copies a sync message through its wire form (what the network would do).
func cloneOSM(m *spacesyncproto.ObjectSyncMessage) *spacesyncproto.ObjectSyncMessage {
	b, err := m.MarshalVT()
	if err != nil {
		panic(err)
	}
	c := &spacesyncproto.ObjectSyncMessage{}
	if err := c.UnmarshalVT(b); err != nil {
		panic(err)
	}
	return c
}

// OpenImage opens a copy of a replica database directory (a crash image) and rebuilds space storage, ACL list
// and the object tree from it, the way a restarted process would.
func OpenImage(f *Fixture, dir string) (db anystore.DB, space spacestorage.SpaceStorage, acl list.AclList, tree objecttree.ObjectTree, err error) {
	ctx := context.Background()
	db, err = anystore.Open(ctx, filepath.Join(dir, "db"), newStoreCfg())
	if err != nil {
		return
	}
	space, err = spacestorage.New(ctx, f.SpaceId, db)
	if err != nil {
		return
	}
	aclSt, err := space.AclStorage()
	if err != nil {
		return
	}
	acl, err = list.BuildAclListWithIdentity(f.Keys, aclSt, recordverifier.NewValidateFull())
	if err != nil {
		return
	}
	st, err := space.TreeStorage(ctx, f.TreeRoot.Id)
	if err != nil {
		return
	}
	tree, err = objecttree.BuildObjectTree(st, acl)
	return
}

// CopyDir copies the files of a replica database directory (db, -wal, -shm) into a new directory under scratch.
func CopyDir(src, scratch string) (string, error) {
	dst, err := os.MkdirTemp(scratch, "img-")
	if err != nil {
		return "", err
	}
	ents, err := os.ReadDir(src)
	if err != nil {
		return "", err
	}
	for _, e := range ents {
		if e.IsDir() {
			continue
		}
		b, err := os.ReadFile(filepath.Join(src, e.Name()))
		if err != nil {
			return "", err
		}
		if err := os.WriteFile(filepath.Join(dst, e.Name()), b, 0o644); err != nil {
			return "", err
		}
	}
	return dst, nil
}

// NewStoreCfg exposes the any-store configuration the simulator uses.
func NewStoreCfg() *anystore.Config { return newStoreCfg() }
