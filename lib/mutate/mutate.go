// Package mutate is engine M: a bounded, deterministic, exhaustive enumerator of hostile variants of a valid seed
// message. Nothing here is random: the same seed and options always produce the same cases in the same order,
// and every case carries a label from which it can be regenerated (Find).
//
//	S   all byte strings up to a length
//	B1  every offset x replacement byte values
//	B2  every truncation, extension by one byte and by a 1 KiB block
//	B3  every length-delimited field of the protobuf wire structure (found generically with protowire, recursively):
//	    its length varint replaced by {0, len-1, len+1, remaining, 2^31-1, 2^63}; "B3" splices the varint into the
//	    bytes as they are, "B3f" additionally re-computes the lengths of all enclosing fields so that only this one
//	    field lies
//	F1  every field of the wire structure (recursively to a depth): removed / duplicated / repeated many times /
//	    replaced by its zero value / by boundary values (byte strings of the lengths around the fixed-size crypto
//	    objects: keys 31/32/33, signatures 63/64/65, nonces 11/12/13; varints around the integer boundaries and the
//	    small enum values) / given another wire type; enclosing lengths are re-computed, so the result is a
//	    well-formed message again
//
// Re-authenticated variants (F2) are built by the caller: it mutates the *signed* inner bytes with this package and
// signs the result again.
package mutate

import (
	"encoding/hex"
	"fmt"
	"strings"

	"google.golang.org/protobuf/encoding/protowire"
)

// Opts selects what Enumerate produces.
type Opts struct {
	Kinds    string // subset of "S B1 B2 B3 F1" (space separated); "" = B1 B2 B3 F1
	AllBytes bool   // B1: all 255 other values instead of the 6 interesting ones
	SmallMax int    // S: maximal length
	Depth    int    // B3/F1: how many message levels are entered (default 4)
	RepMax   int    // F1: a field is repeated 1024 / 65536 times only while the repetition stays below RepMax bytes (default 1 MiB)
}

// Has reports whether kind k is selected.
func (o Opts) Has(k string) bool {
	if o.Kinds == "" {
		return k != "S"
	}
	for _, f := range strings.Fields(o.Kinds) {
		if f == k {
			return true
		}
	}
	return false
}

// Yield receives one case; data is owned by the callee. Returning false stops the enumeration.
type Yield func(kind, label string, data []byte) bool

// Enumerate produces all cases of the selected kinds for seed. Cases byte-identical to the seed are skipped.
func Enumerate(seed []byte, o Opts, yield Yield) bool {
	if o.Depth == 0 {
		o.Depth = 4
	}
	if o.RepMax == 0 {
		o.RepMax = 1 << 20
	}
	stop := false
	y := func(kind, label string, data []byte) bool {
		if stop {
			return false
		}
		if string(data) == string(seed) {
			return true
		}
		if !yield(kind, label, data) {
			stop = true
		}
		return !stop
	}
	if o.Has("S") {
		Small(o.SmallMax, y)
	}
	if o.Has("B1") && !stop {
		b1(seed, o.AllBytes, y)
	}
	if o.Has("B2") && !stop {
		b2(seed, y)
	}
	if (o.Has("B3") || o.Has("F1")) && !stop {
		root := parse(seed, 0, o.Depth)
		if o.Has("B3") {
			b3(seed, root, y)
		}
		if o.Has("F1") && !stop {
			f1(root, o.RepMax, y)
		}
	}
	return !stop
}

// Find regenerates the case with the given label (replay).
func Find(seed []byte, o Opts, label string) (data []byte, ok bool) {
	if strings.HasPrefix(label, "S:") {
		b, err := hex.DecodeString(label[2:])
		return b, err == nil
	}
	if i := strings.IndexByte(label, ':'); i > 0 {
		o.Kinds = label[:i]
		if o.Kinds == "B3f" {
			o.Kinds = "B3"
		}
	}
	Enumerate(seed, o, func(kind, l string, d []byte) bool {
		if l == label {
			data, ok = d, true
			return false
		}
		return true
	})
	return
}

// Small enumerates every byte string of length 0..maxLen.
func Small(maxLen int, yield Yield) {
	if maxLen < 0 {
		return
	}
	if !yield("S", "S:", []byte{}) {
		return
	}
	for l := 1; l <= maxLen; l++ {
		buf := make([]byte, l)
		for {
			d := append([]byte(nil), buf...)
			if !yield("S", "S:"+hex.EncodeToString(d), d) {
				return
			}
			i := l - 1
			for i >= 0 {
				buf[i]++
				if buf[i] != 0 {
					break
				}
				i--
			}
			if i < 0 {
				break
			}
		}
	}
}

// ByteValues returns the replacement values for b (never b itself), in a fixed order.
func ByteValues(b byte, all bool) []byte {
	if all {
		out := make([]byte, 0, 255)
		for v := 0; v < 256; v++ {
			if byte(v) != b {
				out = append(out, byte(v))
			}
		}
		return out
	}
	var out []byte
	for _, v := range []byte{^b, b ^ 1, b ^ 0x80, b + 1, 0x00, 0xFF} {
		dup := v == b
		for _, x := range out {
			dup = dup || x == v
		}
		if !dup {
			out = append(out, v)
		}
	}
	return out
}

func b1(seed []byte, all bool, y Yield) {
	for off := range seed {
		for _, v := range ByteValues(seed[off], all) {
			d := append([]byte(nil), seed...)
			d[off] = v
			if !y("B1", fmt.Sprintf("B1:%d:%02x", off, v), d) {
				return
			}
		}
	}
}

func b2(seed []byte, y Yield) {
	for n := 0; n < len(seed); n++ {
		if !y("B2", fmt.Sprintf("B2:trunc:%d", n), append([]byte(nil), seed[:n]...)) {
			return
		}
	}
	for _, v := range []byte{0x00, 0x0a, 0xff} {
		if !y("B2", fmt.Sprintf("B2:ext1:%02x", v), append(append([]byte(nil), seed...), v)) {
			return
		}
	}
	for _, v := range []byte{0x00, 0xff} {
		blk := make([]byte, 1024)
		for i := range blk {
			blk[i] = v
		}
		if !y("B2", fmt.Sprintf("B2:ext1k:%02x", v), append(append([]byte(nil), seed...), blk...)) {
			return
		}
	}
}

// ---- wire structure ---------------------------------------------------------------------------------

type node struct {
	num    protowire.Number
	typ    protowire.Type
	raw    []byte // the field as encoded in the seed: tag, (length,) value
	val    []byte // BytesType: the content
	kids   []*node
	isMsg  bool // BytesType whose content parses as a message (kids valid)
	parent *node
	path   string
	// absolute offsets in the seed
	lenOff, lenSize int // BytesType: where the length varint sits
	valOff          int
}

// parse reads b as a sequence of fields; nil if it is not one. depth levels of nesting are still allowed below.
func parseFields(b []byte, abs int, depth int, parent *node, prefix string) ([]*node, bool) {
	var out []*node
	count := map[protowire.Number]int{}
	off := 0
	for off < len(b) {
		num, typ, n := protowire.ConsumeTag(b[off:])
		if n < 0 || num <= 0 || num > 1<<20 {
			return nil, false
		}
		if typ == protowire.StartGroupType || typ == protowire.EndGroupType {
			return nil, false
		}
		m := protowire.ConsumeFieldValue(num, typ, b[off+n:])
		if m < 0 {
			return nil, false
		}
		nd := &node{num: num, typ: typ, raw: b[off : off+n+m], parent: parent}
		nd.path = fmt.Sprintf("%s%d[%d]", prefix, num, count[num])
		count[num]++
		if typ == protowire.BytesType {
			l, ln := protowire.ConsumeVarint(b[off+n:])
			nd.lenOff, nd.lenSize = abs+off+n, ln
			nd.valOff = abs + off + n + ln
			nd.val = b[off+n+ln : off+n+ln+int(l)]
		}
		out = append(out, nd)
		off += n + m
	}
	for _, nd := range out {
		if nd.typ == protowire.BytesType && len(nd.val) > 0 && depth > 0 {
			if kids, ok := parseFields(nd.val, nd.valOff, depth-1, nd, nd.path+"."); ok {
				nd.kids, nd.isMsg = kids, true
			}
		}
	}
	return out, true
}

func parse(seed []byte, abs int, depth int) *node {
	root := &node{isMsg: true, val: seed}
	kids, ok := parseFields(seed, abs, depth, root, "")
	if ok {
		root.kids = kids
	}
	return root
}

func walk(n *node, f func(*node) bool) bool {
	for _, k := range n.kids {
		if !f(k) {
			return false
		}
		if !walk(k, f) {
			return false
		}
	}
	return true
}

// rebuild returns the root bytes with target's encoding replaced by repl (zero or more whole fields); the lengths of
// all enclosing fields are re-computed.
func rebuild(target *node, repl []byte) []byte {
	cur, curRepl := target, repl
	for cur.parent != nil {
		p := cur.parent
		var content []byte
		for _, k := range p.kids {
			if k == cur {
				content = append(content, curRepl...)
			} else {
				content = append(content, k.raw...)
			}
		}
		if p.parent == nil {
			return content
		}
		enc := protowire.AppendTag(nil, p.num, protowire.BytesType)
		enc = protowire.AppendBytes(enc, content)
		cur, curRepl = p, enc
	}
	return curRepl
}

func lenValues(cur uint64, remaining uint64) []uint64 {
	cand := []uint64{0, cur - 1, cur + 1, remaining, 1<<31 - 1, 1 << 63}
	var out []uint64
	for _, v := range cand {
		dup := v == cur || (cur == 0 && v == cur-1)
		for _, x := range out {
			dup = dup || x == v
		}
		if !dup {
			out = append(out, v)
		}
	}
	return out
}

func b3(seed []byte, root *node, y Yield) {
	walk(root, func(n *node) bool {
		if n.typ != protowire.BytesType {
			return true
		}
		cur := uint64(len(n.val))
		remaining := uint64(len(seed) - n.valOff)
		for _, v := range lenValues(cur, remaining) {
			// splice
			d := append([]byte(nil), seed[:n.lenOff]...)
			d = protowire.AppendVarint(d, v)
			d = append(d, seed[n.lenOff+n.lenSize:]...)
			if !y("B3", fmt.Sprintf("B3:%s:len=%d", n.path, v), d) {
				return false
			}
			if n.parent != nil && n.parent.parent != nil {
				// nested: only this field lies, the enclosing lengths are consistent with the new bytes
				enc := protowire.AppendTag(nil, n.num, protowire.BytesType)
				enc = protowire.AppendVarint(enc, v)
				enc = append(enc, n.val...)
				if !y("B3", fmt.Sprintf("B3f:%s:len=%d", n.path, v), rebuild(n, enc)) {
					return false
				}
			}
		}
		return true
	})
}

// Filler returns n deterministic bytes (taken from src cyclically, or a fixed pattern when src is empty).
func Filler(src []byte, n int) []byte {
	out := make([]byte, n)
	for i := range out {
		if len(src) > 0 {
			out[i] = src[i%len(src)]
		} else {
			out[i] = byte(0xA0 + i%16)
		}
	}
	return out
}

// BoundaryLens are the byte-string lengths around the fixed-size objects of the code under test.
var BoundaryLens = []int{1, 11, 12, 13, 31, 32, 33, 63, 64, 65}

func varintValues(v uint64) []uint64 {
	cand := []uint64{0, 1, 2, 3, 4, 5, v + 1, v - 1, 127, 128, 1<<31 - 1, 1 << 31, 1<<32 - 1, 1 << 32, 1<<63 - 1, 1 << 63, 1<<64 - 1}
	var out []uint64
	for _, c := range cand {
		dup := c == v
		for _, x := range out {
			dup = dup || x == c
		}
		if !dup {
			out = append(out, c)
		}
	}
	return out
}

func field(num protowire.Number, typ protowire.Type, payload []byte) []byte {
	return append(protowire.AppendTag(nil, num, typ), payload...)
}

func f1(root *node, repMax int, y Yield) {
	walk(root, func(n *node) bool {
		emit := func(op string, repl []byte) bool {
			return y("F1", "F1:"+n.path+":"+op, rebuild(n, repl))
		}
		if !emit("remove", nil) {
			return false
		}
		if !emit("dup", append(append([]byte(nil), n.raw...), n.raw...)) {
			return false
		}
		for _, times := range []int{1024, 65536} {
			if len(n.raw)*times <= repMax {
				rep := make([]byte, 0, len(n.raw)*times)
				for i := 0; i < times; i++ {
					rep = append(rep, n.raw...)
				}
				if !emit(fmt.Sprintf("rep%d", times), rep) {
					return false
				}
			}
		}
		switch n.typ {
		case protowire.VarintType:
			v, _ := protowire.ConsumeVarint(n.raw[protowire.SizeTag(n.num):])
			for _, nv := range varintValues(v) {
				if !emit(fmt.Sprintf("varint=%d", nv), field(n.num, protowire.VarintType, protowire.AppendVarint(nil, nv))) {
					return false
				}
			}
			// non-minimal encoding and an over-long varint
			nm := protowire.AppendVarint(nil, v)
			nm[len(nm)-1] |= 0x80
			nm = append(nm, 0)
			if !emit("varint-nonminimal", field(n.num, protowire.VarintType, nm)) {
				return false
			}
			if !emit("varint-overlong", field(n.num, protowire.VarintType, []byte{0xff, 0xff, 0xff, 0xff, 0xff, 0xff, 0xff, 0xff, 0xff, 0xff, 0x01})) {
				return false
			}
		case protowire.Fixed32Type:
			for _, nv := range []uint32{0, 1, 1<<31 - 1, 1 << 31, 1<<32 - 1} {
				if !emit(fmt.Sprintf("fixed32=%d", nv), field(n.num, protowire.Fixed32Type, protowire.AppendFixed32(nil, nv))) {
					return false
				}
			}
		case protowire.Fixed64Type:
			for _, nv := range []uint64{0, 1, 1<<63 - 1, 1 << 63, 1<<64 - 1} {
				if !emit(fmt.Sprintf("fixed64=%d", nv), field(n.num, protowire.Fixed64Type, protowire.AppendFixed64(nil, nv))) {
					return false
				}
			}
		case protowire.BytesType:
			if !emit("empty", field(n.num, protowire.BytesType, protowire.AppendBytes(nil, nil))) {
				return false
			}
			for _, l := range BoundaryLens {
				if l == len(n.val) {
					continue
				}
				// a prefix of the real content where it is long enough (keeps headers / nonces intact), filler after
				var v []byte
				if len(n.val) >= l {
					v = n.val[:l]
				} else {
					v = append(append([]byte(nil), n.val...), Filler(nil, l-len(n.val))...)
				}
				if !emit(fmt.Sprintf("len%d", l), field(n.num, protowire.BytesType, protowire.AppendBytes(nil, v))) {
					return false
				}
			}
			if len(n.val) > 1 {
				if !emit("drop-first", field(n.num, protowire.BytesType, protowire.AppendBytes(nil, n.val[1:]))) {
					return false
				}
				if !emit("drop-last", field(n.num, protowire.BytesType, protowire.AppendBytes(nil, n.val[:len(n.val)-1]))) {
					return false
				}
			}
			if len(n.val) > 0 {
				z := make([]byte, len(n.val))
				if !emit("zeroed", field(n.num, protowire.BytesType, protowire.AppendBytes(nil, z))) {
					return false
				}
				ff := Filler([]byte{0xff}, len(n.val))
				if !emit("all-ff", field(n.num, protowire.BytesType, protowire.AppendBytes(nil, ff))) {
					return false
				}
			}
			if !emit("append-00", field(n.num, protowire.BytesType, protowire.AppendBytes(nil, append(append([]byte(nil), n.val...), 0)))) {
				return false
			}
		}
		// the same field number with another wire type
		alts := []struct {
			name string
			typ  protowire.Type
			pay  []byte
		}{
			{"wt-varint", protowire.VarintType, []byte{1}},
			{"wt-fixed32", protowire.Fixed32Type, []byte{1, 0, 0, 0}},
			{"wt-fixed64", protowire.Fixed64Type, []byte{1, 0, 0, 0, 0, 0, 0, 0}},
			{"wt-bytes", protowire.BytesType, []byte{1, 8}},
			{"wt-group", protowire.StartGroupType, nil},
		}
		for _, a := range alts {
			if a.typ == n.typ {
				continue
			}
			if !emit(a.name, field(n.num, a.typ, a.pay)) {
				return false
			}
		}
		return true
	})
}

// Fields lists the paths of the wire structure of seed (for notes / debugging).
func Fields(seed []byte, depth int) []string {
	var out []string
	walk(parse(seed, 0, depth), func(n *node) bool {
		out = append(out, fmt.Sprintf("%s:t%d:len%d", n.path, n.typ, len(n.raw)))
		return true
	})
	return out
}
