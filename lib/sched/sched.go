// Package sched is engine C: a stateless, deviation-bounded explorer of goroutine schedules of the real code.
//
// Every execution runs in its own testing/synctest bubble. The code under test locks through the vsync shim
// (injected by overlay), harness objects call Point/Choose; each of those parks the goroutine. The controller
// loop (this package) waits for quiescence with synctest.Wait, collects the enabled requests, picks one
// according to the choice sequence being explored and releases it. Exploration is a depth-first search over
// choice sequences with a preemption budget (switching away from a goroutine that could continue) and a
// deviation budget (non-default environment answers, environment events such as clock advances).
package sched

import (
	"fmt"
	"strings"
	"testing"
	"testing/synctest"

	"github.com/anyproto/any-sync/verifshim/vsync"
)

// EnvEvent is an environment event the controller itself may perform at a step (clock advance, …).
type EnvEvent struct {
	Label string
	Cost  int // deviation cost (>= 1)
	Do    func()
}

// Exec is the handle of one execution given to the scenario.
type Exec struct {
	C       *vsync.Controller
	T       *testing.T
	ops     []*vsync.Gor
	Env     func() []EnvEvent // optional: environment events currently available
	Cleanup func()            // optional: run (as a controlled goroutine, default schedule) after the main phase
	Data    any               // scenario-owned per-execution state (event log, objects)
	// BackgroundInMainPhase keeps exploring after all operations returned, as long as goroutines spawned by the
	// code under test (write loops, dial workers) still have enabled scheduling points.
	BackgroundInMainPhase bool
	// AtQuiescence, if set, is called by the controller once when the main phase ends (before Cleanup starts).
	AtQuiescence func()
}

// Go starts an operation goroutine.
func (x *Exec) Go(name string, fn func()) *vsync.Gor {
	g := x.C.Go(name, fn)
	x.ops = append(x.ops, g)
	return g
}

// OpsDone reports whether every operation started with Go has finished (only meaningful at quiescence).
func (x *Exec) OpsDone() bool {
	for _, g := range x.ops {
		if !g.Done {
			return false
		}
	}
	return true
}

// Step is one recorded decision.
type Step struct {
	Labels []string
	CostP  []int8
	CostD  []int8
	Chosen int
}

// Result describes one complete execution.
type Result struct {
	Choices    []int
	Steps      []Step
	Trace      []string // label of the chosen option per step
	Deadlock   bool     // no enabled option while an operation was unfinished
	Horizon    bool     // step horizon reached (livelock suspicion)
	Unfinished []string
	Panics     []string
	Stuck      bool // goroutines remained blocked after cleanup: the bubble cannot be left
	Diverged   string
	Preempts   int
	Devs       int
	Data       any
}

type Scenario struct {
	Name  string
	Setup func(x *Exec)
}

type Explorer struct {
	T            *testing.T
	PreemptBound int
	DevBound     int
	Horizon      int           // max steps per execution (default 400)
	MaxExec      int64         // cap on executions (0 = none)
	Stop         func() bool   // polled between executions (deadline)
	OnExec       func(*Result) // oracle, called for every complete execution
	OnStuck      func(*Result) // called when an execution left goroutines blocked forever (must not return normally if the bubble cannot exit)

	Executions     int64
	Retries        int64 // re-executions because the code under test diverged from the recorded prefix
	Skipped        int64 // subtrees abandoned after 400 diverging attempts
	LastDivergence string
	Capped         bool
	MaxSteps       int
}

// Run performs one execution following prefix, then default choices.
func (e *Explorer) Run(sc Scenario, prefix []int) *Result { return e.RunExpect(sc, prefix, nil) }

// RunExpect is Run with a check that the replayed prefix offers exactly the options recorded in expect (the steps of
// the execution the prefix was taken from). On a mismatch the execution is completed with default choices and
// Result.Diverged is set: the code under test took a decision the harness does not own (e.g. map iteration order).
func (e *Explorer) RunExpect(sc Scenario, prefix []int, expect []Step) *Result {
	res := &Result{}
	horizon := e.Horizon
	if horizon == 0 {
		horizon = 400
	}
	synctest.Test(e.T, func(t *testing.T) {
		ctl := vsync.NewController()
		vsync.Install(ctl)
		defer vsync.Install(nil)
		x := &Exec{C: ctl, T: t}
		sc.Setup(x)
		res.Data = x.Data
		var last *vsync.Gor
		mainPhase := true
		cleanupStarted := false
		quiesced := false
		for step := 0; ; step++ {
			synctest.Wait()
			opts, parked, blocked, unfinished := ctl.Collect()
			if mainPhase && x.OpsDone() && (len(opts) == 0 || !x.BackgroundInMainPhase) {
				// the main (recorded, branching) phase lasts until every operation returned; with
				// BackgroundInMainPhase also until no background goroutine of the code under test can move
				mainPhase = false
			}
			if res.Diverged != "" && !x.OpsDone() && len(opts) == 0 && (x.Env == nil || len(x.Env()) == 0) {
				res.Deadlock, res.Stuck, res.Unfinished = true, true, unfinished
				break
			}
			if !mainPhase && !quiesced && res.Diverged == "" {
				quiesced = true
				if x.AtQuiescence != nil {
					x.AtQuiescence()
				}
			}
			if !mainPhase && !cleanupStarted && x.Cleanup != nil && len(opts) == 0 {
				cleanupStarted = true
				x.C.Go("cleanup", x.Cleanup)
				continue
			}
			if !mainPhase || res.Diverged != "" {
				// drain: default choices, not recorded
				if len(opts) == 0 {
					if parked > 0 || blocked > 0 {
						// try environment events once (e.g. a clock advance releases a timeout)
						if x.Env != nil {
							if evs := x.Env(); len(evs) > 0 && step < horizon*2 {
								evs[0].Do()
								continue
							}
						}
						res.Stuck = true
						res.Unfinished = unfinished
					}
					break
				}
				if step > horizon*3 {
					res.Stuck, res.Horizon, res.Unfinished = true, true, unfinished
					break
				}
				ctl.Grant(opts[0])
				continue
			}
			// canonical order: options of the goroutine that ran last first
			var ordered []vsync.Option
			lastEnabled := false
			if last != nil {
				for _, o := range opts {
					if o.Req.G == last {
						ordered = append(ordered, o)
						lastEnabled = true
					}
				}
			}
			for _, o := range opts {
				if last == nil || o.Req.G != last {
					ordered = append(ordered, o)
				}
			}
			var envs []EnvEvent
			if x.Env != nil {
				envs = x.Env()
			}
			n := len(ordered) + len(envs)
			if n == 0 {
				// operations unfinished (else the main phase would have ended) and nothing can move
				res.Deadlock = true
				res.Unfinished = unfinished
				res.Stuck = true
				break
			}
			if step >= horizon {
				res.Horizon = true
				res.Unfinished = unfinished
				res.Stuck = true
				break
			}
			st := Step{Labels: make([]string, n), CostP: make([]int8, n), CostD: make([]int8, n)}
			for i, o := range ordered {
				st.Labels[i] = o.Label
				if lastEnabled && o.Req.G != last {
					st.CostP[i] = 1
				}
				if o.Variant > 0 {
					st.CostD[i] = 1
				}
			}
			for i, ev := range envs {
				st.Labels[len(ordered)+i] = "env:" + ev.Label
				st.CostD[len(ordered)+i] = int8(ev.Cost)
			}
			choice := 0
			if step < len(prefix) {
				choice = prefix[step]
				if choice >= n {
					res.Diverged = fmt.Sprintf("step %d: replayed choice %d but only %d options %v", step, choice, n, st.Labels)
					continue
				}
				if step < len(expect) && strings.Join(expect[step].Labels, "|") != strings.Join(st.Labels, "|") {
					res.Diverged = fmt.Sprintf("step %d: options %v, recorded %v", step, st.Labels, expect[step].Labels)
					continue
				}
			}
			st.Chosen = choice
			res.Preempts += int(st.CostP[choice])
			res.Devs += int(st.CostD[choice])
			res.Steps = append(res.Steps, st)
			res.Choices = append(res.Choices, choice)
			res.Trace = append(res.Trace, st.Labels[choice])
			if choice < len(ordered) {
				last = ordered[choice].Req.G
				ctl.Grant(ordered[choice])
			} else {
				envs[choice-len(ordered)].Do()
			}
		}
		for _, g := range ctl.Gors() {
			if g.Panic != nil {
				res.Panics = append(res.Panics, fmt.Sprintf("%s: panic: %v\n%s", g.Name, g.Panic, g.Stack))
			}
		}
		if res.Stuck {
			// goroutines are blocked for good: the bubble can never be left in an orderly way
			if e.OnExec != nil && res.Diverged == "" {
				e.OnExec(res)
			}
			if e.OnStuck != nil {
				e.OnStuck(res)
			}
			panic("sched: execution left goroutines blocked and OnStuck returned: " + strings.Join(res.Unfinished, ", "))
		}
	})
	if len(res.Steps) > e.MaxSteps {
		e.MaxSteps = len(res.Steps)
	}
	return res
}

// Explore enumerates every choice sequence within the budgets (depth-first; executions run to completion).
func (e *Explorer) Explore(sc Scenario) {
	var rec func(prefix []int, expect []Step)
	rec = func(prefix []int, expect []Step) {
		if e.Capped {
			return
		}
		if (e.MaxExec > 0 && e.Executions >= e.MaxExec) || (e.Stop != nil && e.Stop()) {
			e.Capped = true
			return
		}
		var r *Result
		for try := 0; ; try++ {
			r = e.RunExpect(sc, prefix, expect)
			if r.Diverged == "" {
				break
			}
			e.Retries++
			if try >= 400 {
				e.Skipped++
				e.LastDivergence = r.Diverged
				return
			}
		}
		e.Executions++
		if e.OnExec != nil {
			e.OnExec(r)
		}
		usedP, usedD := 0, 0
		for i := 0; i < len(r.Steps); i++ {
			st := r.Steps[i]
			if i >= len(prefix) {
				for alt := 1; alt < len(st.Labels); alt++ {
					if usedP+int(st.CostP[alt]) > e.PreemptBound || usedD+int(st.CostD[alt]) > e.DevBound {
						continue
					}
					np := make([]int, i+1)
					copy(np, r.Choices[:i])
					np[i] = alt
					rec(np, r.Steps[:i+1])
				}
			}
			usedP += int(st.CostP[st.Chosen])
			usedD += int(st.CostD[st.Chosen])
		}
	}
	rec(nil, nil)
}

// SameTrace compares two executions step by step (determinism check).
func SameTrace(a, b *Result) string {
	if len(a.Steps) != len(b.Steps) {
		return fmt.Sprintf("different number of steps: %d vs %d", len(a.Steps), len(b.Steps))
	}
	for i := range a.Steps {
		if strings.Join(a.Steps[i].Labels, "|") != strings.Join(b.Steps[i].Labels, "|") {
			return fmt.Sprintf("step %d: options %v vs %v", i, a.Steps[i].Labels, b.Steps[i].Labels)
		}
	}
	return ""
}

// CheckReplayable executes the default schedule and then replays its full choice sequence until an execution offers
// the same options at every step (the code under test may take decisions the harness does not own, e.g. map
// iteration order; those make a replay diverge now and then). It returns "" when a matching replay was seen within
// 400 attempts, else a description of the last mismatch.
func (e *Explorer) CheckReplayable(sc Scenario) (*Result, string) {
	r1 := e.Run(sc, nil)
	last := ""
	for try := 0; try < 400; try++ {
		r2 := e.RunExpect(sc, r1.Choices, r1.Steps)
		if r2.Diverged == "" {
			if d := SameTrace(r1, r2); d == "" {
				return r1, ""
			} else {
				last = d
			}
		} else {
			last = r2.Diverged
		}
	}
	return r1, last
}
