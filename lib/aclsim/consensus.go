package aclsim

// Consensus-node step of the simulator (added for C03; nothing of aclsim.go is changed): the network key
// counter-signs a client-built raw record BEFORE the record id (CID of the marshalled RawRecord) is computed, so that
// one and the same log can be fed to fully validating lists (which ignore the acceptor fields) and to
// non-validating lists (recordverifier.New(networkPubKey), which require them).

import (
	"github.com/anyproto/any-sync/consensus/consensusproto"
	"github.com/anyproto/any-sync/util/crypto"
)

// Network is the deterministic "network" (consensus node) identity of a simulated space.
func Network(seed int64) *Account { return NewAccount(seed, "~network") }

// CounterSign returns a copy of raw carrying the acceptor fields signed by key (the acceptor signs raw.Payload).
func CounterSign(raw *consensusproto.RawRecord, key crypto.PrivKey, ts int64) *consensusproto.RawRecord {
	ident, err := key.GetPublic().Marshall()
	if err != nil {
		panic(err)
	}
	sig, err := key.Sign(raw.Payload)
	if err != nil {
		panic(err)
	}
	return &consensusproto.RawRecord{
		Payload:           raw.Payload,
		Signature:         raw.Signature,
		AcceptorIdentity:  ident,
		AcceptorSignature: sig,
		AcceptorTimestamp: ts,
	}
}

// Accept is what the consensus node does with a client record: counter-sign, then derive the id.
func (s *Sim) Accept(raw *consensusproto.RawRecord) *consensusproto.RawRecordWithId {
	s.ts++
	return WithId(CounterSign(raw, Network(s.Seed).Keys.SignKey, s.ts))
}

// SubmitAccepted is Submit with the consensus step: the counter-signed record is validated through AddRawRecord on
// a non-member observer's fully validating list over the current log and appended on success.
func (s *Sim) SubmitAccepted(raw *consensusproto.RawRecord) (*consensusproto.RawRecordWithId, error) {
	l := s.Full(Observer(s.Seed))
	rec := s.Accept(raw)
	if err := l.AddRawRecord(rec); err != nil {
		return nil, err
	}
	s.Append(rec)
	return rec, nil
}
