// Package aclsim drives the real ACL list implementation: seeded accounts, a shareable-space root, legit
// operations through each account's own record builder, and crafted records that bypass every client-side
// pre-check (AclData -> Record -> sign -> RawRecord -> CID assembled by hand).
package aclsim

import (
	"fmt"
	"math/rand"
	"sort"

	"github.com/anyproto/any-sync/commonspace/object/accountdata"
	"github.com/anyproto/any-sync/commonspace/object/acl/aclrecordproto"
	"github.com/anyproto/any-sync/commonspace/object/acl/list"
	"github.com/anyproto/any-sync/commonspace/object/acl/recordverifier"
	"github.com/anyproto/any-sync/consensus/consensusproto"
	"github.com/anyproto/any-sync/util/cidutil"
	"github.com/anyproto/any-sync/util/crypto"
)

type Perm = aclrecordproto.AclUserPermissions

const (
	None   = aclrecordproto.AclUserPermissions_None
	Owner  = aclrecordproto.AclUserPermissions_Owner
	Admin  = aclrecordproto.AclUserPermissions_Admin
	Writer = aclrecordproto.AclUserPermissions_Writer
	Reader = aclrecordproto.AclUserPermissions_Reader
	Guest  = aclrecordproto.AclUserPermissions_Guest
)

var AllPerms = []Perm{None, Reader, Writer, Admin, Owner, Guest}

func PermName(p Perm) string {
	names := [...]string{"None", "Owner", "Admin", "Writer", "Reader", "Guest"}
	if p < 0 || int(p) >= len(names) {
		// a level the protocol does not define (the field is a plain varint on the wire)
		return fmt.Sprintf("Undefined(%d)", int32(p))
	}
	return names[p]
}

type Account struct {
	Name  string
	Keys  *accountdata.AccountKeys
	Proto []byte // marshalled public sign key (the "identity" bytes of records)
}

func (a *Account) Pub() crypto.PubKey { return a.Keys.SignKey.GetPublic() }
func (a *Account) Key() string        { return string(a.Pub().Storage()) }

// NewAccount derives an account deterministically from (seed, name).
func NewAccount(seed int64, name string) *Account {
	h := int64(0)
	for _, c := range name {
		h = h*131 + int64(c)
	}
	r := rand.New(rand.NewSource(seed*1000003 + h))
	sign, _, err := crypto.GenerateEd25519Key(r)
	if err != nil {
		panic(err)
	}
	peer, _, err := crypto.GenerateEd25519Key(r)
	if err != nil {
		panic(err)
	}
	proto, err := sign.GetPublic().Marshall()
	if err != nil {
		panic(err)
	}
	return &Account{Name: name, Keys: accountdata.New(peer, sign), Proto: proto}
}

// Sim is a space's ACL log plus the people around it.
type Sim struct {
	Seed     int64
	Accounts []*Account // Accounts[0] is the space owner at creation
	byKey    map[string]*Account
	Log      []*consensusproto.RawRecordWithId // root first
	ts       int64
	// InviteKeys maps an invite record id to the invite's private key (known to whoever was given the invite).
	InviteKeys map[string]crypto.PrivKey
}

// New creates a shareable space (root with a read key) owned by names[0].
func New(seed int64, names ...string) *Sim {
	s := &Sim{Seed: seed, byKey: map[string]*Account{}, InviteKeys: map[string]crypto.PrivKey{}, ts: 1700000000}
	for _, n := range names {
		a := NewAccount(seed, n)
		s.Accounts = append(s.Accounts, a)
		s.byKey[a.Key()] = a
	}
	owner := s.Accounts[0]
	r := rand.New(rand.NewSource(seed*7919 + 17))
	master, _, _ := crypto.GenerateEd25519Key(r)
	meta, _, _ := crypto.GenerateEd25519Key(r)
	builder := list.NewAclRecordBuilder("", crypto.NewKeyStorage(), owner.Keys, recordverifier.NewValidateFull())
	root, err := builder.BuildRoot(list.RootContent{
		PrivKey:   owner.Keys.SignKey,
		SpaceId:   fmt.Sprintf("space%d", seed),
		MasterKey: master,
		Change:    list.ReadKeyChangePayload{MetadataKey: meta, ReadKey: crypto.NewAES()},
		Metadata:  []byte("owner-metadata"),
	})
	if err != nil {
		panic(err)
	}
	s.Log = []*consensusproto.RawRecordWithId{root}
	return s
}

// Fork copies the simulator (accounts are shared, the log is copied).
func (s *Sim) Fork() *Sim {
	n := &Sim{Seed: s.Seed, Accounts: s.Accounts, byKey: s.byKey, ts: s.ts, InviteKeys: map[string]crypto.PrivKey{}}
	n.Log = append(n.Log, s.Log...)
	for k, v := range s.InviteKeys {
		n.InviteKeys[k] = v
	}
	return n
}

func (s *Sim) Acc(name string) *Account {
	for _, a := range s.Accounts {
		if a.Name == name {
			return a
		}
	}
	panic("no account " + name)
}

// NameOf returns the account name of a public key ("?" for unknown keys).
func (s *Sim) NameOf(k crypto.PubKey) string {
	if a := s.byKey[string(k.Storage())]; a != nil {
		return a.Name
	}
	return "?"
}

func (s *Sim) RootId() string { return s.Log[0].Id }
func (s *Sim) HeadId() string { return s.Log[len(s.Log)-1].Id }

// View builds a fresh ACL list for the given identity from the first n records of the log.
func (s *Sim) View(acc *Account, n int, verifier recordverifier.AcceptorVerifier) (list.AclList, error) {
	return ViewOf(acc.Keys, s.Log[:n], verifier)
}

func ViewOf(keys *accountdata.AccountKeys, log []*consensusproto.RawRecordWithId, verifier recordverifier.AcceptorVerifier) (list.AclList, error) {
	st, err := list.NewInMemoryStorage(log[0].Id, log)
	if err != nil {
		return nil, err
	}
	return list.BuildAclListWithIdentity(keys, st, verifier)
}

// Full returns acc's fully validating view of the whole log.
func (s *Sim) Full(acc *Account) list.AclList {
	l, err := s.View(acc, len(s.Log), recordverifier.NewValidateFull())
	if err != nil {
		panic(fmt.Sprintf("view of %s: %v", acc.Name, err))
	}
	return l
}

// WithId wraps a raw record the way the consensus node hands it back: marshalled, id = CID of those bytes.
func WithId(raw *consensusproto.RawRecord) *consensusproto.RawRecordWithId {
	payload, err := raw.MarshalVT()
	if err != nil {
		panic(err)
	}
	id, err := cidutil.NewCidFromBytes(payload)
	if err != nil {
		panic(err)
	}
	return &consensusproto.RawRecordWithId{Payload: payload, Id: id}
}

// Append adds an already accepted record to the log.
func (s *Sim) Append(rec *consensusproto.RawRecordWithId) { s.Log = append(s.Log, rec) }

// Submit validates raw against a fully validating list over the current log (observer = the given account, or a
// non-member when nil) via AddRawRecord and appends it on success.
func (s *Sim) Submit(raw *consensusproto.RawRecord) (*consensusproto.RawRecordWithId, error) {
	l := s.Full(Observer(s.Seed))
	rec := WithId(raw)
	if err := l.AddRawRecord(rec); err != nil {
		return nil, err
	}
	s.Append(rec)
	return rec, nil
}

// Observer is an identity that is never a member of any simulated space (a "node").
func Observer(seed int64) *Account { return NewAccount(seed, "~node") }

// Craft assembles and signs a record by hand, bypassing the record builder's pre-flight check.
func (s *Sim) Craft(author *Account, prevId string, contents ...*aclrecordproto.AclContentValue) *consensusproto.RawRecord {
	data, err := (&aclrecordproto.AclData{AclContent: contents}).MarshalVT()
	if err != nil {
		panic(err)
	}
	return s.CraftData(author, prevId, data)
}

func (s *Sim) CraftData(author *Account, prevId string, data []byte) *consensusproto.RawRecord {
	s.ts++
	rec := &consensusproto.Record{PrevId: prevId, Identity: author.Proto, Data: data, Timestamp: s.ts}
	payload, err := rec.MarshalVT()
	if err != nil {
		panic(err)
	}
	sig, err := author.Keys.SignKey.Sign(payload)
	if err != nil {
		panic(err)
	}
	return &consensusproto.RawRecord{Payload: payload, Signature: sig}
}

// ---- content constructors (crafted; crypto blobs are placeholders unless stated) ----------------------

var blob = []byte("not-a-real-ciphertext-0123456789abcdef0123456789abcdef0123456789abcdef")

func CPermissionChange(target *Account, p Perm) *aclrecordproto.AclContentValue {
	return &aclrecordproto.AclContentValue{Value: &aclrecordproto.AclContentValue_PermissionChange{
		PermissionChange: &aclrecordproto.AclAccountPermissionChange{Identity: target.Proto, Permissions: p}}}
}

func CPermissionChanges(ch ...*aclrecordproto.AclAccountPermissionChange) *aclrecordproto.AclContentValue {
	return &aclrecordproto.AclContentValue{Value: &aclrecordproto.AclContentValue_PermissionChanges{
		PermissionChanges: &aclrecordproto.AclAccountPermissionChanges{Changes: ch}}}
}

func COwnershipChange(newOwner *Account, oldOwnerPerm Perm) *aclrecordproto.AclContentValue {
	return &aclrecordproto.AclContentValue{Value: &aclrecordproto.AclContentValue_OwnershipChange{
		OwnershipChange: &aclrecordproto.AclOwnershipChange{NewOwnerIdentity: newOwner.Proto, OldOwnerPermissions: oldOwnerPerm}}}
}

func CAccountsAdd(p Perm, targets ...*Account) *aclrecordproto.AclContentValue {
	var adds []*aclrecordproto.AclAccountAdd
	for _, t := range targets {
		adds = append(adds, &aclrecordproto.AclAccountAdd{Identity: t.Proto, Permissions: p, Metadata: []byte("m"), EncryptedReadKey: blob})
	}
	return &aclrecordproto.AclContentValue{Value: &aclrecordproto.AclContentValue_AccountsAdd{AccountsAdd: &aclrecordproto.AclAccountsAdd{Additions: adds}}}
}

func CInvite(invKey crypto.PubKey, typ aclrecordproto.AclInviteType, p Perm) *aclrecordproto.AclContentValue {
	kp, err := invKey.Marshall()
	if err != nil {
		panic(err)
	}
	inv := &aclrecordproto.AclAccountInvite{InviteKey: kp, InviteType: typ, Permissions: p}
	if typ == aclrecordproto.AclInviteType_AnyoneCanJoin {
		inv.EncryptedReadKey = blob
	}
	return &aclrecordproto.AclContentValue{Value: &aclrecordproto.AclContentValue_Invite{Invite: inv}}
}

func CInviteChange(inviteId string, p Perm) *aclrecordproto.AclContentValue {
	return &aclrecordproto.AclContentValue{Value: &aclrecordproto.AclContentValue_InviteChange{
		InviteChange: &aclrecordproto.AclAccountInviteChange{InviteRecordId: inviteId, Permissions: p}}}
}

func CInviteRevoke(inviteId string) *aclrecordproto.AclContentValue {
	return &aclrecordproto.AclContentValue{Value: &aclrecordproto.AclContentValue_InviteRevoke{
		InviteRevoke: &aclrecordproto.AclAccountInviteRevoke{InviteRecordId: inviteId}}}
}

// InviteSig signs who's raw identity with the invite key (nil key: a garbage signature).
func InviteSig(invKey crypto.PrivKey, who *Account) []byte {
	if invKey == nil {
		return []byte("no-invite-key")
	}
	raw, err := who.Pub().Raw()
	if err != nil {
		panic(err)
	}
	sig, err := invKey.Sign(raw)
	if err != nil {
		panic(err)
	}
	return sig
}

func CRequestJoin(inviteId string, who *Account, invKey crypto.PrivKey) *aclrecordproto.AclContentValue {
	return &aclrecordproto.AclContentValue{Value: &aclrecordproto.AclContentValue_RequestJoin{
		RequestJoin: &aclrecordproto.AclAccountRequestJoin{InviteIdentity: who.Proto, InviteRecordId: inviteId,
			InviteIdentitySignature: InviteSig(invKey, who), Metadata: []byte("m")}}}
}

func CInviteJoin(inviteId string, who *Account, invKey crypto.PrivKey, p Perm) *aclrecordproto.AclContentValue {
	return &aclrecordproto.AclContentValue{Value: &aclrecordproto.AclContentValue_InviteJoin{
		InviteJoin: &aclrecordproto.AclAccountInviteJoin{Identity: who.Proto, InviteRecordId: inviteId,
			InviteIdentitySignature: InviteSig(invKey, who), Metadata: []byte("m"), EncryptedReadKey: blob, Permissions: p}}}
}

func CRequestAccept(requestId string, who *Account, p Perm) *aclrecordproto.AclContentValue {
	return &aclrecordproto.AclContentValue{Value: &aclrecordproto.AclContentValue_RequestAccept{
		RequestAccept: &aclrecordproto.AclAccountRequestAccept{Identity: who.Proto, RequestRecordId: requestId, EncryptedReadKey: blob, Permissions: p}}}
}

func CRequestDecline(requestId string) *aclrecordproto.AclContentValue {
	return &aclrecordproto.AclContentValue{Value: &aclrecordproto.AclContentValue_RequestDecline{
		RequestDecline: &aclrecordproto.AclAccountRequestDecline{RequestRecordId: requestId}}}
}

func CRequestCancel(recordId string) *aclrecordproto.AclContentValue {
	return &aclrecordproto.AclContentValue{Value: &aclrecordproto.AclContentValue_RequestCancel{
		RequestCancel: &aclrecordproto.AclAccountRequestCancel{RecordId: recordId}}}
}

func CRequestRemove() *aclrecordproto.AclContentValue {
	return &aclrecordproto.AclContentValue{Value: &aclrecordproto.AclContentValue_AccountRequestRemove{
		AccountRequestRemove: &aclrecordproto.AclAccountRequestRemove{}}}
}

// ReadKeyChange builds a placeholder rotation addressed to the given account identities and invite keys.
func ReadKeyChange(metaPub []byte, accounts [][]byte, invites [][]byte) *aclrecordproto.AclReadKeyChange {
	rk := &aclrecordproto.AclReadKeyChange{MetadataPubKey: metaPub, EncryptedMetadataPrivKey: blob, EncryptedOldReadKey: blob}
	for _, a := range accounts {
		rk.AccountKeys = append(rk.AccountKeys, &aclrecordproto.AclEncryptedReadKey{Identity: a, EncryptedReadKey: blob})
	}
	for _, i := range invites {
		rk.InviteKeys = append(rk.InviteKeys, &aclrecordproto.AclEncryptedReadKey{Identity: i, EncryptedReadKey: blob})
	}
	return rk
}

func CReadKeyChange(rk *aclrecordproto.AclReadKeyChange) *aclrecordproto.AclContentValue {
	return &aclrecordproto.AclContentValue{Value: &aclrecordproto.AclContentValue_ReadKeyChange{ReadKeyChange: rk}}
}

func CAccountRemove(rk *aclrecordproto.AclReadKeyChange, targets ...*Account) *aclrecordproto.AclContentValue {
	var ids [][]byte
	for _, t := range targets {
		ids = append(ids, t.Proto)
	}
	return &aclrecordproto.AclContentValue{Value: &aclrecordproto.AclContentValue_AccountRemove{
		AccountRemove: &aclrecordproto.AclAccountRemove{Identities: ids, ReadKeyChange: rk}}}
}

func COptions(v uint32) *aclrecordproto.AclContentValue {
	return &aclrecordproto.AclContentValue{Value: &aclrecordproto.AclContentValue_SpaceOptionsChange{
		SpaceOptionsChange: &aclrecordproto.AclSpaceOptionsChange{Options: MakeOptions(v)}}}
}

// ---- abstract state ---------------------------------------------------------------------------------

type AbsAccount struct {
	Name   string
	Perm   Perm
	Status list.AclStatus
}

type AbsInvite struct {
	Id   string
	Type aclrecordproto.AclInviteType
	Perm Perm
	Key  crypto.PubKey
}

type AbsRequest struct {
	Id   string
	Who  string
	Join bool
}

// Abs is the property-relevant projection of an AclState.
type Abs struct {
	Accounts map[string]AbsAccount // by account name
	Invites  []AbsInvite           // sorted by (type, perm, id)
	Requests []AbsRequest          // sorted by (who, kind)
	Owners   []string
	KeyGens  int
	Options  string
}

func StatusName(s list.AclStatus) string {
	return [...]string{"None", "Joining", "Active", "Removed", "Declined", "Removing", "Canceled"}[s]
}

func (s *Sim) Abstract(st *list.AclState) Abs {
	a := Abs{Accounts: map[string]AbsAccount{}}
	for _, acc := range st.CurrentAccounts() {
		n := s.NameOf(acc.PubKey)
		a.Accounts[n] = AbsAccount{Name: n, Perm: Perm(acc.Permissions), Status: acc.Status}
		if acc.Permissions.IsOwner() {
			a.Owners = append(a.Owners, n)
		}
	}
	sort.Strings(a.Owners)
	for _, inv := range st.Invites() {
		a.Invites = append(a.Invites, AbsInvite{Id: inv.Id, Type: inv.Type, Perm: Perm(inv.Permissions), Key: inv.Key})
	}
	sort.Slice(a.Invites, func(i, j int) bool {
		x, y := a.Invites[i], a.Invites[j]
		if x.Type != y.Type {
			return x.Type < y.Type
		}
		if x.Perm != y.Perm {
			return x.Perm < y.Perm
		}
		return x.Id < y.Id
	})
	jr, _ := st.JoinRecords(false)
	for _, r := range jr {
		a.Requests = append(a.Requests, AbsRequest{Id: r.RecordId, Who: s.NameOf(r.RequestIdentity), Join: true})
	}
	for _, r := range st.RemoveRecords() {
		a.Requests = append(a.Requests, AbsRequest{Id: r.RecordId, Who: s.NameOf(r.RequestIdentity), Join: false})
	}
	sort.Slice(a.Requests, func(i, j int) bool {
		if a.Requests[i].Who != a.Requests[j].Who {
			return a.Requests[i].Who < a.Requests[j].Who
		}
		return !a.Requests[i].Join && a.Requests[j].Join
	})
	a.KeyGens = len(st.Keys())
	if o := st.CurrentOptions(); o != nil {
		a.Options = o.String()
	}
	return a
}

// Canon renders the abstract state without record ids (role names only).
func (a Abs) Canon() string {
	var names []string
	for n := range a.Accounts {
		names = append(names, n)
	}
	sort.Strings(names)
	out := ""
	for _, n := range names {
		x := a.Accounts[n]
		if x.Perm == None && x.Status == list.StatusNone {
			continue
		}
		out += fmt.Sprintf("%s:%s:%s ", n, PermName(x.Perm), StatusName(x.Status))
	}
	out += "| inv:"
	for _, i := range a.Invites {
		out += fmt.Sprintf(" %d/%s", i.Type, PermName(i.Perm))
	}
	out += " | req:"
	for _, r := range a.Requests {
		k := "remove"
		if r.Join {
			k = "join"
		}
		out += fmt.Sprintf(" %s/%s", r.Who, k)
	}
	out += fmt.Sprintf(" | gens:%d | opt:%s", a.KeyGens, a.Options)
	return out
}

// MakeOptions builds a space options value (v odd => deleteRestricted).
func MakeOptions(v uint32) *aclrecordproto.AclSpaceOptions {
	return &aclrecordproto.AclSpaceOptions{DeleteRestricted: v%2 == 1}
}
