//go:build verif

package ldiff

import (
	"fmt"
	"sort"
	"strings"
)

// VerifDump renders the complete internal state of the range tree (every range with its division flag,
// element count and hash, plus the dirty set). Two indexes with equal dumps and equal Elements() behave
// identically on every future call.
func VerifDump(d Diff) string {
	dd := d.(*diff)
	dd.mu.RLock()
	defer dd.mu.RUnlock()
	h := dd.ranges
	keys := make([]rangeTuple, 0, len(h.ranges))
	for k := range h.ranges {
		keys = append(keys, k)
	}
	sort.Slice(keys, func(i, j int) bool {
		if keys[i].from != keys[j].from {
			return keys[i].from < keys[j].from
		}
		return keys[i].to > keys[j].to
	})
	var sb strings.Builder
	for _, k := range keys {
		r := h.ranges[k]
		_, dirty := h.dirty[r]
		fmt.Fprintf(&sb, "%x-%x d=%v n=%d l=%d h=%x dirty=%v\n", k.from, k.to, r.isDivided, r.elements, r.level, r.hash, dirty)
	}
	return sb.String()
}

// VerifRangeCount returns the number of ranges currently materialised.
func VerifRangeCount(d Diff) int {
	dd := d.(*diff)
	dd.mu.RLock()
	defer dd.mu.RUnlock()
	return len(dd.ranges.ranges)
}
