// Package vatomic replaces sync/atomic in rewritten packages (see vsync). Only Bool is turned into a scheduling
// point (the scheduled packages use atomic.Bool flags as synchronisation: stream.closed, deleteLoop.running);
// counters stay plain aliases.
package vatomic

import (
	"sync/atomic"

	"github.com/anyproto/any-sync/verifshim/vsync"
)

type (
	Int32   = atomic.Int32
	Int64   = atomic.Int64
	Uint32  = atomic.Uint32
	Uint64  = atomic.Uint64
	Value   = atomic.Value
	Uintptr = atomic.Uintptr
)

type Pointer[T any] struct{ atomic.Pointer[T] }

// Bool is atomic.Bool whose operations are scheduling points when a controller is installed.
type Bool struct{ v atomic.Bool }

func (b *Bool) Load() bool {
	vsync.AtomicPoint("load")
	return b.v.Load()
}

func (b *Bool) Store(x bool) {
	vsync.AtomicPoint("store")
	b.v.Store(x)
}

func (b *Bool) Swap(x bool) bool {
	vsync.AtomicPoint("swap")
	return b.v.Swap(x)
}

func (b *Bool) CompareAndSwap(old, new bool) bool {
	vsync.AtomicPoint("cas")
	return b.v.CompareAndSwap(old, new)
}

func AddInt32(addr *int32, delta int32) int32          { return atomic.AddInt32(addr, delta) }
func AddInt64(addr *int64, delta int64) int64          { return atomic.AddInt64(addr, delta) }
func AddUint32(addr *uint32, delta uint32) uint32      { return atomic.AddUint32(addr, delta) }
func AddUint64(addr *uint64, delta uint64) uint64      { return atomic.AddUint64(addr, delta) }
func LoadInt32(addr *int32) int32                      { return atomic.LoadInt32(addr) }
func LoadInt64(addr *int64) int64                      { return atomic.LoadInt64(addr) }
func LoadUint32(addr *uint32) uint32                   { return atomic.LoadUint32(addr) }
func LoadUint64(addr *uint64) uint64                   { return atomic.LoadUint64(addr) }
func StoreInt32(addr *int32, v int32)                  { atomic.StoreInt32(addr, v) }
func StoreInt64(addr *int64, v int64)                  { atomic.StoreInt64(addr, v) }
func StoreUint32(addr *uint32, v uint32)               { atomic.StoreUint32(addr, v) }
func StoreUint64(addr *uint64, v uint64)               { atomic.StoreUint64(addr, v) }
func CompareAndSwapInt32(addr *int32, o, n int32) bool { return atomic.CompareAndSwapInt32(addr, o, n) }
func CompareAndSwapInt64(addr *int64, o, n int64) bool { return atomic.CompareAndSwapInt64(addr, o, n) }
func CompareAndSwapUint32(addr *uint32, o, n uint32) bool {
	return atomic.CompareAndSwapUint32(addr, o, n)
}
