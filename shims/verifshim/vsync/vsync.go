// Package vsync is a drop-in replacement for the parts of package sync that the scheduled any-sync packages
// use. It is injected by `go build -overlay` (see /verif/tools/genoverlay): the packages listed in
// /verif/shims/rewrite.txt import it under the name `sync`. Without an installed Controller every type behaves
// exactly like the original (it simply forwards to package sync). With a Controller installed, every
// Lock/RLock/TryLock becomes a *scheduling point*: the goroutine parks on a channel and proceeds only when the
// controller grants the request, and the controller only grants requests whose mutex is free - so a goroutine
// never blocks inside a real mutex and `testing/synctest.Wait` can certify quiescence.
package vsync

import (
	"fmt"
	"runtime"
	"sort"
	"strconv"
	"sync"
	"sync/atomic"
)

type (
	WaitGroup = sync.WaitGroup
	Once      = sync.Once
	Pool      = sync.Pool
	Map       = sync.Map
	Cond      = sync.Cond
	Locker    = sync.Locker
)

func NewCond(l Locker) *Cond               { return sync.NewCond(l) }
func OnceFunc(f func()) func()             { return sync.OnceFunc(f) }
func OnceValue[T any](f func() T) func() T { return sync.OnceValue(f) }

var cur atomic.Pointer[Controller]

// Install makes c the process-wide controller (nil uninstalls).
func Install(c *Controller) { cur.Store(c) }

type mstate struct {
	held    bool
	readers int
	id      int // assigned by the controller on first use (per execution)
	ctl     *Controller
}

// Mutex replaces sync.Mutex.
type Mutex struct {
	mu sync.Mutex
	st mstate
}

func (m *Mutex) Lock() {
	if c := cur.Load(); c != nil {
		c.acquire(&m.st, KindLock)
		return
	}
	m.mu.Lock()
}

func (m *Mutex) TryLock() bool {
	if c := cur.Load(); c != nil {
		return c.acquire(&m.st, KindTryLock)
	}
	return m.mu.TryLock()
}

func (m *Mutex) Unlock() {
	if c := cur.Load(); c != nil {
		c.release(&m.st, false)
		return
	}
	m.mu.Unlock()
}

// RWMutex replaces sync.RWMutex. (Writer preference is not modelled: a reader is enabled whenever no writer
// holds the lock.)
type RWMutex struct {
	mu sync.RWMutex
	st mstate
}

func (m *RWMutex) Lock() {
	if c := cur.Load(); c != nil {
		c.acquire(&m.st, KindLock)
		return
	}
	m.mu.Lock()
}

func (m *RWMutex) TryLock() bool {
	if c := cur.Load(); c != nil {
		return c.acquire(&m.st, KindTryLock)
	}
	return m.mu.TryLock()
}

func (m *RWMutex) Unlock() {
	if c := cur.Load(); c != nil {
		c.release(&m.st, false)
		return
	}
	m.mu.Unlock()
}

func (m *RWMutex) RLock() {
	if c := cur.Load(); c != nil {
		c.acquire(&m.st, KindRLock)
		return
	}
	m.mu.RLock()
}

func (m *RWMutex) TryRLock() bool {
	if c := cur.Load(); c != nil {
		return c.acquire(&m.st, KindTryRLock)
	}
	return m.mu.TryRLock()
}

func (m *RWMutex) RUnlock() {
	if c := cur.Load(); c != nil {
		c.release(&m.st, true)
		return
	}
	m.mu.RUnlock()
}

func (m *RWMutex) RLocker() Locker { return (*rlocker)(m) }

type rlocker RWMutex

func (r *rlocker) Lock()   { (*RWMutex)(r).RLock() }
func (r *rlocker) Unlock() { (*RWMutex)(r).RUnlock() }

// ---------------------------------------------------------------------------------------------------

type Kind int

const (
	KindLock Kind = iota
	KindRLock
	KindTryLock
	KindTryRLock
	KindPoint  // harness-owned blocking point (always enabled unless a guard says otherwise)
	KindChoose // harness-owned data choice with n alternatives
	KindAtomic // atomic operation of a rewritten package
)

func (k Kind) String() string {
	return [...]string{"lock", "rlock", "trylock", "tryrlock", "point", "choose", "atomic"}[k]
}

// Request is one parked goroutine.
type Request struct {
	G     *Gor
	Kind  Kind
	Label string
	N     int         // number of alternatives (KindChoose), else 1
	Guard func() bool // optional enabling condition (KindPoint)
	st    *mstate
	ch    chan int
	seq   int
}

// Gor is a goroutine known to the controller.
type Gor struct {
	Name   string
	Op     bool // started through Controller.Go (its end is observed); goroutines spawned by the code under test are not
	bg     bool // named by Collect ("bg<n>"): spawned by the code under test
	goid   uint64
	Done   bool
	Parked *Request
	Panic  any
	Stack  string
}

// Controller owns every scheduling decision of one execution. All methods that inspect state must be called by
// the controlling goroutine while every other goroutine of the bubble is durably blocked (after synctest.Wait).
type Controller struct {
	imu     sync.Mutex
	gors    map[uint64]*Gor
	order   []*Gor // registration order
	nextMu  int
	nextBg  int
	nextSeq int
	ctlGoid uint64
	// Trace of lock labels: mutexes are numbered in order of first use, so labels are stable across replays.
}

func NewController() *Controller {
	return &Controller{gors: map[uint64]*Gor{}, ctlGoid: goid()}
}

func goid() uint64 {
	var buf [64]byte
	n := runtime.Stack(buf[:], false)
	// "goroutine 123 ["
	s := buf[10:n]
	i := 0
	for i < len(s) && s[i] >= '0' && s[i] <= '9' {
		i++
	}
	id, _ := strconv.ParseUint(string(s[:i]), 10, 64)
	return id
}

// Go starts fn as a named, controlled operation goroutine.
func (c *Controller) Go(name string, fn func()) *Gor {
	g := &Gor{Name: name, Op: true}
	c.imu.Lock()
	c.order = append(c.order, g)
	c.imu.Unlock()
	started := make(chan struct{})
	go func() {
		g.goid = goid()
		c.imu.Lock()
		c.gors[g.goid] = g
		c.imu.Unlock()
		close(started)
		defer func() {
			if r := recover(); r != nil {
				buf := make([]byte, 16<<10)
				buf = buf[:runtime.Stack(buf, false)]
				c.imu.Lock()
				g.Panic, g.Stack = r, string(buf)
				c.imu.Unlock()
			}
			c.imu.Lock()
			g.Done = true
			c.imu.Unlock()
		}()
		// every operation starts at a scheduling point so that the controller decides who moves first
		c.Point("start")
		fn()
	}()
	<-started
	return g
}

func (c *Controller) me() *Gor {
	id := goid()
	c.imu.Lock()
	defer c.imu.Unlock()
	g := c.gors[id]
	if g == nil {
		// a goroutine spawned by the code under test: named lazily (see Collect) by order of first appearance
		g = &Gor{goid: id}
		c.gors[id] = g
	}
	return g
}

// Me returns the name of the calling goroutine ("" if the controller has not named it yet).
func (c *Controller) Me() string {
	id := goid()
	c.imu.Lock()
	defer c.imu.Unlock()
	if g := c.gors[id]; g != nil {
		return g.Name
	}
	return ""
}

func (c *Controller) park(r *Request) int {
	g := c.me()
	r.G = g
	r.ch = make(chan int)
	c.imu.Lock()
	c.nextSeq++
	r.seq = c.nextSeq
	g.Parked = r
	c.imu.Unlock()
	v := <-r.ch
	return v
}

func (c *Controller) acquire(st *mstate, k Kind) bool {
	if goid() == c.ctlGoid {
		// the controlling goroutine itself (state inspection between steps): everyone else is parked
		return c.tryTake(st, k)
	}
	c.imu.Lock()
	if st.ctl != c {
		st.ctl, st.held, st.readers = c, false, 0
		c.nextMu++
		st.id = c.nextMu
	}
	c.imu.Unlock()
	return c.park(&Request{Kind: k, N: 1, st: st, Label: "m" + strconv.Itoa(st.id)}) == 1
}

func (c *Controller) tryTake(st *mstate, k Kind) bool {
	c.imu.Lock()
	defer c.imu.Unlock()
	if st.ctl != c {
		st.ctl, st.held, st.readers = c, false, 0
		c.nextMu++
		st.id = c.nextMu
	}
	switch k {
	case KindLock, KindTryLock:
		if st.held || st.readers > 0 {
			if k == KindLock {
				panic("vsync: controller goroutine would block on a held mutex")
			}
			return false
		}
		st.held = true
	default:
		if st.held {
			if k == KindRLock {
				panic("vsync: controller goroutine would block on a held mutex")
			}
			return false
		}
		st.readers++
	}
	return true
}

func (c *Controller) release(st *mstate, read bool) {
	c.imu.Lock()
	defer c.imu.Unlock()
	if st.ctl != c {
		return
	}
	if read {
		st.readers--
	} else {
		st.held = false
	}
}

// AtomicPoint is called by the vatomic shim before an atomic operation that is used as synchronisation.
func AtomicPoint(op string) {
	if c := cur.Load(); c != nil && goid() != c.ctlGoid {
		c.park(&Request{Kind: KindAtomic, N: 1, Label: op})
	}
}

// Point parks the calling goroutine at a harness-owned scheduling point.
func (c *Controller) Point(label string) {
	c.park(&Request{Kind: KindPoint, N: 1, Label: label})
}

// PointIf parks until the controller grants the point; the point is enabled only while guard() is true.
func (c *Controller) PointIf(label string, guard func() bool) {
	c.park(&Request{Kind: KindPoint, N: 1, Label: label, Guard: guard})
}

// Choose parks and returns the alternative (0..n-1) picked by the controller; alternative 0 is the default
// environment answer, every other one counts as a deviation.
func (c *Controller) Choose(label string, n int) int {
	return c.park(&Request{Kind: KindChoose, N: n, Label: label})
}

// Option is one entry of the decision list of a step.
type Option struct {
	Req     *Request
	Variant int
	Label   string
}

// Collect names unknown goroutines (by ascending goroutine id, i.e. creation order under GOMAXPROCS=1) and returns
// the enabled options in canonical order: goroutines by registration order; for each its variants ascending.
func (c *Controller) Collect() (opts []Option, parked, blockedInCode int, unfinished []string) {
	c.imu.Lock()
	defer c.imu.Unlock()
	var unknown []*Gor
	for _, g := range c.gors {
		if g.Name == "" {
			unknown = append(unknown, g)
		}
	}
	sort.Slice(unknown, func(i, j int) bool { return unknown[i].goid < unknown[j].goid })
	for _, g := range unknown {
		g.Name = "bg" + strconv.Itoa(c.nextBg)
		g.bg = true
		c.nextBg++
		c.order = append(c.order, g)
	}
	for _, g := range c.order {
		if g.Done {
			continue
		}
		r := g.Parked
		if r == nil {
			if g.goid != 0 && g.Op {
				blockedInCode++
				unfinished = append(unfinished, g.Name+":blocked-in-code")
			}
			continue
		}
		parked++
		unfinished = append(unfinished, g.Name+":"+r.Kind.String()+":"+r.Label)
		en := true
		switch r.Kind {
		case KindLock:
			en = !r.st.held && r.st.readers == 0
		case KindRLock:
			en = !r.st.held
		case KindPoint:
			en = r.Guard == nil || r.Guard()
		}
		if !en {
			continue
		}
		n := r.N
		if n < 1 {
			n = 1
		}
		// goroutines the code under test spawned itself ("bg<n>", numbered by creation) are interchangeable workers
		// as far as the harness can tell: which of two idle pool workers picks up a task is decided inside code the
		// scheduler does not own. Their options carry no worker number and are listed sorted by label, so that the
		// decision list of a step does not depend on that assignment.
		name := g.Name
		if g.bg {
			name = "bg"
		}
		for v := 0; v < n; v++ {
			l := name + ":" + r.Kind.String() + ":" + r.Label
			if n > 1 {
				l += "=" + strconv.Itoa(v)
			}
			opts = append(opts, Option{Req: r, Variant: v, Label: l})
		}
	}
	first := len(opts)
	for i, o := range opts {
		if o.Req.G.bg {
			first = i
			break
		}
	}
	// registered (named) goroutines come first in c.order only as long as no background goroutine was registered
	// before them; sort the background options among themselves wherever they are
	var idx []int
	var bgo []Option
	for i := first; i < len(opts); i++ {
		if opts[i].Req.G.bg {
			idx = append(idx, i)
			bgo = append(bgo, opts[i])
		}
	}
	sort.SliceStable(bgo, func(i, j int) bool { return bgo[i].Label < bgo[j].Label })
	for k, i := range idx {
		opts[i] = bgo[k]
	}
	return
}

// Grant releases the goroutine of o with o's variant.
func (c *Controller) Grant(o Option) {
	c.imu.Lock()
	r := o.Req
	val := o.Variant
	switch r.Kind {
	case KindLock:
		r.st.held = true
		val = 1
	case KindRLock:
		r.st.readers++
		val = 1
	case KindTryLock:
		if r.st.held || r.st.readers > 0 {
			val = 0
		} else {
			r.st.held = true
			val = 1
		}
	case KindTryRLock:
		if r.st.held {
			val = 0
		} else {
			r.st.readers++
			val = 1
		}
	}
	r.G.Parked = nil
	c.imu.Unlock()
	r.ch <- val
}

// Gors returns the known goroutines in canonical order.
func (c *Controller) Gors() []*Gor {
	c.imu.Lock()
	defer c.imu.Unlock()
	return append([]*Gor{}, c.order...)
}

func (g *Gor) String() string { return fmt.Sprintf("%s(done=%v)", g.Name, g.Done) }
