//go:build verif

package encoding

import "storj.io/drpc"

// VerifSnappyEncoding returns the snappy encoding the rpc connections and handlers use.
func VerifSnappyEncoding() drpc.Encoding { return defaultSnappyEncoding }

// VerifProtoEncoding returns the plain proto encoding.
func VerifProtoEncoding() drpc.Encoding { return defaultProtoEncoding }
