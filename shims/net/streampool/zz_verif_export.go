//go:build verif

package streampool

import (
	"context"
	"fmt"
	"sort"
	"strings"

	"go.uber.org/zap"
	"go.uber.org/zap/zapcore"
)

// VerifPanicOnFatal makes the package logger's Fatal (index inconsistency in removeStream) panic instead of
// calling os.Exit, so that the harness can attribute it to a schedule.
func VerifPanicOnFatal() {
	*log.Logger = *log.Logger.WithOptions(zap.WithFatalHook(zapcore.WriteThenPanic))
}

// VerifStreamCtx builds the context HandleMessage would receive for a stream (needed for AddTagsCtx/RemoveTagsCtx).
func VerifStreamCtx(ctx context.Context, streamId uint32, peerId string) context.Context {
	return streamCtx(ctx, streamId, peerId)
}

// VerifStreamInfo is the bookkeeping the pool holds for one stream.
type VerifStreamInfo struct {
	Id       uint32
	PeerId   string
	Tags     []string
	QueueLen int
	Closed   bool
}

// VerifDump returns the pool's indexes: streams, ids by peer, ids by tag, opening processes.
func VerifDump(p StreamPool) (streams []VerifStreamInfo, byPeer, byTag map[string][]uint32, opening []string) {
	s := p.(*streamPool)
	s.mu.Lock()
	defer s.mu.Unlock()
	for id, st := range s.streams {
		streams = append(streams, VerifStreamInfo{Id: id, PeerId: st.peerId, Tags: append([]string{}, st.tags...), QueueLen: st.queue.Len(), Closed: st.closed.Load()})
	}
	sort.Slice(streams, func(i, j int) bool { return streams[i].Id < streams[j].Id })
	byPeer, byTag = map[string][]uint32{}, map[string][]uint32{}
	for k, v := range s.streamIdsByPeer {
		byPeer[k] = append([]uint32{}, v...)
	}
	for k, v := range s.streamIdsByTag {
		byTag[k] = append([]uint32{}, v...)
	}
	for k := range s.opening {
		opening = append(opening, k)
	}
	sort.Strings(opening)
	return
}

func VerifDumpString(p StreamPool) string {
	st, bp, bt, op := VerifDump(p)
	var sb strings.Builder
	fmt.Fprintf(&sb, "streams=%v byPeer=%v byTag=%v opening=%v", st, bp, bt, op)
	return sb.String()
}
