//go:build verif

package handshake

import (
	"sync"

	"github.com/anyproto/any-sync/net/secureservice/handshake/handshakeproto"
)

// Frame constants of the wire format.
const (
	VerifHeaderSize   = headerSize
	VerifSizeLimit    = sizeLimit
	VerifMsgTypeCred  = msgTypeCred
	VerifMsgTypeAck   = msgTypeAck
	VerifMsgTypeProto = msgTypeProto
)

var verifOrigPool = handshakePool

// VerifSetPool replaces the package-level pool of handshake objects (nil restores the original one) and returns
// the previous pool.
func VerifSetPool(p *sync.Pool) (old *sync.Pool) {
	old = handshakePool
	if p == nil {
		p = verifOrigPool
	}
	handshakePool = p
	return
}

// VerifNewPoolObject builds one handshake object exactly like the original pool's New does.
func VerifNewPoolObject() any { return verifOrigPool.New() }

// VerifPoolObjectRemoteCred returns the pooled "last remote credentials" message of a handshake object.
func VerifPoolObjectRemoteCred(o any) *handshakeproto.Credentials { return o.(*handshake).remoteCred }
