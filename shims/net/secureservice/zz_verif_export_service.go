//go:build verif

package secureservice

import (
	"context"

	"github.com/anyproto/any-sync/accountservice"
	"github.com/anyproto/any-sync/app"
	"github.com/anyproto/any-sync/commonspace/object/accountdata"
	"github.com/anyproto/any-sync/net/secureservice/handshake"
	"github.com/anyproto/any-sync/nodeconf"
)

type verifConfig struct{ conf Config }

func (c *verifConfig) Init(*app.App) error      { return nil }
func (c *verifConfig) Name() string             { return "config" }
func (c *verifConfig) GetSecureService() Config { return c.conf }

type verifAccount struct{ keys *accountdata.AccountKeys }

func (a *verifAccount) Init(*app.App) error               { return nil }
func (a *verifAccount) Name() string                      { return accountservice.CName }
func (a *verifAccount) Account() *accountdata.AccountKeys { return a.keys }

// verifNodeConf answers the only questions the secure service asks its node configuration; every other method of the
// embedded (nil) interface would panic, which is what an unexpected dependency should do in a harness.
type verifNodeConf struct {
	nodeconf.Service
	node bool
}

func (n *verifNodeConf) Init(*app.App) error         { return nil }
func (n *verifNodeConf) Name() string                { return nodeconf.CName }
func (n *verifNodeConf) Run(context.Context) error   { return nil }
func (n *verifNodeConf) Close(context.Context) error { return nil }
func (n *verifNodeConf) NodeTypes(string) []nodeconf.NodeType {
	if n.node {
		return []nodeconf.NodeType{nodeconf.NodeTypeTree}
	}
	return nil
}

// VerifServiceChecker wires a real secure service the way an application does — protocol version on the service, the
// accepted list delivered through the registered "config" component — runs its Init and returns the credential checker
// it would use for peers that must prove their identity (verify) or for anonymous ones.
func VerifServiceChecker(protoVersion uint32, configured []uint32, versionName string, account *accountdata.AccountKeys, verify bool) (handshake.CredentialChecker, error) {
	svc, err := VerifService(protoVersion, configured, versionName, account, verify)
	if err != nil {
		return nil, err
	}
	s := svc.(*secureService)
	if verify {
		return s.peerSignVerifier, nil
	}
	return s.noVerifyChecker, nil
}

// VerifService is the wired and initialised service itself (for HandshakeOutbound / HandshakeInbound, which also
// build the connection context). verify: inbound peers must prove their identity (RequireClientAuth); for outbound
// handshakes the caller asks for it with CtxAllowAccountCheck.
func VerifService(protoVersion uint32, configured []uint32, versionName string, account *accountdata.AccountKeys, verify bool) (SecureService, error) {
	s := &secureService{protoVersion: protoVersion}
	a := new(app.App)
	a.SetVersionName(versionName)
	a.Register(&verifAccount{keys: account}).Register(&verifConfig{conf: Config{CompatibleVersions: configured, RequireClientAuth: verify}}).Register(&verifNodeConf{}).Register(s)
	if err := s.Init(a); err != nil {
		return nil, err
	}
	return s, nil
}
