//go:build verif

package secureservice

import (
	"github.com/anyproto/any-sync/commonspace/object/accountdata"
	"github.com/anyproto/any-sync/net/secureservice/handshake"
)

// VerifNewPeerSignVerifier exposes the unexported constructor of the signed-peer-ids credential checker.
func VerifNewPeerSignVerifier(protoVersion uint32, compatibleVersions []uint32, clientVersion string, account *accountdata.AccountKeys) handshake.CredentialChecker {
	return newPeerSignVerifier(protoVersion, compatibleVersions, clientVersion, account)
}

// VerifNewNoVerifyChecker exposes the unexported constructor of the skip-verify credential checker.
func VerifNewNoVerifyChecker(protoVersion uint32, compatibleVersions []uint32, clientVersion string) handshake.CredentialChecker {
	return newNoVerifyChecker(protoVersion, compatibleVersions, clientVersion)
}
