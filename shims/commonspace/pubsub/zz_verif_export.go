//go:build verif

package pubsub

import (
	"sort"

	"github.com/anyproto/any-sync/net/streampool"
)

// Thin, add-only accessors for check C17 (injected by overlay, never part of /repo).

// VerifTrie wraps the unexported interest trie.
type VerifTrie struct{ t *patternTrie }

func VerifNewTrie() *VerifTrie                        { return &VerifTrie{t: newPatternTrie()} }
func (v *VerifTrie) Add(pattern string) bool          { return v.t.Add(pattern) }
func (v *VerifTrie) Remove(pattern string) bool       { return v.t.Remove(pattern) }
func (v *VerifTrie) Match(topic string) []string      { return v.t.Match(topic, nil) }
func (v *VerifTrie) Len() int                         { return v.t.Len() }
func (v *VerifTrie) NodeCount() int                   { return verifNodeCount(v.t.root) }
func (v *VerifTrie) Refs() map[string]int             { return verifRefs(v.t) }
func VerifSplitTopic(topic string) []string           { return append([]string(nil), splitTopic(topic)...) }
func VerifInterestTag(spaceId, pattern string) string { return interestTag(spaceId, pattern) }

const (
	VerifMaxTopicLen = maxTopicLen
	VerifMaxSegments = maxSegments
	VerifMsgIdLen    = msgIdLen
)

func verifNodeCount(l *trieLevel) int {
	if l == nil {
		return 0
	}
	n := 0
	each := func(nd *trieNode) {
		if nd != nil {
			n += 1 + verifNodeCount(nd.next)
		}
	}
	for _, nd := range l.nodes {
		each(nd)
	}
	each(l.pwc)
	each(l.fwc)
	return n
}

// verifRefs lists every terminal with a positive refcount: pattern -> refs.
func verifRefs(t *patternTrie) map[string]int {
	out := map[string]int{}
	var walk func(l *trieLevel)
	walk = func(l *trieLevel) {
		if l == nil {
			return
		}
		each := func(nd *trieNode) {
			if nd == nil {
				return
			}
			if nd.refs != 0 {
				out[nd.pattern] += nd.refs
			}
			walk(nd.next)
		}
		for _, nd := range l.nodes {
			each(nd)
		}
		each(l.pwc)
		each(l.fwc)
	}
	if t != nil {
		walk(t.root)
	}
	return out
}

// VerifTrieInfo is what one trie holds.
type VerifTrieInfo struct {
	Len   int
	Nodes int
	Refs  map[string]int
}

func verifTrieInfo(t *patternTrie) VerifTrieInfo {
	if t == nil {
		return VerifTrieInfo{Refs: map[string]int{}}
	}
	return VerifTrieInfo{Len: t.Len(), Nodes: verifNodeCount(t.root), Refs: verifRefs(t)}
}

// VerifStreamInterest is the engine's record for one inbound stream.
type VerifStreamInterest struct {
	Account string
	Total   int
	BySpace map[string][]string // sorted patterns; a present key with no patterns is an empty residue
}

// VerifState is the complete interest bookkeeping of a service.
type VerifState struct {
	Remote     map[string]VerifTrieInfo       // spaceId -> serving-side trie
	Streams    map[uint32]VerifStreamInterest // streamId -> record
	LocalTrie  map[string]VerifTrieInfo
	LocalSubs  map[string]map[string]int // spaceId -> pattern -> number of handlers
	LocalTopic map[string]int
}

func VerifDumpState(svc Service) VerifState {
	s := svc.(*service)
	st := VerifState{
		Remote:     map[string]VerifTrieInfo{},
		Streams:    map[uint32]VerifStreamInterest{},
		LocalTrie:  map[string]VerifTrieInfo{},
		LocalSubs:  map[string]map[string]int{},
		LocalTopic: map[string]int{},
	}
	s.remoteMu.Lock()
	for sp, si := range s.remote {
		st.Remote[sp] = verifTrieInfo(si.trie)
	}
	for id, strm := range s.streams {
		rec := VerifStreamInterest{Account: strm.account, Total: strm.total, BySpace: map[string][]string{}}
		for sp, pats := range strm.bySpace {
			l := make([]string, 0, len(pats))
			for p := range pats {
				l = append(l, p)
			}
			sort.Strings(l)
			rec.BySpace[sp] = l
		}
		st.Streams[id] = rec
	}
	s.remoteMu.Unlock()
	s.localMu.Lock()
	for sp, t := range s.localTrie {
		st.LocalTrie[sp] = verifTrieInfo(t)
	}
	for sp, m := range s.localSubs {
		mm := map[string]int{}
		for p, subs := range m {
			mm[p] = len(subs)
		}
		st.LocalSubs[sp] = mm
	}
	for sp, n := range s.localTopic {
		st.LocalTopic[sp] = n
	}
	s.localMu.Unlock()
	return st
}

// VerifPool returns the service's private stream pool (for streampool.VerifDump).
func VerifPool(svc Service) streampool.StreamPool { return svc.(*service).pool }

// VerifDedupHas peeks into the duplicate-suppression cache without recording anything.
func VerifDedupHas(svc Service, id []byte) bool {
	d := svc.(*service).dedup
	if len(id) != msgIdLen {
		return false
	}
	var key [msgIdLen]byte
	copy(key[:], id)
	d.mu.Lock()
	defer d.mu.Unlock()
	_, ok := d.set[key]
	return ok
}

// VerifSignPublish signs a Publish exactly like Service.Publish does.
var VerifSignPublish = signPublish
