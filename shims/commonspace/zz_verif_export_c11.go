//go:build verif

package commonspace

import (
	"context"

	"github.com/anyproto/any-sync/commonspace/spacestorage"
	"github.com/anyproto/any-sync/net/peer"
)

// VerifSpacePullWithPeer runs the client side of a space pull (what getSpaceStorageFromRemote does per peer) against
// p with the given storage provider; nothing else of the service is needed until the storage has been created.
func VerifSpacePullWithPeer(ctx context.Context, provider spacestorage.SpaceStorageProvider, p peer.Peer, id string) error {
	s := &spaceService{storageProvider: provider}
	_, err := s.spacePullWithPeer(ctx, p, id, Deps{})
	return err
}

// VerifCreateSpaceStorage is the single entry point through which created, pushed and pulled space payloads reach the
// storage provider.
func VerifCreateSpaceStorage(ctx context.Context, provider spacestorage.SpaceStorageProvider, payload spacestorage.SpaceStorageCreatePayload) (spacestorage.SpaceStorage, error) {
	s := &spaceService{storageProvider: provider}
	return s.createSpaceStorage(ctx, payload)
}
