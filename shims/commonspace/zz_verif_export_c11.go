//go:build verif

package commonspace

import (
	"context"
	"strings"
	"sync/atomic"

	"github.com/anyproto/any-sync/app"
	"github.com/anyproto/any-sync/commonspace/spacestate"
	"github.com/anyproto/any-sync/commonspace/spacestorage"
	"github.com/anyproto/any-sync/net/peer"
)

// VerifSpacePullWithPeer runs the client side of a space pull (what getSpaceStorageFromRemote does per peer) against
// p with the given storage provider; nothing else of the service is needed until the storage has been created.
func VerifSpacePullWithPeer(ctx context.Context, provider spacestorage.SpaceStorageProvider, p peer.Peer, id string) error {
	s := &spaceService{storageProvider: provider}
	_, err := s.spacePullWithPeer(ctx, p, id, Deps{})
	return err
}

// VerifCreateSpaceStorage is the single entry point through which created, pushed and pulled space payloads reach the
// storage provider.
func VerifCreateSpaceStorage(ctx context.Context, provider spacestorage.SpaceStorageProvider, payload spacestorage.SpaceStorageCreatePayload) (spacestorage.SpaceStorage, error) {
	s := &spaceService{storageProvider: provider}
	return s.createSpaceStorage(ctx, payload)
}

// VerifSpaceInit starts a space's child container the way space.Init does and reports the error of the start. When
// the container started, Init goes on to look up the space's standard components, which a harness container does not
// have (MustComponent panics): that panic is what "started" looks like here and is reported as started = true.
func VerifSpaceInit(ctx context.Context, child *app.App) (err error, started bool) {
	s := &space{app: child, state: &spacestate.SpaceState{SpaceId: "verif-space", SpaceIsClosed: &atomic.Bool{}, TreesUsed: &atomic.Int32{}}}
	defer func() {
		if r := recover(); r != nil {
			if e, ok := r.(error); ok && strings.Contains(e.Error(), "not registered") {
				err, started = nil, true
				return
			}
			panic(r)
		}
	}()
	err = s.Init(ctx)
	return err, err == nil
}
