//go:build verif

package deletionmanager

// VerifDeleter returns the real deleter a deletion manager built in Init (the function its delete loop runs), so a
// harness can run one deletion-worker pass at a point of its choosing instead of starting the timer-driven loop.
func VerifDeleter(dm DeletionManager) Deleter {
	d, ok := dm.(*deletionManager)
	if !ok {
		return nil
	}
	return d.deleter
}
