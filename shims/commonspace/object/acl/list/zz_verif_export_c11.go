//go:build verif

package list

import "github.com/anyproto/any-sync/commonspace/object/acl/aclrecordproto"

// VerifKeepIdentity runs the keep-only-ours decoder of the non-validating ingest path with b's own identity matcher.
func VerifKeepIdentity(b AclRecordBuilder, data []byte) (*aclrecordproto.AclData, error) {
	return unmarshalAclDataKeepIdentity(data, b.(*aclRecordBuilder).isOurIdentity)
}

// VerifFullDecodeFilter runs the authoritative full decode + filter with the same matcher.
func VerifFullDecodeFilter(b AclRecordBuilder, data []byte) (*aclrecordproto.AclData, error) {
	return fullDecodeFilter(data, b.(*aclRecordBuilder).isOurIdentity)
}
