//go:build verif

package keyvalue

import (
	"context"

	"github.com/anyproto/any-sync/commonspace/object/keyvalue/keyvaluestorage"
	"github.com/anyproto/any-sync/commonspace/object/keyvalue/kvinterfaces"
	"github.com/anyproto/any-sync/commonspace/spacesyncproto"
	"github.com/anyproto/any-sync/net/peer"
)

// VerifNewService assembles the key-value service around an already built store, the way Init does minus the
// app container (same fields, nothing else).
func VerifNewService(spaceId, storageId string, store keyvaluestorage.Storage, cf spacesyncproto.ClientFactory) kvinterfaces.KeyValueService {
	ctx, cancel := context.WithCancel(context.Background())
	return &keyValueService{
		storageId:     storageId,
		spaceId:       spaceId,
		ctx:           ctx,
		cancel:        cancel,
		limiter:       newConcurrentLimiter(),
		defaultStore:  store,
		clientFactory: cf,
	}
}

// VerifSyncWithPeer runs what SyncWithPeer schedules on the limiter, synchronously, and returns its error.
func VerifSyncWithPeer(ctx context.Context, svc kvinterfaces.KeyValueService, p peer.Peer) error {
	return svc.(*keyValueService).syncWithPeer(ctx, p)
}
