//go:build verif

package objecttree

import (
	"context"
	"sort"
)

func ctxBackground() context.Context { return context.Background() }
func sortStrings(s []string)         { sort.Strings(s) }
