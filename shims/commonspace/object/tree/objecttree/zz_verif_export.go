//go:build verif

package objecttree

import (
	"github.com/anyproto/any-sync/commonspace/object/acl/list"
	"github.com/anyproto/any-sync/commonspace/object/tree/treechangeproto"
	"github.com/anyproto/any-sync/util/crypto"
)

// VerifFirstOrderId is the order id the storage gives to a tree's root.
func VerifFirstOrderId() string { return lexId.Next("") }

// VerifFullOrder builds the whole history held by storage (no reduction) with the test change builder and returns
// the ids in the order the tree iterates them from the tree root.
func VerifFullOrder(storage Storage) ([]string, error) {
	root, err := storage.Root(ctxBackground())
	if err != nil {
		return nil, err
	}
	cb := &nonVerifiableChangeBuilder{ChangeBuilder: NewChangeBuilder(newMockKeyStorage(), root.RawTreeChangeWithId())}
	tr, err := newTreeBuilder(storage, cb).BuildFull()
	if err != nil {
		return nil, err
	}
	var ids []string
	tr.iterate(tr.root, func(c *Change) bool {
		ids = append(ids, c.Id)
		return true
	})
	return ids, nil
}

// VerifTreeState exposes what the in-memory DAG of an object tree currently holds.
func VerifTreeState(t ObjectTree) (rootId string, attached []string, unattached int) {
	ot, ok := t.(*objectTree)
	if !ok {
		return "", nil, 0
	}
	for id := range ot.tree.attached {
		attached = append(attached, id)
	}
	sortStrings(attached)
	return ot.tree.RootId(), attached, len(ot.tree.unAttached)
}

// VerifUseTestStorageChangeBuilder makes CreateStorage accept the unsigned roots of the test change creator (what
// MockChangeCreator.CreateNewTreeStorage does for the repository's own tests).
func VerifUseTestStorageChangeBuilder() {
	StorageChangeBuilder = func(keys crypto.KeyStorage, rootChange *treechangeproto.RawTreeChangeWithId) ChangeBuilder {
		return &nonVerifiableChangeBuilder{ChangeBuilder: NewChangeBuilder(newMockKeyStorage(), rootChange)}
	}
}

// verifRejectingValidator refuses every batch of new changes that contains a change whose id reject() names; it
// validates nothing else (the ordering checks run without signatures).
type verifRejectingValidator struct {
	noOpTreeValidator
	reject func(id string) bool
}

func (v *verifRejectingValidator) ValidateNewChanges(tree *Tree, aclList list.AclList, newChanges []*Change) error {
	for _, c := range newChanges {
		if v.reject(c.Id) {
			return ErrHasInvalidChanges
		}
	}
	return nil
}

// VerifBuildTestableTreeRejecting is BuildTestableTree with a validator that refuses the batches reject() selects.
func VerifBuildTestableTreeRejecting(storage Storage, aclList list.AclList, reject func(id string) bool) (ObjectTree, error) {
	root, _ := storage.Root(ctxBackground())
	changeBuilder := &nonVerifiableChangeBuilder{
		ChangeBuilder: NewChangeBuilder(newMockKeyStorage(), root.RawTreeChangeWithId()),
	}
	deps := objectTreeDeps{
		changeBuilder: changeBuilder,
		treeBuilder:   newTreeBuilder(storage, changeBuilder),
		storage:       storage,
		validator:     &verifRejectingValidator{reject: reject},
		aclList:       aclList,
		flusher:       &defaultFlusher{},
	}
	return buildObjectTree(deps)
}
