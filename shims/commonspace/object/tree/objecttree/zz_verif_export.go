//go:build verif

package objecttree

// VerifFirstOrderId is the order id the storage gives to a tree's root.
func VerifFirstOrderId() string { return lexId.Next("") }
