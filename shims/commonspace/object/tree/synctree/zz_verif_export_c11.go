//go:build verif

package synctree

import "github.com/anyproto/any-sync/commonspace/object/tree/objecttree"

// VerifObjectTree returns the object tree a sync tree wraps (nil for other implementations).
func VerifObjectTree(t SyncTree) objecttree.ObjectTree {
	if st, ok := t.(*syncTree); ok {
		return st.ObjectTree
	}
	return nil
}
