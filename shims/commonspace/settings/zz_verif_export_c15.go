//go:build verif

package settings

import (
	"github.com/anyproto/any-sync/commonspace/object/tree/objecttree"
	"github.com/anyproto/any-sync/commonspace/settings/settingsstate"
	"github.com/anyproto/any-sync/commonspace/spacestorage"
	"github.com/anyproto/any-sync/util/crypto"
)

// VerifState returns the settings state a settings object currently holds (the incrementally maintained one).
func VerifState(o SettingsObject) *settingsstate.State {
	s, ok := o.(*settingsObject)
	if !ok {
		return nil
	}
	return s.state
}

// VerifTreeBuilder is the object-tree build function the settings component passes for the settings tree.
func VerifTreeBuilder(store spacestorage.SpaceStorage) objecttree.BuildObjectTreeFunc {
	return objecttree.BuildObjectTreeWithContentValidator(newSettingsContentValidator(func(objectId string) (crypto.PubKey, error) {
		return objectAuthor(store, objectId)
	}))
}
