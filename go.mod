module verif

go 1.25.7

require (
	github.com/anyproto/any-sync v0.0.0
	github.com/cespare/xxhash v1.1.0
)

require (
	github.com/huandu/skiplist v1.2.1 // indirect
	github.com/klauspost/cpuid/v2 v2.4.0 // indirect
	github.com/planetscale/vtprotobuf v0.6.0 // indirect
	github.com/zeebo/blake3 v0.2.4 // indirect
	github.com/zeebo/errs v1.3.0 // indirect
	golang.org/x/exp v0.0.0-20260718201538-764159d718ef // indirect
	google.golang.org/protobuf v1.36.11 // indirect
	storj.io/drpc v1.0.0 // indirect
)

replace github.com/anyproto/any-sync => /repo
