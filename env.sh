# sourced by run / setup.sh: offline Go environment pinned to the toolchain /repo/go.mod asks for
TC=/root/go/pkg/mod/golang.org/toolchain@v0.0.1-go1.25.7.linux-amd64
if [ -x "$TC/bin/go" ]; then
  export PATH="$TC/bin:$PATH"
  export GOTOOLCHAIN=local
fi
export GOFLAGS=-mod=mod GOPROXY=off GONOSUMDB='*' GONOSUMCHECK=1 GOFLAGS=-mod=mod
unset GOSUMDB
export CGO_ENABLED=${CGO_ENABLED:-1}
