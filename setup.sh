#!/bin/bash
# Build the framework offline from files on disk: overlay generator + every check binary (warms GOCACHE).
set -u
cd /verif || exit 2
. ./env.sh
mkdir -p .gen .bin evidence replays
go build -o .bin/genoverlay ./tools/genoverlay || exit 2
.bin/genoverlay || exit 2
rc=0
for d in checks/c*/; do
  id=$(basename "$d")
  echo "building $id" >&2
  go test -c -tags verif -overlay .gen/overlay.json -vet=off -o ".bin/$id.test" "./checks/$id" || { echo "WARNING: build of $id failed" >&2; }
done
exit $rc
