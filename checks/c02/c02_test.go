// C02 — only authentic, authorised changes are ever attached or persisted.
//
// A fixed ACL history (writer added, demoted to reader, re-promoted, removed with key rotation, re-added; a guest; a
// never-member) is built on the real validating ACL list; a real verifying object tree (real change builder, real
// validator, real storage interface) receives (A1) every author x cited ACL record x parent's cited record
// combination built with the real ChangeBuilder, and (A2) every single-byte / id-character / field mutation - with
// and without re-signing - of accepted changes, each alone and in the middle of a batch of valid changes. A
// hand-written permission table is the reference; whatever ends up attached or stored is re-checked independently.
package c02

import (
	"context"
	"fmt"
	"sort"
	"strings"
	"sync"
	"testing"
	"time"

	"github.com/ipfs/go-cid"
	"github.com/multiformats/go-multibase"
	"go.uber.org/zap"

	"github.com/anyproto/any-sync/app/logger"
	"github.com/anyproto/any-sync/commonspace/object/acl/aclrecordproto"
	"github.com/anyproto/any-sync/commonspace/object/acl/list"
	"github.com/anyproto/any-sync/commonspace/object/tree/objecttree"
	"github.com/anyproto/any-sync/commonspace/object/tree/treechangeproto"
	"github.com/anyproto/any-sync/util/cidutil"
	"github.com/anyproto/any-sync/util/crypto"

	. "verif/lib/aclsim"
	"verif/lib/treesim"
	"verif/lib/vk"
)

var ctx = context.Background()

// fixture: the ACL log and who may write where.
type fixture struct {
	sim  *Sim
	recs []string // r0..r10 record ids
	root *treechangeproto.RawTreeChangeWithId
	// canWrite[author][record index]
	canWrite map[string][]bool
}

const unknownRecord = "bafyreiunknownaclrecord00000000000000000000000000000000000000"

func buildFixture(seed int64) *fixture {
	s := New(seed, "O", "W", "N", "G", "X")
	f := &fixture{sim: s}
	obs := func() *list.AclState { return s.Full(Observer(s.Seed)).AclState() }
	submit := func(label, au string, c ...*aclrecordproto.AclContentValue) {
		rec, err := s.Submit(s.Craft(s.Acc(au), s.HeadId(), c...))
		if err != nil {
			panic(fmt.Sprintf("fixture step %s: %v", label, err))
		}
		f.recs = append(f.recs, rec.Id)
	}
	f.recs = []string{s.RootId()} // r0
	submit("r1 add W writer + G guest", "O", CAccountsAdd(Writer, s.Acc("W")), CAccountsAdd(Guest, s.Acc("G")))
	submit("r2 demote W to reader", "O", CPermissionChange(s.Acc("W"), Reader))
	submit("r3 promote W to writer", "O", CPermissionChange(s.Acc("W"), Writer))
	// r4: remove W with a rotation addressed to everybody who stays
	var accs [][]byte
	for _, a := range obs().CurrentAccounts() {
		if a.Permissions.NoPermissions() || s.NameOf(a.PubKey) == "W" {
			continue
		}
		p, _ := a.PubKey.Marshall()
		accs = append(accs, p)
	}
	mp, _ := s.Acc("O").Pub().Marshall()
	submit("r4 remove W", "O", CAccountRemove(ReadKeyChange(mp, accs, nil), s.Acc("W")))
	submit("r5 re-add W writer", "O", CAccountsAdd(Writer, s.Acc("W")))
	submit("r6 make X admin", "O", CAccountsAdd(Admin, s.Acc("X")))
	// records that name W more than once: what W may do at such a record is what the LAST entry says
	submit("r7 W reader then writer (two contents)", "O", CPermissionChange(s.Acc("W"), Reader), CPermissionChange(s.Acc("W"), Writer))
	submit("r8 W writer then reader (two contents)", "O", CPermissionChange(s.Acc("W"), Writer), CPermissionChange(s.Acc("W"), Reader))
	submit("r9 W writer then reader (one content, two entries)", "O", CPermissionChanges(
		&aclrecordproto.AclAccountPermissionChange{Identity: s.Acc("W").Proto, Permissions: Writer},
		&aclrecordproto.AclAccountPermissionChange{Identity: s.Acc("W").Proto, Permissions: Reader}))
	submit("r10 W reader, writer, reader, writer (one content)", "O", CPermissionChanges(
		&aclrecordproto.AclAccountPermissionChange{Identity: s.Acc("W").Proto, Permissions: Reader},
		&aclrecordproto.AclAccountPermissionChange{Identity: s.Acc("W").Proto, Permissions: Writer},
		&aclrecordproto.AclAccountPermissionChange{Identity: s.Acc("W").Proto, Permissions: Reader},
		&aclrecordproto.AclAccountPermissionChange{Identity: s.Acc("W").Proto, Permissions: Writer}))
	//                    r0     r1     r2     r3     r4     r5     r6     r7     r8     r9     r10
	f.canWrite = map[string][]bool{
		"O": {true, true, true, true, true, true, true, true, true, true, true},
		"W": {false, true, false, true, false, true, true, true, false, false, true},
		"N": {false, false, false, false, false, false, false, false, false, false, false},
		"G": {false, false, false, false, false, false, false, false, false, false, false},
		"X": {false, false, false, false, false, false, true, true, true, true, true},
	}
	// the tree's root is created by the owner when the ACL holds only its root record
	rootAcl, err := s.View(s.Acc("O"), 1, nil)
	if err != nil {
		// the owner needs a verifier: use the validating one through Full on a truncated sim
		t := s.Fork()
		t.Log = t.Log[:1]
		rootAcl = t.Full(t.Acc("O"))
	}
	root, err := objecttree.CreateObjectTreeRoot(objecttree.ObjectTreeCreatePayload{
		PrivKey: s.Acc("O").Keys.SignKey, ChangeType: "verif.c02", ChangePayload: []byte("p"), SpaceId: "space", Seed: []byte("c02"), Timestamp: 1700000000,
	}, rootAcl)
	if err != nil {
		panic(err)
	}
	f.root = root
	return f
}

func (f *fixture) recIndex(id string) int {
	for i, r := range f.recs {
		if r == id {
			return i
		}
	}
	return -1
}

// world: one verifying tree over a fresh storage with the full ACL.
type world struct {
	f    *fixture
	acl  list.AclList
	tree objecttree.ObjectTree
	st   objecttree.Storage
	cb   objecttree.ChangeBuilder
}

func (f *fixture) newWorld() *world {
	w := &world{f: f, acl: f.sim.Full(Observer(f.sim.Seed))}
	w.st = treesim.NewMemTreeStorage(f.root)
	t, err := objecttree.BuildObjectTree(w.st, w.acl)
	if err != nil {
		panic(err)
	}
	w.tree = t
	w.cb = objecttree.NewChangeBuilder(crypto.NewKeyStorage(), f.root)
	return w
}

func (w *world) heads() []string {
	w.tree.Lock()
	defer w.tree.Unlock()
	return append([]string{}, w.tree.Heads()...)
}

type snapshot struct {
	heads  string
	iter   string
	stored string
}

func (w *world) snap() snapshot {
	w.tree.Lock()
	h := append([]string{}, w.tree.Heads()...)
	var it []string
	_ = w.tree.IterateRoot(nil, func(c *objecttree.Change) bool { it = append(it, c.Id); return true })
	w.tree.Unlock()
	sort.Strings(h)
	var st []string
	_ = w.st.GetAfterOrder(ctx, "", func(_ context.Context, c objecttree.StorageChange) (bool, error) {
		st = append(st, c.Id+":"+string(c.RawChange))
		return true, nil
	})
	sh, _ := w.st.Heads(ctx)
	sort.Strings(sh)
	return snapshot{heads: strings.Join(h, ","), iter: strings.Join(it, ","), stored: strings.Join(st, "|") + "#" + strings.Join(sh, ",")}
}

// build makes a signed change on top of parents.
func (w *world) build(author *Account, aclHead string, parents []string, base string, content string, ts int64) *treechangeproto.RawTreeChangeWithId {
	_, raw, err := w.cb.Build(objecttree.BuilderContent{
		TreeHeadIds: parents, AclHeadId: aclHead, SnapshotBaseId: base, Unencrypted: true,
		PrivKey: author.Keys.SignKey, Content: []byte(content), Timestamp: ts, DataType: "verif",
	})
	if err != nil {
		panic(err)
	}
	return raw
}

func (w *world) add(heads []string, raws ...*treechangeproto.RawTreeChangeWithId) (objecttree.AddResult, error) {
	w.tree.Lock()
	defer w.tree.Unlock()
	return w.tree.AddRawChanges(ctx, objecttree.RawChangesPayload{NewHeads: heads, RawChanges: raws})
}

// decode is the independent re-check of a stored / attached change: CID, signature, identity, cited record.
func (f *fixture) recheck(id string, raw []byte) string {
	if id == f.root.Id {
		return ""
	}
	if !cidutil.VerifyCid(raw, id) {
		return "id is not the content hash of the stored bytes"
	}
	rc := &treechangeproto.RawTreeChange{}
	if err := rc.UnmarshalVT(raw); err != nil {
		return "stored bytes do not decode"
	}
	tc := &treechangeproto.TreeChange{}
	if err := tc.UnmarshalVT(rc.Payload); err != nil {
		return "stored payload does not decode"
	}
	pk, err := crypto.UnmarshalEd25519PublicKeyProto(tc.Identity)
	if err != nil {
		return "identity does not decode"
	}
	if ok, err := pk.Verify(rc.Payload, rc.Signature); err != nil || !ok {
		return "signature does not verify under the named identity"
	}
	author := f.sim.NameOf(pk)
	ri := f.recIndex(tc.AclHeadId)
	if ri < 0 {
		return "cites an ACL record that is not known"
	}
	tab, ok := f.canWrite[author]
	if !ok || !tab[ri] {
		return fmt.Sprintf("author %s had no write permission at cited record r%d", author, ri)
	}
	return ""
}

type finding struct{ key, what string }

// judgeState re-checks everything attached or stored after a call.
func (w *world) judgeState(parentsOf map[string][]string) (out []finding) {
	stored := map[string]bool{}
	_ = w.st.GetAfterOrder(ctx, "", func(_ context.Context, c objecttree.StorageChange) (bool, error) {
		stored[c.Id] = true
		if m := w.f.recheck(c.Id, c.RawChange); m != "" {
			out = append(out, finding{"persisted-invalid-change:" + firstWords(m), fmt.Sprintf("stored change %s: %s", short(c.Id), m)})
		}
		return true, nil
	})
	w.tree.Lock()
	_ = w.tree.IterateRoot(nil, func(c *objecttree.Change) bool {
		if !stored[c.Id] {
			out = append(out, finding{"attached-but-not-stored", fmt.Sprintf("%s is presented by the tree but not stored", short(c.Id))})
		}
		return true
	})
	w.tree.Unlock()
	return
}

func short(id string) string {
	if len(id) > 8 {
		return id[len(id)-6:]
	}
	return id
}

func firstWords(s string) string {
	f := strings.Fields(s)
	if len(f) > 6 {
		f = f[:6]
	}
	return strings.Join(f, "-")
}

func TestCheck(t *testing.T) {
	logger.SetDefault(zap.NewNop())
	logger.SetNamedLevels(logger.LevelsFromStr("*=fatal"))
	vk.Main(t, vk.Spec{
		Prop:  "C02",
		Level: "exploration",
		Rule: "A1: every author (owner, writer with a demote/promote/remove/re-add history, never-member, guest, late admin) x every cited ACL record (r0..r10 — r7..r10 name the writer two to four times in one record, the last entry decides — and an unknown one) x every record cited by the parent change, built with the real ChangeBuilder and delivered alone and inside [valid, case, valid]; A2: for accepted changes every byte x 6 values (thorough 255), every truncation, every id character, every field of RawTreeChange / TreeChange edited without re-signing (with and without recomputed id), and re-signed edits of identity / ACL head / parents / snapshot base, each alone and mid-batch; " +
			"evaluations = AddRawChanges calls judged; distinct_nontrivial = distinct (family, author, cited record, parent record | mutation class, verdict) classes",
		Assumptions: []string{
			"the tree's ACL view belongs to a non-member observer with the fully validating verifier, so ACL records may carry placeholder key material; tree content is unencrypted",
			"reference verdict = hand-written permission table next to the fixture script: write permission at the cited record, record known, cited record not older than the parents' cited records",
		},
		Budget: func(tier string) time.Duration {
			if tier == "quick" {
				return 90 * time.Second
			}
			return 20 * time.Minute
		},
	}, body)
}

// replayCase restricts judging to one recorded case.
var replayCase *acase

func viol(c *vk.Ctx, key, what string, rep acase) {
	if replayCase != nil && rep != *replayCase {
		return
	}
	c.Violation(key, what, rep)
}

type acase struct {
	Family string `json:"family"`
	Label  string `json:"label"`
}

func body(c *vk.Ctx) {
	f := buildFixture(c.Seed)
	if c.Replay != "" {
		// every case is identified by (family, label); the families are re-run and only that case is judged
		var rf struct {
			Case acase `json:"case"`
		}
		if err := vk.ReadJSON(c.Replay, &rf); err != nil || rf.Case.Family == "" {
			c.Broken("replay file: %v (case %+v)", err, rf.Case)
			return
		}
		replayCase = &rf.Case
	}
	var wg sync.WaitGroup
	sem := make(chan struct{}, 16)
	run := func(fn func()) {
		wg.Add(1)
		sem <- struct{}{}
		go func() {
			defer wg.Done()
			defer func() { <-sem }()
			fn()
		}()
	}
	authors := []string{"O", "W", "N", "G", "X"}
	cites := append(append([]string{}, f.recs...), unknownRecord)
	accepted, rejected := 0, 0
	var mu sync.Mutex
	// ---- A1 -------------------------------------------------------------------------------------------
	for pi := range f.recs {
		for _, au := range authors {
			for ci, cite := range cites {
				for _, mode := range []string{"alone", "mid-batch", "alone-from-non-head", "mid-batch-from-non-head"} {
					pi, au, ci, cite, mode := pi, au, ci, cite, mode
					run(func() {
						ok := positionCase(c, f, pi, au, ci, cite, mode)
						mu.Lock()
						if ok {
							accepted++
						} else {
							rejected++
						}
						mu.Unlock()
					})
				}
			}
		}
	}
	wg.Wait()
	c.Bound("A1_cases", (len(f.recs))*len(authors)*len(cites)*4)
	c.Require(accepted > 10 && rejected > 10, "vacuity: A1 accepted %d and rejected %d cases", accepted, rejected)
	// ---- A3: merge changes -------------------------------------------------------------------------------
	// two concurrent owner changes citing r[p1] and r[p2]; the case change names both as parents (in that order) and
	// cites `cite`; every pair p1 != p2, every author, every cited record, and both id orders of the two parents
	a3 := 0
	for p1 := range f.recs {
		for p2 := range f.recs {
			if p1 == p2 {
				continue
			}
			for _, au := range authors {
				for ci, cite := range cites {
					for _, firstLess := range []bool{true, false} {
						p1, p2, au, ci, cite, firstLess := p1, p2, au, ci, cite, firstLess
						a3++
						run(func() { mergeCase(c, f, p1, p2, au, ci, cite, firstLess) })
					}
				}
			}
		}
	}
	wg.Wait()
	c.Bound("A3_merge_cases", a3)
	// ---- A4: a refused batch leaves no trace in what the tree does next ---------------------------------------
	// tree with two heads of different depth (root <- base <- a <- c and base <- b, with a < b so that b is presented
	// last, and c greater / smaller than b); an unauthorised change on a, b or c is refused; then the owner continues
	// from c, from b, or merges both. Everything observable (verdict, append / rebuild mode, heads, iteration, stored
	// changes with their order ids) must equal that of a twin tree that never saw the refused change.
	a4 := 0
	for _, cGreater := range []bool{true, false} {
		for _, badParent := range []string{"a", "b", "c"} {
			for _, au := range []string{"N", "G", "W"} {
				for _, cont := range []string{"c", "b", "b,c"} {
					cGreater, badParent, au, cont := cGreater, badParent, au, cont
					a4++
					run(func() { continueCase(c, f, cGreater, badParent, au, cont) })
				}
			}
		}
	}
	wg.Wait()
	c.Bound("A4_continue_after_refusal_cases", a4)
	// ---- A5: parts of a genuine change re-used in a second raw change -----------------------------------------
	// the decoder works on one scratch message per tree: a raw change that leaves a field out must not inherit it
	// from the change decoded before it. Forged = only the signature / only the payload of the genuine change that
	// precedes it (id = hash of the forged bytes), delivered in the same batch, in the next call, and alone.
	for _, part := range []string{"signature-only", "payload-only", "empty"} {
		for _, delivery := range []string{"same-batch", "next-call", "alone"} {
			part, delivery := part, delivery
			run(func() { reuseCase(c, f, part, delivery) })
		}
	}
	wg.Wait()
	// ---- A2 -------------------------------------------------------------------------------------------
	vals := vk.Pick(c, 6, 255)
	c.Bound("A2_byte_values_per_offset", vals)
	mutationCases(c, f, vals, run)
	wg.Wait()
}

// positionCase: base change by the owner citing r[pi], then the case change by author citing `cite`.
func positionCase(c *vk.Ctx, f *fixture, pi int, au string, ci int, cite string, mode string) (acceptedCase bool) {
	w := f.newWorld()
	base := w.build(f.sim.Acc("O"), f.recs[pi], []string{f.root.Id}, f.root.Id, "base", 1700000100)
	if _, err := w.add([]string{base.Id}, base); err != nil {
		viol(c, "authorised-change-rejected:author=O:base", fmt.Sprintf("A1: the owner's base change citing r%d was rejected: %v", pi, err), acase{"A1", fmt.Sprintf("base r%d", pi)})
		return
	}
	var otherHeads []string // heads of the tree that the case batch does not replace
	if strings.HasSuffix(mode, "-from-non-head") {
		// the case change branches from a change that is no longer a head: the owner has already continued from base
		mode = strings.TrimSuffix(mode, "-from-non-head")
		top := w.build(f.sim.Acc("O"), f.recs[len(f.recs)-1], []string{base.Id}, f.root.Id, "top", 1700000150)
		if _, err := w.add([]string{top.Id}, top); err != nil {
			viol(c, "authorised-change-rejected:author=O:top", fmt.Sprintf("A1: the owner's second change on top of the base citing r%d was rejected: %v", pi, err), acase{"A1", fmt.Sprintf("top r%d", pi)})
			return
		}
		otherHeads = []string{top.Id}
		mode += "+non-head-parent"
	}
	author := f.sim.Acc(au)
	want := ci < len(f.recs) && f.canWrite[au][ci] && ci >= pi
	label := fmt.Sprintf("author=%s cites=r%d parent-cites=r%d %s", au, ci, pi, mode)
	if ci == len(f.recs) {
		label = fmt.Sprintf("author=%s cites=unknown parent-cites=r%d %s", au, pi, mode)
	}
	tc := w.build(author, cite, []string{base.Id}, f.root.Id, "case", 1700000200)
	before := w.snap()
	var err error
	var res objecttree.AddResult
	panicked, what := vk.Recover(func() {
		if strings.HasPrefix(mode, "alone") {
			heads := append([]string{tc.Id}, otherHeads...)
			sort.Strings(heads)
			res, err = w.add(heads, tc)
		} else {
			// [valid sibling, case, valid child of the sibling]
			v1 := w.build(f.sim.Acc("O"), f.recs[len(f.recs)-1], []string{base.Id}, f.root.Id, "valid-1", 1700000201)
			v2 := w.build(f.sim.Acc("O"), f.recs[len(f.recs)-1], []string{v1.Id}, f.root.Id, "valid-2", 1700000202)
			heads := append([]string{tc.Id, v2.Id}, otherHeads...)
			sort.Strings(heads)
			res, err = w.add(heads, v1, tc, v2)
		}
	})
	c.Count("evaluations", 1)
	c.Count("executions", 1)
	rep := acase{"A1", label}
	if panicked {
		viol(c, "panic:"+vk.PanicSite(what), "A1 "+label+": "+what, rep)
		return
	}
	gotAccepted := false
	for _, a := range res.Added {
		if a.Id == tc.Id {
			gotAccepted = true
		}
	}
	if has, _ := w.st.Has(ctx, tc.Id); has {
		gotAccepted = true
	}
	verdict := "rejected"
	if gotAccepted {
		verdict = "accepted"
	}
	c.Distinct("distinct", fmt.Sprintf("A1|%s|c%d|p%d|%s|%s", au, ci, pi, mode, verdict))
	if gotAccepted && !want {
		viol(c, fmt.Sprintf("unauthorised-change-accepted:author=%s:%s", au, reason(f, au, ci, pi)), "A1 "+label+": the change was attached / stored", rep)
	}
	if !gotAccepted && want {
		viol(c, fmt.Sprintf("authorised-change-rejected:author=%s", au), fmt.Sprintf("A1 %s: a change the author was entitled to make was rejected (%v)", label, err), rep)
	}
	if err != nil {
		if after := w.snap(); after != before {
			viol(c, "rejected-batch-changed-state:"+diffField(before, after), fmt.Sprintf("A1 %s: AddRawChanges failed (%v) but heads / iteration / storage changed", label, err), rep)
		}
	}
	for _, fd := range w.judgeState(nil) {
		viol(c, fd.key, "A1 "+label+": "+fd.what, rep)
	}
	if c.Shard == 0 && pi == 2 && strings.HasPrefix(mode, "alone") && (ci == 1 || ci == 2 || ci == 3) {
		c.Sample(map[string]any{"family": "A1", "case": label, "verdict": verdict, "error": fmt.Sprint(err)})
	}
	return gotAccepted
}

// mergeCase: see A3 in body.
func mergeCase(c *vk.Ctx, f *fixture, p1, p2 int, au string, ci int, cite string, firstLess bool) {
	w := f.newWorld()
	var b1, b2 *treechangeproto.RawTreeChangeWithId
search:
	for i := 0; i < 16; i++ {
		b1 = w.build(f.sim.Acc("O"), f.recs[p1], []string{f.root.Id}, f.root.Id, fmt.Sprintf("left-%d", i), 1700000100)
		for k := 0; k < 64; k++ {
			b2 = w.build(f.sim.Acc("O"), f.recs[p2], []string{f.root.Id}, f.root.Id, fmt.Sprintf("right-%d", k), 1700000100)
			if (b1.Id < b2.Id) == firstLess {
				break search
			}
			b2 = nil
		}
	}
	label := fmt.Sprintf("author=%s cites=r%d parents-cite=[r%d,r%d] first-parent-id-less=%v", au, ci, p1, p2, firstLess)
	if ci == len(f.recs) {
		label = fmt.Sprintf("author=%s cites=unknown parents-cite=[r%d,r%d] first-parent-id-less=%v", au, p1, p2, firstLess)
	}
	rep := acase{"A3", label}
	if b2 == nil {
		c.Broken("A3 %s: none of 16 x 64 contents gives the wanted id order", label)
		return
	}
	for _, b := range []*treechangeproto.RawTreeChangeWithId{b1, b2} {
		if _, err := w.add([]string{b.Id}, b); err != nil {
			viol(c, "authorised-change-rejected:author=O:merge-parent", fmt.Sprintf("A3 %s: an owner's change on the root was rejected: %v", label, err), rep)
			return
		}
	}
	hi := max(p1, p2)
	want := ci < len(f.recs) && f.canWrite[au][ci] && ci >= hi
	tc := w.build(f.sim.Acc(au), cite, []string{b1.Id, b2.Id}, f.root.Id, "merge", 1700000200)
	before := w.snap()
	var err error
	var res objecttree.AddResult
	panicked, what := vk.Recover(func() { res, err = w.add([]string{tc.Id}, tc) })
	c.Count("evaluations", 1)
	c.Count("executions", 1)
	if panicked {
		viol(c, "panic:"+vk.PanicSite(what), "A3 "+label+": "+what, rep)
		return
	}
	got := false
	for _, a := range res.Added {
		got = got || a.Id == tc.Id
	}
	if has, _ := w.st.Has(ctx, tc.Id); has {
		got = true
	}
	c.Distinct("distinct", fmt.Sprintf("A3|%s|c%d|p%d,%d|%v|%v", au, ci, p1, p2, firstLess, got))
	if got && !want {
		viol(c, fmt.Sprintf("unauthorised-change-accepted:merge:author=%s:%s", au, reason(f, au, ci, hi)), "A3 "+label+": the merge change was attached / stored", rep)
	}
	if !got && want {
		viol(c, fmt.Sprintf("authorised-change-rejected:merge:author=%s", au), fmt.Sprintf("A3 %s: a merge change the author was entitled to make was rejected (%v)", label, err), rep)
	}
	if err != nil {
		if after := w.snap(); after != before {
			viol(c, "rejected-batch-changed-state:merge:"+diffField(before, after), fmt.Sprintf("A3 %s: AddRawChanges failed (%v) but heads / iteration / storage changed", label, err), rep)
		}
	}
	for _, fd := range w.judgeState(nil) {
		viol(c, fd.key, "A3 "+label+": "+fd.what, rep)
	}
}

// orders renders the stored (id, order id) sequence.
func (w *world) orders() string {
	var st []string
	_ = w.st.GetAfterOrder(ctx, "", func(_ context.Context, c objecttree.StorageChange) (bool, error) {
		st = append(st, short(c.Id)+"@"+c.OrderId)
		return true, nil
	})
	return strings.Join(st, " ")
}

// continueCase: see A4 in body. W cites r4 (the record that removed it): refused as well.
func continueCase(c *vk.Ctx, f *fixture, cGreater bool, badParent, au, cont string) {
	label := fmt.Sprintf("c-id-greater-than-b=%v refused-author=%s refused-parent=%s continue-from=%s", cGreater, au, badParent, cont)
	rep := acase{"A4", label}
	last := f.recs[len(f.recs)-1]
	owner := f.sim.Acc("O")
	mk := func() (*world, map[string]*treechangeproto.RawTreeChangeWithId, bool) {
		w := f.newWorld()
		m := map[string]*treechangeproto.RawTreeChangeWithId{}
		m["base"] = w.build(owner, last, []string{f.root.Id}, f.root.Id, "base", 1700000100)
		// a < b; c on a with c > b or c < b
		found := false
		for i := 0; i < 64 && !found; i++ {
			m["a"] = w.build(owner, last, []string{m["base"].Id}, f.root.Id, fmt.Sprintf("a-%d", i), 1700000110)
			m["b"] = w.build(owner, last, []string{m["base"].Id}, f.root.Id, fmt.Sprintf("b-%d", i), 1700000111)
			if m["a"].Id >= m["b"].Id {
				continue
			}
			for j := 0; j < 64 && !found; j++ {
				m["c"] = w.build(owner, last, []string{m["a"].Id}, f.root.Id, fmt.Sprintf("c-%d", j), 1700000120)
				found = (m["c"].Id > m["b"].Id) == cGreater
			}
		}
		if !found {
			return nil, nil, false
		}
		for _, n := range []string{"base", "a", "b", "c"} {
			heads := []string{m[n].Id}
			if n == "c" {
				heads = []string{m["b"].Id, m["c"].Id}
				sort.Strings(heads)
			}
			if _, err := w.add(heads, m[n]); err != nil {
				return nil, nil, false
			}
		}
		return w, m, true
	}
	w, m, ok1 := mk()
	twin, _, ok2 := mk()
	if !ok1 || !ok2 {
		c.Broken("A4 %s: could not build the two-headed tree", label)
		return
	}
	cite := last
	if au == "W" {
		cite = f.recs[4]
	}
	bad := w.build(f.sim.Acc(au), cite, []string{m[badParent].Id}, f.root.Id, "refused", 1700000200)
	heads := []string{bad.Id}
	for _, h := range []string{"b", "c"} {
		if h != badParent {
			heads = append(heads, m[h].Id)
		}
	}
	sort.Strings(heads)
	before := w.snap()
	_, err := w.add(heads, bad)
	c.Count("evaluations", 1)
	c.Count("executions", 2)
	if err == nil {
		viol(c, "unauthorised-change-accepted:A4:author="+au, "A4 "+label+": the unauthorised change was not refused", rep)
		return
	}
	if after := w.snap(); after != before {
		viol(c, "rejected-batch-changed-state:A4:"+diffField(before, after), fmt.Sprintf("A4 %s: AddRawChanges failed (%v) but heads / iteration / storage changed", label, err), rep)
		return
	}
	var parents []string
	for _, n := range strings.Split(cont, ",") {
		parents = append(parents, m[n].Id)
	}
	next := w.build(owner, last, parents, f.root.Id, "continued", 1700000300)
	nh := []string{next.Id}
	for _, h := range []string{"b", "c"} {
		if !strings.Contains(","+cont+",", ","+h+",") {
			nh = append(nh, m[h].Id)
		}
	}
	sort.Strings(nh)
	r1, e1 := w.add(nh, next)
	r2, e2 := twin.add(nh, next)
	c.Distinct("distinct", fmt.Sprintf("A4|%s|%v|%v", label, e1 == nil, r1.Mode))
	switch {
	case (e1 == nil) != (e2 == nil):
		viol(c, "refused-batch-changes-next-verdict", fmt.Sprintf("A4 %s: the owner's next change ends %v after the refusal but %v on a tree that never saw the refused change", label, e1, e2), rep)
	case r1.Mode != r2.Mode:
		viol(c, "refused-batch-changes-next-mode", fmt.Sprintf("A4 %s: the owner's next change is reported with mode %v after the refusal but %v on a tree that never saw the refused change", label, r1.Mode, r2.Mode), rep)
	case w.snap() != twin.snap():
		viol(c, "refused-batch-changes-next-state:"+diffField(twin.snap(), w.snap()), fmt.Sprintf("A4 %s: after the owner's next change heads / iteration / storage differ from a tree that never saw the refused change", label), rep)
	case w.orders() != twin.orders():
		viol(c, "refused-batch-changes-stored-order", fmt.Sprintf("A4 %s: stored order ids after the owner's next change: %s; on a tree that never saw the refused change: %s", label, w.orders(), twin.orders()), rep)
	}
	for _, fd := range w.judgeState(nil) {
		viol(c, fd.key, "A4 "+label+": "+fd.what, rep)
	}
}

// reuseCase: see A5 in body.
func reuseCase(c *vk.Ctx, f *fixture, part, delivery string) {
	label := part + " " + delivery
	rep := acase{"A5", label}
	w := f.newWorld()
	last := f.recs[len(f.recs)-1]
	g := w.build(f.sim.Acc("O"), last, []string{f.root.Id}, f.root.Id, "genuine", 1700000100)
	raw := &treechangeproto.RawTreeChange{}
	if err := raw.UnmarshalVT(g.RawChange); err != nil {
		c.Broken("A5: %v", err)
		return
	}
	forged := &treechangeproto.RawTreeChange{}
	switch part {
	case "signature-only":
		forged.Signature = raw.Signature
	case "payload-only":
		forged.Payload = raw.Payload
	}
	fb, _ := forged.MarshalVT()
	fid, err := cidutil.NewCidFromBytes(fb)
	if err != nil {
		c.Broken("A5: %v", err)
		return
	}
	fr := &treechangeproto.RawTreeChangeWithId{RawChange: fb, Id: fid}
	c.Count("evaluations", 1)
	c.Count("executions", 1)
	c.Distinct("distinct", "A5|"+label)
	var addErr error
	panicked, what := vk.Recover(func() {
		switch delivery {
		case "same-batch":
			_, addErr = w.add([]string{fr.Id}, g, fr)
		case "next-call":
			if _, err := w.add([]string{g.Id}, g); err != nil {
				addErr = fmt.Errorf("genuine change rejected: %w", err)
				return
			}
			_, addErr = w.add([]string{fr.Id}, fr)
		default:
			_, addErr = w.add([]string{fr.Id}, fr)
		}
	})
	if panicked {
		viol(c, "panic:"+vk.PanicSite(what), "A5 "+label+": "+what, rep)
		return
	}
	if has, _ := w.st.Has(ctx, fr.Id); has {
		viol(c, "forged-change-stored:"+part, fmt.Sprintf("A5 %s: a raw change made of a genuine change's %s alone was stored (AddRawChanges: %v)", label, part, addErr), rep)
	}
	for _, h := range w.heads() {
		if h == fr.Id {
			viol(c, "forged-change-attached:"+part, fmt.Sprintf("A5 %s: a raw change made of a genuine change's %s alone became a head", label, part), rep)
		}
	}
	for _, fd := range w.judgeState(nil) {
		viol(c, fd.key, "A5 "+label+": "+fd.what, rep)
	}
}

func reason(f *fixture, au string, ci, pi int) string {
	switch {
	case ci >= len(f.recs):
		return "unknown-acl-record"
	case !f.canWrite[au][ci]:
		return "no-write-permission-at-cited-record"
	default:
		return "cited-record-older-than-parents"
	}
}

func diffField(a, b snapshot) string {
	switch {
	case a.heads != b.heads:
		return "heads"
	case a.iter != b.iter:
		return "iteration"
	default:
		return "storage"
	}
}

// mutationCases: alterations of a change that is accepted when unaltered.
func mutationCases(c *vk.Ctx, f *fixture, vals int, run func(func())) {
	// the victim change: writer W citing r3 on top of an owner change citing r1
	mk := func() (*world, *treechangeproto.RawTreeChangeWithId, *treechangeproto.RawTreeChangeWithId) {
		w := f.newWorld()
		base := w.build(f.sim.Acc("O"), f.recs[1], []string{f.root.Id}, f.root.Id, "base", 1700000100)
		if _, err := w.add([]string{base.Id}, base); err != nil {
			panic(err)
		}
		victim := w.build(f.sim.Acc("W"), f.recs[3], []string{base.Id}, f.root.Id, "victim-content", 1700000300)
		return w, base, victim
	}
	{
		w, _, v := mk()
		if _, err := w.add([]string{v.Id}, v); err != nil {
			viol(c, "authorised-change-rejected:author=W:victim", fmt.Sprintf("A2: writer W's unaltered change citing r3 (after W was later removed and re-added) is rejected: %v", err), acase{"A2", "victim"})
			return
		}
	}
	type mut struct {
		class string
		label string
		make  func(w *world, base, v *treechangeproto.RawTreeChangeWithId) (*treechangeproto.RawTreeChangeWithId, bool) // bool: acceptance allowed by the reference
	}
	var muts []mut
	_, _, v0 := mk()
	n := len(v0.RawChange)
	byteVals := func(b byte) []byte {
		if vals >= 255 {
			var o []byte
			for x := 0; x < 256; x++ {
				if byte(x) != b {
					o = append(o, byte(x))
				}
			}
			return o
		}
		set := map[byte]bool{^b: true, b ^ 1: true, b ^ 0x80: true, b + 1: true, 0: true, 0xff: true}
		delete(set, b)
		var o []byte
		for x := range set {
			o = append(o, x)
		}
		sort.Slice(o, func(i, j int) bool { return o[i] < o[j] })
		return o
	}
	for off := 0; off < n; off++ {
		for _, nb := range byteVals(v0.RawChange[off]) {
			off, nb := off, nb
			muts = append(muts, mut{"byte-flip-id-kept", fmt.Sprintf("offset %d -> %02x", off, nb), func(w *world, _, v *treechangeproto.RawTreeChangeWithId) (*treechangeproto.RawTreeChangeWithId, bool) {
				b := append([]byte{}, v.RawChange...)
				b[off] = nb
				return &treechangeproto.RawTreeChangeWithId{RawChange: b, Id: v.Id}, false
			}})
		}
	}
	for l := 0; l < n; l++ {
		l := l
		muts = append(muts, mut{"truncation", fmt.Sprintf("length %d", l), func(w *world, _, v *treechangeproto.RawTreeChangeWithId) (*treechangeproto.RawTreeChangeWithId, bool) {
			return &treechangeproto.RawTreeChangeWithId{RawChange: append([]byte{}, v.RawChange[:l]...), Id: v.Id}, false
		}})
	}
	for pos := 0; pos < len(v0.Id); pos++ {
		pos := pos
		muts = append(muts, mut{"id-character", fmt.Sprintf("position %d", pos), func(w *world, _, v *treechangeproto.RawTreeChangeWithId) (*treechangeproto.RawTreeChangeWithId, bool) {
			id := []byte(v.Id)
			if id[pos] == 'a' {
				id[pos] = 'b'
			} else {
				id[pos] = 'a'
			}
			return &treechangeproto.RawTreeChangeWithId{RawChange: v.RawChange, Id: string(id)}, false
		}})
	}
	// other spellings of the very same content hash (the id must be exactly the canonical string): one letter in the
	// other case at every position, the whole id in upper case, the same cid in other multibases
	respell := func(label string, f func(id string) string) {
		muts = append(muts, mut{"id-respelled", label, func(w *world, _, v *treechangeproto.RawTreeChangeWithId) (*treechangeproto.RawTreeChangeWithId, bool) {
			id := f(v.Id)
			if id == v.Id || id == "" {
				return nil, false
			}
			return &treechangeproto.RawTreeChangeWithId{RawChange: v.RawChange, Id: id}, false
		}})
	}
	for pos := 0; pos < len(v0.Id); pos++ {
		pos := pos
		respell(fmt.Sprintf("other case at position %d", pos), func(id string) string {
			b := []byte(id)
			if b[pos] >= 'a' && b[pos] <= 'z' {
				b[pos] -= 'a' - 'A'
			}
			return string(b)
		})
	}
	respell("upper case", strings.ToUpper)
	for _, enc := range []multibase.Encoding{multibase.Base58BTC, multibase.Base32Upper, multibase.Base36, multibase.Base16, multibase.Base64} {
		enc := enc
		respell("multibase "+multibase.EncodingToStr[enc], func(id string) string {
			c, err := cid.Decode(id)
			if err != nil {
				return ""
			}
			out, err := c.StringOfBase(enc)
			if err != nil {
				return ""
			}
			return out
		})
	}
	// field edits: edit(tc) changes the signed TreeChange; resign selects who signs afterwards (nil = keep the old signature)
	type fieldEdit struct {
		name   string
		edit   func(f *fixture, tc *treechangeproto.TreeChange, base string)
		resign string // "" keep signature, else account name that signs
		allow  bool   // acceptance allowed by the reference
	}
	other, _ := f.sim.Acc("O").Pub().Marshall()
	nProto, _ := f.sim.Acc("N").Pub().Marshall()
	edits := []fieldEdit{
		{"content", func(f *fixture, tc *treechangeproto.TreeChange, _ string) { tc.ChangesData = []byte("other") }, "", false},
		{"timestamp", func(f *fixture, tc *treechangeproto.TreeChange, _ string) { tc.Timestamp++ }, "", false},
		{"acl-head->r5", func(f *fixture, tc *treechangeproto.TreeChange, _ string) { tc.AclHeadId = f.recs[5] }, "", false},
		{"identity->owner", func(f *fixture, tc *treechangeproto.TreeChange, _ string) { tc.Identity = other }, "", false},
		{"parents->root", func(f *fixture, tc *treechangeproto.TreeChange, _ string) { tc.TreeHeadIds = []string{f.root.Id} }, "", false},
		{"snapshot-flag", func(f *fixture, tc *treechangeproto.TreeChange, _ string) { tc.IsSnapshot = true }, "", false},
		{"data-type", func(f *fixture, tc *treechangeproto.TreeChange, _ string) { tc.DataType = "x" }, "", false},
		// re-signed by the same author: the verdict comes from the permission table
		{"resigned:content", func(f *fixture, tc *treechangeproto.TreeChange, _ string) { tc.ChangesData = []byte("other") }, "W", true},
		{"resigned:acl-head->r2(reader)", func(f *fixture, tc *treechangeproto.TreeChange, _ string) { tc.AclHeadId = f.recs[2] }, "W", false},
		{"resigned:acl-head->r4(removed)", func(f *fixture, tc *treechangeproto.TreeChange, _ string) { tc.AclHeadId = f.recs[4] }, "W", false},
		{"resigned:acl-head->r0(before-parent)", func(f *fixture, tc *treechangeproto.TreeChange, _ string) { tc.AclHeadId = f.recs[0] }, "W", false},
		{"resigned:acl-head->unknown", func(f *fixture, tc *treechangeproto.TreeChange, _ string) { tc.AclHeadId = unknownRecord }, "W", false},
		{"resigned:acl-head->r5", func(f *fixture, tc *treechangeproto.TreeChange, _ string) { tc.AclHeadId = f.recs[5] }, "W", true},
		{"resigned:identity->owner-signed-by-W", func(f *fixture, tc *treechangeproto.TreeChange, _ string) { tc.Identity = other }, "W", false},
		{"resigned:identity->N-signed-by-N", func(f *fixture, tc *treechangeproto.TreeChange, _ string) { tc.Identity = nProto }, "N", false},
		{"resigned:identity-empty", func(f *fixture, tc *treechangeproto.TreeChange, _ string) { tc.Identity = nil }, "W", false},
		{"resigned:identity-garbage", func(f *fixture, tc *treechangeproto.TreeChange, _ string) { tc.Identity = []byte{1, 2, 3} }, "W", false},
		{"resigned:dangling-parent", func(f *fixture, tc *treechangeproto.TreeChange, _ string) {
			tc.TreeHeadIds = []string{"bafyreidanglingparent0000000000000000000000000000000000000000"}
		}, "W", false},
		{"resigned:parent-listed-twice", func(f *fixture, tc *treechangeproto.TreeChange, b string) { tc.TreeHeadIds = []string{b, b} }, "W", true},
		{"resigned:snapshot-base-unknown", func(f *fixture, tc *treechangeproto.TreeChange, _ string) {
			tc.SnapshotBaseId = "bafyreiunknownsnapshot000000000000000000000000000000000000000"
		}, "W", false},
		{"resigned:snapshot-base-not-a-snapshot", func(f *fixture, tc *treechangeproto.TreeChange, b string) { tc.SnapshotBaseId = b }, "W", false},
	}
	for _, fe := range edits {
		for _, recompute := range []bool{false, true} {
			fe, recompute := fe, recompute
			if fe.resign != "" && !recompute {
				continue // a re-signed change without a recomputed id is a plain CID mismatch (covered by byte flips)
			}
			muts = append(muts, mut{"field:" + fe.name, fmt.Sprintf("recompute-id=%v", recompute), func(w *world, base, v *treechangeproto.RawTreeChangeWithId) (*treechangeproto.RawTreeChangeWithId, bool) {
				rc := &treechangeproto.RawTreeChange{}
				if err := rc.UnmarshalVT(v.RawChange); err != nil {
					panic(err)
				}
				tc := &treechangeproto.TreeChange{}
				if err := tc.UnmarshalVT(rc.Payload); err != nil {
					panic(err)
				}
				fe.edit(w.f, tc, base.Id)
				payload, _ := tc.MarshalVT()
				rc.Payload = payload
				if fe.resign != "" {
					sig, err := w.f.sim.Acc(fe.resign).Keys.SignKey.Sign(payload)
					if err != nil {
						panic(err)
					}
					rc.Signature = sig
				}
				raw, _ := rc.MarshalVT()
				id := v.Id
				if recompute {
					id, _ = cidutil.NewCidFromBytes(raw)
				}
				return &treechangeproto.RawTreeChangeWithId{RawChange: raw, Id: id}, fe.allow && recompute
			}})
		}
	}
	// wrapper-level edits (unsigned outer message) without / with recomputed id
	muts = append(muts,
		mut{"wrapper:signature-removed", "recompute-id=true", func(w *world, _, v *treechangeproto.RawTreeChangeWithId) (*treechangeproto.RawTreeChangeWithId, bool) {
			rc := &treechangeproto.RawTreeChange{}
			rc.UnmarshalVT(v.RawChange)
			rc.Signature = nil
			raw, _ := rc.MarshalVT()
			id, _ := cidutil.NewCidFromBytes(raw)
			return &treechangeproto.RawTreeChangeWithId{RawChange: raw, Id: id}, false
		}},
		mut{"wrapper:signature-of-other-change", "recompute-id=true", func(w *world, base, v *treechangeproto.RawTreeChangeWithId) (*treechangeproto.RawTreeChangeWithId, bool) {
			rc, rb := &treechangeproto.RawTreeChange{}, &treechangeproto.RawTreeChange{}
			rc.UnmarshalVT(v.RawChange)
			rb.UnmarshalVT(base.RawChange)
			rc.Signature = rb.Signature
			raw, _ := rc.MarshalVT()
			id, _ := cidutil.NewCidFromBytes(raw)
			return &treechangeproto.RawTreeChangeWithId{RawChange: raw, Id: id}, false
		}},
	)
	c.Bound("A2_mutations", len(muts)*2)
	for mi, m := range muts {
		for _, mode := range []string{"alone", "mid-batch"} {
			mi, m, mode := mi, m, mode
			run(func() {
				if c.TimeUp() {
					c.NotExhaustive("deadline in A2")
					return
				}
				w, base, v := mk()
				mutated, allowed := m.make(w, base, v)
				if mutated == nil {
					return
				}
				if mutated.Id == v.Id && string(mutated.RawChange) == string(v.RawChange) {
					return
				}
				label := fmt.Sprintf("%s %s %s", m.class, m.label, mode)
				rep := acase{"A2", label}
				before := w.snap()
				var err error
				var res objecttree.AddResult
				panicked, what := vk.Recover(func() {
					if mode == "alone" {
						res, err = w.add([]string{mutated.Id}, mutated)
					} else {
						v1 := w.build(w.f.sim.Acc("O"), w.f.recs[6], []string{base.Id}, w.f.root.Id, "valid-1", 1700000401)
						v2 := w.build(w.f.sim.Acc("O"), w.f.recs[6], []string{v1.Id}, w.f.root.Id, "valid-2", 1700000402)
						heads := []string{mutated.Id, v2.Id}
						sort.Strings(heads)
						res, err = w.add(heads, v1, mutated, v2)
					}
				})
				c.Count("evaluations", 1)
				c.Count("executions", 1)
				if panicked {
					viol(c, "panic:"+vk.PanicSite(what), "A2 "+label+": "+what, rep)
					return
				}
				got := false
				for _, a := range res.Added {
					got = got || a.Id == mutated.Id
				}
				if has, _ := w.st.Has(ctx, mutated.Id); has && mutated.Id != v.Id {
					got = true
				}
				// an alteration that keeps the original id: accepted means the ORIGINAL id is now stored with altered bytes
				if mutated.Id == v.Id {
					if sc, e := w.st.Get(ctx, v.Id); e == nil && string(sc.RawChange) != "" {
						got = true
					}
				}
				verdict := "rejected"
				if got {
					verdict = "accepted"
				}
				c.Distinct("distinct", "A2|"+m.class+"|"+mode+"|"+verdict)
				if got && !allowed {
					viol(c, "altered-change-accepted:"+m.class, "A2 "+label+": the altered change was attached / stored", rep)
				}
				if !got && allowed {
					viol(c, "authorised-resigned-change-rejected:"+m.class, fmt.Sprintf("A2 %s: a correctly re-signed, authorised change was rejected (%v)", label, err), rep)
				}
				if err != nil {
					if after := w.snap(); after != before {
						viol(c, "rejected-batch-changed-state:"+diffField(before, after), fmt.Sprintf("A2 %s: AddRawChanges failed (%v) but heads / iteration / storage changed", label, err), rep)
					}
				}
				for _, fd := range w.judgeState(nil) {
					viol(c, fd.key, "A2 "+label+": "+fd.what, rep)
				}
				if mi%977 == 0 && mode == "alone" {
					c.Sample(map[string]any{"family": "A2", "case": label, "verdict": verdict, "error": fmt.Sprint(err)})
				}
			})
		}
	}
}
