// C08 — advertised range hashes depend only on current contents, not on history.
//
// Explicit-state search over the real ldiff index: a state is the complete internal state of the index
// (elements + every materialised range with count / hash / division flag, read through the verif export
// shim), successors are obtained by replaying the operation history on a fresh index and applying one more
// operation. In every distinct state every observable answer (Hash, Len, Elements, Ranges for the top range,
// for all sub-ranges on the descent paths of the universe's hashes, and for arbitrary ranges, with and
// without element listing) must equal that of an index freshly filled with the same contents in one Set call
// (in both element orders).
package c08

import (
	"context"
	"fmt"
	"reflect"
	"sort"
	"strings"
	"sync"
	"testing"
	"time"

	"github.com/anyproto/any-sync/app/ldiff"

	"verif/lib/ldu"
	"verif/lib/vk"
)

type op struct {
	Kind string          `json:"kind"` // set | remove
	Els  []ldiff.Element `json:"els,omitempty"`
	Id   string          `json:"id,omitempty"`
}

func (o op) String() string {
	if o.Kind == "remove" {
		return "Remove(" + o.Id + ")"
	}
	var p []string
	for _, e := range o.Els {
		p = append(p, e.Id+"="+e.Head)
	}
	return "Set(" + strings.Join(p, ",") + ")"
}

func universe(c *vk.Ctx) []string {
	u := append([]string{}, ldu.Triple...)
	u = append(u, ldu.Pair...)
	u = append(u, ldu.Loose[0])
	return u
}

func alphabet(u []string) (ops []op) {
	for _, h := range []string{"h1", "h2"} {
		for _, id := range u {
			ops = append(ops, op{Kind: "set", Els: []ldiff.Element{{Id: id, Head: h}}})
		}
	}
	for _, id := range u {
		ops = append(ops, op{Kind: "remove", Id: id})
	}
	ops = append(ops,
		op{Kind: "set", Els: []ldiff.Element{{Id: u[0], Head: "h1"}, {Id: u[1], Head: "h1"}}},
		op{Kind: "set", Els: []ldiff.Element{{Id: u[0], Head: "h2"}, {Id: u[3], Head: "h1"}, {Id: u[4], Head: "h1"}}},
	)
	var all []ldiff.Element
	for _, id := range u {
		all = append(all, ldiff.Element{Id: id, Head: "h1"})
	}
	ops = append(ops, op{Kind: "set", Els: all})
	return
}

func apply(d ldiff.Diff, o op) {
	if o.Kind == "remove" {
		_ = d.RemoveId(o.Id)
		return
	}
	d.Set(o.Els...)
}

// classify names the operation kind relative to the contents before it (used in violation keys).
func classify(before map[string]string, o op) string {
	if o.Kind == "remove" {
		if _, ok := before[o.Id]; ok {
			return "remove-present"
		}
		return "remove-absent"
	}
	if len(o.Els) > 1 {
		return "set-multi"
	}
	e := o.Els[0]
	h, ok := before[e.Id]
	switch {
	case !ok:
		return "set-new"
	case h == e.Head:
		return "set-existing-same-head"
	default:
		return "set-existing-other-head"
	}
}

type param struct{ df, thr int }

func queryRanges(u []string, df int) []ldiff.Range {
	eff := df
	if eff < 2 {
		eff = 2
	}
	seen := map[ldu.Tuple]bool{}
	var out []ldiff.Range
	add := func(t ldu.Tuple) {
		if seen[t] {
			return
		}
		seen[t] = true
		out = append(out, ldiff.Range{From: t.From, To: t.To}, ldiff.Range{From: t.From, To: t.To, Elements: true})
	}
	add(ldu.Tuple{From: 0, To: ^uint64(0)})
	for _, id := range u {
		for _, t := range ldu.PathRanges(ldu.H(id), eff, 64) {
			add(t)
		}
	}
	// arbitrary ranges that are no subdivision of anything
	hs := make([]uint64, 0, len(u))
	for _, id := range u {
		hs = append(hs, ldu.H(id))
	}
	sort.Slice(hs, func(i, j int) bool { return hs[i] < hs[j] })
	add(ldu.Tuple{From: 1, To: ^uint64(0) - 1})
	add(ldu.Tuple{From: hs[0], To: hs[len(hs)-1]})
	add(ldu.Tuple{From: hs[0] + 1, To: hs[len(hs)-1] - 1})
	add(ldu.Tuple{From: hs[1], To: hs[1]})
	add(ldu.Tuple{From: 0, To: hs[2]})
	add(ldu.Tuple{From: hs[2] + 1, To: ^uint64(0)})
	add(ldu.Tuple{From: 5, To: 4}) // inverted
	add(ldu.Tuple{From: 0, To: 0})
	return out
}

type observation struct {
	Hash     string
	Len      int
	Elements []ldiff.Element
	Ranges   []ldiff.RangeResult
}

func observe(d ldiff.Diff, qr []ldiff.Range) observation {
	o := observation{Hash: d.Hash(), Len: d.Len(), Elements: d.Elements()}
	// one request per range: the query ranges overlap on purpose, and a single request whose ranges are together
	// wider than the hash space is refused
	for _, r := range qr {
		rr, err := d.Ranges(context.Background(), []ldiff.Range{r}, nil)
		if err != nil || len(rr) != 1 {
			panic(fmt.Sprintf("c08: Ranges(%v) = %d results, %v", r, len(rr), err))
		}
		o.Ranges = append(o.Ranges, rr[0])
	}
	return o
}

func diffObs(a, b observation) string {
	switch {
	case a.Hash != b.Hash:
		return "Hash"
	case a.Len != b.Len:
		return "Len"
	case !reflect.DeepEqual(a.Elements, b.Elements):
		return "Elements"
	}
	for i := range a.Ranges {
		x, y := a.Ranges[i], b.Ranges[i]
		if x.Count != y.Count {
			return "Ranges.Count"
		}
		if string(x.Hash) != string(y.Hash) {
			return "Ranges.Hash"
		}
		if !(len(x.Elements) == 0 && len(y.Elements) == 0) && !reflect.DeepEqual(x.Elements, y.Elements) {
			return "Ranges.Elements"
		}
	}
	return ""
}

func contentsOf(d ldiff.Diff) map[string]string {
	m := map[string]string{}
	for _, e := range d.Elements() {
		m[e.Id] = e.Head
	}
	return m
}

func fresh(p param, contents map[string]string, reverse bool) ldiff.Diff {
	ids := make([]string, 0, len(contents))
	for id := range contents {
		ids = append(ids, id)
	}
	sort.Strings(ids)
	if reverse {
		for i, j := 0, len(ids)-1; i < j; i, j = i+1, j-1 {
			ids[i], ids[j] = ids[j], ids[i]
		}
	}
	els := make([]ldiff.Element, 0, len(ids))
	for _, id := range ids {
		els = append(els, ldiff.Element{Id: id, Head: contents[id]})
	}
	d := ldiff.New(p.df, p.thr)
	d.Set(els...)
	return d
}

func build(p param, hist []op) ldiff.Diff {
	d := ldiff.New(p.df, p.thr)
	for _, o := range hist {
		apply(d, o)
	}
	return d
}

func stateKey(d ldiff.Diff) string {
	return fmt.Sprint(d.Elements()) + "\n" + ldiff.VerifDump(d)
}

func histStr(h []op) string {
	var s []string
	for _, o := range h {
		s = append(s, o.String())
	}
	return strings.Join(s, " ; ")
}

func TestCheck(t *testing.T) {
	vk.Main(t, vk.Spec{
		Prop:  "C08",
		Level: "model_checking",
		Rule: "explicit-state BFS over Set(new)/Set(existing, other head)/Set(existing, same head)/Set(multi)/RemoveId(present|absent) " +
			"sequences on a 6-id forced-collision universe (3 ids sharing 36 hash bits, 2 sharing 51) for every (divideFactor, threshold) of the grid; " +
			"a state is the complete internal range tree + elements of the real index; states = distinct internal states; " +
			"distinct_nontrivial = distinct (params, contents, materialised-range-count) classes with at least one divided sub-range",
		Assumptions: []string{
			"ids are drawn from a 6-element universe chosen to force deep splitting; heads from {h1,h2}",
			"the fresh reference index is the same implementation filled by one Set call (differential oracle), in ascending and descending id order",
		},
		Budget: func(tier string) time.Duration {
			if tier == "quick" {
				return 100 * time.Second
			}
			return 25 * time.Minute
		},
	}, body)
}

func body(c *vk.Ctx) {
	u := universe(c)
	c.Require(ldu.SharedPrefix(ldu.Triple...) >= 36 && ldu.SharedPrefix(ldu.Pair...) >= 51, "id universe lost its hash-prefix collisions")
	ops := alphabet(u)
	var params []param
	for _, df := range vk.Pick(c, []int{2, 3, 16, 0}, []int{2, 3, 4, 16, 32, 0}) {
		for _, thr := range vk.Pick(c, []int{1, 2, 4, 0}, []int{1, 2, 3, 4, 256, 0}) {
			params = append(params, param{df, thr})
		}
	}
	maxDepth := vk.Pick(c, 4, 8)
	c.Bound("max_depth", maxDepth)
	c.Bound("param_pairs", len(params))
	c.Bound("alphabet", len(ops))
	if c.Replay != "" {
		replay(c)
		return
	}

	partManager(c)

	var wg sync.WaitGroup
	sem := make(chan struct{}, 16)
	var mu sync.Mutex
	closedAll := true
	sawSplitMerge := false
	for _, p := range params {
		wg.Add(1)
		sem <- struct{}{}
		go func(p param) {
			defer wg.Done()
			defer func() { <-sem }()
			closed, sm := search(c, p, u, ops, maxDepth)
			mu.Lock()
			closedAll = closedAll && closed
			sawSplitMerge = sawSplitMerge || sm
			mu.Unlock()
		}(p)
	}
	wg.Wait()
	c.Bound("state_space_closed_for_all_params", closedAll)
	if !closedAll {
		c.Note("depth bound %d reached before the state space closed for some parameter pair: everything up to that depth was enumerated", maxDepth)
	}
	c.Require(sawSplitMerge, "vacuity: no explored sequence split a range and merged it back")
}

func search(c *vk.Ctx, p param, u []string, ops []op, maxDepth int) (closed bool, splitMerge bool) {
	qr := queryRanges(u, p.df)
	seen := map[string]bool{}
	type node struct{ hist []op }
	d0 := ldiff.New(p.df, p.thr)
	seen[stateKey(d0)] = true
	c.DistinctH("states", vk.HashStr(fmt.Sprint(p)+stateKey(d0)))
	frontier := []node{{}}
	baseRanges := ldiff.VerifRangeCount(d0)
	for depth := 1; depth <= maxDepth && len(frontier) > 0; depth++ {
		var next []node
		violated := false
		for _, n := range frontier {
			if c.TimeUp() {
				c.NotExhaustive(fmt.Sprintf("deadline at depth %d", depth))
				return false, splitMerge
			}
			for _, o := range ops {
				d := build(p, n.hist)
				before := contentsOf(d)
				rcBefore := ldiff.VerifRangeCount(d)
				apply(d, o)
				c.Count("transitions", 1)
				c.Count("executions", 1)
				rc := ldiff.VerifRangeCount(d)
				if rcBefore > baseRanges && rc < rcBefore {
					splitMerge = true
				}
				key := stateKey(d)
				if seen[key] {
					continue
				}
				seen[key] = true
				c.DistinctH("states", vk.HashStr(fmt.Sprint(p)+key))
				hist := append(append([]op{}, n.hist...), o)
				contents := contentsOf(d)
				if rc > baseRanges {
					c.Distinct("distinct", fmt.Sprint(p, contents, rc))
				}
				got := observe(d, qr)
				c.Count("evaluations", int64(2*(3+len(qr))))
				for _, rev := range []bool{false, true} {
					want := observe(fresh(p, contents, rev), qr)
					if what := diffObs(got, want); what != "" {
						violated = true
						kind := classify(before, o)
						c.Violation(fmt.Sprintf("%s-differs-from-fresh after %s", what, kind),
							fmt.Sprintf("df=%d thr=%d: after [%s] the index holds %v but %s differs from a fresh index with the same contents", p.df, p.thr, histStr(hist), contents, what),
							map[string]any{"df": p.df, "thr": p.thr, "history": hist})
						break
					}
				}
				if len(hist) <= 3 {
					c.Sample(map[string]any{"df": p.df, "thr": p.thr, "history": histStr(hist), "hash": got.Hash, "ranges_materialised": rc})
				}
				next = append(next, node{hist})
			}
		}
		if violated {
			// deeper states derive from a state that already violates the property: stop this parameter pair here
			c.Note("df=%d thr=%d: search stopped at depth %d (first violating depth)", p.df, p.thr, depth)
			return false, splitMerge
		}
		frontier = next
	}
	return len(frontier) == 0, splitMerge
}

func replay(c *vk.Ctx) {
	var rf struct {
		Case struct {
			Df      int  `json:"df"`
			Thr     int  `json:"thr"`
			History []op `json:"history"`
		} `json:"case"`
	}
	if err := vk.ReadJSON(c.Replay, &rf); err != nil {
		c.Broken("replay file: %v", err)
		return
	}
	var mf struct {
		Case mcase `json:"case"`
	}
	if _ = vk.ReadJSON(c.Replay, &mf); mf.Case.Part == "manager" {
		replayManager(c, mf.Case)
		return
	}
	p := param{rf.Case.Df, rf.Case.Thr}
	u := universe(c)
	qr := queryRanges(u, p.df)
	d := build(p, rf.Case.History)
	got := observe(d, qr)
	c.Count("executions", 1)
	c.DistinctH("states", 1)
	c.Count("transitions", int64(len(rf.Case.History)))
	for _, rev := range []bool{false, true} {
		want := observe(fresh(p, contentsOf(d), rev), qr)
		if what := diffObs(got, want); what != "" {
			c.Violation("replayed: "+what, fmt.Sprintf("replay of [%s]: %s differs from fresh", histStr(rf.Case.History), what), rf.Case)
			return
		}
	}
	fmt.Println("replay: history no longer violates the property")
}
