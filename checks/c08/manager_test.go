package c08

// Part M — "... nor on whether the index was maintained incrementally or rebuilt at start-up", at the call site that
// does both: headsync.DiffManager over the real head storage (any-store).
//
// A DiffManager is filled at start-up from an initial head storage (FillDiff) and then fed every change of that
// storage the way the running space feeds it (head storage observer -> UpdateHeads, in order). After every sequence of
// live changes its index is compared with the index a SECOND DiffManager builds by FillDiff from the same storage at
// that moment (the restart), and with the space hash it last wrote to the state storage.
//
// Domain (what a running space does to its head storage): an object is created with its root as only head and that root
// as common snapshot (derived or not); its heads move to one or two non-root heads; it is marked queued for deletion /
// deleted (the stored entry keeps its heads); late head updates of a deleted object still arrive. A "legacy" object
// (root-only, no common snapshot, not derived) exists only in the initial storage: diffmanager.go documents that such
// entries are kept in the index at start-up and that live updates never add them, so creating one live is outside the
// domain. The deletion state component is empty (no object is queued without its storage entry saying so).

import (
	"context"
	"fmt"
	"path/filepath"
	"sort"
	"strings"
	"sync"
	"sync/atomic"

	anystore "github.com/anyproto/any-store"

	"github.com/anyproto/any-sync/app/ldiff"
	"github.com/anyproto/any-sync/app/logger"
	"github.com/anyproto/any-sync/commonspace/deletionstate"
	"github.com/anyproto/any-sync/commonspace/headsync"
	"github.com/anyproto/any-sync/commonspace/headsync/headstorage"
	"github.com/anyproto/any-sync/commonspace/headsync/statestorage"
	"github.com/anyproto/any-sync/commonspace/object/acl/list"
	"github.com/anyproto/any-sync/commonspace/object/acl/syncacl"
	"github.com/anyproto/any-sync/commonspace/spacestorage"

	"verif/lib/ldu"
	"verif/lib/vk"
)

var mctx = context.Background()

type mop struct {
	K     string   `json:"k"` // create | legacy | heads | queue | delete
	Obj   string   `json:"obj"`
	Heads []string `json:"heads,omitempty"`
}

func (o mop) String() string {
	if o.K == "heads" {
		return fmt.Sprintf("heads(%s,%s)", o.Obj, strings.Join(o.Heads, "+"))
	}
	return o.K + "(" + o.Obj + ")"
}

type mcase struct {
	Part string `json:"part"`
	Df   int    `json:"df"`
	Thr  int    `json:"thr"`
	Init []mop  `json:"init"`
	Live []mop  `json:"live"`
}

func (cs mcase) String() string {
	f := func(ops []mop) string {
		var p []string
		for _, o := range ops {
			p = append(p, o.String())
		}
		return "[" + strings.Join(p, " ") + "]"
	}
	return fmt.Sprintf("(%d,%d) storage at start-up %s, live %s", cs.Df, cs.Thr, f(cs.Init), f(cs.Live))
}

// object names -> ids of the forced-collision universe; D is the derived one, L the legacy one
var mObjs = []string{"A", "D", "L"}

func mId(obj string) string {
	switch obj {
	case "A":
		return ldu.Triple[0]
	case "D":
		return ldu.Triple[1]
	}
	return ldu.Pair[0]
}

type mStateStorage struct {
	statestorage.StateStorage
	last string
	n    int
}

func (s *mStateStorage) SetHash(_ context.Context, h string) error {
	s.last, s.n = h, s.n+1
	return nil
}

type mSpaceStorage struct {
	spacestorage.SpaceStorage
	hs headstorage.HeadStorage
	ss *mStateStorage
}

func (s *mSpaceStorage) HeadStorage() headstorage.HeadStorage    { return s.hs }
func (s *mSpaceStorage) StateStorage() statestorage.StateStorage { return s.ss }

type mAcl struct{ syncacl.SyncAcl }

func (mAcl) Id() string            { return "acl" }
func (mAcl) Head() *list.AclRecord { return &list.AclRecord{Id: "aclhead"} }

type mDeletion struct {
	deletionstate.ObjectDeletionState
}

func (mDeletion) Exists(string) bool { return false }

type mObserver struct{ f func(headstorage.HeadsEntry) }

func (o mObserver) OnUpdate(e headstorage.HeadsEntry) { o.f(e) }

type mWorker struct {
	db anystore.DB
}

func newMWorker(c *vk.Ctx, n int) *mWorker {
	db, err := anystore.Open(mctx, filepath.Join(c.Scratch, fmt.Sprintf("c08m-%d-%d.db", c.Shard, n)), &anystore.Config{
		ReadConnections:                           1,
		SQLiteConnectionOptions:                   map[string]string{"synchronous": "off"},
		SQLiteGlobalPageCachePreallocateSizeBytes: -1,
	})
	if err != nil {
		panic(err)
	}
	return &mWorker{db: db}
}

func (w *mWorker) close() { _ = w.db.Close() }

func mUpdate(o mop) headstorage.HeadsUpdate {
	id := mId(o.Obj)
	switch o.K {
	case "create":
		derived := o.Obj == "D"
		return headstorage.HeadsUpdate{Id: id, Heads: []string{id}, CommonSnapshot: &id, IsDerived: &derived}
	case "legacy":
		return headstorage.HeadsUpdate{Id: id, Heads: []string{id}}
	case "heads":
		return headstorage.HeadsUpdate{Id: id, Heads: o.Heads}
	case "queue":
		st := headstorage.DeletedStatusQueued
		return headstorage.HeadsUpdate{Id: id, DeletedStatus: &st}
	case "delete":
		st := headstorage.DeletedStatusDeleted
		return headstorage.HeadsUpdate{Id: id, DeletedStatus: &st}
	}
	panic("unknown op " + o.K)
}

type mObs struct {
	hash string
	els  string
}

func mObserve(d ldiff.Diff) mObs {
	els := d.Elements()
	sort.Slice(els, func(i, j int) bool { return els[i].Id < els[j].Id })
	var sb strings.Builder
	for _, e := range els {
		fmt.Fprintf(&sb, "%s=%s ", e.Id, e.Head)
	}
	return mObs{d.Hash(), sb.String()}
}

// runManager executes one case on the real head storage + DiffManager; key == "" when the property held.
func (w *mWorker) runManager(cs mcase) (key, what string, sig string) {
	hs, err := headstorage.New(mctx, w.db)
	if err != nil {
		return "manager:harness", fmt.Sprintf("headstorage.New: %v", err), ""
	}
	for _, o := range mObjs {
		_ = hs.DeleteEntry(mctx, mId(o))
	}
	for _, o := range cs.Init {
		if err := hs.UpdateEntry(mctx, mUpdate(o)); err != nil {
			return "manager:harness", fmt.Sprintf("initial %s: %v", o, err), ""
		}
	}
	nop := logger.NewNamed("verif.c08")
	ss := &mStateStorage{}
	live := ldiff.New(cs.Df, cs.Thr)
	dm := headsync.NewDiffManager(live, &mSpaceStorage{hs: hs, ss: ss}, mAcl{}, nop, mctx, mDeletion{})
	if err := dm.FillDiff(mctx); err != nil {
		return "manager:fill-error", fmt.Sprintf("%s: FillDiff at start-up: %v", cs, err), ""
	}
	hs.AddObserver(mObserver{dm.UpdateHeads})
	for _, o := range cs.Live {
		if err := hs.UpdateEntry(mctx, mUpdate(o)); err != nil {
			return "manager:harness", fmt.Sprintf("live %s: %v", o, err), ""
		}
	}
	got := mObserve(live)
	// the restart: another manager, another index, the same storage
	hs2, err := headstorage.New(mctx, w.db)
	if err != nil {
		return "manager:harness", fmt.Sprintf("headstorage.New: %v", err), ""
	}
	ss2 := &mStateStorage{}
	rebuilt := ldiff.New(cs.Df, cs.Thr)
	dm2 := headsync.NewDiffManager(rebuilt, &mSpaceStorage{hs: hs2, ss: ss2}, mAcl{}, nop, mctx, mDeletion{})
	if err := dm2.FillDiff(mctx); err != nil {
		return "manager:fill-error", fmt.Sprintf("%s: FillDiff after the live changes: %v", cs, err), ""
	}
	want := mObserve(rebuilt)
	sig = want.els
	switch {
	case got.els != want.els:
		return "manager:live-vs-rebuilt:elements", fmt.Sprintf("%s: the running index holds {%s}, an index rebuilt from the same storage holds {%s}", cs, got.els, want.els), sig
	case got.hash != want.hash:
		return "manager:live-vs-rebuilt:hash", fmt.Sprintf("%s: the running index advertises %s, an index rebuilt from the same storage %s (same elements {%s})", cs, got.hash, want.hash, got.els), sig
	case ss.last != got.hash:
		return "manager:stored-hash", fmt.Sprintf("%s: the space hash last written to the state storage is %q, the running index advertises %s", cs, ss.last, got.hash), sig
	}
	return "", "", sig
}

// mEnabled: the live alphabet in a storage state (see the domain above).
func mEnabled(m map[string][2]string) (out []mop) {
	for _, o := range mObjs {
		st, ok := m[o]
		if !ok {
			if o != "L" {
				out = append(out, mop{K: "create", Obj: o})
			}
			continue
		}
		for _, hs := range [][]string{{"h1"}, {"h2"}, {"h1", "h2"}} {
			if strings.Join(hs, "+") != st[0] {
				out = append(out, mop{K: "heads", Obj: o, Heads: hs})
			}
		}
		if st[1] == "" {
			out = append(out, mop{K: "queue", Obj: o})
		}
		if st[1] != "deleted" {
			out = append(out, mop{K: "delete", Obj: o})
		}
	}
	return
}

func mApplyModel(m map[string][2]string, o mop) map[string][2]string {
	n := map[string][2]string{}
	for k, v := range m {
		n[k] = v
	}
	st := n[o.Obj]
	switch o.K {
	case "create", "legacy":
		st = [2]string{"root", ""}
	case "heads":
		st[0] = strings.Join(o.Heads, "+")
	case "queue":
		st[1] = "queued"
	case "delete":
		st[1] = "deleted"
	}
	n[o.Obj] = st
	return n
}

// mInits: every initial storage: A in {absent, root, h1, h1 deleted}, D in {absent, root, h2}, L in {absent, legacy root, legacy root then h1}.
func mInits() (out [][]mop) {
	as := [][]mop{nil, {{K: "create", Obj: "A"}}, {{K: "create", Obj: "A"}, {K: "heads", Obj: "A", Heads: []string{"h1"}}},
		{{K: "create", Obj: "A"}, {K: "heads", Obj: "A", Heads: []string{"h1"}}, {K: "delete", Obj: "A"}}}
	ds := [][]mop{nil, {{K: "create", Obj: "D"}}, {{K: "create", Obj: "D"}, {K: "heads", Obj: "D", Heads: []string{"h2"}}}}
	ls := [][]mop{nil, {{K: "legacy", Obj: "L"}}, {{K: "legacy", Obj: "L"}, {K: "heads", Obj: "L", Heads: []string{"h1"}}}}
	for _, a := range as {
		for _, d := range ds {
			for _, l := range ls {
				out = append(out, append(append(append([]mop{}, a...), d...), l...))
			}
		}
	}
	return
}

func partManager(c *vk.Ctx) {
	depth := vk.Pick(c, 3, 4)
	c.Bound("manager_live_depth", depth)
	inits := mInits()
	c.Bound("manager_initial_storages", len(inits))
	params := []param{{32, 256}, {2, 1}}
	type unit struct {
		p    param
		init []mop
	}
	var units []unit
	for _, p := range params {
		for _, in := range inits {
			units = append(units, unit{p, in})
		}
	}
	var wg sync.WaitGroup
	sem := make(chan struct{}, 16)
	var legacyDeleted, legacyKept atomic.Bool
	var nw atomic.Int64
	for ui, u := range units {
		if !c.Mine(ui) {
			continue
		}
		wg.Add(1)
		sem <- struct{}{}
		go func(u unit) {
			defer wg.Done()
			defer func() { <-sem }()
			w := newMWorker(c, int(nw.Add(1)))
			defer w.close()
			m0 := map[string][2]string{}
			for _, o := range u.init {
				m0 = mApplyModel(m0, o)
			}
			var rec func(live []mop, m map[string][2]string)
			rec = func(live []mop, m map[string][2]string) {
				if c.TimeUp() {
					c.NotExhaustive("deadline reached inside part M (DiffManager live vs rebuilt)")
					return
				}
				cs := mcase{Part: "manager", Df: u.p.df, Thr: u.p.thr, Init: u.init, Live: append([]mop{}, live...)}
				key, what, sig := w.runManager(cs)
				c.Count("evaluations", 1)
				c.Count("manager_cases", 1)
				c.Count("transitions", int64(len(live)))
				c.Distinct("distinct", fmt.Sprintf("manager %v %s", u.p, sig))
				if key != "" {
					c.Violation(key, what, cs)
				}
				if st, ok := m["L"]; ok && st[0] == "root" {
					if st[1] != "" {
						legacyDeleted.Store(true)
					} else if len(live) > 0 {
						legacyKept.Store(true)
					}
				}
				if len(live) == depth {
					return
				}
				for _, o := range mEnabled(m) {
					rec(append(live, o), mApplyModel(m, o))
				}
			}
			rec(nil, m0)
		}(u)
	}
	wg.Wait()
	if c.NShards == 1 && c.NViolations() == 0 {
		c.Require(legacyDeleted.Load() && legacyKept.Load(), "vacuity: part M never deleted / never kept a legacy root-only entry that start-up put into the index")
	}
}

func replayManager(c *vk.Ctx, cs mcase) {
	w := newMWorker(c, 0)
	defer w.close()
	c.Count("executions", 1)
	c.DistinctH("states", 1)
	if key, what, _ := w.runManager(cs); key != "" {
		c.Violation(key, "replayed: "+what, cs)
		return
	}
	fmt.Println("replay: the stored case no longer violates the property")
}
