// C16 — object cache keeps at most one live instance per id under any interleaving.
//
// Engine C: the real app/ocache (its sync import re-pointed to the vsync shim by overlay) is driven by 2–4
// concurrent operations; every Lock of the cache / entry mutexes and every harness-owned blocking point (load in
// progress + outcome, Close in progress, TryClose verdict) is a scheduling point. All schedules within a
// preemption budget and a deviation budget (failed load, aborted load, TryClose → false) are enumerated and the
// recorded event log of each complete execution is checked.
package c16

import (
	"context"
	"errors"
	"fmt"
	"os"
	"sort"
	"strings"
	"sync"
	"testing"
	"time"

	"go.uber.org/zap"

	"github.com/anyproto/any-sync/app/logger"
	"github.com/anyproto/any-sync/app/ocache"
	"github.com/anyproto/any-sync/verifshim/vsync"

	"verif/lib/sched"
	"verif/lib/vk"
)

// ---- harness objects -------------------------------------------------------------------------------

type event struct {
	Kind string // load-start load-ok load-fail load-abort add close-start close-end try-start try-true try-false op-start op-ret
	Id   string
	Inst int    // instance number (0 = none)
	Op   string // operation goroutine name for op-start / op-ret
	Res  string // result summary for op-ret
}

func (e event) String() string {
	s := e.Kind
	if e.Op != "" {
		s += "[" + e.Op + "]"
	}
	if e.Id != "" {
		s += " " + e.Id
	}
	if e.Inst != 0 {
		s += fmt.Sprintf("#%d", e.Inst)
	}
	if e.Res != "" {
		s += " -> " + e.Res
	}
	return s
}

type world struct {
	mu    sync.Mutex // real mutex: only orders log appends
	log   []event
	ninst int
	ctl   *vsync.Controller
	cache ocache.OCache

	cctx    context.Context // the context of RemoveC, ended by Cancel
	ccancel context.CancelFunc
}

func (w *world) ev(e event) {
	w.mu.Lock()
	w.log = append(w.log, e)
	w.mu.Unlock()
}

type obj struct {
	w    *world
	id   string
	inst int
}

func (w *world) newObj(id string) *obj {
	w.mu.Lock()
	w.ninst++
	n := w.ninst
	w.mu.Unlock()
	return &obj{w: w, id: id, inst: n}
}

func (o *obj) Close() error {
	o.w.ev(event{Kind: "close-start", Id: o.id, Inst: o.inst, Op: o.w.ctl.Me()})
	o.w.ctl.Point("closing:" + o.id)
	o.w.ev(event{Kind: "close-end", Id: o.id, Inst: o.inst})
	return nil
}

func (o *obj) TryClose(time.Duration) (bool, error) {
	o.w.ev(event{Kind: "try-start", Id: o.id, Inst: o.inst})
	switch o.w.ctl.Choose("tryclose:"+o.id, 3) {
	case 0:
		o.w.ev(event{Kind: "try-true", Id: o.id, Inst: o.inst, Op: o.w.ctl.Me()})
		return true, nil
	case 2:
		// closed, but closing reported an error (what every real object does: `return true, x.Close()`)
		o.w.ev(event{Kind: "try-true", Id: o.id, Inst: o.inst, Op: o.w.ctl.Me(), Res: "with-error"})
		return true, errClose
	}
	o.w.ev(event{Kind: "try-false", Id: o.id, Inst: o.inst})
	return false, nil
}

type cancelKey struct{}

var errLoad = errors.New("load failed")
var errClose = errors.New("close failed")

func (w *world) load(ctx context.Context, id string) (ocache.Object, error) {
	o := w.newObj(id)
	w.ev(event{Kind: "load-start", Id: id, Inst: o.inst})
	switch w.ctl.Choose("load:"+id, 3) {
	case 0:
		w.ev(event{Kind: "load-ok", Id: id, Inst: o.inst})
		return o, nil
	case 1:
		w.ev(event{Kind: "load-fail", Id: id, Inst: o.inst})
		return nil, errLoad
	default:
		// the first caller goes away while the load is in flight
		if cancel, ok := ctx.Value(cancelKey{}).(context.CancelFunc); ok {
			cancel()
			w.ev(event{Kind: "load-abort", Id: id, Inst: o.inst})
			return nil, ctx.Err()
		}
		w.ev(event{Kind: "load-fail", Id: id, Inst: o.inst})
		return nil, errLoad
	}
}

// ---- operations ------------------------------------------------------------------------------------

type opKind string

const (
	opGet        opKind = "Get"
	opGetB       opKind = "GetB"
	opPick       opKind = "Pick"
	opAdd        opKind = "Add"
	opRemove     opKind = "Remove"
	opRemoveSame opKind = "GetRemoveSame"
	opTryRemove  opKind = "TryRemove"
	opGC         opKind = "GC"
	opClose      opKind = "Close"
	opDoLocked   opKind = "DoLocked"
	// RemoveC is Remove with a context that the Cancel operation of the same scenario ends at a scheduled moment:
	// the remover's context can expire at any point, in particular while it waits behind another closer
	opRemoveC opKind = "RemoveC"
	opCancel  opKind = "Cancel"
)

func instOf(v ocache.Object) int {
	if o, ok := v.(*obj); ok && o != nil {
		return o.inst
	}
	return 0
}

func errStr(err error) string {
	if err == nil {
		return "nil"
	}
	return err.Error()
}

func (w *world) run(name string, k opKind) {
	c := w.cache
	w.ev(event{Kind: "op-start", Op: name})
	ret := func(inst int, id, res string) { w.ev(event{Kind: "op-ret", Op: name, Id: id, Inst: inst, Res: res}) }
	switch k {
	case opGet, opGetB:
		id := "a"
		if k == opGetB {
			id = "b"
		}
		ctx, cancel := context.WithCancel(context.Background())
		ctx = context.WithValue(ctx, cancelKey{}, cancel)
		v, err := c.Get(ctx, id)
		cancel()
		ret(instOf(v), id, "get:"+errStr(err))
	case opPick:
		v, err := c.Pick(context.Background(), "a")
		ret(instOf(v), "a", "pick:"+errStr(err))
	case opAdd:
		o := w.newObj("a")
		err := c.Add("a", o)
		if err == nil {
			w.ev(event{Kind: "add", Id: "a", Inst: o.inst})
		}
		ret(o.inst, "a", "add:"+errStr(err))
	case opRemove:
		ok, err := c.Remove(context.Background(), "a")
		ret(0, "a", fmt.Sprintf("remove:%v:%s", ok, errStr(err)))
	case opRemoveC:
		ok, err := c.Remove(w.cctx, "a")
		ret(0, "a", fmt.Sprintf("remove:%v:%s", ok, errStr(err)))
	case opCancel:
		w.ccancel()
		ret(0, "", "cancel")
	case opRemoveSame:
		v, err := c.Get(context.Background(), "a")
		ret(instOf(v), "a", "get:"+errStr(err))
		if err == nil {
			w.ev(event{Kind: "op-start", Op: name, Res: "removesame"})
			ok, err := c.RemoveSame(context.Background(), "a", v)
			w.ev(event{Kind: "op-ret", Op: name, Id: "a", Inst: instOf(v), Res: fmt.Sprintf("removesame:%v:%s", ok, errStr(err))})
		}
	case opTryRemove:
		ok, err := c.TryRemove("a")
		ret(0, "a", fmt.Sprintf("tryremove:%v:%s", ok, errStr(err)))
	case opGC:
		c.GC()
		ret(0, "", "gc")
	case opClose:
		err := c.Close()
		ret(0, "", "close:"+errStr(err))
	case opDoLocked:
		err := c.DoLockedIfNotExists("a", func() error { return nil })
		ret(0, "a", "dolocked:"+errStr(err))
	}
}

type scenario struct {
	Preload bool     `json:"preload"`
	Ops     []opKind `json:"ops"`
}

func (s scenario) String() string {
	var p []string
	for _, o := range s.Ops {
		p = append(p, string(o))
	}
	pre := "empty"
	if s.Preload {
		pre = "preloaded"
	}
	return pre + ":" + strings.Join(p, "|")
}

func (s scenario) sched() sched.Scenario {
	return sched.Scenario{Name: s.String(), Setup: func(x *sched.Exec) {
		w := &world{ctl: x.C}
		// negative TTL: every idle entry is expired for GC without moving the (fake) clock; no ticker goroutine.
		w.cache = ocache.New(w.load, ocache.WithTTL(-time.Hour), ocache.WithGCPeriod(0))
		w.cctx, w.ccancel = context.WithCancel(context.Background())
		x.Data = w
		if s.Preload {
			o := w.newObj("a")
			if err := w.cache.Add("a", o); err != nil {
				panic(err)
			}
			w.ev(event{Kind: "add", Id: "a", Inst: o.inst})
		}
		for i, k := range s.Ops {
			name := fmt.Sprintf("t%d.%s", i, k)
			k := k
			x.Go(name, func() { w.run(name, k) })
		}
		x.Cleanup = func() {
			w.ev(event{Kind: "op-start", Op: "final-close"})
			err := w.cache.Close()
			w.ev(event{Kind: "op-ret", Op: "final-close", Res: "close:" + errStr(err)})
		}
	}}
}

// ---- oracle ----------------------------------------------------------------------------------------

type finding struct{ key, what string }

func checkLog(log []event) (out []finding) {
	type ist struct {
		id                       string
		loading, live, closing   bool
		closedCount              int
		everLive, closed         bool
		loadEndIdx, closedEndIdx int
	}
	insts := map[int]*ist{}
	get := func(e event) *ist {
		s := insts[e.Inst]
		if s == nil {
			s = &ist{id: e.Id, loadEndIdx: -1, closedEndIdx: -1}
			insts[e.Inst] = s
		}
		return s
	}
	add := func(key, what string) { out = append(out, finding{key, what}) }
	// removed[inst] = index of the op-ret of a successful Remove*/TryRemove that removed it (approximated by the close-end of inst)
	opStart := map[string]int{}
	closedBy := map[string][]int{} // goroutine -> instances it closed since its last op-start
	cacheClosedAt := -1
	for i, e := range log {
		switch e.Kind {
		case "op-start":
			opStart[e.Op] = i
			closedBy[e.Op] = nil
		case "load-start":
			s := get(e)
			for n, o := range insts {
				if n != e.Inst && o.id == e.Id && (o.loading || o.live || o.closing) {
					add("overlap:load-start-while-instance-"+stateName(o.loading, o.live, o.closing),
						fmt.Sprintf("load of %s#%d starts while %s#%d is %s", e.Id, e.Inst, o.id, n, stateName(o.loading, o.live, o.closing)))
				}
			}
			s.loading = true
		case "load-ok":
			s := get(e)
			s.loading, s.live, s.everLive, s.loadEndIdx = false, true, true, i
		case "load-fail", "load-abort":
			get(e).loading = false
		case "add":
			s := get(e)
			for n, o := range insts {
				if n != e.Inst && o.id == e.Id && (o.loading || o.live || o.closing) {
					add("overlap:add-while-instance-"+stateName(o.loading, o.live, o.closing),
						fmt.Sprintf("Add of %s#%d succeeded while %s#%d is %s", e.Id, e.Inst, o.id, n, stateName(o.loading, o.live, o.closing)))
				}
			}
			s.live, s.everLive, s.loadEndIdx = true, true, i
		case "close-start":
			s := get(e)
			if s.closed || s.closing {
				add("closed-twice:close", fmt.Sprintf("Close called on %s#%d which is already closed/closing", e.Id, e.Inst))
			}
			if !s.everLive {
				add("close-of-never-loaded", fmt.Sprintf("Close called on %s#%d that never finished loading", e.Id, e.Inst))
			}
			s.closing = true
			closedBy[e.Op] = append(closedBy[e.Op], e.Inst)
		case "close-end":
			s := get(e)
			s.closing, s.live, s.closed, s.closedEndIdx = false, false, true, i
		case "try-start":
			s := get(e)
			if s.closed || s.closing {
				add("closed-twice:tryclose", fmt.Sprintf("TryClose called on %s#%d which is already closed/closing", e.Id, e.Inst))
			}
			s.closing = true
		case "try-true":
			s := get(e)
			s.closing, s.live, s.closed, s.closedEndIdx = false, false, true, i
			closedBy[e.Op] = append(closedBy[e.Op], e.Inst)
		case "try-false":
			get(e).closing = false
		case "op-ret":
			if strings.HasPrefix(e.Res, "removesame:") {
				did := closedBy[e.Op]
				if strings.HasPrefix(e.Res, "removesame:true") && !(len(did) == 1 && did[0] == e.Inst) {
					add("removesame-closed-other-instance", fmt.Sprintf("%s: RemoveSame(%s#%d) reported a removal but the instances it closed are %v", e.Op, e.Id, e.Inst, did))
				}
				if strings.HasPrefix(e.Res, "removesame:false") && len(did) != 0 {
					add("removesame-false-but-closed", fmt.Sprintf("%s: RemoveSame(%s#%d) reported no removal but closed %v", e.Op, e.Id, e.Inst, did))
				}
			}
			if strings.HasPrefix(e.Res, "remove:") || strings.HasPrefix(e.Res, "tryremove:") {
				did := closedBy[e.Op]
				okRes := strings.HasPrefix(e.Res, "remove:true") || strings.HasPrefix(e.Res, "tryremove:true")
				if okRes != (len(did) == 1) || len(did) > 1 {
					add("remove-result-mismatch", fmt.Sprintf("%s returned %q but closed instances %v", e.Op, e.Res, did))
				}
			}
			if strings.HasPrefix(e.Res, "close:nil") && cacheClosedAt < 0 {
				cacheClosedAt = i
			}
			if (strings.HasPrefix(e.Res, "get:nil") || strings.HasPrefix(e.Res, "pick:nil")) && e.Inst != 0 {
				s := insts[e.Inst]
				if s == nil || s.loadEndIdx < 0 {
					add("returned-before-loaded", fmt.Sprintf("%s returned %s#%d which had not finished loading", e.Op, e.Id, e.Inst))
				} else if s.closed && s.closedEndIdx < opStart[e.Op] {
					add("returned-removed-instance", fmt.Sprintf("%s started after %s#%d had been closed and removed, yet returned it", e.Op, e.Id, e.Inst))
				}
			}
			if (strings.HasPrefix(e.Res, "get:nil") || strings.HasPrefix(e.Res, "pick:nil")) && e.Inst == 0 {
				add("nil-object-returned", fmt.Sprintf("%s returned a nil object without error", e.Op))
			}
		}
	}
	if cacheClosedAt >= 0 {
		var ids []int
		for n := range insts {
			ids = append(ids, n)
		}
		sort.Ints(ids)
		for _, n := range ids {
			s := insts[n]
			if s.everLive && !s.closed {
				how := "loaded"
				add("left-open-after-shutdown", fmt.Sprintf("%s#%d (%s) is still open after the cache was closed and every operation returned", s.id, n, how))
			}
		}
	}
	return
}

func stateName(loading, live, closing bool) string {
	switch {
	case closing:
		return "closing"
	case live:
		return "live"
	case loading:
		return "loading"
	}
	return "idle"
}

// classify turns a panic into a stable key.
func panicKey(p string) string {
	site := vk.PanicSite(p)
	first := strings.SplitN(p, "\n", 2)[0]
	if i := strings.Index(first, "panic: "); i >= 0 {
		first = first[i+7:]
	}
	if len(first) > 80 {
		first = first[:80]
	}
	return "panic:" + first + "@" + site
}

// ---- driver ----------------------------------------------------------------------------------------

func scenarios(c *vk.Ctx) (out []scenario) {
	kinds := []opKind{opGet, opPick, opAdd, opRemove, opRemoveSame, opTryRemove, opGC, opClose, opDoLocked, opGetB}
	for _, pre := range []bool{false, true} {
		for i := 0; i < len(kinds); i++ {
			for j := i; j < len(kinds); j++ {
				out = append(out, scenario{pre, []opKind{kinds[i], kinds[j]}})
			}
		}
	}
	three := [][]opKind{
		{opGet, opGet, opRemove}, {opGet, opRemove, opClose}, {opGet, opTryRemove, opGC}, {opGet, opGC, opClose},
		{opGet, opRemove, opAdd}, {opRemove, opRemove, opGet}, {opTryRemove, opRemove, opGet}, {opGet, opGet, opClose},
		{opRemove, opRemoveC, opCancel}, {opGC, opRemoveC, opCancel}, {opTryRemove, opRemoveC, opCancel}, {opGet, opRemoveC, opCancel},
		{opRemoveSame, opGet, opRemove}, {opGC, opRemove, opPick}, {opTryRemove, opRemove, opRemove}, {opGC, opRemove, opRemove}, {opRemoveSame, opRemove, opGet}, {opGet, opPick, opRemove}, {opAdd, opRemove, opGet},
	}
	if c.Thorough() {
		three = nil
		k3 := []opKind{opGet, opPick, opAdd, opRemove, opRemoveSame, opTryRemove, opGC, opClose}
		for i := 0; i < len(k3); i++ {
			for j := i; j < len(k3); j++ {
				for k := j; k < len(k3); k++ {
					three = append(three, []opKind{k3[i], k3[j], k3[k]})
				}
			}
			three = append(three, []opKind{k3[i], opRemoveC, opCancel})
		}
	}
	for _, pre := range []bool{false, true} {
		for _, t := range three {
			out = append(out, scenario{pre, t})
		}
	}
	// a closer, a lookup parked behind it, and a remover whose context ends while it waits as well (quick: preloaded only)
	out = append(out, scenario{true, []opKind{opRemove, opRemoveC, opCancel, opGet}})
	if c.Thorough() {
		for _, pre := range []bool{false, true} {
			out = append(out, scenario{pre, []opKind{opGet, opGet, opRemove, opClose}}, scenario{pre, []opKind{opGet, opTryRemove, opGC, opClose}},
				scenario{pre, []opKind{opGet, opGetB, opGC, opClose}},
				scenario{pre, []opKind{opRemove, opRemoveC, opCancel, opGet}}, scenario{pre, []opKind{opGC, opRemoveC, opCancel, opGet}},
				scenario{pre, []opKind{opRemove, opRemoveC, opCancel, opClose}})
		}
	}
	return
}

func TestCheck(t *testing.T) {
	logger.SetDefault(zap.NewNop())
	logger.SetNamedLevels(logger.LevelsFromStr("*=fatal"))
	vk.Main(t, vk.Spec{
		Prop:  "C16",
		Level: "model_checking",
		Rule: "stateless DFS over all schedules of 2-4 concurrent cache operations on 1-2 ids (each scenario from an empty and from a preloaded cache); " +
			"scheduling points = every Lock of the cache/entry mutexes (vsync shim) + load outcome (ok/fail/aborted), Close in progress, TryClose verdict; " +
			"bounded by preemptions and environment deviations; states = distinct (scenario, event log) outcomes, transitions = scheduling decisions, " +
			"distinct_nontrivial = distinct event logs in which two operations met on the same entry (an operation waited for, or observed, another one's load/close)",
		Assumptions: []string{
			"goroutines interleave only at lock acquisitions and at the harness-owned blocking points; unsynchronised accesses are out of scope of the scheduler (race detector territory)",
			"RWMutex writer preference is not modelled; timeouts (Close's 10 s closing deadline) never fire: every harness blocking point eventually proceeds",
			"map iteration order inside GC/Close over two ids is whatever the runtime picks (not enumerated)",
		},
		Shards:   func(string) int { return 16 },
		MaxProcs: 1,
		Budget: func(tier string) time.Duration {
			if tier == "quick" {
				return 80 * time.Second
			}
			return 25 * time.Minute
		},
	}, func(c *vk.Ctx) { body(t, c) })
}

func body(t *testing.T, c *vk.Ctx) {
	pb, db := vk.Pick(c, 2, 3), vk.Pick(c, 1, 2)
	c.Bound("preemption_bound", pb)
	c.Bound("deviation_bound", db)
	if c.Replay != "" {
		replay(t, c)
		return
	}
	scs := scenarios(c)
	c.Bound("scenarios", len(scs))
	met := false
	for i, sc := range scs {
		if !c.Mine(i) {
			continue
		}
		sc := sc
		ex := &sched.Explorer{T: t, PreemptBound: pb, DevBound: db, Stop: c.TimeUp}
		ex.OnStuck = func(r *sched.Result) {
			c.Note("scenario %s stuck: deadlock=%v horizon=%v unfinished=%v trace=%v", sc, r.Deadlock, r.Horizon, r.Unfinished, r.Trace)
			c.FlushAndExit()
		}
		ex.OnExec = func(r *sched.Result) { met = judge(c, sc, r) || met }
		// determinism: the default schedule must be replayable
		r1, d := ex.CheckReplayable(sc.sched())
		if d != "" {
			c.Broken("scenario %s: default schedule is not deterministic: %s", sc, d)
			continue
		}
		ex.Explore(sc.sched())
		if ex.Capped {
			c.NotExhaustive(fmt.Sprintf("deadline reached inside scenario %s", sc))
		}
		c.Count("scenarios_done", 1)
		c.Count("replay_retries", ex.Retries)
		if ex.Skipped > 0 {
			c.NotExhaustive(fmt.Sprintf("scenario %s: %d subtrees skipped, the code under test kept diverging from the recorded prefix (%s)", sc, ex.Skipped, ex.LastDivergence))
		}
		if len(sc.Ops) == 2 && c.Shard == 0 && i < 40 {
			c.Sample(map[string]any{"scenario": sc.String(), "executions": ex.Executions, "max_steps": ex.MaxSteps, "default_schedule": r1.Trace})
		}
	}
	if c.Shard == 0 {
		c.Require(met, "vacuity: no schedule in which two operations met on the same entry")
	}
}

func judge(c *vk.Ctx, sc scenario, r *sched.Result) (met bool) {
	c.Count("executions", 1)
	c.Count("transitions", int64(len(r.Steps)))
	w := r.Data.(*world)
	var sb strings.Builder
	for _, e := range w.log {
		sb.WriteString(e.String())
		sb.WriteByte('\n')
	}
	logStr := sb.String()
	fresh := c.Distinct("states", sc.String()+"\n"+logStr)
	// two operations met: some instance was returned to / closed by an op other than its loader, or an op waited
	if strings.Count(logStr, "load-start") < strings.Count(logStr, "get:nil") || strings.Contains(logStr, "close-start") {
		if fresh {
			c.Distinct("distinct", sc.String()+"\n"+logStr)
		}
		met = true
	}
	rep := func() any {
		return map[string]any{"scenario": sc, "choices": r.Choices, "trace": r.Trace, "log": strings.Split(strings.TrimSpace(logStr), "\n")}
	}
	for _, p := range r.Panics {
		c.Violation(panicKey(p), fmt.Sprintf("scenario %s: %s", sc, strings.SplitN(p, "\n", 2)[0]), rep())
	}
	if r.Diverged != "" {
		c.Note("scenario %s: replay diverged: %s", sc, r.Diverged)
	}
	if r.Deadlock && len(r.Panics) == 0 {
		c.Violation("deadlock:"+blockedSummary(r.Unfinished), fmt.Sprintf("scenario %s: no goroutine can move but operations are unfinished: %v", sc, r.Unfinished), rep())
	}
	if r.Horizon {
		c.Violation("livelock", fmt.Sprintf("scenario %s: step horizon reached: %v", sc, r.Unfinished), rep())
	}
	if r.Stuck {
		return
	}
	for _, f := range checkLog(w.log) {
		c.Violation(f.key, fmt.Sprintf("scenario %s: %s", sc, f.what), rep())
	}
	return
}

func blockedSummary(unf []string) string {
	var k []string
	for _, u := range unf {
		// strip mutex numbers
		parts := strings.Split(u, ":")
		if len(parts) >= 2 {
			k = append(k, strings.Join(parts[:2], ":"))
		}
	}
	sort.Strings(k)
	return strings.Join(k, ",")
}

func replay(t *testing.T, c *vk.Ctx) {
	var rf struct {
		Case struct {
			Scenario scenario `json:"scenario"`
			Choices  []int    `json:"choices"`
		} `json:"case"`
	}
	if err := vk.ReadJSON(c.Replay, &rf); err != nil {
		c.Broken("replay file: %v", err)
		return
	}
	ex := &sched.Explorer{T: t}
	ex.OnStuck = func(r *sched.Result) { c.FlushAndExit() }
	var r *sched.Result
	ex.OnExec = func(res *sched.Result) { r = res; judge(c, rf.Case.Scenario, res) }
	res := ex.Run(rf.Case.Scenario.sched(), rf.Case.Choices)
	if r == nil {
		judge(c, rf.Case.Scenario, res)
	}
	w := res.Data.(*world)
	for _, e := range w.log {
		fmt.Fprintln(os.Stderr, "  ", e)
	}
}
