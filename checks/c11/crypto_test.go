package c11

// Crypto decoders: everything that turns bytes of another party into keys or plaintext.

import (
	"errors"
	"fmt"

	"github.com/anyproto/any-sync/util/crypto"

	"verif/lib/aclsim"
	"verif/lib/mutate"
	"verif/lib/vk"
)

func registerCrypto(c *vk.Ctx) {
	acc := aclsim.NewAccount(11, "crypto-victim")
	priv := acc.Keys.SignKey
	pub := priv.GetPublic()
	edPriv := priv.(*crypto.Ed25519PrivKey)
	msgs := [][]byte{{}, []byte("0123456789abcdef0123456789abcdef"), []byte("a somewhat longer plaintext that spans more than a couple of cipher blocks, 0123456789abcdef0123456789abcdef")}

	decOpts := func(small int) func(bool) mutate.Opts {
		return func(thorough bool) mutate.Opts {
			o := mutate.Opts{Kinds: "S B1 B2", SmallMax: 2, AllBytes: thorough}
			if thorough {
				o.SmallMax = small
			}
			return o
		}
	}
	structOpts := func(small int) func(bool) mutate.Opts {
		return func(thorough bool) mutate.Opts {
			o := mutate.Opts{Kinds: "S B1 B2 B3 F1", SmallMax: 2, AllBytes: thorough}
			if thorough {
				o.SmallMax = small
			}
			return o
		}
	}

	// asymmetric decryption
	var boxSeeds []seed
	for i, m := range msgs {
		ct, err := pub.Encrypt(m)
		if err != nil {
			panic(err)
		}
		boxSeeds = append(boxSeeds, seed{name: fmt.Sprintf("sealed box of %d bytes", len(msgs[i])), data: ct})
	}
	register(&entry{
		name: "crypto.Ed25519PrivKey.Decrypt", what: "Ed25519PrivKey.Decrypt (sealed box addressed to the victim)",
		seeds: boxSeeds, opts: decOpts(2), // (one mutant per seed is accepted: bit 255 of the ephemeral key is ignored by X25519 and is not part of the nonce)
		call: func(_ any, si int, data []byte) error {
			_, err := priv.Decrypt(data)
			return err
		},
	})
	rawPriv, _ := priv.Raw()
	rawPub, _ := pub.Raw()
	var privCurve, pubCurve [32]byte
	copy(privCurve[:], crypto.Ed25519PrivateKeyToCurve25519(rawPriv))
	pc, err := crypto.Ed25519PublicKeyToCurve25519(rawPub)
	if err != nil {
		panic(err)
	}
	copy(pubCurve[:], pc)
	register(&entry{
		name: "crypto.DecryptX25519", what: "crypto.DecryptX25519 with the victim's curve keys",
		seeds: boxSeeds, opts: decOpts(2),
		call: func(_ any, si int, data []byte) error {
			_, err := crypto.DecryptX25519(&privCurve, &pubCurve, data)
			return err
		},
	})

	// symmetric decryption
	aes := crypto.NewAES()
	var aesSeeds []seed
	for _, m := range msgs {
		ct, err := aes.Encrypt(m)
		if err != nil {
			panic(err)
		}
		aesSeeds = append(aesSeeds, seed{name: fmt.Sprintf("AES-GCM of %d bytes", len(m)), data: ct})
	}
	register(&entry{
		name: "crypto.AESKey.Decrypt", what: "AESKey.Decrypt and DecryptReuse (nil, empty, short and ample destination buffers)",
		seeds: aesSeeds, opts: decOpts(2), noAccept: "authenticated encryption: every changed ciphertext fails",
		call: func(_ any, si int, data []byte) error {
			_, err := aes.Decrypt(data)
			for _, dst := range [][]byte{nil, {}, make([]byte, 0, 4), make([]byte, 3, 8), make([]byte, 0, 256)} {
				_, e2 := aes.DecryptReuse(dst, data)
				if (e2 == nil) != (err == nil) {
					return fmt.Errorf("Decrypt and DecryptReuse(cap %d) disagree: %v / %v", cap(dst), err, e2)
				}
			}
			return err
		},
	})

	// key protos; an accepted key is also used
	pubProto, _ := pub.Marshall()
	privProto, _ := priv.Marshall()
	aesProto, _ := aes.Marshall()
	sig, _ := priv.Sign([]byte("msg"))
	ctForVictim := boxSeeds[1].data
	register(&entry{
		name: "crypto.UnmarshalEd25519PublicKeyProto", what: "UnmarshalEd25519PublicKeyProto, then Verify / Encrypt / Account / PeerId / Network / Equals on the accepted key",
		seeds: []seed{{name: "public key proto", data: pubProto}}, opts: structOpts(3),
		call: func(_ any, si int, data []byte) error {
			k, err := crypto.UnmarshalEd25519PublicKeyProto(data)
			if err != nil {
				return err
			}
			k.Verify([]byte("msg"), sig)
			k.Verify(nil, nil)
			k.Verify([]byte("msg"), sig[:63])
			_, eerr := k.Encrypt([]byte("x"))
			_ = k.Account()
			_ = k.PeerId()
			_ = k.Network()
			_ = k.Equals(pub)
			_ = pub.Equals(k)
			_, _ = k.Marshall()
			_, _ = k.LibP2P()
			_ = eerr // a low-order point may legitimately be unusable for encryption: an error, not a crash
			return nil
		},
	})
	register(&entry{
		name: "crypto.UnmarshalEd25519PrivateKeyProto", what: "UnmarshalEd25519PrivateKeyProto, then Sign / GetPublic / Decrypt / Marshall on the accepted key",
		seeds: []seed{{name: "private key proto", data: privProto}}, opts: structOpts(3),
		call: func(_ any, si int, data []byte) error {
			k, err := crypto.UnmarshalEd25519PrivateKeyProto(data)
			if err != nil {
				return err
			}
			s, _ := k.Sign([]byte("msg"))
			p := k.GetPublic()
			p.Verify([]byte("msg"), s)
			_, _ = k.Decrypt(ctForVictim)
			_, _ = k.Marshall()
			_, _ = k.Raw()
			_ = k.Equals(priv)
			_, _ = k.LibP2P()
			return nil
		},
	})
	register(&entry{
		name: "crypto.UnmarshallAESKeyProto", what: "UnmarshallAESKeyProto, then Decrypt / Encrypt with the accepted key",
		seeds: []seed{{name: "aes key proto", data: aesProto}}, opts: structOpts(3),
		call: func(_ any, si int, data []byte) error {
			k, err := crypto.UnmarshallAESKeyProto(data)
			if err != nil {
				return err
			}
			_, _ = k.Decrypt(aesSeeds[1].data)
			ct, err := k.Encrypt([]byte("x"))
			if err != nil {
				return err
			}
			if _, err = k.Decrypt(ct); err != nil {
				return errors.New("accepted AES key cannot decrypt what it encrypted")
			}
			return nil
		},
	})
	_ = edPriv

	// string encodings of keys
	type strDec struct {
		name string
		seed string
		f    func(string) error
	}
	for _, d := range []strDec{
		{"crypto.DecodeAccountAddress", pub.Account(), func(s string) error { _, err := crypto.DecodeAccountAddress(s); return err }},
		{"crypto.DecodeNetworkId", pub.Network(), func(s string) error { _, err := crypto.DecodeNetworkId(s); return err }},
		{"crypto.DecodePeerId", pub.PeerId(), func(s string) error { _, err := crypto.DecodePeerId(s); return err }},
		{"crypto.UnmarshallAESKeyString", aes.String(), func(s string) error { _, err := crypto.UnmarshallAESKeyString(s); return err }},
		{"crypto.DecodeKeyFromString", func() string { s, _ := crypto.EncodeKeyToString(pub); return s }(), func(s string) error {
			_, err := crypto.DecodeKeyFromString(s, crypto.UnmarshalEd25519PublicKey, nil)
			return err
		}},
	} {
		d := d
		e := &entry{
			name: d.name, what: d.name + " on mutated strings",
			seeds: []seed{{name: "encoded key", data: []byte(d.seed)}}, opts: decOpts(3),
			call: func(_ any, si int, data []byte) error { return d.f(string(data)) },
		}
		switch d.name {
		case "crypto.DecodeAccountAddress", "crypto.DecodeNetworkId":
			e.noAccept = "checksummed encoding: no single mutation of the seed and no string of <= 3 characters decodes"
		}
		register(e)
	}
}
