package c11

// pubsub: PubSubMessage decode + Service.HandleMessage of a node-role and a client-role service with the context a
// pool stream would carry (peer id, identity, stream id).

import (
	"context"
	"fmt"
	"time"

	"storj.io/drpc"

	"github.com/anyproto/any-sync/app"
	"github.com/anyproto/any-sync/commonspace/pubsub"
	"github.com/anyproto/any-sync/commonspace/pubsub/pubsubproto"
	"github.com/anyproto/any-sync/net/peer"
	"github.com/anyproto/any-sync/net/streampool"
	"github.com/anyproto/any-sync/testutil/accounttest"
	"github.com/anyproto/any-sync/util/crypto"

	"verif/lib/aclsim"
	"verif/lib/mutate"
	"verif/lib/vk"
)

type psRelay struct{}

func (psRelay) IsResponsible(spaceId string) bool                                  { return spaceId == "space" }
func (psRelay) IsResponsibleNode(_, peerId string) bool                            { return peerId == "node-peer" }
func (psRelay) OtherResponsiblePeers(context.Context, string) ([]peer.Peer, error) { return nil, nil }

type psMembers struct{}

func (psMembers) CheckMember(ctx context.Context, spaceId string, identity crypto.PubKey) error {
	return nil
}

func newPubsub(node bool, owner *aclsim.Account) pubsub.Service {
	deps := pubsub.Deps{Membership: psMembers{}, Config: pubsub.Config{PublishRps: 1e9, PublishBurst: 1 << 30, MaxTimestampSkew: 100 * 365 * 24 * time.Hour}}
	if node {
		deps.Relay = psRelay{}
	}
	svc := pubsub.New(deps)
	a := new(app.App)
	a.Register(accounttest.NewWithAcc(owner.Keys))
	if err := svc.Init(a); err != nil {
		panic(err)
	}
	if err := svc.Run(context.Background()); err != nil {
		panic(err)
	}
	if !node {
		if _, err := svc.Subscribe("space", "chat/#", func(spaceId, topic string, identity crypto.PubKey, payload []byte) {}); err != nil {
			panic(err)
		}
	}
	return svc
}

func registerPubsub(c *vk.Ctx) {
	streampool.VerifPanicOnFatal()
	owner := aclsim.NewAccount(11, "pubsub-host")
	sender := aclsim.NewAccount(11, "pubsub-sender")
	pub := &pubsubproto.Publish{SpaceId: "space", Topic: "chat/room", MsgId: []byte("0123456789abcdef")[:pubsub.VerifMsgIdLen], Payload: []byte("hello"), TimestampMilli: 1700000000000}
	if err := pubsub.VerifSignPublish(sender.Keys.SignKey, pub); err != nil {
		panic(err)
	}
	enc := func(m *pubsubproto.PubSubMessage) []byte {
		b, err := m.MarshalVT()
		if err != nil {
			panic(err)
		}
		return b
	}
	seeds := []seed{
		{name: "subscribe", data: enc(&pubsubproto.PubSubMessage{Content: &pubsubproto.PubSubMessage_Subscribe{Subscribe: &pubsubproto.Subscribe{SpaceId: "space", Topics: []string{"chat/#", "acc/+/x"}}}})},
		{name: "publish", data: enc(&pubsubproto.PubSubMessage{Content: &pubsubproto.PubSubMessage_Publish{Publish: pub}})},
		{name: "unsubscribe", data: enc(&pubsubproto.PubSubMessage{Content: &pubsubproto.PubSubMessage_Unsubscribe{Unsubscribe: &pubsubproto.Unsubscribe{SpaceId: "space", Topics: []string{"chat/#"}}}})},
		{name: "status", data: enc(&pubsubproto.PubSubMessage{Content: &pubsubproto.PubSubMessage_Status{Status: &pubsubproto.Status{SpaceId: "space", Topics: []string{"chat/room"}, Code: 3, MsgId: pub.MsgId}}})},
	}
	type svcs struct{ node, client pubsub.Service }
	ctx := peer.CtxWithPeerId(context.Background(), "hostile-peer")
	ctx = peer.CtxWithIdentity(ctx, sender.Proto)
	ctx = streampool.VerifStreamCtx(ctx, 77, "hostile-peer")
	type handler interface {
		HandleMessage(ctx context.Context, peerId string, msg drpc.Message) error
	}
	register(&entry{
		name: "pubsub.HandleMessage", what: "pubsubproto.PubSubMessage decode + pubsub Service.HandleMessage (node role and client role with a local subscription) with the context of a pool stream; the handler reports frame-level rejections as Status frames, never as errors",
		seeds: seeds,
		opts: func(thorough bool) mutate.Opts {
			return mutate.Opts{Kinds: "S B1 B2 B3 F1", SmallMax: 2, AllBytes: thorough, Depth: 4, RepMax: 64 << 10}
		},
		worker: func() any { return &svcs{node: newPubsub(true, owner), client: newPubsub(false, owner)} },
		call: func(w any, si int, data []byte) error {
			s := w.(*svcs)
			for _, svc := range []pubsub.Service{s.node, s.client} {
				m := &pubsubproto.PubSubMessage{}
				if err := m.UnmarshalVT(data); err != nil {
					return err
				}
				if err := svc.(handler).HandleMessage(ctx, "hostile-peer", m); err != nil {
					return err
				}
			}
			return nil
		},
	})
	_ = fmt.Sprint
}
