// Package c11 decides property C11 "hostile or malformed peer input is rejected with an error, never a crash" by
// bounded exhaustive enumeration (engine M, /verif/lib/mutate): for every entry point where bytes of another party
// are parsed or applied, every mutant of a few valid seed messages within the stated bound is handed to the real
// code, and the call must return (a value or an error): no panic, no hang, no allocation unrelated to the input size.
package c11

import (
	crand "crypto/rand"
	"crypto/sha256"
	"encoding/binary"
	"encoding/hex"
	"fmt"
	"os"
	"regexp"
	"runtime"
	"runtime/debug"
	"runtime/metrics"
	"sort"
	"strings"
	"sync"
	"sync/atomic"
	"testing"
	"time"

	"go.uber.org/zap"

	"github.com/anyproto/any-sync/app/logger"

	"verif/lib/mutate"
	"verif/lib/vk"
)

// ---- deterministic crypto/rand ---------------------------------------------------------------------------------

// detRand replaces crypto/rand.Reader: seeds (keys, nonces, ephemeral keys) become a function of the check alone,
// so that labels identify the same bytes in every run.
type detRand struct {
	mu  sync.Mutex
	ctr uint64
	buf []byte
}

func (r *detRand) Read(p []byte) (int, error) {
	r.mu.Lock()
	defer r.mu.Unlock()
	for i := range p {
		if len(r.buf) == 0 {
			var b [16]byte
			copy(b[:], "verif-c11")
			binary.LittleEndian.PutUint64(b[8:], r.ctr)
			r.ctr++
			s := sha256.Sum256(b[:])
			r.buf = s[:]
		}
		p[i] = r.buf[0]
		r.buf = r.buf[1:]
	}
	return len(p), nil
}

// ---- entries ---------------------------------------------------------------------------------------------------

type seed struct {
	name string
	data []byte
	ctx  any
}

// entry is one network-facing entry point with its adapter.
type entry struct {
	name  string
	what  string
	seeds []seed
	// opts returns the generic mutations applied to every seed (quick / thorough).
	opts func(thorough bool) mutate.Opts
	// extra yields hand-built structure-aware cases (F2 and friends) for seed si.
	extra func(si int, yield mutate.Yield)
	// worker builds per-goroutine state (nil: none needed).
	worker func() any
	// call hands data (a mutant of seed si) to the real code. A returned error means "rejected".
	call func(w any, si int, data []byte) error
	// noAccept: why no mutant of this entry can ever be accepted (authenticated decryption ...): waives the
	// ">= 1 mutant accepted" vacuity guard.
	noAccept string
	// noReject: likewise for entries that cannot reject.
	noReject string
	serial   bool
	// passes: how many times the adapter itself decodes / copies the input (pipeline of several real components);
	// the allocation bound is passes*64*len+8MiB
	passes int
	pairs  bool // thorough: all pairs of F1 mutations
	// pairSeeds > 0 restricts the pairs to the first seeds; pairLight restricts both factors to the structural
	// operations (remove / empty / boundary lengths / duplicate / small integers)
	pairSeeds int
	pairLight bool

	// results
	cases, accepted, rejected, panics atomic.Int64
	done                              bool // the quick-tier enumeration of this entry ran to its end
}

var entries []*entry

func register(e *entry) { entries = append(entries, e) }

type replayCase struct {
	Entry string `json:"entry"`
	Seed  int    `json:"seed"`
	Label string `json:"label"`
}

type finding struct {
	key    string
	what   string
	rc     replayCase
	size   int
	count  int
	sample string
}

type harness struct {
	c        *vk.Ctx
	mu       sync.Mutex
	findings map[string]*finding
	excl     sync.RWMutex // workers hold R during a call; re-measurements hold W
}

var digits = regexp.MustCompile(`[0-9]+`)
var longTok = regexp.MustCompile(`[A-Za-z0-9+/=_-]{24,}`)

// errClass normalises an error text into a bounded class.
func errClass(err error) string {
	if err == nil {
		return "ok"
	}
	s := err.Error()
	s = longTok.ReplaceAllString(s, "<tok>")
	s = digits.ReplaceAllString(s, "#")
	s = strings.Map(func(r rune) rune {
		if r < 32 || r > 126 {
			return '?'
		}
		return r
	}, s)
	if len(s) > 56 {
		s = s[:56]
	}
	return "err:" + s
}

var frameRe = regexp.MustCompile(`(?m)^(github\.com/anyproto/any-sync/\S+)\([^\n]*\)\n\t(\S+:\d+)`)

// panicSite returns the function (stable key part) and file:line of the first any-sync frame below the panic.
func panicSite(stack string) (fn, pos string) {
	s := stack
	if i := strings.Index(s, "\npanic("); i >= 0 {
		s = s[i:]
	}
	for _, m := range frameRe.FindAllStringSubmatch(s, -1) {
		if strings.Contains(m[1], "/verifshim/") {
			continue
		}
		fn = strings.TrimPrefix(m[1], "github.com/anyproto/any-sync/")
		// closures: keep the enclosing function name only
		fn = regexp.MustCompile(`\.func\d+(\.\d+)*$`).ReplaceAllString(fn, "")
		return fn, m[2]
	}
	return "unknown", ""
}

func guarded(f func() error) (err error, panicked bool, val any, stack string) {
	defer func() {
		if r := recover(); r != nil {
			panicked, val, stack = true, r, string(debug.Stack())
		}
	}()
	err = f()
	return
}

var allocSample = []metrics.Sample{{Name: "/gc/heap/allocs:bytes"}}

func allocNow(s []metrics.Sample) uint64 {
	metrics.Read(s)
	return s[0].Value.Uint64()
}

func exactAlloc() uint64 {
	var ms runtime.MemStats
	runtime.ReadMemStats(&ms)
	return ms.TotalAlloc
}

const (
	hangLimit   = 20 * time.Second
	allocSlack  = 8 << 20
	allocFactor = 64
)

func (h *harness) record(key, what string, rc replayCase, size int, hexIn string) {
	h.mu.Lock()
	defer h.mu.Unlock()
	f := h.findings[key]
	if f == nil {
		f = &finding{key: key, size: 1 << 62}
		h.findings[key] = f
	}
	f.count++
	if size < f.size || (size == f.size && rc.Label < f.rc.Label) {
		f.size, f.what, f.rc, f.sample = size, what, rc, hexIn
	}
}

func (h *harness) confirmed(key string) int {
	h.mu.Lock()
	defer h.mu.Unlock()
	if f := h.findings[key]; f != nil {
		return f.count
	}
	return 0
}

func hexShort(b []byte) string {
	if len(b) > 400 {
		return hex.EncodeToString(b[:400]) + fmt.Sprintf("...(%d bytes)", len(b))
	}
	return hex.EncodeToString(b)
}

// exec runs one case and applies the oracle. Returns the outcome class.
func (h *harness) exec(e *entry, w any, si int, kind, label string, data []byte, wc *wctx) string {
	c := h.c
	samples := wc.samples
	c.Count("evaluations", 1)
	c.Count("executions", 1)
	e.cases.Add(1)
	rc := replayCase{Entry: e.name, Seed: si, Label: label}
	h.excl.RLock()
	a0 := allocNow(samples)
	t0 := time.Now()
	err, panicked, val, stack := guarded(func() error { return e.call(w, si, data) })
	dur := time.Since(t0)
	a1 := allocNow(samples)
	h.excl.RUnlock()
	class := wc.class(err)
	switch {
	case panicked:
		fn, pos := panicSite(stack)
		class = "panic:" + fn
		e.panics.Add(1)
		h.record("panic:"+e.name+":"+fn,
			fmt.Sprintf("%s: panic %q at %s (%s) on seed %q mutation %s; input (%d bytes) %s", e.name, fmt.Sprint(val), fn, pos, e.seeds[si].name, label, len(data), hexShort(data)),
			rc, len(data), hexShort(data))
	case err == nil:
		e.accepted.Add(1)
	default:
		if ve, ok := err.(*violationErr); ok {
			class = "violation:" + ve.key
			h.record(ve.key, fmt.Sprintf("%s: %s on seed %q mutation %s; input (%d bytes) %s", e.name, ve.what, e.seeds[si].name, label, len(data), hexShort(data)), rc, len(data), hexShort(data))
		}
		e.rejected.Add(1)
	}
	if dur > hangLimit {
		slow := 1
		for k := 0; k < 2; k++ {
			t := time.Now()
			guarded(func() error { return e.call(w, si, data) })
			if time.Since(t) > hangLimit {
				slow++
			}
		}
		if slow == 3 {
			h.record("hang:"+e.name, fmt.Sprintf("%s: call took %v (3 times above %v) on seed %q mutation %s; input %s", e.name, dur, hangLimit, e.seeds[si].name, label, hexShort(data)), rc, len(data), hexShort(data))
		}
	}
	passes := e.passes
	if passes == 0 {
		passes = 1
	}
	limit := uint64(passes*allocFactor*len(data) + allocSlack)
	over := a1-a0 > limit
	if over {
		// The counter is process wide: other goroutines allocate too. A real excess shows up in every repetition,
		// their noise does not: repeat twice next to them before stopping everybody for the exact measurement.
		for k := 0; k < 2 && over; k++ {
			h.excl.RLock()
			b0 := allocNow(samples)
			guarded(func() error { return e.call(w, si, data) })
			over = allocNow(samples)-b0 > limit
			h.excl.RUnlock()
		}
	}
	akey := "alloc:" + e.name + ":" + allocKind(kind, label)
	if over && h.confirmed(akey) >= 1 {
		over = false // this class of input is already established as a finding: no need to stop everybody again
		c.Count("alloc_more_of_known_class", 1)
	}
	if over {
		// measure again alone, exactly, three times
		h.excl.Lock()
		c.Count("alloc_remeasured", 1)
		if os.Getenv("C11_DEBUG") != "" {
			fmt.Fprintf(os.Stderr, "CAND %s seed=%d %s len=%d parallel=%d limit=%d dur=%v\n", e.name, si, label, len(data), a1-a0, limit, dur)
		}
		tEx := time.Now()
		over := 0
		var worst uint64
		for k := 0; k < 3; k++ {
			b0 := exactAlloc()
			guarded(func() error { return e.call(w, si, data) })
			d := exactAlloc() - b0
			if d > worst {
				worst = d
			}
			if d <= limit {
				break // the first measurement was inflated by the other goroutines
			}
			over++
		}
		h.excl.Unlock()
		c.Count("alloc_remeasure_ms", time.Since(tEx).Milliseconds())
		if over == 3 {
			c.Count("alloc_flagged", 1)
			h.record(akey, fmt.Sprintf("%s: %d bytes allocated for a %d byte input (limit %d, measured alone 3 times) on seed %q mutation %s; input %s", e.name, worst, len(data), limit, e.seeds[si].name, label, hexShort(data)), rc, len(data), hexShort(data))
		}
	}
	if dk := e.name + "|" + kind + "|" + class; !wc.seen[dk] {
		wc.seen[dk] = true
		c.Distinct("distinct", dk)
		c.Distinct("outcomes", e.name+"|"+class)
	}
	return class
}

// wctx is the per-goroutine part of the harness (caches that keep the per-case overhead small).
type wctx struct {
	samples []metrics.Sample
	seen    map[string]bool
	classes map[string]string
}

func newWctx() *wctx {
	return &wctx{samples: []metrics.Sample{{Name: "/gc/heap/allocs:bytes"}}, seen: map[string]bool{}, classes: map[string]string{}}
}

func (wc *wctx) class(err error) string {
	if err == nil {
		return "ok"
	}
	s := err.Error()
	if c, ok := wc.classes[s]; ok {
		return c
	}
	c := errClass(err)
	if len(wc.classes) < 4096 {
		wc.classes[s] = c
	}
	return c
}

// allocKind classifies the mutation behind an allocation finding: kind plus its operation without numbers.
func allocKind(kind, label string) string {
	op := label
	if i := strings.LastIndexByte(op, ':'); i >= 0 {
		op = op[i+1:]
	}
	if i := strings.IndexByte(op, '='); i >= 0 {
		op = op[:i]
	}
	op = strings.Trim(digits.ReplaceAllString(op, ""), "=- ")
	if op == "" {
		return kind
	}
	return kind + "-" + op
}

// violationErr is returned by an adapter whose own oracle (a differential one) failed: not a rejection.
type violationErr struct{ key, what string }

func (v *violationErr) Error() string { return "oracle: " + v.what }

type job struct {
	si          int
	kind, label string
	data        []byte
}

func nWorkers() int {
	n := runtime.GOMAXPROCS(0)
	if n > 14 {
		n = 14
	}
	if n < 1 {
		n = 1
	}
	return n
}

// enumerate produces every case of entry e at the tier.
func (h *harness) enumerate(e *entry, thorough bool, phase int, yield func(j job) bool) {
	for si := range e.seeds {
		sd := e.seeds[si]
		y := func(kind, label string, data []byte) bool {
			return yield(job{si, kind, label, data})
		}
		switch phase {
		case 0: // the quick-tier enumeration (also the first part of the thorough tier)
			o := e.opts(false)
			if si > 0 && o.Has("S") {
				// the small strings do not depend on the seed: once per entry (in the first seed's context)
				var ks []string
				for _, k := range []string{"B1", "B2", "B3", "F1"} {
					if o.Has(k) {
						ks = append(ks, k)
					}
				}
				o.Kinds = strings.Join(ks, " ")
				if o.Kinds == "" {
					o.Kinds = "none"
				}
			}
			if !mutate.Enumerate(sd.data, o, y) {
				return
			}
			if e.extra != nil {
				stop := false
				e.extra(si, func(kind, label string, data []byte) bool {
					if stop || !y(kind, label, data) {
						stop = true
					}
					return !stop
				})
				if stop {
					return
				}
			}
		case 1: // thorough additions: all byte values, longer small strings (first seed only: S does not depend on it)
			o := e.opts(true)
			q := e.opts(false)
			var kinds []string
			if o.Has("B1") && o.AllBytes && !q.AllBytes {
				kinds = append(kinds, "B1")
			}
			if si == 0 && o.Has("S") && o.SmallMax > q.SmallMax {
				kinds = append(kinds, "S")
			}
			if len(kinds) == 0 {
				continue
			}
			o.Kinds = strings.Join(kinds, " ")
			skipLen := -1
			if si == 0 {
				skipLen = q.SmallMax
			}
			ok := mutate.Enumerate(sd.data, o, func(kind, label string, data []byte) bool {
				if kind == "S" && len(data) <= skipLen && q.Has("S") {
					return true // done in phase 0
				}
				if kind == "B1" {
					// the 6 quick values were done in phase 0
					var off int
					var v byte
					fmt.Sscanf(label, "B1:%d:%02x", &off, &v)
					for _, qv := range mutate.ByteValues(sd.data[off], false) {
						if qv == v {
							return true
						}
					}
				}
				return y(kind, label, data)
			})
			if !ok {
				return
			}
		case 2: // thorough: all pairs of F1 mutations
			if !e.pairs || (e.pairSeeds > 0 && si >= e.pairSeeds) {
				continue
			}
			o := e.opts(true)
			o.Kinds = "F1"
			keep := func(l string) bool {
				if strings.Contains(l, ":rep") {
					return false
				}
				if !e.pairLight {
					return true
				}
				op := l[strings.LastIndexByte(l, ':')+1:]
				switch {
				case op == "remove", op == "dup", op == "empty", strings.HasPrefix(op, "len"):
					return true
				case strings.HasPrefix(op, "varint="):
					return len(op) <= len("varint=")+1
				}
				return false
			}
			ok := mutate.Enumerate(sd.data, o, func(_, l1 string, d1 []byte) bool {
				if !keep(l1) {
					return true
				}
				return mutate.Enumerate(d1, o, func(_, l2 string, d2 []byte) bool {
					if !keep(l2) || string(d2) == string(sd.data) {
						return true
					}
					return y("F1xF1", l1+"|"+l2, d2)
				})
			})
			if !ok {
				return
			}
		}
	}
}

// findCase regenerates one case from its label.
func (h *harness) findCase(e *entry, rc replayCase) ([]byte, string, bool) {
	var out []byte
	kind := ""
	found := false
	for phase := 0; phase < 3 && !found; phase++ {
		h.enumerate(e, true, phase, func(j job) bool {
			if j.si == rc.Seed && j.label == rc.Label {
				out, kind, found = j.data, j.kind, true
				return false
			}
			return true
		})
	}
	return out, kind, found
}

func (h *harness) runEntry(e *entry, thorough bool, phase int) (complete bool) {
	c := h.c
	nw := nWorkers()
	if e.serial {
		nw = 1
	}
	jobs := make(chan []job, 4*nw)
	// big inputs go through one lane of their own: their legitimate allocations (a few times their size) would
	// otherwise show up as noise in the allocation measurements of the cases running next to them
	bigJobs := make(chan []job, 64)
	var wg sync.WaitGroup
	var stop atomic.Bool
	lane := func(ch chan []job) {
		defer wg.Done()
		var w any
		if e.worker != nil {
			w = e.worker()
		}
		wc := newWctx()
		for batch := range ch {
			for _, j := range batch {
				if stop.Load() {
					continue
				}
				h.exec(e, w, j.si, j.kind, j.label, j.data, wc)
			}
			if c.TimeUp() {
				stop.Store(true)
			}
		}
	}
	for i := 0; i < nw; i++ {
		wg.Add(1)
		go lane(jobs)
	}
	wg.Add(1)
	go lane(bigJobs)
	var batch []job
	flush := func() {
		if len(batch) > 0 {
			jobs <- batch
			batch = nil
		}
	}
	h.enumerate(e, thorough, phase, func(j job) bool {
		if stop.Load() {
			return false
		}
		if len(j.data) > bigInput {
			bigJobs <- []job{j}
			return true
		}
		batch = append(batch, j)
		if len(batch) >= 256 {
			flush()
		}
		return true
	})
	flush()
	close(jobs)
	close(bigJobs)
	wg.Wait()
	return !stop.Load()
}

const bigInput = 16 << 10

func TestCheck(t *testing.T) {
	vk.Main(t, vk.Spec{
		Prop:  "C11",
		Level: "exploration",
		Rule: "per entry point: 2-3 valid seed messages produced by the simulators (deterministic keys and nonces) x engine M: " +
			"S all byte strings of length <= 2 (thorough <= 3 for sub-microsecond decoders), B1 every offset x {^b,b^1,b^0x80,b+1,0x00,0xFF} (thorough: all 255 values), " +
			"B2 every truncation, +1 byte, +1 KiB, B3 every length-delimited field (protowire walk) x length in {0,len-1,len+1,remaining,2^31-1,2^63} spliced and with enclosing lengths re-computed, " +
			"F1 every wire field to the stated depth removed / duplicated / x1024 / x65536 / zero / boundary lengths 1,11,12,13,31,32,33,63,64,65 / integer boundaries / other wire type, " +
			"F2 the same mutations applied to the signed inner bytes and then re-signed with a real key and the CID recomputed (ACL records, tree changes), plus typed hostile records per content kind " +
			"(thorough: all 255 byte values, S <= 3, and all pairs of F1 mutations: of the keep-identity decoder's input in full, of the signed data of the five ciphertext-bearing ACL record kinds for the structural operations remove / empty / boundary length / duplicate / small integer). Mutants byte-identical to the seed are skipped. " +
			"distinct = (entry point, mutation kind, outcome class) where the outcome class is ok / the normalised error text / the panic site",
		Assumptions: []string{
			"crypto/rand.Reader is replaced by a deterministic stream while seeds are built, so labels denote the same bytes in every run",
			"the oracle is: the call returns; a panic (recovered, keyed by its first any-sync frame), a call above 20 s three times, or an allocation above 64*len(input)+8 MiB measured alone three times is a violation; errors are never judged",
			"trees and ACL lists are fresh per case (or rebuilt after every accepted case), so every case is independent of the others and replayable from (entry, seed, label)",
			"handshake frames are enumerated by the C14 check (same engine over a byte pipe) and are not repeated here",
		},
		Budget: func(tier string) time.Duration {
			if tier == "quick" {
				return 75 * time.Second
			}
			return 23 * time.Minute
		},
	}, body)
}

func body(c *vk.Ctx) {
	logger.SetDefault(zap.NewNop())
	logger.SetNamedLevels([]logger.NamedLevel{{Name: "*", Level: "fatal"}})
	crand.Reader = &detRand{}
	debug.SetGCPercent(200)
	h := &harness{c: c, findings: map[string]*finding{}}
	buildEntries(c)
	if only := os.Getenv("C11_ONLY"); only != "" {
		// debugging aid: run a subset of the entry points (never set by /verif/run)
		var keep []*entry
		for _, e := range entries {
			if strings.Contains(e.name, only) {
				keep = append(keep, e)
			}
		}
		entries = keep
		c.NotExhaustive("C11_ONLY=" + only)
	}

	if c.Replay != "" {
		var rf struct {
			Case replayCase `json:"case"`
		}
		if err := vk.ReadJSON(c.Replay, &rf); err != nil {
			c.Broken("replay file: %v", err)
			return
		}
		for _, e := range entries {
			if e.name != rf.Case.Entry {
				continue
			}
			data, kind, ok := h.findCase(e, rf.Case)
			if !ok {
				c.Broken("replay: case %+v not found", rf.Case)
				return
			}
			var w any
			if e.worker != nil {
				w = e.worker()
			}
			// delivered twice to one worker: in the enumeration a worker (its ACL list, key storage, ...) serves many
			// cases, and a violation that needs what an earlier delivery of the same input left behind shows on the
			// second delivery only
			wc := newWctx()
			class := h.exec(e, w, rf.Case.Seed, kind, rf.Case.Label, data, wc)
			class2 := h.exec(e, w, rf.Case.Seed, kind, rf.Case.Label, data, wc)
			c.Note("replay %+v: %d bytes -> %s, delivered again -> %s", rf.Case, len(data), class, class2)
			h.report()
			return
		}
		c.Broken("replay: unknown entry %q", rf.Case.Entry)
		return
	}

	// every entry accepts its unmutated seeds
	for _, e := range entries {
		var w any
		if e.worker != nil {
			w = e.worker()
		}
		for si := range e.seeds {
			err, panicked, val, _ := guarded(func() error { return e.call(w, si, e.seeds[si].data) })
			c.Count("executions", 1)
			c.Require(!panicked && err == nil, "entry %s does not accept its unmutated seed %d (%s): err=%v panic=%v", e.name, si, e.seeds[si].name, err, val)
		}
	}

	thorough := !c.Quick()
	phases := 1
	if thorough {
		phases = 3
	}
	for phase := 0; phase < phases; phase++ {
		for _, e := range entries {
			if c.TimeUp() {
				c.NotExhaustive(fmt.Sprintf("deadline reached in phase %d before entry %s", phase, e.name))
				break
			}
			t0 := time.Now()
			before := e.cases.Load()
			if !h.runEntry(e, thorough, phase) {
				c.NotExhaustive(fmt.Sprintf("deadline reached in phase %d inside entry %s", phase, e.name))
			} else if phase == 0 {
				e.done = true
			}
			if n := e.cases.Load() - before; n > 0 && os.Getenv("C11_DEBUG") != "" {
				fmt.Fprintf(os.Stderr, "phase %d %-44s %8d cases in %v\n", phase, e.name, n, time.Since(t0).Round(time.Millisecond))
			}
		}
	}

	total := int64(0)
	for _, e := range entries {
		total += e.cases.Load()
		c.Bound("entry:"+e.name, map[string]any{"what": e.what, "seeds": len(e.seeds), "cases": e.cases.Load(), "accepted": e.accepted.Load(), "rejected": e.rejected.Load(), "panics": e.panics.Load()})
		if !e.done {
			continue // cut by the deadline (recorded as not exhaustive): no vacuity verdict on a partial enumeration
		}
		c.Require(e.cases.Load() > 0, "entry %s ran no case", e.name)
		if e.noAccept == "" {
			c.Require(e.accepted.Load() > 0, "entry %s accepted no mutant (vacuity)", e.name)
		}
		if e.noReject == "" {
			c.Require(e.rejected.Load()+e.panics.Load() > 0, "entry %s rejected no mutant (vacuity)", e.name)
		}
	}
	// a few actual cases for the evidence: the 40th case of one entry per family
	for _, name := range []string{"acl.ValidateRawRecord", "crypto.AESKey.Decrypt", "tree.AddRawChanges(verifying)", "sync.HandleHeadUpdate", "kv.KeyValueFromProto", "rpc.snappy.Unmarshal"} {
		for _, e := range entries {
			if e.name != name {
				continue
			}
			n := 0
			var pick job
			h.enumerate(e, false, 0, func(j job) bool {
				n++
				pick = j
				return n < 40
			})
			var w any
			if e.worker != nil {
				w = e.worker()
			}
			err, panicked, val, _ := guarded(func() error { return e.call(w, pick.si, pick.data) })
			out := errClass(err)
			if panicked {
				out = fmt.Sprintf("panic: %v", val)
			}
			c.Sample(map[string]any{"entry": e.name, "seed": e.seeds[pick.si].name, "mutation": pick.label, "input_hex": hexShort(pick.data), "outcome": out})
		}
	}
	c.Bound("entry_points", len(entries))
	c.Bound("cases_total", total)
	h.report()
}

func (h *harness) report() {
	var keys []string
	for k := range h.findings {
		keys = append(keys, k)
	}
	sort.Strings(keys)
	for _, k := range keys {
		f := h.findings[k]
		h.c.Violation(k, fmt.Sprintf("%s [%d cases with this key; shown: the smallest input]", f.what, f.count), f.rc)
	}
}
