package c11

// Building an ACL list from a root a hostile party authored (a pulled / pushed space, a one-to-one space somebody
// opened with the victim): the root's signed payload is mutated and signed again by its author (F2).

import (
	"fmt"

	"google.golang.org/protobuf/proto"

	"github.com/anyproto/any-sync/commonspace/object/acl/aclrecordproto"
	"github.com/anyproto/any-sync/commonspace/object/acl/list"
	"github.com/anyproto/any-sync/commonspace/object/acl/recordverifier"
	"github.com/anyproto/any-sync/commonspace/spacepayloads"
	"github.com/anyproto/any-sync/consensus/consensusproto"
	"github.com/anyproto/any-sync/util/crypto"
	"github.com/anyproto/any-sync/util/crypto/cryptoproto"

	"verif/lib/aclsim"
	"verif/lib/mutate"
	"verif/lib/vk"
)

func registerACLRoot(c *vk.Ctx) {
	victim := aclsim.NewAccount(11, "root-victim")
	attacker := aclsim.NewAccount(11, "root-attacker")
	network := aclsim.NewAccount(11, "~network")
	master := aclsim.NewAccount(11, "root-master").Keys.SignKey

	rootPayload := func(rec *consensusproto.RawRecordWithId) []byte {
		raw := &consensusproto.RawRecord{}
		if err := raw.UnmarshalVT(rec.Payload); err != nil {
			panic(err)
		}
		return raw.Payload
	}
	type rseed struct {
		name   string
		signer crypto.PrivKey
		data   []byte
	}
	var rs []rseed
	// 1. a one-to-one space the attacker opened with the victim: the root is signed by the shared key both can derive
	oto, err := spacepayloads.StoragePayloadForOneToOneSpace(attacker.Keys.SignKey, victim.Pub())
	if err != nil {
		panic(err)
	}
	shared, err := crypto.GenerateSharedKey(attacker.Keys.SignKey, victim.Pub(), crypto.AnysyncOneToOneSpacePath)
	if err != nil {
		panic(err)
	}
	rs = append(rs, rseed{"one-to-one root (attacker + victim)", shared, rootPayload(oto.AclWithId)})
	// 2. a derived space of the attacker
	der, err := spacepayloads.StoragePayloadForSpaceDerive(spacepayloads.SpaceDerivePayload{SigningKey: attacker.Keys.SignKey, MasterKey: master, SpaceType: "verif"})
	if err != nil {
		panic(err)
	}
	rs = append(rs, rseed{"derived root of the attacker", attacker.Keys.SignKey, rootPayload(der.AclWithId)})
	// 3. a shareable space of the attacker (read key, metadata key)
	sim := aclsim.New(12, "root-attacker2")
	fixRootTimestamp(sim)
	rs = append(rs, rseed{"shareable root of the attacker", sim.Accounts[0].Keys.SignKey, rootPayload(sim.Log[0])})

	resignRoot := func(key crypto.PrivKey, payload []byte) *consensusproto.RawRecordWithId {
		sig, err := key.Sign(payload)
		if err != nil {
			panic(err)
		}
		return aclsim.WithId(&consensusproto.RawRecord{Payload: payload, Signature: sig})
	}
	var seeds []seed
	for _, s := range rs {
		seeds = append(seeds, seed{name: s.name, data: s.data})
	}
	keyP := func(t cryptoproto.KeyType, d []byte) []byte { return keyProto(t, d) }
	register(&entry{
		name: "acl.BuildAclList(root)", what: "list.BuildAclListWithIdentity (victim's keys; validating and acceptor-verifying) over a storage holding a hostile root: AclRoot payload mutated and signed again by its author, incl. one-to-one roots naming the victim",
		seeds: seeds,
		opts: func(thorough bool) mutate.Opts {
			return mutate.Opts{Kinds: "S B1 B2 B3 F1", SmallMax: 1, AllBytes: false, Depth: 4, RepMax: 64 << 10}
		},
		extra: func(si int, yield mutate.Yield) {
			root := &aclrecordproto.AclRoot{}
			if err := root.UnmarshalVT(rs[si].data); err != nil {
				panic(err)
			}
			emit := func(label string, f func(r *aclrecordproto.AclRoot)) bool {
				cl := proto.Clone(root).(*aclrecordproto.AclRoot)
				f(cl)
				b, err := cl.MarshalVT()
				if err != nil {
					panic(err)
				}
				return yield("F2", "F2:"+label, b)
			}
			weird := map[string][]byte{
				"victim": victim.Proto, "attacker": attacker.Proto, "empty": nil, "garbage": []byte("garbage"),
				"identity-point": keyP(cryptoproto.KeyType_Ed25519Public, append([]byte{1}, make([]byte, 31)...)),
				"zero-point":     keyP(cryptoproto.KeyType_Ed25519Public, make([]byte, 32)),
				"aes-key":        keyP(cryptoproto.KeyType_AES, make([]byte, 32)),
			}
			names := []string{"victim", "attacker", "empty", "garbage", "identity-point", "zero-point", "aes-key"}
			for _, a := range names {
				for _, b := range names {
					if !emit(fmt.Sprintf("oneToOne.writers=[%s,%s]", a, b), func(r *aclrecordproto.AclRoot) {
						if r.OneToOneInfo == nil {
							r.OneToOneInfo = &aclrecordproto.AclOneToOneInfo{Owner: r.Identity}
						}
						r.OneToOneInfo.Writers = [][]byte{weird[a], weird[b]}
					}) {
						return
					}
				}
				if !emit(fmt.Sprintf("oneToOne.owner=%s", a), func(r *aclrecordproto.AclRoot) {
					if r.OneToOneInfo == nil {
						r.OneToOneInfo = &aclrecordproto.AclOneToOneInfo{Writers: [][]byte{victim.Proto, attacker.Proto}}
					}
					r.OneToOneInfo.Owner = weird[a]
				}) {
					return
				}
			}
			for _, n := range []int{0, 1, 3, 1024} {
				if !emit(fmt.Sprintf("oneToOne.%d-writers", n), func(r *aclrecordproto.AclRoot) {
					if r.OneToOneInfo == nil {
						r.OneToOneInfo = &aclrecordproto.AclOneToOneInfo{Owner: r.Identity}
					}
					r.OneToOneInfo.Writers = nil
					for i := 0; i < n; i++ {
						r.OneToOneInfo.Writers = append(r.OneToOneInfo.Writers, victim.Proto)
					}
				}) {
					return
				}
			}
			if !emit("oneToOne=empty-message", func(r *aclrecordproto.AclRoot) { r.OneToOneInfo = &aclrecordproto.AclOneToOneInfo{} }) {
				return
			}
			// short ciphertexts in the root (only the root's own author decrypts them: not the victim)
			for n := 0; n <= 49; n++ {
				if !emit(fmt.Sprintf("encryptedReadKey:len=%d", n), func(r *aclrecordproto.AclRoot) {
					r.EncryptedReadKey = mutate.Filler(r.EncryptedReadKey, n)
					if r.MetadataPubKey == nil {
						r.MetadataPubKey = victim.Proto
					}
				}) {
					return
				}
			}
		},
		call: func(_ any, si int, data []byte) error {
			var first error
			ok := 0
			for _, signer := range []crypto.PrivKey{rs[si].signer} {
				payload := data
				rec := resignRoot(signer, payload)
				for _, v := range []recordverifier.AcceptorVerifier{recordverifier.NewValidateFull(), recordverifier.New(network.Pub())} {
					st, err := list.NewInMemoryStorage(rec.Id, []*consensusproto.RawRecordWithId{rec})
					if err == nil {
						var l list.AclList
						l, err = list.BuildAclListWithIdentity(victim.Keys, st, v)
						if err == nil {
							ok++
							s := l.AclState()
							_ = s.CurrentAccounts()
							_, _ = s.CurrentReadKey()
							_ = s.Permissions(victim.Pub())
						}
					}
					if err != nil && first == nil {
						first = err
					}
				}
			}
			if ok > 0 {
				return nil
			}
			return first
		},
	})
}
