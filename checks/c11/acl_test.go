package c11

// ACL entry points: raw decoders, re-signed (F2) records of every content kind against a fully validating list
// built with the victim's keys (ValidateRawRecord and AddRawRecord), the production pipeline (coordinator validates
// in full, signs as acceptor, the victim's non-validating client list ingests), and the keep-identity decoder
// against the full decode.

import (
	"bytes"
	"fmt"
	"sort"
	"strings"

	"google.golang.org/protobuf/proto"
	"google.golang.org/protobuf/reflect/protoreflect"

	"github.com/anyproto/any-sync/commonspace/object/acl/aclrecordproto"
	"github.com/anyproto/any-sync/commonspace/object/acl/list"
	"github.com/anyproto/any-sync/commonspace/object/acl/recordverifier"
	"github.com/anyproto/any-sync/consensus/consensusproto"
	"github.com/anyproto/any-sync/util/cidutil"
	"github.com/anyproto/any-sync/util/crypto"
	"github.com/anyproto/any-sync/util/crypto/cryptoproto"

	"verif/lib/aclsim"
	"verif/lib/mutate"
	"verif/lib/vk"
)

type aclWorld struct {
	sim      *aclsim.Sim
	net      *aclsim.Account // the network (acceptor) key
	node     *aclsim.Account // a non-member: the coordinator's identity
	ts       int64
	inv1Id   string
	inv1Key  crypto.PrivKey
	inv2Id   string
	inv2Key  crypto.PrivKey
	joinReq  string
	seeds    []aclSeed
	rawSeeds [][]byte // marshalled RawRecord of some seeds (decoder entries)
	lastKeys list.ReadKeyChangePayload
}

type aclSeed struct {
	name     string
	author   *aclsim.Account
	observer *aclsim.Account
	data     []byte // AclData
	extras   []job  // typed F2 cases, built once
}

const aclCraftTs = 1700009999

// craft signs data as a record of author on top of prev (deterministic: fixed timestamp).
func craft(author *aclsim.Account, prev string, data []byte) *consensusproto.RawRecord {
	rec := &consensusproto.Record{PrevId: prev, Identity: author.Proto, Data: data, Timestamp: aclCraftTs}
	payload, err := rec.MarshalVT()
	if err != nil {
		panic(err)
	}
	sig, err := author.Keys.SignKey.Sign(payload)
	if err != nil {
		panic(err)
	}
	return &consensusproto.RawRecord{Payload: payload, Signature: sig}
}

// accept adds the acceptor's (network key's) signature the way the consensus node does.
func (w *aclWorld) accept(raw *consensusproto.RawRecord) *consensusproto.RawRecordWithId {
	sig, err := w.net.Keys.SignKey.Sign(raw.Payload)
	if err != nil {
		panic(err)
	}
	raw.AcceptorIdentity = w.net.Proto
	raw.AcceptorSignature = sig
	raw.AcceptorTimestamp = aclCraftTs + 1
	return aclsim.WithId(raw)
}

// dataOf extracts the AclData bytes of a record built by a real record builder.
func dataOf(raw *consensusproto.RawRecord) []byte {
	rec := &consensusproto.Record{}
	if err := rec.UnmarshalVT(raw.Payload); err != nil {
		panic(err)
	}
	return rec.Data
}

// step lets author build a record with its own real builder, re-signs it with a fixed timestamp, has the
// coordinator validate it and appends it acceptor-signed.
func (w *aclWorld) step(what string, author *aclsim.Account, build func(b list.AclRecordBuilder, st *list.AclState) (*consensusproto.RawRecord, error)) string {
	data := w.build(what, author, build)
	raw := craft(author, w.sim.HeadId(), data)
	if err := w.sim.Full(w.node).ValidateRawRecord(raw, nil); err != nil {
		panic(fmt.Sprintf("acl world: %s rejected: %v", what, err))
	}
	rec := w.accept(raw)
	w.sim.Append(rec)
	return rec.Id
}

func (w *aclWorld) build(what string, author *aclsim.Account, build func(b list.AclRecordBuilder, st *list.AclState) (*consensusproto.RawRecord, error)) []byte {
	l := w.sim.Full(author)
	raw, err := build(l.RecordBuilder(), l.AclState())
	if err != nil {
		panic(fmt.Sprintf("acl world: building %s: %v", what, err))
	}
	return w.canonData(dataOf(raw))
}

// canonData sorts the per-account key lists of read key changes (the builders emit them in map order) so that the
// seed bytes are the same in every run.
func (w *aclWorld) canonData(data []byte) []byte {
	d := &aclrecordproto.AclData{}
	if err := d.UnmarshalVT(data); err != nil {
		panic(err)
	}
	srt := func(rk *aclrecordproto.AclReadKeyChange) {
		if rk == nil {
			return
		}
		for _, l := range [][]*aclrecordproto.AclEncryptedReadKey{rk.AccountKeys, rk.InviteKeys} {
			sort.Slice(l, func(i, j int) bool { return bytes.Compare(l[i].Identity, l[j].Identity) < 0 })
			// the builder drew the ephemeral keys in map order too: encrypt again in the sorted order
			for _, k := range l {
				pub, err := crypto.UnmarshalEd25519PublicKeyProto(k.Identity)
				if err != nil {
					panic(err)
				}
				rkProto, _ := w.lastKeys.ReadKey.Marshall()
				if k.EncryptedReadKey, err = pub.Encrypt(rkProto); err != nil {
					panic(err)
				}
			}
		}
	}
	for _, c := range d.AclContent {
		srt(c.GetReadKeyChange())
		srt(c.GetAccountRemove().GetReadKeyChange())
	}
	out, err := d.MarshalVT()
	if err != nil {
		panic(err)
	}
	return out
}

func newAclWorld() *aclWorld {
	w := &aclWorld{sim: aclsim.New(11, "O", "W", "V", "J", "K", "N", "A")}
	fixRootTimestamp(w.sim)
	w.net = aclsim.NewAccount(11, "~network")
	w.node = aclsim.Observer(11)
	s := w.sim
	O, W, V, J, K, N, A := s.Acc("O"), s.Acc("W"), s.Acc("V"), s.Acc("J"), s.Acc("K"), s.Acc("N"), s.Acc("A")
	w.step("add W,V,A", O, func(b list.AclRecordBuilder, _ *list.AclState) (*consensusproto.RawRecord, error) {
		return b.BuildAccountsAdd(list.AccountsAddPayload{Additions: []list.AccountAdd{
			{Identity: W.Pub(), Permissions: list.AclPermissionsWriter, Metadata: []byte("w")},
			{Identity: V.Pub(), Permissions: list.AclPermissionsReader, Metadata: []byte("v")},
			{Identity: A.Pub(), Permissions: list.AclPermissionsAdmin, Metadata: []byte("a")},
		}})
	})
	w.inv1Id = w.step("invite", O, func(b list.AclRecordBuilder, _ *list.AclState) (*consensusproto.RawRecord, error) {
		r, err := b.BuildInvite()
		w.inv1Key = r.InviteKey
		return r.InviteRec, err
	})
	w.inv2Id = w.step("invite anyone", O, func(b list.AclRecordBuilder, _ *list.AclState) (*consensusproto.RawRecord, error) {
		r, err := b.BuildInviteAnyone(list.AclPermissionsWriter)
		w.inv2Key = r.InviteKey
		return r.InviteRec, err
	})
	w.joinReq = w.step("request join J", J, func(b list.AclRecordBuilder, _ *list.AclState) (*consensusproto.RawRecord, error) {
		return b.BuildRequestJoin(list.RequestJoinPayload{InviteKey: w.inv1Key, Metadata: []byte("j")})
	})
	w.step("request remove W", W, func(b list.AclRecordBuilder, _ *list.AclState) (*consensusproto.RawRecord, error) {
		return b.BuildRequestRemove()
	})

	newKeys := func() list.ReadKeyChangePayload {
		meta, _, err := crypto.GenerateRandomEd25519KeyPair()
		if err != nil {
			panic(err)
		}
		w.lastKeys = list.ReadKeyChangePayload{MetadataKey: meta, ReadKey: crypto.NewAES()}
		return w.lastKeys
	}
	type B = list.AclRecordBuilder
	type R = *consensusproto.RawRecord
	add := func(name string, author, observer *aclsim.Account, build func(b B, st *list.AclState) (R, error)) {
		w.seeds = append(w.seeds, aclSeed{name: name, author: author, observer: observer, data: w.build(name, author, build)})
	}
	// one seed per content kind; the observer is the account the record's ciphertexts are addressed to, where any
	add("accountsAdd(N)->N", O, N, func(b B, _ *list.AclState) (R, error) {
		return b.BuildAccountsAdd(list.AccountsAddPayload{Additions: []list.AccountAdd{{Identity: N.Pub(), Permissions: list.AclPermissionsReader, Metadata: []byte("n")}}})
	})
	add("requestAccept(J)->J", O, J, func(b B, _ *list.AclState) (R, error) {
		return b.BuildRequestAccept(list.RequestAcceptPayload{RequestRecordId: w.joinReq, Permissions: list.AclPermissionsWriter})
	})
	add("inviteJoin(K)", K, V, func(b B, _ *list.AclState) (R, error) {
		return b.BuildInviteJoinWithoutApprove(list.InviteJoinPayload{InviteKey: w.inv2Key, Permissions: list.AclPermissionsReader, Metadata: []byte("k")})
	})
	add("accountRemove(W)->V", O, V, func(b B, _ *list.AclState) (R, error) {
		return b.BuildAccountRemove(list.AccountRemovePayload{Identities: []crypto.PubKey{W.Pub()}, Change: newKeys()})
	})
	add("readKeyChange->V", O, V, func(b B, _ *list.AclState) (R, error) {
		return b.BuildReadKeyChange(newKeys())
	})
	add("permissionChange(V)", O, V, func(b B, _ *list.AclState) (R, error) {
		return b.BuildPermissionChange(list.PermissionChangePayload{Identity: V.Pub(), Permissions: list.AclPermissionsWriter})
	})
	add("permissionChanges(V,W)", O, V, func(b B, _ *list.AclState) (R, error) {
		return b.BuildPermissionChanges(list.PermissionChangesPayload{Changes: []list.PermissionChangePayload{
			{Identity: V.Pub(), Permissions: list.AclPermissionsWriter}, {Identity: W.Pub(), Permissions: list.AclPermissionsReader}}})
	})
	add("ownershipChange(A)", O, V, func(b B, _ *list.AclState) (R, error) {
		return b.BuildOwnershipChange(list.OwnershipChangePayload{NewOwner: A.Pub(), OldOwnerPermissions: list.AclPermissionsAdmin})
	})
	add("invite", A, V, func(b B, _ *list.AclState) (R, error) {
		r, err := b.BuildInvite()
		return r.InviteRec, err
	})
	add("inviteAnyone", O, V, func(b B, _ *list.AclState) (R, error) {
		r, err := b.BuildInviteAnyone(list.AclPermissionsReader)
		return r.InviteRec, err
	})
	add("inviteChange", O, V, func(b B, _ *list.AclState) (R, error) {
		return b.BuildInviteChange(list.InviteChangePayload{IniviteRecordId: w.inv2Id, Permissions: list.AclPermissionsReader})
	})
	add("inviteRevoke", O, V, func(b B, _ *list.AclState) (R, error) {
		return b.BuildInviteRevoke(w.inv1Id)
	})
	add("requestJoin(K)", K, V, func(b B, _ *list.AclState) (R, error) {
		return b.BuildRequestJoin(list.RequestJoinPayload{InviteKey: w.inv1Key, Metadata: []byte("k")})
	})
	add("requestDecline(J)", A, J, func(b B, _ *list.AclState) (R, error) {
		return b.BuildRequestDecline(w.joinReq)
	})
	add("requestCancel(J)", J, V, func(b B, _ *list.AclState) (R, error) {
		return b.BuildRequestCancel(w.joinReq)
	})
	add("requestRemove(V)", V, O, func(b B, _ *list.AclState) (R, error) {
		return b.BuildRequestRemove()
	})
	add("spaceOptions", O, V, func(b B, _ *list.AclState) (R, error) {
		return b.BuildSpaceOptionsChange(aclsim.MakeOptions(1))
	})
	add("batch(remove W, add N, change V, decline J, revoke inv1)", O, N, func(b B, _ *list.AclState) (R, error) {
		res, err := b.BuildBatchRequest(list.BatchRequestPayload{
			Removals:      list.AccountRemovePayload{Identities: []crypto.PubKey{W.Pub()}, Change: newKeys()},
			Additions:     []list.AccountAdd{{Identity: N.Pub(), Permissions: list.AclPermissionsWriter, Metadata: []byte("n")}},
			Changes:       []list.PermissionChangePayload{{Identity: V.Pub(), Permissions: list.AclPermissionsWriter}},
			Declines:      []string{w.joinReq},
			InviteRevokes: []string{w.inv1Id},
		})
		return res.Rec, err
	})
	for i := range w.seeds {
		w.seeds[i].extras = w.typed(&w.seeds[i])
	}
	for _, i := range []int{0, 3, 5} {
		sd := w.seeds[i]
		raw := w.accept(craft(sd.author, s.HeadId(), sd.data))
		w.rawSeeds = append(w.rawSeeds, raw.Payload)
	}
	return w
}

// fixRootTimestamp replaces the wall-clock timestamp of the simulator's root by a constant and signs the root again,
// so that every id and byte of the world is the same in every run.
func fixRootTimestamp(s *aclsim.Sim) {
	raw := &consensusproto.RawRecord{}
	if err := raw.UnmarshalVT(s.Log[0].Payload); err != nil {
		panic(err)
	}
	root := &aclrecordproto.AclRoot{}
	if err := root.UnmarshalVT(raw.Payload); err != nil {
		panic(err)
	}
	root.Timestamp = aclCraftTs - 1000
	payload, err := root.MarshalVT()
	if err != nil {
		panic(err)
	}
	sig, err := s.Accounts[0].Keys.SignKey.Sign(payload)
	if err != nil {
		panic(err)
	}
	s.Log[0] = aclsim.WithId(&consensusproto.RawRecord{Payload: payload, Signature: sig})
}

// ---- typed F2 cases: what the generic wire walk cannot know --------------------------------------------------

func keyProto(t cryptoproto.KeyType, data []byte) []byte {
	b, err := (&cryptoproto.Key{Type: t, Data: data}).MarshalVT()
	if err != nil {
		panic(err)
	}
	return b
}

// typed builds, through protobuf reflection over the seed's AclData, the cases that need knowledge of the
// application: key-like fields replaced by other accounts' valid identities (incl. the observer's: "addressed to the
// victim") and by well-formed keys of the wrong type or with degenerate points; "encrypted" fields replaced by
// REAL encryptions to the observer of hostile plaintexts (so that decryption succeeds and the code behind it runs)
// and by every length 0..49 and 63..65.
func (w *aclWorld) typed(sd *aclSeed) (out []job) {
	root := &aclrecordproto.AclData{}
	if err := root.UnmarshalVT(sd.data); err != nil {
		panic(err)
	}
	obs := sd.observer
	identityPoint := append([]byte{1}, make([]byte, 31)...)
	aesRaw := bytes.Repeat([]byte{7}, 32)
	privRaw, _ := obs.Keys.SignKey.Raw()
	keyAlts := []struct {
		name string
		v    []byte
	}{
		{"observer", obs.Proto}, {"author", sd.author.Proto}, {"owner", w.sim.Acc("O").Proto}, {"node", w.node.Proto},
		{"pub-identity-point", keyProto(cryptoproto.KeyType_Ed25519Public, identityPoint)},
		{"pub-zero", keyProto(cryptoproto.KeyType_Ed25519Public, make([]byte, 32))},
		{"pub-offcurve", keyProto(cryptoproto.KeyType_Ed25519Public, append([]byte{2}, make([]byte, 31)...))},
		{"pub-empty", keyProto(cryptoproto.KeyType_Ed25519Public, nil)},
		{"aes-key", keyProto(cryptoproto.KeyType_AES, aesRaw)},
		{"priv-key", keyProto(cryptoproto.KeyType_Ed25519Private, privRaw)},
		{"type99", keyProto(99, obs.Proto[4:])},
		{"raw32", obs.Proto[len(obs.Proto)-32:]},
	}
	enc := func(plain []byte) []byte {
		b, err := obs.Pub().Encrypt(plain)
		if err != nil {
			panic(err)
		}
		return b
	}
	otherAES := &crypto.AESKey{}
	otherAES, _ = crypto.UnmarshallAESKey(aesRaw)
	otherAESProto, _ := otherAES.Marshall()
	symEnc := func(plain []byte) []byte {
		b, err := otherAES.Encrypt(plain)
		if err != nil {
			panic(err)
		}
		return b
	}
	encAlts := []struct {
		name string
		v    []byte
	}{
		{"enc-to-observer(empty)", enc(nil)},
		{"enc-to-observer(1 byte)", enc([]byte{8})},
		{"enc-to-observer(aes key of 31 bytes)", enc(keyProto(cryptoproto.KeyType_AES, aesRaw[:31]))},
		{"enc-to-observer(aes key of 33 bytes)", enc(keyProto(cryptoproto.KeyType_AES, append(aesRaw, 1)))},
		{"enc-to-observer(other valid aes key)", enc(otherAESProto)},
		{"enc-to-observer(pub key proto)", enc(obs.Proto)},
		{"enc-to-observer(priv key proto of 63 bytes)", enc(keyProto(cryptoproto.KeyType_Ed25519Private, privRaw[:63]))},
		{"sym(other key)(empty)", symEnc(nil)},
		{"sym(other key)(priv key of 31 bytes)", symEnc(keyProto(cryptoproto.KeyType_Ed25519Private, privRaw[:31]))},
		{"sym(other key)(priv key with wrong redundant pub)", symEnc(keyProto(cryptoproto.KeyType_Ed25519Private, append(append([]byte{}, privRaw...), make([]byte, 32)...)))},
	}
	emit := func(label string, m *aclrecordproto.AclData) {
		b, err := m.MarshalVT()
		if err != nil {
			panic(err)
		}
		if !bytes.Equal(b, sd.data) {
			out = append(out, job{kind: "F2", label: "F2:" + label, data: b})
		}
	}
	var visit func(cur protoreflect.Message, path []any, name string)
	// apply clones the root, walks to the message at path and runs f on it
	apply := func(path []any, label string, f func(m protoreflect.Message)) {
		cl := proto.Clone(root).(*aclrecordproto.AclData)
		m := cl.ProtoReflect()
		for i := 0; i < len(path); i += 2 {
			fd := path[i].(protoreflect.FieldDescriptor)
			idx := path[i+1].(int)
			if idx >= 0 {
				m = m.Mutable(fd).List().Get(idx).Message()
			} else {
				m = m.Mutable(fd).Message()
			}
		}
		f(m)
		emit(label, cl)
	}
	visit = func(cur protoreflect.Message, path []any, name string) {
		fds := cur.Descriptor().Fields()
		for i := 0; i < fds.Len(); i++ {
			fd := fds.Get(i)
			fname := name + string(fd.Name())
			lname := strings.ToLower(string(fd.Name()))
			switch {
			case fd.IsList() && fd.Kind() == protoreflect.MessageKind:
				l := cur.Get(fd).List()
				if l.Len() > 0 {
					apply(path, fname+":list-emptied", func(m protoreflect.Message) { m.Clear(fd) })
					apply(path, fname+":first-duplicated", func(m protoreflect.Message) {
						ml := m.Mutable(fd).List()
						ml.Append(protoreflect.ValueOfMessage(proto.Clone(ml.Get(0).Message().Interface()).ProtoReflect()))
					})
					if proto.Size(l.Get(0).Message().Interface()) <= 256 {
						apply(path, fname+":first-x2048", func(m protoreflect.Message) {
							ml := m.Mutable(fd).List()
							for k := 0; k < 2047; k++ {
								ml.Append(ml.Get(0)) // aliasing is fine: the clone is only marshalled
							}
						})
					}
					apply(path, fname+":empty-element-appended", func(m protoreflect.Message) {
						ml := m.Mutable(fd).List()
						ml.Append(ml.NewElement())
					})
				}
				for k := 0; k < l.Len(); k++ {
					visit(l.Get(k).Message(), append(append([]any{}, path...), fd, k), fmt.Sprintf("%s[%d].", fname, k))
				}
			case fd.IsList() && fd.Kind() == protoreflect.BytesKind:
				if cur.Get(fd).List().Len() > 0 {
					apply(path, fname+":list-emptied", func(m protoreflect.Message) { m.Clear(fd) })
					apply(path, fname+":first-duplicated", func(m protoreflect.Message) {
						ml := m.Mutable(fd).List()
						ml.Append(protoreflect.ValueOfBytes(append([]byte{}, ml.Get(0).Bytes()...)))
					})
					apply(path, fname+":first-x2048", func(m protoreflect.Message) {
						ml := m.Mutable(fd).List()
						for k := 0; k < 2047; k++ {
							ml.Append(ml.Get(0))
						}
					})
					for _, a := range keyAlts {
						apply(path, fname+"[0]="+a.name, func(m protoreflect.Message) { m.Mutable(fd).List().Set(0, protoreflect.ValueOfBytes(a.v)) })
						apply(path, fname+"+="+a.name, func(m protoreflect.Message) { m.Mutable(fd).List().Append(protoreflect.ValueOfBytes(a.v)) })
					}
				}
			case fd.Kind() == protoreflect.MessageKind:
				if cur.Has(fd) {
					apply(path, fname+":nested-message-removed", func(m protoreflect.Message) { m.Clear(fd) })
					apply(path, fname+":nested-message-emptied", func(m protoreflect.Message) { m.Set(fd, protoreflect.ValueOfMessage(m.NewField(fd).Message())) })
					visit(cur.Get(fd).Message(), append(append([]any{}, path...), fd, -1), fname+".")
				}
			case fd.Kind() == protoreflect.BytesKind:
				if strings.Contains(lname, "encrypted") {
					orig := cur.Get(fd).Bytes()
					for n := 0; n <= 65; n++ {
						if n > 49 && n < 63 {
							continue
						}
						v := mutate.Filler(orig, n)
						apply(path, fmt.Sprintf("%s:len=%d", fname, n), func(m protoreflect.Message) { m.Set(fd, protoreflect.ValueOfBytes(v)) })
					}
					for _, a := range encAlts {
						apply(path, fname+"="+a.name, func(m protoreflect.Message) { m.Set(fd, protoreflect.ValueOfBytes(a.v)) })
					}
				} else if strings.Contains(lname, "identity") && !strings.Contains(lname, "signature") || strings.Contains(lname, "key") || strings.Contains(lname, "owner") {
					for _, a := range keyAlts {
						apply(path, fname+"="+a.name, func(m protoreflect.Message) { m.Set(fd, protoreflect.ValueOfBytes(a.v)) })
					}
				}
			case fd.Kind() == protoreflect.StringKind:
				// record ids: other existing records of the wrong kind, unknown, empty
				for _, a := range []struct{ name, v string }{{"root-id", w.sim.RootId()}, {"head-id", w.sim.HeadId()}, {"invite1", w.inv1Id}, {"invite2", w.inv2Id}, {"join-request", w.joinReq}, {"unknown", "bafyunknown"}, {"empty", ""}} {
					if cur.Get(fd).String() != a.v {
						apply(path, fname+"="+a.name, func(m protoreflect.Message) { m.Set(fd, protoreflect.ValueOfString(a.v)) })
					}
				}
			case fd.Kind() == protoreflect.EnumKind:
				for _, nv := range []protoreflect.EnumNumber{0, 1, 2, 3, 4, 5, 6, -1, 1 << 30} {
					if cur.Get(fd).Enum() != nv {
						apply(path, fmt.Sprintf("%s=enum(%d)", fname, nv), func(m protoreflect.Message) { m.Set(fd, protoreflect.ValueOfEnum(nv)) })
					}
				}
			}
		}
	}
	visit(root.ProtoReflect(), nil, "")
	// a content value whose oneof is not set at all, and one with an unknown member
	emit("content-without-value-appended", &aclrecordproto.AclData{AclContent: append(append([]*aclrecordproto.AclContentValue{}, root.AclContent...), &aclrecordproto.AclContentValue{})})
	emit("no-content", &aclrecordproto.AclData{})
	// the same content twice in one record
	emit("content-doubled", &aclrecordproto.AclData{AclContent: append(append([]*aclrecordproto.AclContentValue{}, root.AclContent...), root.AclContent...)})
	return
}

// ---- adapters ---------------------------------------------------------------------------------------------

type aclWorker struct {
	w     *aclWorld
	lists map[string]list.AclList
}

func (aw *aclWorker) list(mode string, obs *aclsim.Account) list.AclList {
	key := mode + "/" + obs.Name
	if l := aw.lists[key]; l != nil {
		return l
	}
	var v recordverifier.AcceptorVerifier = recordverifier.NewValidateFull()
	if mode == "client" {
		v = recordverifier.New(aw.w.net.Pub())
	}
	l, err := aclsim.ViewOf(obs.Keys, aw.w.sim.Log, v)
	if err != nil {
		panic(fmt.Sprintf("acl view %s: %v", key, err))
	}
	aw.lists[key] = l
	return l
}

func (aw *aclWorker) drop(mode string, obs *aclsim.Account) { delete(aw.lists, mode+"/"+obs.Name) }

func aclOpts(depth int) func(bool) mutate.Opts {
	return func(thorough bool) mutate.Opts {
		return mutate.Opts{Kinds: "S B1 B2 B3 F1", SmallMax: 2, AllBytes: thorough, Depth: depth, RepMax: 128 << 10}
	}
}

// aclOptsNoSmall: the small strings only in the thorough tier (the ValidateRawRecord entry runs them in both).
func aclOptsNoSmall(depth int) func(bool) mutate.Opts {
	return func(thorough bool) mutate.Opts {
		o := mutate.Opts{Kinds: "B1 B2 B3 F1", AllBytes: thorough, Depth: depth, RepMax: 128 << 10}
		if thorough {
			o.Kinds, o.SmallMax = "S B1 B2 B3 F1", 2
		}
		return o
	}
}

func registerACL(c *vk.Ctx) {
	w := newAclWorld()
	head := w.sim.HeadId()
	var seeds []seed
	for _, s := range w.seeds {
		seeds = append(seeds, seed{name: s.name, data: s.data})
	}
	extra := func(si int, yield mutate.Yield) {
		for _, j := range w.seeds[si].extras {
			if !yield(j.kind, j.label, j.data) {
				return
			}
		}
	}
	newWorker := func() any { return &aclWorker{w: w, lists: map[string]list.AclList{}} }

	register(&entry{
		name:  "acl.ValidateRawRecord",
		what:  "AclList.ValidateRawRecord on a fully validating list built with the observer's (victim's) keys; input = AclData of a record of every content kind, mutated, then re-signed by its author (F2)",
		seeds: seeds, opts: aclOpts(6), extra: extra, worker: newWorker, pairs: true, pairSeeds: 5, pairLight: true,
		call: func(wk any, si int, data []byte) error {
			aw := wk.(*aclWorker)
			sd := &w.seeds[si]
			return aw.list("full", sd.observer).ValidateRawRecord(craft(sd.author, head, data), nil)
		},
	})
	register(&entry{
		name:  "acl.AddRawRecord",
		what:  "AclList.AddRawRecord (fully validating list, victim's keys) of the same re-signed records, id = CID of the mutant",
		seeds: seeds, opts: aclOptsNoSmall(6), extra: extra, worker: newWorker,
		call: func(wk any, si int, data []byte) error {
			aw := wk.(*aclWorker)
			sd := &w.seeds[si]
			err := aw.list("full", sd.observer).AddRawRecord(aclsim.WithId(craft(sd.author, head, data)))
			if err == nil {
				aw.drop("full", sd.observer) // the list moved on: the next case gets a fresh one
			}
			return err
		},
	})
	register(&entry{
		name:  "acl.pipeline",
		what:  "production path: the coordinator (non-member, full validation) validates the re-signed record, the acceptor signs it, the victim's non-validating client list (recordverifier.New(network key), keep-identity decode) ingests it with AddRawRecord",
		seeds: seeds, opts: aclOptsNoSmall(6), extra: extra, worker: newWorker, passes: 3,
		call: func(wk any, si int, data []byte) error {
			aw := wk.(*aclWorker)
			sd := &w.seeds[si]
			raw := craft(sd.author, head, data)
			if err := aw.list("full", w.node).ValidateRawRecord(raw, nil); err != nil {
				return fmt.Errorf("coordinator: %w", err)
			}
			err := aw.list("client", sd.observer).AddRawRecord(w.accept(raw))
			if err == nil {
				aw.drop("client", sd.observer)
				return nil
			}
			return fmt.Errorf("client: %w", err)
		},
	})

	// raw decoders
	var rawSeeds []seed
	for i, b := range w.rawSeeds {
		rawSeeds = append(rawSeeds, seed{name: fmt.Sprintf("raw record %d", i), data: b})
	}
	decOpts := func(thorough bool) mutate.Opts {
		return mutate.Opts{Kinds: "S B1 B2 B3 F1", SmallMax: 2, AllBytes: thorough, Depth: 4}
	}
	register(&entry{
		name:  "acl.Unmarshall",
		what:  "consensusproto.RawRecord decode + AclRecordBuilder.Unmarshall on mutated raw record bytes",
		seeds: rawSeeds, opts: decOpts, worker: newWorker,
		call: func(wk any, si int, data []byte) error {
			aw := wk.(*aclWorker)
			raw := &consensusproto.RawRecord{}
			if err := raw.UnmarshalVT(data); err != nil {
				return err
			}
			_, err := aw.list("full", w.sim.Acc("V")).RecordBuilder().Unmarshall(raw)
			return err
		},
	})
	register(&entry{
		name:  "acl.UnmarshallWithId",
		what:  "AclRecordBuilder.UnmarshallWithId (full and keep-identity builders) on mutated raw record bytes, id = recomputed CID, the seed's id, and the root id",
		seeds: rawSeeds, opts: decOpts, worker: newWorker,
		call: func(wk any, si int, data []byte) error {
			aw := wk.(*aclWorker)
			id, err := cidutil.NewCidFromBytes(data)
			if err != nil {
				return err
			}
			seedId, _ := cidutil.NewCidFromBytes(w.rawSeeds[si])
			var first error
			n := 0
			for _, mode := range []string{"full", "client"} {
				b := aw.list(mode, w.sim.Acc("V")).RecordBuilder()
				for _, rid := range []string{id, seedId, w.sim.RootId(), ""} {
					_, err := b.UnmarshallWithId(&consensusproto.RawRecordWithId{Payload: data, Id: rid})
					if err != nil && first == nil {
						first = err
					}
					if err == nil {
						n++
					}
				}
			}
			if n > 0 {
				return nil
			}
			return first
		},
	})

	// keep-identity decoder against the full decode
	var kiSeeds []seed
	for _, i := range []int{3, 4, 0} {
		kiSeeds = append(kiSeeds, seed{name: w.seeds[i].name, data: w.seeds[i].data})
	}
	register(&entry{
		name:  "acl.keepIdentity",
		what:  "differential: list.unmarshalAclDataKeepIdentity vs list.fullDecodeFilter (accept/reject and kept content) on mutated AclData, isOurs = the victim's identity matcher",
		seeds: kiSeeds, opts: aclOpts(6), worker: newWorker, pairs: true,
		extra: func(si int, yield mutate.Yield) {
			idx := []int{3, 4, 0}[si]
			for _, j := range w.seeds[idx].extras {
				if !yield(j.kind, j.label, j.data) {
					return
				}
			}
		},
		call: func(wk any, si int, data []byte) error {
			aw := wk.(*aclWorker)
			b := aw.list("client", w.sim.Acc("V")).RecordBuilder()
			got, gerr := list.VerifKeepIdentity(b, data)
			want, werr := list.VerifFullDecodeFilter(b, data)
			if (gerr == nil) != (werr == nil) {
				return &violationErr{"diff:acl.keepIdentity:verdict", fmt.Sprintf("unmarshalAclDataKeepIdentity and fullDecodeFilter disagree: keep-identity err=%v, full err=%v", gerr, werr)}
			}
			if gerr == nil {
				gb, _ := got.MarshalVT()
				wb, _ := want.MarshalVT()
				if !bytes.Equal(gb, wb) || !proto.Equal(got, want) {
					return &violationErr{"diff:acl.keepIdentity:content", fmt.Sprintf("unmarshalAclDataKeepIdentity and fullDecodeFilter keep different content: keep-identity %x, full %x", gb, wb)}
				}
			}
			return gerr
		},
	})
}
