package c11

// Key-value entries (decoder level), head sync range requests, space payloads, the snappy rpc encoding.

import (
	"context"
	"encoding/binary"
	"fmt"
	"math"
	"time"

	"github.com/golang/snappy"
	"google.golang.org/protobuf/encoding/protowire"
	"storj.io/drpc"

	"github.com/anyproto/any-sync/app/ldiff"
	"github.com/anyproto/any-sync/commonspace"
	"github.com/anyproto/any-sync/commonspace/headsync"
	"github.com/anyproto/any-sync/commonspace/object/keyvalue"
	"github.com/anyproto/any-sync/commonspace/object/keyvalue/keyvaluestorage/innerstorage"
	"github.com/anyproto/any-sync/commonspace/object/tree/treechangeproto"
	"github.com/anyproto/any-sync/commonspace/spacepayloads"
	"github.com/anyproto/any-sync/commonspace/spacestorage"
	"github.com/anyproto/any-sync/commonspace/spacesyncproto"
	"github.com/anyproto/any-sync/consensus/consensusproto"
	"github.com/anyproto/any-sync/net/peer"
	"github.com/anyproto/any-sync/net/rpc/encoding"
	"github.com/anyproto/any-sync/util/crypto"

	"github.com/anyproto/any-store/anyenc"

	"verif/lib/aclsim"
	"verif/lib/mutate"
	"verif/lib/treesim"
	"verif/lib/vk"
)

// ---- key-value ---------------------------------------------------------------------------------------------------

func registerKV(c *vk.Ctx) {
	acc := aclsim.NewAccount(11, "kv-writer")
	f, err := treesim.NewFixture(11)
	if err != nil {
		panic(err)
	}
	peerProto, _ := acc.Keys.PeerKey.GetPublic().Marshall()
	// sign wraps an inner value the way keyvaluestorage.Set does: both signatures over the marshalled inner value
	sign := func(inner []byte, keyPeerId string) []byte {
		is, _ := acc.Keys.SignKey.Sign(inner)
		ps, _ := acc.Keys.PeerKey.Sign(inner)
		b, err := (&spacesyncproto.StoreKeyValue{KeyPeerId: keyPeerId, Value: inner, IdentitySignature: is, PeerSignature: ps, SpaceId: f.SpaceId}).MarshalVT()
		if err != nil {
			panic(err)
		}
		return b
	}
	mkInner := func(key string, val []byte, ts int64) []byte {
		b, err := (&spacesyncproto.StoreKeyInner{Peer: peerProto, Identity: acc.Proto, Value: val, TimestampMicro: ts, AclHeadId: f.Payload.AclWithId.Id, Key: key}).MarshalVT()
		if err != nil {
			panic(err)
		}
		return b
	}
	inners := [][]byte{mkInner("key", []byte("encrypted-value-0123456789"), 1700000000000000), mkInner("k2", nil, 1)}
	kpid := func(i int) string { return []string{"key", "k2"}[i] + "-" + acc.Keys.PeerKey.GetPublic().PeerId() }
	var seeds []seed
	for i, in := range inners {
		seeds = append(seeds, seed{name: fmt.Sprintf("store key value %d", i), data: sign(in, kpid(i))})
	}
	register(&entry{
		name: "kv.KeyValueFromProto", what: "spacesyncproto.StoreKeyValue decode + innerstorage.KeyValueFromProto (verify on and off) + the storage encoding of an accepted value (AnyEnc, Proto); inner value mutants are signed again by both keys (F2)",
		seeds: seeds,
		opts: func(thorough bool) mutate.Opts {
			return mutate.Opts{Kinds: "S B1 B2 B3 F1", SmallMax: 2, AllBytes: thorough, Depth: 4}
		},
		extra: func(si int, yield mutate.Yield) {
			mutate.Enumerate(inners[si], mutate.Opts{Kinds: "B1 B2 B3 F1", Depth: 3, RepMax: 64 << 10}, func(kind, label string, d []byte) bool {
				return yield("F2", "F2:"+label, sign(d, kpid(si)))
			})
			for _, ts := range []int64{0, -1, math.MaxInt64, math.MinInt64, 1 << 53, 1<<53 + 1} {
				if !yield("F2", fmt.Sprintf("F2:timestamp=%d", ts), sign(mkInner("key", []byte("v"), ts), kpid(si))) {
					return
				}
			}
		},
		call: func(_ any, si int, data []byte) error {
			m := &spacesyncproto.StoreKeyValue{}
			if err := m.UnmarshalVT(data); err != nil {
				return err
			}
			_, _ = innerstorage.KeyValueFromProto(m, false)
			kv, err := innerstorage.KeyValueFromProto(m, true)
			if err != nil {
				return err
			}
			a := &anyenc.Arena{}
			_ = kv.AnyEnc(a).MarshalTo(nil)
			_ = kv.Proto()
			// what SetRaw computes for the comparison with the stored head
			var repr [8]byte
			binary.BigEndian.PutUint64(repr[:], uint64(kv.TimestampMicro))
			return nil
		},
	})
	// the stream / request messages around it
	kvs, _ := (&spacesyncproto.StoreKeyValues{KeyValues: []*spacesyncproto.StoreKeyValue{{KeyPeerId: kpid(0), Value: inners[0]}, {KeyPeerId: kpid(1), Value: inners[1]}}}).MarshalVT()
	register(&entry{
		name: "kv.StoreKeyValues", what: "spacesyncproto.StoreKeyValues decode, every element through KeyValueFromProto",
		seeds: []seed{{name: "two key values", data: kvs}},
		opts: func(thorough bool) mutate.Opts {
			return mutate.Opts{Kinds: "S B1 B2 B3 F1", SmallMax: 2, AllBytes: thorough, Depth: 5}
		},
		call: func(_ any, si int, data []byte) error {
			m := &spacesyncproto.StoreKeyValues{}
			if err := m.UnmarshalVT(data); err != nil {
				return err
			}
			var last error
			for _, kv := range m.KeyValues {
				_, last = innerstorage.KeyValueFromProto(kv, false)
			}
			return last
		},
	})
}

// ---- head sync ------------------------------------------------------------------------------------------------------

func registerHeadSync(c *vk.Ctx) {
	newDiff := func() ldiff.Diff {
		d := ldiff.New(16, 16)
		for i := 0; i < 64; i++ {
			d.Set(ldiff.Element{Id: fmt.Sprintf("object-%03d", i), Head: fmt.Sprintf("head-%03d", i)})
		}
		return d
	}
	mk := func(ranges ...*spacesyncproto.HeadSyncRange) []byte {
		b, err := (&spacesyncproto.HeadSyncRequest{SpaceId: "space", Ranges: ranges, DiffType: spacesyncproto.DiffType_V3}).MarshalVT()
		if err != nil {
			panic(err)
		}
		return b
	}
	full := &spacesyncproto.HeadSyncRange{From: 0, To: math.MaxUint64, Limit: 16}
	half := uint64(math.MaxUint64 / 2)
	seeds := []seed{
		{name: "full range", data: mk(full)},
		{name: "two halves with elements", data: mk(&spacesyncproto.HeadSyncRange{From: 0, To: half, Limit: 16, Elements: true}, &spacesyncproto.HeadSyncRange{From: half + 1, To: math.MaxUint64, Limit: 16, Elements: true})},
	}
	typed := func(si int, yield mutate.Yield) {
		vals := []uint64{0, 1, half, half + 1, math.MaxUint64 - 1, math.MaxUint64}
		for _, from := range vals {
			for _, to := range vals {
				for _, limit := range []uint32{0, 1, 16, math.MaxUint32} {
					for _, el := range []bool{false, true} {
						r := &spacesyncproto.HeadSyncRange{From: from, To: to, Limit: limit, Elements: el}
						if !yield("F2", fmt.Sprintf("F2:range(%d,%d,limit=%d,elements=%v)", from, to, limit, el), mk(r)) {
							return
						}
						if !yield("F2", fmt.Sprintf("F2:range(%d,%d,limit=%d,elements=%v)+overlapping-full", from, to, limit, el), mk(r, full, r)) {
							return
						}
					}
				}
			}
		}
		for _, n := range []int{0, 256, 4096} {
			rs := make([]*spacesyncproto.HeadSyncRange, n)
			for i := range rs {
				rs[i] = &spacesyncproto.HeadSyncRange{From: 0, To: math.MaxUint64, Elements: i%2 == 0}
			}
			if !yield("F2", fmt.Sprintf("F2:%d-full-ranges", n), mk(rs...)) {
				return
			}
		}
		// the same range many times over, for every shape of range (aligned with a division or not) and both values of
		// the element flag taken uniformly: a range that is not a stored division is answered with its elements whatever
		// the flag says, so what bounds the answer may not depend on the flag.
		for _, from := range vals {
			for _, to := range vals {
				if to < from {
					continue
				}
				for _, el := range []bool{false, true} {
					for _, n := range []int{256, 4096} {
						rs := make([]*spacesyncproto.HeadSyncRange, n)
						for i := range rs {
							rs[i] = &spacesyncproto.HeadSyncRange{From: from, To: to, Elements: el}
						}
						if !yield("F2", fmt.Sprintf("F2:%d-times-range(%d,%d,elements=%v)", n, from, to, el), mk(rs...)) {
							return
						}
					}
				}
			}
		}
		for _, dt := range []spacesyncproto.DiffType{0, 1, 2, 3, 99, -1} {
			b, _ := (&spacesyncproto.HeadSyncRequest{SpaceId: "space", Ranges: []*spacesyncproto.HeadSyncRange{full}, DiffType: dt}).MarshalVT()
			if !yield("F2", fmt.Sprintf("F2:diffType=%d", dt), b) {
				return
			}
		}
	}
	opts := func(thorough bool) mutate.Opts {
		return mutate.Opts{Kinds: "S B1 B2 B3 F1", SmallMax: 2, AllBytes: thorough, Depth: 3, RepMax: 256 << 10}
	}
	register(&entry{
		name: "headsync.HandleRangeRequest", what: "spacesyncproto.HeadSyncRequest decode + headsync.HandleRangeRequest on a real ldiff (64 elements): inverted / overlapping / huge ranges, limit extremes, element flags, range counts",
		seeds: seeds, opts: opts, extra: typed,
		worker: func() any { return newDiff() },
		call: func(w any, si int, data []byte) error {
			req := &spacesyncproto.HeadSyncRequest{}
			if err := req.UnmarshalVT(data); err != nil {
				return err
			}
			_, err := headsync.HandleRangeRequest(bg, w.(ldiff.Diff), req)
			return err
		},
	})
	register(&entry{
		name: "kv.HandleRangeRequest", what: "spacesyncproto.StoreDiffRequest decode + keyvalue.HandleRangeRequest on the same ldiff",
		seeds: seeds, opts: opts, extra: typed,
		worker: func() any { return newDiff() },
		call: func(w any, si int, data []byte) error {
			req := &spacesyncproto.StoreDiffRequest{}
			if err := req.UnmarshalVT(data); err != nil {
				return err
			}
			_, err := keyvalue.HandleRangeRequest(bg, w.(ldiff.Diff), req)
			return err
		},
	})
}

// ---- space payloads ------------------------------------------------------------------------------------------

type failingProvider struct {
	spacestorage.SpaceStorageProvider
}

var errNotStored = fmt.Errorf("verif: payload validated, storage creation not modelled")

func (failingProvider) CreateSpaceStorage(ctx context.Context, p spacestorage.SpaceStorageCreatePayload) (spacestorage.SpaceStorage, error) {
	return nil, errNotStored
}

type pullPeer struct {
	peer.Peer
	resp []byte
}

func (p *pullPeer) Id() string { return "hostile-node" }
func (p *pullPeer) DoDrpc(ctx context.Context, do func(conn drpc.Conn) error) error {
	return do(&pullConn{resp: p.resp})
}

type pullConn struct {
	drpc.Conn
	resp []byte
}

func (c *pullConn) Invoke(ctx context.Context, rpc string, enc drpc.Encoding, in, out drpc.Message) error {
	return enc.Unmarshal(c.resp, out)
}

func registerPayloads(c *vk.Ctx) {
	f, err := treesim.NewFixture(11)
	if err != nil {
		panic(err)
	}
	acc := aclsim.NewAccount(11, "space-owner")
	master := aclsim.NewAccount(11, "space-master").Keys.SignKey
	other := aclsim.NewAccount(11, "space-other")
	v1, err := spacepayloads.StoragePayloadForSpaceDeriveV1(spacepayloads.SpaceDerivePayload{SigningKey: acc.Keys.SignKey, MasterKey: master, SpaceType: "verif"})
	if err != nil {
		panic(err)
	}
	oto, err := spacepayloads.StoragePayloadForOneToOneSpace(acc.Keys.SignKey, other.Pub())
	if err != nil {
		panic(err)
	}
	wire := func(p spacestorage.SpaceStorageCreatePayload) []byte {
		b, err := (&spacesyncproto.SpacePullResponse{Payload: &spacesyncproto.SpacePayload{
			SpaceHeader: p.SpaceHeaderWithId, AclPayload: p.AclWithId.Payload, AclPayloadId: p.AclWithId.Id,
			SpaceSettingsPayload: p.SpaceSettingsWithId.RawChange, SpaceSettingsPayloadId: p.SpaceSettingsWithId.Id,
		}}).MarshalVT()
		if err != nil {
			panic(err)
		}
		return b
	}
	seeds := []seed{{name: "derived space (header v0)", data: wire(f.Payload)}, {name: "derived space (header v1)", data: wire(v1)}, {name: "one-to-one space", data: wire(oto)}}
	opts := func(thorough bool) mutate.Opts {
		return mutate.Opts{Kinds: "S B1 B2 B3 F1", SmallMax: 1, AllBytes: false, Depth: 6, RepMax: 128 << 10}
	}
	register(&entry{
		name: "space.ValidateSpaceStorageCreatePayload", what: "SpacePayload decode, then spacepayloads.ValidateSpaceStorageCreatePayload and ValidateSpaceHeader with the payload assembled as spaceService.addSpaceStorage does",
		seeds: seeds, opts: opts,
		call: func(_ any, si int, data []byte) error {
			r := &spacesyncproto.SpacePullResponse{}
			if err := r.UnmarshalVT(data); err != nil {
				return err
			}
			p := r.Payload
			if p == nil {
				p = &spacesyncproto.SpacePayload{}
			}
			payload := spacestorage.SpaceStorageCreatePayload{
				AclWithId:           &consensusproto.RawRecordWithId{Payload: p.AclPayload, Id: p.AclPayloadId},
				SpaceHeaderWithId:   p.SpaceHeader,
				SpaceSettingsWithId: &treechangeproto.RawTreeChangeWithId{RawChange: p.SpaceSettingsPayload, Id: p.SpaceSettingsPayloadId},
			}
			_, _ = spacepayloads.ValidateSpaceHeader(p.SpaceHeader, acc.Pub(), nil, nil)
			_, _ = spacepayloads.ValidateSpaceHeader(p.SpaceHeader, nil, p.AclPayload, p.SpaceSettingsPayload)
			return spacepayloads.ValidateSpaceStorageCreatePayload(payload)
		},
	})
	register(&entry{
		name: "space.spacePullWithPeer", what: "the client side of a space pull: spaceService.spacePullWithPeer fed with the mutated SpacePullResponse of a hostile node through a fake drpc connection (storage creation itself not modelled)",
		seeds: seeds, opts: opts,
		noAccept: "the adapter ends every validated pull with the provider's 'not modelled' error; a mutant is counted as accepted when it reaches that point",
		call: func(_ any, si int, data []byte) error {
			err := commonspace.VerifSpacePullWithPeer(bg, failingProvider{}, &pullPeer{resp: data}, "space-id")
			if err == errNotStored {
				return nil
			}
			return err
		},
	})
}

// ---- rpc encoding ---------------------------------------------------------------------------------------------

// maxDeclared: snappy blocks declaring more than this many decoded bytes are not executed (the decoder under test
// allocates the declared size before it looks at the data; the machine is shared). The 64 KiB .. 12 MiB
// declarations exercise the same statement.
const maxDeclared = 256 << 20

func registerEncoding(c *vk.Ctx) {
	enc := encoding.VerifSnappyEncoding()
	msgs := []*spacesyncproto.ObjectSyncMessage{
		{SpaceId: "space", ObjectId: "object", Payload: []byte("payload-0123456789-0123456789-0123456789-0123456789")},
		{SpaceId: "s"},
		{SpaceId: "space", ObjectId: "object", Payload: make([]byte, 4096)},
	}
	var seeds []seed
	for i, m := range msgs {
		b, err := enc.Marshal(m)
		if err != nil {
			panic(err)
		}
		seeds = append(seeds, seed{name: fmt.Sprintf("snappy message %d", i), data: b})
	}
	register(&entry{
		name: "rpc.snappy.Unmarshal", what: "net/rpc/encoding snappy decoder (the encoding of the sync streams) into an ObjectSyncMessage: byte mutants plus the declared decoded length set to 0, len-1, len+1, 2^16, 2^20 and 12 MiB and random-looking prefixes",
		seeds: seeds,
		opts: func(thorough bool) mutate.Opts {
			return mutate.Opts{Kinds: "S B1 B2", SmallMax: 2, AllBytes: thorough}
		},
		extra: func(si int, yield mutate.Yield) {
			data := seeds[si].data
			n, hdr := protowire.ConsumeVarint(data)
			body := data[hdr:]
			for _, v := range []uint64{0, 1, n - 1, n + 1, 2 * n, 1 << 16, 1 << 20, 12 << 20} {
				if v >= 1<<20 && si > 0 {
					continue // fresh memory is very slow on the verification machine: the large declarations once
				}
				if v == n {
					continue
				}
				if !yield("F1", fmt.Sprintf("F1:declared-length=%d", v), append(protowire.AppendVarint(nil, v), body...)) {
					return
				}
				if !yield("F1", fmt.Sprintf("F1:declared-length=%d,no-body", v), protowire.AppendVarint(nil, v)) {
					return
				}
			}
			// a copy element reaching before the start of the output, and one longer than the declared length
			for _, tail := range [][]byte{{0x01, 0xff}, {0xfe, 0xff, 0xff}, {0xff, 0xff, 0xff, 0xff, 0xff}, {0xfc, 0xff, 0xff, 0xff, 0xff}} {
				if !yield("F1", fmt.Sprintf("F1:hostile-element=%x", tail), append(protowire.AppendVarint(nil, 64), tail...)) {
					return
				}
			}
		},
		call: func(_ any, si int, data []byte) error {
			if n, err := snappy.DecodedLen(data); err == nil && n > maxDeclared {
				return fmt.Errorf("verif: declared length above %d not executed", maxDeclared)
			}
			return enc.Unmarshal(data, &spacesyncproto.ObjectSyncMessage{})
		},
	})
	penc := encoding.VerifProtoEncoding()
	pb, _ := penc.Marshal(msgs[0])
	register(&entry{
		name: "rpc.proto.Unmarshal", what: "net/rpc/encoding plain proto decoder into an ObjectSyncMessage",
		seeds: []seed{{name: "proto message", data: pb}},
		opts: func(thorough bool) mutate.Opts {
			return mutate.Opts{Kinds: "S B1 B2 B3 F1", SmallMax: 2, AllBytes: thorough}
		},
		call: func(_ any, si int, data []byte) error {
			return penc.Unmarshal(data, &spacesyncproto.ObjectSyncMessage{})
		},
	})
	_ = time.Second
	_ = crypto.KeyBytes
}
