package c11

// Object tree entry points: the change decoders, ObjectTree.AddRawChanges on real verifying trees (locked by the
// caller, as every real caller does), node-side validation of a pushed tree, and the three sync handlers of a real
// sync tree replica fed with mutated real messages.

import (
	"context"
	"fmt"
	"sort"
	"strings"

	"google.golang.org/protobuf/proto"

	"github.com/anyproto/any-sync/commonspace/object/acl/list"
	"github.com/anyproto/any-sync/commonspace/object/acl/recordverifier"
	"github.com/anyproto/any-sync/commonspace/object/tree/objecttree"
	"github.com/anyproto/any-sync/commonspace/object/tree/synctree"
	"github.com/anyproto/any-sync/commonspace/object/tree/synctree/response"
	"github.com/anyproto/any-sync/commonspace/object/tree/treechangeproto"
	"github.com/anyproto/any-sync/commonspace/object/tree/treestorage"
	"github.com/anyproto/any-sync/commonspace/spacesyncproto"
	"github.com/anyproto/any-sync/commonspace/sync/objectsync/objectmessages"
	"github.com/anyproto/any-sync/commonspace/syncstatus"
	"github.com/anyproto/any-sync/consensus/consensusproto"
	"github.com/anyproto/any-sync/net/peer"
	"github.com/anyproto/any-sync/util/cidutil"
	"github.com/anyproto/any-sync/util/crypto"

	"verif/lib/aclsim"
	"verif/lib/mutate"
	"verif/lib/treesim"
	"verif/lib/vk"
)

var bg = context.Background()

// treeRef is the reference scenario: replica 0 makes e1, e2, snapshot s3, e4 (each broadcast as a head update),
// replica 1 (root only) asks replica 0 for everything and gets the response stream.
type treeRef struct {
	f       *treesim.Fixture
	rows    []objecttree.StorageChange // replica 0's storage in order: root, e1, e2, s3, e4
	raws    []*treechangeproto.RawTreeChangeWithId
	hu      []*treesim.Msg // 4 head updates
	req     *treesim.Msg
	resp    *treesim.Msg
	strange crypto.PrivKey // a key that is not a member of the space
}

func newTreeRef() *treeRef {
	f, err := treesim.NewFixture(11)
	if err != nil {
		panic(err)
	}
	w, err := treesim.NewWorld(f, 2, "")
	if err != nil {
		panic(err)
	}
	r := &treeRef{f: f, strange: aclsim.NewAccount(11, "stranger").Keys.SignKey}
	for _, snap := range []bool{false, false, true, false} {
		if _, err := w.Edit(0, snap); err != nil {
			panic(err)
		}
	}
	for _, m := range w.Net {
		if m.Kind == "hu" && m.Dst == 1 {
			r.hu = append(r.hu, m)
		}
	}
	if len(r.hu) != 4 {
		panic(fmt.Sprintf("tree reference: %d head updates", len(r.hu)))
	}
	w.Net = nil
	if err := w.SyncWithPeer(1, 0); err != nil {
		panic(err)
	}
	r.req = w.Take(0)
	if err := w.Deliver(r.req, -1); err != nil {
		panic(err)
	}
	for _, m := range w.Net {
		if m.Kind == "resp" {
			r.resp = m
		}
	}
	if r.req.Kind != "req" || r.resp == nil || len(r.resp.Batches) == 0 {
		panic("tree reference: no request / response")
	}
	st := w.Replicas[0].Tree.Storage()
	err = st.GetAfterOrder(bg, "", func(_ context.Context, c objecttree.StorageChange) (bool, error) {
		c.RawChange = append([]byte{}, c.RawChange...)
		c.PrevIds = append([]string{}, c.PrevIds...)
		r.rows = append(r.rows, c)
		r.raws = append(r.raws, &treechangeproto.RawTreeChangeWithId{RawChange: c.RawChange, Id: c.Id})
		return true, nil
	})
	if err != nil || len(r.rows) != 5 {
		panic(fmt.Sprintf("tree reference: rows=%d err=%v", len(r.rows), err))
	}
	return r
}

func (r *treeRef) acl() list.AclList {
	st, err := list.NewInMemoryStorage(r.f.Payload.AclWithId.Id, []*consensusproto.RawRecordWithId{r.f.Payload.AclWithId})
	if err != nil {
		panic(err)
	}
	l, err := list.BuildAclListWithIdentity(r.f.Keys, st, recordverifier.NewValidateFull())
	if err != nil {
		panic(err)
	}
	return l
}

// storageWith returns a fresh in-memory tree storage holding the root and the first k changes of the reference.
func (r *treeRef) storageWith(k int) objecttree.Storage {
	st := treesim.NewMemTreeStorage(r.f.TreeRoot)
	if k > 0 {
		rows := make([]objecttree.StorageChange, k)
		copy(rows, r.rows[1:1+k])
		common := r.f.TreeRoot.Id
		if k >= 3 {
			common = r.rows[3].Id
		}
		if err := st.AddAll(bg, rows, []string{r.rows[k].Id}, common); err != nil {
			panic(err)
		}
	}
	return st
}

type treeKind struct {
	name  string
	build func(objecttree.Storage, list.AclList) (objecttree.ObjectTree, error)
}

var treeKinds = []treeKind{
	{"verifying", objecttree.BuildObjectTree},
	{"empty-data", objecttree.BuildEmptyDataObjectTree},
}

// resign wraps a (mutated) change payload the way ChangeBuilder.Build does: signature of the author, CID as id.
func resign(key crypto.PrivKey, payload []byte) *treechangeproto.RawTreeChangeWithId {
	sig, err := key.Sign(payload)
	if err != nil {
		panic(err)
	}
	raw, err := (&treechangeproto.RawTreeChange{Payload: payload, Signature: sig}).MarshalVT()
	if err != nil {
		panic(err)
	}
	id, err := cidutil.NewCidFromBytes(raw)
	if err != nil {
		panic(err)
	}
	return &treechangeproto.RawTreeChangeWithId{RawChange: raw, Id: id}
}

func payloadOf(raw *treechangeproto.RawTreeChangeWithId) []byte {
	r := &treechangeproto.RawTreeChange{}
	if err := r.UnmarshalVT(raw.RawChange); err != nil {
		panic(err)
	}
	return r.Payload
}

func headUpdateBytes(heads []string, changes []*treechangeproto.RawTreeChangeWithId, path []string) []byte {
	b, err := (&treechangeproto.TreeHeadUpdate{Heads: heads, Changes: changes, SnapshotPath: path}).MarshalVT()
	if err != nil {
		panic(err)
	}
	return b
}

// treeSeed: the victim holds the first `have` reference changes; the seed delivers reference change number `idx`.
type treeSeed struct {
	have, idx int
}

// typedChanges: hostile but correctly signed variants of reference change idx (F2, application knowledge).
func (r *treeRef) typedChanges(idx int, yield func(label string, raw *treechangeproto.RawTreeChangeWithId) bool) {
	base := &treechangeproto.TreeChange{}
	if err := base.UnmarshalVT(payloadOf(r.raws[idx])); err != nil {
		panic(err)
	}
	ids := map[string]string{"root": r.rows[0].Id, "e1": r.rows[1].Id, "e2": r.rows[2].Id, "s3": r.rows[3].Id, "e4": r.rows[4].Id, "unknown": "bafyreiunknownunknownunknownunknownunknownunknownunknown", "empty": "", "garbage": "\x00\xff not a cid"}
	names := []string{"root", "e1", "e2", "s3", "e4", "unknown", "empty", "garbage"}
	emit := func(label string, key crypto.PrivKey, f func(c *treechangeproto.TreeChange)) bool {
		c := proto.Clone(base).(*treechangeproto.TreeChange)
		f(c)
		b, err := c.MarshalVT()
		if err != nil {
			panic(err)
		}
		return yield(label, resign(key, b))
	}
	own := r.f.Keys.SignKey
	// parent references: single, pairs (redundant / dangling / duplicated), none
	for _, a := range names {
		if !emit("parents=["+a+"]", own, func(c *treechangeproto.TreeChange) { c.TreeHeadIds = []string{ids[a]} }) {
			return
		}
		for _, b := range names {
			if !emit("parents=["+a+","+b+"]", own, func(c *treechangeproto.TreeChange) { c.TreeHeadIds = []string{ids[a], ids[b]} }) {
				return
			}
		}
	}
	if !emit("parents=[]", own, func(c *treechangeproto.TreeChange) { c.TreeHeadIds = nil }) {
		return
	}
	if !emit("parents=[all]", own, func(c *treechangeproto.TreeChange) {
		c.TreeHeadIds = []string{ids["e1"], ids["e2"], ids["s3"], ids["e4"], ids["root"]}
	}) {
		return
	}
	// snapshot base x snapshot flag x parent
	for _, a := range names {
		for _, snap := range []bool{false, true} {
			for _, p := range []string{"", "root", "e2", "s3", "unknown"} {
				if !emit(fmt.Sprintf("snapshotBase=%s,isSnapshot=%v,parent=%s", a, snap, p), own, func(c *treechangeproto.TreeChange) {
					c.SnapshotBaseId, c.IsSnapshot = ids[a], snap
					if p != "" {
						c.TreeHeadIds = []string{ids[p]}
					}
				}) {
					return
				}
			}
		}
	}
	for _, a := range []string{"unknown", "empty", "garbage", "e1"} {
		if !emit("aclHead="+a, own, func(c *treechangeproto.TreeChange) { c.AclHeadId = ids[a] }) {
			return
		}
		if !emit("readKeyId="+a, own, func(c *treechangeproto.TreeChange) { c.ReadKeyId = ids[a] }) {
			return
		}
	}
	strangeProto, _ := r.strange.GetPublic().Marshall()
	if !emit("identity=stranger,signed-by-stranger", r.strange, func(c *treechangeproto.TreeChange) { c.Identity = strangeProto }) {
		return
	}
	if !emit("identity=stranger,signed-by-member", own, func(c *treechangeproto.TreeChange) { c.Identity = strangeProto }) {
		return
	}
	// correctly signed by somebody without permission, hanging off every change of the tree (head or not)
	for _, a := range []string{"root", "e1", "e2", "s3", "e4"} {
		if !emit("identity=stranger,signed-by-stranger,parents=["+a+"]", r.strange, func(c *treechangeproto.TreeChange) {
			c.Identity, c.TreeHeadIds = strangeProto, []string{ids[a]}
		}) {
			return
		}
	}
	if !emit("identity=member,signed-by-stranger", r.strange, func(c *treechangeproto.TreeChange) {}) {
		return
	}
	for _, ts := range []int64{0, -1, 1 << 62, -1 << 63} {
		if !emit(fmt.Sprintf("timestamp=%d", ts), own, func(c *treechangeproto.TreeChange) { c.Timestamp = ts }) {
			return
		}
	}
}

type treeWorker struct {
	r   *treeRef
	acl list.AclList
}

func registerTree(c *vk.Ctx) {
	r := newTreeRef()
	newWorker := func() any { return &treeWorker{r: r, acl: r.acl()} }
	rootId := r.f.TreeRoot.Id

	// ---- decoders ------------------------------------------------------------------------------------------
	var rawSeeds []seed
	for _, i := range []int{0, 1, 3} {
		rawSeeds = append(rawSeeds, seed{name: []string{"root", "e1", "e2", "s3", "e4"}[i], data: r.raws[i].RawChange})
	}
	register(&entry{
		name: "tree.ChangeBuilder.Unmarshall", what: "ChangeBuilder.Unmarshall (verify on/off; data and empty-data builders) and UnmarshallReduced on mutated raw changes; id = recomputed CID, the seed's id, the root id, empty",
		seeds: rawSeeds,
		opts: func(thorough bool) mutate.Opts {
			return mutate.Opts{Kinds: "S B1 B2 B3 F1", SmallMax: 2, AllBytes: thorough}
		},
		call: func(_ any, si int, data []byte) error {
			cid, err := cidutil.NewCidFromBytes(data)
			if err != nil {
				return err
			}
			seedId, _ := cidutil.NewCidFromBytes(rawSeeds[si].data)
			var first error
			ok := 0
			for _, b := range []objecttree.ChangeBuilder{objecttree.NewChangeBuilder(crypto.NewKeyStorage(), r.f.TreeRoot), objecttree.NewEmptyDataChangeBuilder(crypto.NewKeyStorage(), r.f.TreeRoot)} {
				for _, id := range []string{cid, seedId, rootId, ""} {
					raw := &treechangeproto.RawTreeChangeWithId{RawChange: data, Id: id}
					for _, verify := range []bool{true, false} {
						ch, err := b.Unmarshall(raw, verify)
						if err == nil {
							ok++
							_, _ = b.Marshall(ch)
						} else if first == nil {
							first = err
						}
					}
					if _, err := b.UnmarshallReduced(raw); err == nil {
						ok++
					}
				}
			}
			_, _ = objecttree.UnmarshallRoot(&treechangeproto.RawTreeChangeWithId{RawChange: data, Id: cid})
			if ok > 0 {
				return nil
			}
			return first
		},
	})

	// ---- AddRawChanges -------------------------------------------------------------------------------------
	tseeds := []treeSeed{{0, 1}, {2, 3}, {3, 4}, {1, 4}}
	var addSeeds []seed
	for _, ts := range tseeds {
		addSeeds = append(addSeeds, seed{
			name: fmt.Sprintf("victim has %d changes, receives change %d", ts.have, ts.idx),
			data: headUpdateBytes([]string{r.raws[ts.idx].Id}, []*treechangeproto.RawTreeChangeWithId{r.raws[ts.idx]}, []string{rootId}),
		})
	}
	addCall := func(kind treeKind) func(w any, si int, data []byte) error {
		return func(w any, si int, data []byte) error {
			tw := w.(*treeWorker)
			hu := &treechangeproto.TreeHeadUpdate{}
			if err := hu.UnmarshalVT(data); err != nil {
				return err
			}
			t, err := kind.build(r.storageWith(tseeds[si].have), tw.acl)
			if err != nil {
				panic(fmt.Sprintf("building victim tree: %v", err))
			}
			t.Lock()
			defer t.Unlock()
			_, err = t.AddRawChanges(bg, objecttree.RawChangesPayload{NewHeads: hu.Heads, RawChanges: hu.Changes, SnapshotPath: hu.SnapshotPath})
			if err != nil {
				// a rejected payload must leave a tree that takes the next genuine update (a panic here is reported
				// by the caller like any other; its verdict is not judged)
				if next := tseeds[si].have + 1; next < len(r.raws) {
					_, _ = t.AddRawChanges(bg, objecttree.RawChangesPayload{NewHeads: []string{r.raws[next].Id}, RawChanges: []*treechangeproto.RawTreeChangeWithId{r.raws[next]}, SnapshotPath: []string{rootId}})
				}
				_ = t.IterateRoot(nil, func(*objecttree.Change) bool { return true })
				return err
			}
			// an accepted payload leaves a usable tree
			_ = t.Heads()
			_, err = t.SnapshotPath()
			if err != nil {
				return nil
			}
			return t.IterateRoot(nil, func(*objecttree.Change) bool { return true })
		}
	}
	addExtra := func(si int, yield mutate.Yield) {
		ts := tseeds[si]
		inner := payloadOf(r.raws[ts.idx])
		path := []string{rootId}
		wrap := func(raw *treechangeproto.RawTreeChangeWithId) []byte {
			return headUpdateBytes([]string{raw.Id}, []*treechangeproto.RawTreeChangeWithId{raw}, path)
		}
		// F2 generic: the signed payload mutated, signed again by its author
		ok := mutate.Enumerate(inner, mutate.Opts{Kinds: "B2 B3 F1", Depth: 3, RepMax: 64 << 10}, func(kind, label string, d []byte) bool {
			return yield("F2", "F2:"+label, wrap(resign(r.f.Keys.SignKey, d)))
		})
		if !ok {
			return
		}
		// F2 typed
		stop := false
		r.typedChanges(ts.idx, func(label string, raw *treechangeproto.RawTreeChangeWithId) bool {
			if !yield("F2", "F2:typed:"+label, wrap(raw)) {
				stop = true
			}
			return !stop
		})
		if stop {
			return
		}
		// payload level: what surrounds the changes
		valid := r.raws[ts.idx]
		all := r.raws[1:]
		rev := append([]*treechangeproto.RawTreeChangeWithId{}, all...)
		sort.SliceStable(rev, func(i, j int) bool { return i > j })
		pl := []struct {
			label   string
			heads   []string
			changes []*treechangeproto.RawTreeChangeWithId
			path    []string
		}{
			{"no-heads", nil, []*treechangeproto.RawTreeChangeWithId{valid}, path},
			{"unknown-head", []string{"bafyunknown"}, []*treechangeproto.RawTreeChangeWithId{valid}, path},
			{"empty-head", []string{""}, []*treechangeproto.RawTreeChangeWithId{valid}, path},
			{"head-twice", []string{valid.Id, valid.Id}, []*treechangeproto.RawTreeChangeWithId{valid}, path},
			{"root-as-head", []string{rootId}, []*treechangeproto.RawTreeChangeWithId{valid}, path},
			{"change-twice", []string{valid.Id}, []*treechangeproto.RawTreeChangeWithId{valid, valid}, path},
			{"all-changes", []string{r.raws[4].Id}, all, path},
			{"all-changes-reversed", []string{r.raws[4].Id}, rev, path},
			{"root-among-changes", []string{valid.Id}, []*treechangeproto.RawTreeChangeWithId{r.raws[0], valid}, path},
			{"change-with-empty-id", []string{valid.Id}, []*treechangeproto.RawTreeChangeWithId{{RawChange: valid.RawChange}}, path},
			{"change-with-root-id", []string{valid.Id}, []*treechangeproto.RawTreeChangeWithId{{RawChange: valid.RawChange, Id: rootId}}, path},
			{"change-with-other-id", []string{valid.Id}, []*treechangeproto.RawTreeChangeWithId{{RawChange: valid.RawChange, Id: r.raws[2].Id}}, path},
			{"change-without-bytes", []string{valid.Id}, []*treechangeproto.RawTreeChangeWithId{{Id: valid.Id}}, path},
			{"empty-change-element", []string{valid.Id}, []*treechangeproto.RawTreeChangeWithId{{}, valid}, path},
			{"no-path", []string{valid.Id}, []*treechangeproto.RawTreeChangeWithId{valid}, nil},
			{"unknown-path", []string{valid.Id}, []*treechangeproto.RawTreeChangeWithId{valid}, []string{"bafyunknown"}},
			{"path-of-non-snapshots", []string{valid.Id}, []*treechangeproto.RawTreeChangeWithId{valid}, []string{r.raws[2].Id, r.raws[1].Id}},
			{"path-reversed", []string{valid.Id}, []*treechangeproto.RawTreeChangeWithId{valid}, []string{rootId, r.raws[3].Id}},
			{"path-with-empty", []string{valid.Id}, []*treechangeproto.RawTreeChangeWithId{valid}, []string{"", rootId}},
			{"only-heads-unknown", []string{"bafyunknown"}, nil, path},
		}
		for _, p := range pl {
			if !yield("F2", "F2:payload:"+p.label, headUpdateBytes(p.heads, p.changes, p.path)) {
				return
			}
		}
		// two hostile changes at once: a typed variant together with a child naming it as parent and snapshot base
		r.typedChanges(ts.idx, func(label string, raw *treechangeproto.RawTreeChangeWithId) bool {
			if !strings.HasPrefix(label, "snapshotBase=") && !strings.HasPrefix(label, "parents=[e") {
				return true
			}
			child := &treechangeproto.TreeChange{}
			_ = child.UnmarshalVT(inner)
			child.TreeHeadIds = []string{raw.Id}
			child.SnapshotBaseId = raw.Id
			b, _ := child.MarshalVT()
			cr := resign(r.f.Keys.SignKey, b)
			if !yield("F2", "F2:typed+child:"+label, headUpdateBytes([]string{cr.Id}, []*treechangeproto.RawTreeChangeWithId{raw, cr}, path)) {
				stop = true
				return false
			}
			// ... and together with a change that keeps its valid (attached) parents but names the typed variant, which
			// may never attach, as its snapshot base; in both batch orders
			sib := &treechangeproto.TreeChange{}
			_ = sib.UnmarshalVT(inner)
			sib.SnapshotBaseId = raw.Id
			sb, _ := sib.MarshalVT()
			sr := resign(r.f.Keys.SignKey, sb)
			if !yield("F2", "F2:typed+based-on-it:"+label, headUpdateBytes([]string{sr.Id}, []*treechangeproto.RawTreeChangeWithId{raw, sr}, path)) ||
				!yield("F2", "F2:based-on-it+typed:"+label, headUpdateBytes([]string{sr.Id}, []*treechangeproto.RawTreeChangeWithId{sr, raw}, path)) {
				stop = true
			}
			return !stop
		})
	}
	for _, k := range treeKinds {
		k := k
		register(&entry{
			name:  "tree.AddRawChanges(" + k.name + ")",
			what:  "ObjectTree.AddRawChanges on a fresh " + k.name + " tree per case (locked by the caller); input = TreeHeadUpdate{heads, changes, snapshotPath}: wire mutants, changes with mutated payload signed again by the author with the CID recomputed, typed hostile parents / snapshot bases / acl heads / identities, hostile payload envelopes",
			seeds: addSeeds, worker: newWorker, extra: addExtra,
			opts: func(thorough bool) mutate.Opts {
				return mutate.Opts{Kinds: "B1 B2 B3 F1", AllBytes: thorough && k.name == "verifying", Depth: 4, RepMax: 128 << 10}
			},
			call: addCall(k),
		})
	}

	// ---- node side: a whole tree pushed by a peer --------------------------------------------------------------
	putSeed := func(n int) []byte {
		b, err := (&spacesyncproto.ObjectSyncMessage{}).MarshalVT()
		_ = b
		_ = err
		p := &treechangeproto.TreeFullSyncResponse{Heads: []string{r.raws[n].Id}, Changes: r.raws[1 : n+1]}
		out, err := treechangeproto.WrapFullResponse(p, r.f.TreeRoot).MarshalVT()
		if err != nil {
			panic(err)
		}
		return out
	}
	register(&entry{
		name: "tree.ValidateRawTree", what: "objecttree.ValidateRawTreeDefault / ValidateFilterRawTree (what a node runs on a tree pushed by a peer): root, heads and changes all taken from a mutated TreeSyncMessage; root variants signed again",
		seeds:  []seed{{name: "root + 4 changes", data: putSeed(4)}, {name: "root + 1 change", data: putSeed(1)}},
		worker: newWorker,
		opts: func(thorough bool) mutate.Opts {
			return mutate.Opts{Kinds: "S B1 B2 B3 F1", SmallMax: 1, AllBytes: false, Depth: 5, RepMax: 128 << 10}
		},
		extra: func(si int, yield mutate.Yield) {
			// F2: the root's signed payload mutated and signed again (the tree id follows the new CID)
			rootPayload := payloadOf(r.f.TreeRoot)
			n := []int{4, 1}[si]
			mutate.Enumerate(rootPayload, mutate.Opts{Kinds: "B2 B3 F1", Depth: 3, RepMax: 64 << 10}, func(kind, label string, d []byte) bool {
				root := resign(r.f.Keys.SignKey, d)
				p := &treechangeproto.TreeFullSyncResponse{Heads: []string{r.raws[n].Id}, Changes: r.raws[1 : n+1]}
				b, _ := treechangeproto.WrapFullResponse(p, root).MarshalVT()
				if !yield("F2", "F2:root:"+label, b) {
					return false
				}
				p2 := &treechangeproto.TreeFullSyncResponse{Heads: []string{root.Id}}
				b2, _ := treechangeproto.WrapFullResponse(p2, root).MarshalVT()
				return yield("F2", "F2:root-alone:"+label, b2)
			})
		},
		call: func(w any, si int, data []byte) error {
			tw := w.(*treeWorker)
			m := &treechangeproto.TreeSyncMessage{}
			if err := m.UnmarshalVT(data); err != nil {
				return err
			}
			rsp := m.GetContent().GetFullSyncResponse()
			if rsp == nil || m.RootChange == nil {
				return fmt.Errorf("not a tree push")
			}
			payload := treestorage.TreeStorageCreatePayload{RootRawChange: m.RootChange, Changes: rsp.Changes, Heads: rsp.Heads}
			_, err1 := objecttree.ValidateRawTreeDefault(payload, memCreator{}, tw.acl)
			_, err2 := objecttree.ValidateFilterRawTree(payload, memCreator{}, tw.acl)
			if err1 == nil || err2 == nil {
				return nil
			}
			return err1
		},
	})

	// ---- sync handlers ---------------------------------------------------------------------------------------
	type hseed struct {
		have int
		kind string
		data []byte
	}
	batch0 := r.resp.Batches[0]
	batchBytes, err := batch0.MarshalVT()
	if err != nil {
		panic(err)
	}
	hseeds := map[string][]hseed{
		"sync.HandleHeadUpdate":    {{0, "hu", r.hu[0].Bytes}, {2, "hu", r.hu[2].Bytes}, {3, "hu", r.hu[3].Bytes}},
		"sync.HandleStreamRequest": {{4, "req", r.req.Bytes}, {2, "req", r.req.Bytes}},
		"sync.HandleResponse":      {{0, "resp", batch0.Payload}, {2, "resp", batch0.Payload}, {0, "resp-outer", batchBytes}},
	}
	victim := func(have int) *treesim.World {
		w, err := treesim.NewWorld(r.f, 1, "")
		if err != nil {
			panic(err)
		}
		for i := 0; i < have; i++ {
			if err := deliver(w, r, "hu", r.hu[i].Bytes); err != nil {
				panic(fmt.Sprintf("preparing victim: %v", err))
			}
		}
		w.Net = nil
		return w
	}
	for _, name := range []string{"sync.HandleHeadUpdate", "sync.HandleStreamRequest", "sync.HandleResponse"} {
		hs := hseeds[name]
		var seeds []seed
		for _, s := range hs {
			seeds = append(seeds, seed{name: fmt.Sprintf("%s to a replica holding %d changes", s.kind, s.have), data: s.data})
		}
		register(&entry{
			name: name, what: "syncHandler." + strings.TrimPrefix(name, "sync.") + " of a real sync tree replica (in-memory storage) with mutated real message bytes; the replica is rebuilt whenever a case was accepted or changed its tree",
			seeds: seeds,
			opts: func(thorough bool) mutate.Opts {
				return mutate.Opts{Kinds: "S B1 B2 B3 F1", SmallMax: 1, AllBytes: false, Depth: 5, RepMax: 64 << 10}
			},
			worker: func() any { return map[int]*victimState{} },
			call: func(w any, si int, data []byte) error {
				vs := w.(map[int]*victimState)
				s := hs[si]
				v := vs[s.have]
				if v == nil {
					v = &victimState{w: victim(s.have)}
					v.print = fingerprint(v.w)
					vs[s.have] = v
				}
				err := deliver(v.w, r, s.kind, data)
				if err == nil || fingerprint(v.w) != v.print {
					delete(vs, s.have) // fresh replica for the next case
				} else {
					v.w.Net = nil
				}
				return err
			},
		})
	}
}

type victimState struct {
	w     *treesim.World
	print string
}

// fingerprint is what a rejected message must leave unchanged for the replica to be reused.
func fingerprint(w *treesim.World) string {
	t := w.Replicas[0].Tree
	t.Lock()
	defer t.Unlock()
	rootId, attached, unattached := objecttree.VerifTreeState(synctree.VerifObjectTree(t))
	return fmt.Sprint(t.Heads(), t.Len(), rootId, len(attached), unattached)
}

type nopQueue struct{}

func (nopQueue) UpdateQueueSize(size uint64, msgType int, add bool) {}

// deliver hands raw message bytes of a hostile peer to the victim's real handler.
func deliver(w *treesim.World, r *treeRef, kind string, data []byte) error {
	v := w.Replicas[0]
	const hostile = "hostile-peer"
	ctx := peer.CtxWithPeerId(bg, hostile)
	treeId := r.f.TreeRoot.Id
	switch kind {
	case "hu":
		hu := &objectmessages.HeadUpdate{Meta: objectmessages.ObjectMeta{PeerId: hostile, ObjectId: treeId, SpaceId: r.f.SpaceId}, Bytes: append([]byte{}, data...)}
		_, err := v.Tree.HandleHeadUpdate(ctx, syncstatus.NewNoOpSyncStatus(), hu)
		return err
	case "req":
		req := objectmessages.NewByteRequest(hostile, r.f.SpaceId, treeId, append([]byte{}, data...))
		_, err := v.Tree.HandleStreamRequest(ctx, req, nopQueue{}, func(pm proto.Message) error { return nil })
		return err
	case "resp", "resp-outer":
		var osm *spacesyncproto.ObjectSyncMessage
		if kind == "resp" {
			osm = &spacesyncproto.ObjectSyncMessage{SpaceId: r.f.SpaceId, ObjectId: treeId, Payload: append([]byte{}, data...)}
		} else {
			osm = &spacesyncproto.ObjectSyncMessage{}
			if err := osm.UnmarshalVT(data); err != nil {
				return err
			}
		}
		rsp := &response.Response{}
		if err := rsp.SetProtoMessage(osm); err != nil {
			return err
		}
		return v.Tree.HandleResponse(ctx, hostile, treeId, rsp)
	}
	panic("unknown kind " + kind)
}

// memCreator gives ValidateRawTree* an in-memory storage for the pushed tree.
type memCreator struct{}

func (memCreator) CreateTreeStorage(ctx context.Context, p treestorage.TreeStorageCreatePayload) (objecttree.Storage, error) {
	if p.RootRawChange == nil || p.RootRawChange.Id == "" {
		return nil, fmt.Errorf("no root")
	}
	return treesim.NewMemTreeStorage(p.RootRawChange), nil
}

func (memCreator) CreateStorageWithDeferredCreation(ctx context.Context, p treestorage.TreeStorageCreatePayload) (objecttree.Storage, error) {
	return memCreator{}.CreateTreeStorage(ctx, p)
}
