package c11

import (
	"fmt"
	"runtime"
	"testing"
	"bytes"

	"go.uber.org/zap"
	"github.com/anyproto/any-sync/app/logger"
	"github.com/anyproto/any-sync/commonspace/object/acl/aclrecordproto"
	"github.com/anyproto/any-sync/commonspace/object/acl/list"
)

func TestScratch(t *testing.T) {
	logger.SetDefault(zap.NewNop())
	w := newAclWorld()
	sd := w.seeds[0]
	d := &aclrecordproto.AclData{}
	d.UnmarshalVT(sd.data)
	add := d.AclContent[0].GetAccountsAdd().Additions[0]
	aw := &aclWorker{w: w, lists: map[string]list.AclList{}}
	_ = aw
	for _, n := range []int{256, 512, 1024, 2048, 4096} {
		d.AclContent[0].GetAccountsAdd().Additions = nil
		for i := 0; i < n; i++ {
			d.AclContent[0].GetAccountsAdd().Additions = append(d.AclContent[0].GetAccountsAdd().Additions, add)
		}
		b, _ := d.MarshalVT()
		l := w.sim.Full(sd.observer)
		raw := craft(sd.author, w.sim.HeadId(), b)
		a0 := exactAlloc()
		err := l.ValidateRawRecord(raw, nil)
		a1 := exactAlloc()
		fmt.Printf("n=%d len=%d alloc=%d per-byte=%d err=%v\n", n, len(b), a1-a0, int(a1-a0)/len(b), err)
	}
	_ = bytes.Equal
	_ = runtime.GC
}
