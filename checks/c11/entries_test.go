package c11

import "verif/lib/vk"

// buildEntries registers the entry points in priority order.
func buildEntries(c *vk.Ctx) {
	registerACL(c)
	registerACLRoot(c)
	registerCrypto(c)
	registerTree(c)
	registerKV(c)
	registerHeadSync(c)
	registerPayloads(c)
	registerEncoding(c)
	registerPubsub(c)
}
