// C06 — change order is a function of the change set; incremental equals rebuilt.
//
// Exhaustive enumeration on the real object tree (test change builder, chosen letter ids so that every relative id
// order can be enumerated): honest DAGs are produced by small programs of create(replica, plain|snapshot) and
// pull(replica <- replica) over two (and, for wider forks, three) creator replicas, plus synthetic DAGs with redundant edges (a new change's parents are the creator's real heads, its
// snapshot base the creator's real in-memory root); for the final change set every arrival permutation x batch
// partition x head announcement x reopen point is fed to a fresh tree.
package c06

import (
	"context"
	"fmt"
	"os"
	"path/filepath"
	"sort"
	"strings"
	"sync"
	"sync/atomic"
	"testing"
	"time"

	anystore "github.com/anyproto/any-store"
	"go.uber.org/zap"

	"github.com/anyproto/any-sync/commonspace/headsync/headstorage"

	"github.com/anyproto/any-sync/app/logger"
	"github.com/anyproto/any-sync/commonspace/object/accountdata"
	"github.com/anyproto/any-sync/commonspace/object/acl/list"
	"github.com/anyproto/any-sync/commonspace/object/acl/recordverifier"
	"github.com/anyproto/any-sync/commonspace/object/tree/objecttree"
	"github.com/anyproto/any-sync/commonspace/object/tree/treechangeproto"
	"github.com/anyproto/any-sync/consensus/consensusproto"

	"verif/lib/treesim"
	"verif/lib/vk"
)

var ctx = context.Background()

type step struct {
	Op string `json:"op"` // create snap pull
	R  int    `json:"r"`
	S  int    `json:"s"`
}

func (s step) String() string {
	if s.Op == "pull" {
		return fmt.Sprintf("pull(r%d<-r%d)", s.R, s.S)
	}
	return fmt.Sprintf("%s(r%d)", s.Op, s.R)
}

type chg struct {
	Id      string
	Parents []string
	Snap    bool
	Base    string
	Path    []string // the creator's snapshot path right after creating the change (what it announces with it)
	raw     *treechangeproto.RawTreeChangeWithId
}

type env struct {
	keys    *accountdata.AccountKeys
	acl     list.AclList
	creator *objecttree.MockChangeCreator
	root    *treechangeproto.RawTreeChangeWithId
}

func newEnv(f *treesim.Fixture) *env {
	st, err := list.NewInMemoryStorage(f.Payload.AclWithId.Id, []*consensusproto.RawRecordWithId{f.Payload.AclWithId})
	if err != nil {
		panic(err)
	}
	acl, err := list.BuildAclListWithIdentity(f.Keys, st, recordverifier.NewValidateFull())
	if err != nil {
		panic(err)
	}
	cr := objecttree.NewMockChangeCreator(nil)
	return &env{keys: f.Keys, acl: acl, creator: cr, root: cr.CreateRoot("0root", acl.Head().Id)}
}

func (e *env) newTree() (objecttree.ObjectTree, objecttree.Storage) {
	st := treesim.NewMemTreeStorage(e.root)
	t, err := objecttree.BuildTestableTree(st, e.acl)
	if err != nil {
		panic(err)
	}
	return t, st
}

// newRejectingTree is newTree with a validator that refuses every batch holding a change whose id starts with "zz".
func (e *env) newRejectingTree() (objecttree.ObjectTree, objecttree.Storage) {
	st := treesim.NewMemTreeStorage(e.root)
	t, err := objecttree.VerifBuildTestableTreeRejecting(st, e.acl, func(id string) bool { return strings.HasPrefix(id, "zz") })
	if err != nil {
		panic(err)
	}
	return t, st
}

// addRaw calls AddRawChanges the way every caller in the repository does: with the tree locked.
func addRaw(t objecttree.ObjectTree, p objecttree.RawChangesPayload) (objecttree.AddResult, error) {
	t.Lock()
	defer t.Unlock()
	return t.AddRawChanges(ctx, p)
}

func presented(t objecttree.ReadableObjectTree) (ids []string) {
	t.Lock()
	defer t.Unlock()
	_ = t.IterateRoot(nil, func(c *objecttree.Change) bool {
		ids = append(ids, c.Id)
		return true
	})
	return
}

type storedRow struct{ id, order string }

func stored(st objecttree.Storage) (rows []storedRow) {
	_ = st.GetAfterOrder(ctx, "", func(_ context.Context, c objecttree.StorageChange) (bool, error) {
		rows = append(rows, storedRow{c.Id, c.OrderId})
		return true, nil
	})
	return
}

func idsOf(rows []storedRow) []string {
	var o []string
	for _, r := range rows {
		o = append(o, r.id)
	}
	return o
}

// runProgram executes a program on two creator replicas with ids taken from perm; returns the changes in creation order.
func (e *env) runProgram(prog []step, ids []string) (out []chg, ok bool) {
	type rep struct {
		t  objecttree.ObjectTree
		st objecttree.Storage
	}
	var reps [3]rep
	for i := range reps {
		reps[i].t, reps[i].st = e.newTree()
	}
	k := 0
	for _, s := range prog {
		switch s.Op {
		case "create", "snap":
			r := reps[s.R]
			heads := append([]string{}, r.t.Heads()...)
			base := r.t.Root().Id
			id := ids[k]
			k++
			raw := e.creator.CreateRaw(id, e.acl.Head().Id, base, s.Op == "snap", heads...)
			res, err := addRaw(r.t, objecttree.RawChangesPayload{NewHeads: []string{id}, RawChanges: []*treechangeproto.RawTreeChangeWithId{raw}})
			if err != nil || len(res.Added) != 1 {
				return nil, false
			}
			path, _ := r.t.SnapshotPath()
			out = append(out, chg{Id: id, Parents: heads, Snap: s.Op == "snap", Base: base, Path: append([]string{}, path...), raw: raw})
		case "pull":
			src, dst := reps[s.S], reps[s.R]
			var raws []*treechangeproto.RawTreeChangeWithId
			_ = src.st.GetAfterOrder(ctx, "", func(_ context.Context, c objecttree.StorageChange) (bool, error) {
				if c.Id != e.root.Id {
					raws = append(raws, c.RawTreeChangeWithId())
				}
				return true, nil
			})
			if len(raws) == 0 {
				continue
			}
			path, _ := src.t.SnapshotPath()
			if _, err := addRaw(dst.t, objecttree.RawChangesPayload{NewHeads: append([]string{}, src.t.Heads()...), RawChanges: raws, SnapshotPath: path}); err != nil {
				return nil, false
			}
		}
	}
	return out, true
}

func dagKey(cs []chg) string {
	var parts []string
	for _, c := range cs {
		parts = append(parts, fmt.Sprintf("%s<%s|%v|%s", c.Id, strings.Join(c.Parents, ","), c.Snap, c.Base))
	}
	sort.Strings(parts)
	return strings.Join(parts, ";")
}

func programs(maxCreates, maxPulls int) (out [][]step) { return programsN(maxCreates, maxPulls, 2) }

// programsN enumerates programs over nRep creator replicas up to renaming of replicas: a replica index may only
// appear once every lower index has appeared (first-use order), and nobody pulls from a replica that has done nothing.
func programsN(maxCreates, maxPulls, nRep int) (out [][]step) {
	var rec func(p []step, creates, pulls, used int)
	rec = func(p []step, creates, pulls, used int) {
		if creates > 0 && p[len(p)-1].Op != "pull" {
			out = append(out, append([]step{}, p...))
		}
		next := func(r int) int {
			if r == used {
				return used + 1
			}
			return used
		}
		if creates < maxCreates {
			for r := 0; r <= used && r < nRep; r++ {
				rec(append(p, step{Op: "create", R: r}), creates+1, pulls, next(r))
				rec(append(p, step{Op: "snap", R: r}), creates+1, pulls, next(r))
			}
		}
		if pulls < maxPulls && creates > 0 && p[len(p)-1].Op != "pull" {
			for dst := 0; dst <= used && dst < nRep; dst++ {
				for src := 0; src < used; src++ {
					if src != dst {
						rec(append(p, step{Op: "pull", R: dst, S: src}), creates, pulls+1, next(dst))
					}
				}
			}
		}
	}
	rec(nil, 0, 0, 0)
	return
}

func permutations(n int) (out [][]int) {
	var rec func(p []int, used int)
	rec = func(p []int, used int) {
		if len(p) == n {
			out = append(out, append([]int{}, p...))
			return
		}
		for i := 0; i < n; i++ {
			if used&(1<<i) == 0 {
				rec(append(p, i), used|1<<i)
			}
		}
	}
	rec(nil, 0)
	return
}

// compositions of n items into consecutive batches: bit i set = cut after item i.
func compositions(n int) (out [][]int) {
	for mask := 0; mask < 1<<(n-1); mask++ {
		var sizes []int
		cur := 1
		for i := 0; i < n-1; i++ {
			if mask&(1<<i) != 0 {
				sizes = append(sizes, cur)
				cur = 1
			} else {
				cur++
			}
		}
		out = append(out, append(sizes, cur))
	}
	return
}

type finding struct{ key, what string }

func isLinearExtension(seq []string, parents map[string][]string) string {
	pos := map[string]int{}
	for i, id := range seq {
		pos[id] = i
	}
	for _, id := range seq {
		for _, p := range parents[id] {
			if pp, ok := pos[p]; ok && pp > pos[id] {
				return fmt.Sprintf("%s appears before its parent %s", id, p)
			}
		}
	}
	return ""
}

func restrict(full []string, view []string) []string {
	in := map[string]bool{}
	for _, v := range view {
		in[v] = true
	}
	var o []string
	for _, f := range full {
		if in[f] {
			o = append(o, f)
		}
	}
	return o
}

func isPrefix(a, b []string) bool {
	if len(a) > len(b) {
		return false
	}
	for i := range a {
		if a[i] != b[i] {
			return false
		}
	}
	return true
}

type feeding struct {
	Perm      []int  `json:"perm"`
	Sizes     []int  `json:"sizes"`
	HeadsMode string `json:"heads"`              // sender | batch
	Reopen    int    `json:"reopen"`             // reopen after this many batches (-1 never)
	Refusals  bool   `json:"refusals,omitempty"` // before every call, one refused batch per current head is offered
}

type dagCase struct {
	Prog []step   `json:"prog"`
	Ids  []string `json:"ids"`
	// Parents, if set, describes a synthetic DAG instead of a program: Parents[i] lists the parents of change i as
	// indices into the creation order (-1 = the tree root); any non-empty set of earlier changes is allowed, also
	// redundant edges (a parent that is an ancestor of another parent) that honest clients never produce
	Parents [][]int `json:"parents,omitempty"`
}

// synthDag builds the changes of a synthetic DAG (plain changes on the tree root's snapshot).
func (e *env) synthDag(parents [][]int, ids []string) (out []chg) {
	for i, ps := range parents {
		var pids []string
		for _, pi := range ps {
			if pi < 0 {
				pids = append(pids, e.root.Id)
			} else {
				pids = append(pids, ids[pi])
			}
		}
		raw := e.creator.CreateRaw(ids[i], e.acl.Head().Id, e.root.Id, false, pids...)
		out = append(out, chg{Id: ids[i], Parents: pids, Base: e.root.Id, Path: []string{e.root.Id}, raw: raw})
	}
	return
}

// parentSets enumerates, for n changes, every assignment of a non-empty parent set among {root, earlier changes};
// onlyRedundant keeps the assignments in which some change names a parent that is an ancestor of another of its parents.
func parentSets(n int, onlyRedundant bool) (out [][][]int) {
	var rec func(i int, cur [][]int)
	rec = func(i int, cur [][]int) {
		if i == n {
			if !onlyRedundant || hasRedundantEdge(cur) {
				cp := make([][]int, n)
				for k := range cur {
					cp[k] = append([]int{}, cur[k]...)
				}
				out = append(out, cp)
			}
			return
		}
		cand := []int{-1}
		for k := 0; k < i; k++ {
			cand = append(cand, k)
		}
		for mask := 1; mask < 1<<len(cand); mask++ {
			var ps []int
			for b, x := range cand {
				if mask&(1<<b) != 0 {
					ps = append(ps, x)
				}
			}
			rec(i+1, append(cur, ps))
		}
	}
	rec(0, nil)
	return
}

func hasRedundantEdge(parents [][]int) bool {
	anc := make([]map[int]bool, len(parents))
	for i, ps := range parents {
		anc[i] = map[int]bool{}
		for _, p := range ps {
			anc[i][p] = true
			if p >= 0 {
				for a := range anc[p] {
					anc[i][a] = true
				}
			}
		}
	}
	for _, ps := range parents {
		for _, p := range ps {
			for _, q := range ps {
				if p != q && q >= 0 && anc[q][p] {
					return true
				}
			}
		}
	}
	return false
}

// checkDag feeds the change set in every way and returns findings.
func (e *env) checkDag(c *vk.Ctx, cs []chg, dc dagCase) (out []finding) {
	// quick tier: DAGs with 4 changes get every arrival order x batch partition, but only the sender's heads and no
	// intermediate reopen points (those are enumerated for all DAGs with <= 3 changes, and for everything in thorough)
	lite := c.Quick() && len(cs) >= 4
	add := func(f feeding, key, format string, a ...any) {
		origin := fmt.Sprintf("program [%s]", progStr(dc.Prog))
		if dc.Parents != nil {
			origin = fmt.Sprintf("synthetic DAG with parents %v (-1 = root)", dc.Parents)
		}
		out = append(out, finding{key, fmt.Sprintf("%s ids %v, feeding %+v: ", origin, dc.Ids, f) + fmt.Sprintf(format, a...)})
	}
	parents := map[string][]string{}
	byId := map[string]chg{}
	for _, x := range cs {
		parents[x.Id] = x.Parents
		byId[x.Id] = x
	}
	// reference: creation order, one change per call
	refT, refSt := e.newTree()
	for _, x := range cs {
		if _, err := addRaw(refT, objecttree.RawChangesPayload{NewHeads: []string{x.Id}, RawChanges: []*treechangeproto.RawTreeChangeWithId{x.raw}, SnapshotPath: x.Path}); err != nil {
			add(feeding{}, "reference-feed-error", "creation-order feed of %s failed: %v", x.Id, err)
			return
		}
	}
	c.Count("executions", 1)
	refStored := idsOf(stored(refSt))
	full, err := objecttree.VerifFullOrder(refSt)
	if err != nil {
		add(feeding{}, "full-build-error", "%v", err)
		return
	}
	if len(refStored) != len(cs)+1 {
		add(feeding{}, "reference-incomplete", "creation-order feed stored %v of %d changes", refStored, len(cs)+1)
		return
	}
	if m := isLinearExtension(full, parents); m != "" {
		add(feeding{}, "presented-order-violates-causality", "full order %v: %s", full, m)
	}
	if m := isLinearExtension(refStored, parents); m != "" {
		add(feeding{}, "stored-order-violates-causality", "stored order %v: %s", refStored, m)
	}
	// the same creation-order feed over a real any-store tree storage must store the same sequence with the same order ids
	if c.Thorough() || vk.HashStr(dagKey(cs))%4 == 0 {
		if err := e.realStoreCrossCheck(c, cs, stored(refSt)); err != "" {
			add(feeding{}, "real-storage-differs", "%s", err)
		}
	}
	senderHeads := append([]string{}, refT.Heads()...)
	senderPath, _ := refT.SnapshotPath()
	// a local change on top of the complete set (it merges all heads): it must be stored after everything else, with
	// a fresh order id, and present last; done on a second tree fed the same way, so that refT stays as it is
	if lt, lst := e.newTree(); true {
		okFeed := true
		for _, x := range cs {
			if _, err := addRaw(lt, objecttree.RawChangesPayload{NewHeads: []string{x.Id}, RawChanges: []*treechangeproto.RawTreeChangeWithId{x.raw}, SnapshotPath: x.Path}); err != nil {
				okFeed = false
			}
		}
		if okFeed {
			for _, snap := range []bool{false, true} {
				lt.Lock()
				res, err := lt.AddContent(ctx, objecttree.SignableChangeContent{Data: []byte("local"), Key: e.keys.SignKey, IsSnapshot: snap, Timestamp: 1700001000, DataType: "verif"})
				lt.Unlock()
				c.Count("transitions", 1)
				if err != nil {
					add(feeding{}, "local-change-rejected", "AddContent(snapshot=%v) on the complete set failed: %v", snap, err)
					break
				}
				rows := stored(lst)
				seenOrder := map[string]string{}
				for i, r := range rows {
					if other, ok := seenOrder[r.order]; ok {
						add(feeding{}, "order-id-not-unique:local-change", "after a local change %s and %s share order id %q", other, r.id, r.order)
					}
					seenOrder[r.order] = r.id
					if i > 0 && rows[i-1].order >= r.order {
						add(feeding{}, "stored-order-ids-not-increasing:local-change", "after a local change %s (%q) is stored after %s (%q)", r.id, r.order, rows[i-1].id, rows[i-1].order)
					}
				}
				if len(res.Added) == 1 && len(rows) > 0 && rows[len(rows)-1].id != res.Added[0].Id {
					add(feeding{}, "local-change-not-stored-last", "local change %s merges every head but is stored at a position before %s", res.Added[0].Id, rows[len(rows)-1].id)
				}
				if p := presented(lt); len(res.Added) == 1 && (len(p) == 0 || p[len(p)-1] != res.Added[0].Id) {
					add(feeding{}, "local-change-not-presented-last", "local change %s merges every head but the tree presents %v", res.Added[0].Id, p)
				}
			}
		}
	}
	// sets reached by several feedings must agree
	bySet := map[string]string{}
	var bmu sync.Mutex
	n := len(cs)
	all := make([]*treechangeproto.RawTreeChangeWithId, 0, n)
	for _, x := range cs {
		all = append(all, x.raw)
	}
	for _, perm := range permutations(n) {
		for _, sizes := range compositions(n) {
			for _, hm := range []string{"sender", "batch"} {
				for reopen := -1; reopen < len(sizes); reopen++ {
					if reopen >= 0 && hm == "batch" {
						continue // reopen points are enumerated once (with sender heads)
					}
					if lite && (hm == "batch" || (reopen >= 0 && reopen != len(sizes)-1)) {
						continue
					}
					for _, refusals := range []bool{false, true} {
						if refusals && (reopen >= 0 || hm == "batch") {
							continue
						}
						f := feeding{Perm: perm, Sizes: sizes, HeadsMode: hm, Reopen: reopen, Refusals: refusals}
						t, st := e.newTree()
						if refusals {
							t, st = e.newRejectingTree()
						}
						c.Count("executions", 1)
						orderOf := map[string]string{}
						pos := 0
						batches := append([]int{}, sizes...)
						batches = append(batches, -1) // final: everything in creation order
						for bi, sz := range batches {
							var raws []*treechangeproto.RawTreeChangeWithId
							var bids []string
							if sz < 0 {
								raws = all
							} else {
								for _, pi := range perm[pos : pos+sz] {
									raws = append(raws, cs[pi].raw)
									bids = append(bids, cs[pi].Id)
								}
								pos += sz
							}
							heads := senderHeads
							if hm == "batch" && sz >= 0 {
								heads = maximal(bids, parents)
							}
							if refusals {
								// a batch the validator refuses, on top of each current head in turn: it must leave no trace
								snap0 := fmt.Sprint(presented(t), stored(st), sortedCopy(t.Heads()))
								for hi, h := range append([]string{}, t.Heads()...) {
									pid := fmt.Sprintf("zz%d.%d", bi, hi)
									poison := e.creator.CreateRaw(pid, e.acl.Head().Id, t.Root().Id, false, h)
									_, perr := addRaw(t, objecttree.RawChangesPayload{NewHeads: []string{pid}, RawChanges: []*treechangeproto.RawTreeChangeWithId{poison}, SnapshotPath: senderPath})
									c.Count("transitions", 1)
									if perr == nil {
										add(f, "harness-refusal-not-refused", "poison change %s on %s was accepted", pid, h)
									}
								}
								if snap1 := fmt.Sprint(presented(t), stored(st), sortedCopy(t.Heads())); snap1 != snap0 {
									add(f, "refused-batch-changed-state", "before batch %d: refused batches changed presented / stored / heads from %s to %s", bi, snap0, snap1)
								}
							}
							before := presented(t)
							res, err := addRaw(t, objecttree.RawChangesPayload{NewHeads: heads, RawChanges: raws, SnapshotPath: senderPath})
							c.Count("transitions", 1)
							if err != nil {
								// an error means no progress; the final complete batch must succeed
								if sz < 0 {
									add(f, "final-complete-batch-rejected", "batch of all changes in creation order failed: %v", err)
								}
								continue
							}
							after := presented(t)
							if res.Mode == objecttree.Append && !isPrefix(before, after) {
								add(f, "append-but-not-prefix", "batch %d reported Append but presented sequence went %v -> %v", bi, before, after)
							}
							if m := isLinearExtension(after, parents); m != "" {
								add(f, "presented-order-violates-causality", "after batch %d presented %v: %s", bi, after, m)
							}
							rows := stored(st)
							sids := idsOf(rows)
							if m := isLinearExtension(sids, parents); m != "" {
								add(f, "stored-order-violates-causality", "after batch %d stored %v: %s", bi, sids, m)
							}
							seenOrder := map[string]string{}
							for _, r := range rows {
								if prev, ok := orderOf[r.id]; ok && prev != r.order {
									add(f, "order-id-changed", "order id of %s changed from %q to %q", r.id, prev, r.order)
								}
								orderOf[r.id] = r.order
								if other, ok := seenOrder[r.order]; ok {
									add(f, "order-id-not-unique", "%s and %s share order id %q", other, r.id, r.order)
								}
								seenOrder[r.order] = r.id
							}
							// same stored set => same stored sequence; same (set, in-memory root) => same presented sequence
							setKey := strings.Join(sortedCopy(sids), ",")
							rootId, _, _ := objecttree.VerifTreeState(t)
							bmu.Lock()
							if prev, ok := bySet["S|"+setKey]; ok && prev != strings.Join(sids, ",") {
								add(f, "stored-order-depends-on-history", "set {%s} stored as %v here but as [%s] by another feeding", setKey, sids, prev)
							}
							bySet["S|"+setKey] = strings.Join(sids, ",")
							pk := "P|" + setKey + "|" + rootId
							if prev, ok := bySet[pk]; ok && prev != strings.Join(after, ",") {
								add(f, "presented-order-depends-on-history", "set {%s} root %s presented as %v here but as [%s] by another feeding", setKey, rootId, after, prev)
							}
							bySet[pk] = strings.Join(after, ",")
							bmu.Unlock()
							if want := restrict(full, after); strings.Join(want, ",") != strings.Join(after, ",") && len(sids) == len(cs)+1 {
								add(f, "view-not-restriction-of-full-order", "view %v is not the full order %v restricted to its contents", after, full)
							}
							if bi == reopen {
								nt, err := objecttree.BuildTestableTree(st, e.acl)
								if err != nil {
									add(f, "reopen-failed", "after batch %d: %v", bi, err)
									break
								}
								rp := presented(nt)
								if m := isLinearExtension(rp, parents); m != "" {
									add(f, "presented-order-violates-causality", "reopened after batch %d presented %v: %s", bi, rp, m)
								}
								if len(sids) == len(cs)+1 {
									if want := restrict(full, rp); strings.Join(want, ",") != strings.Join(rp, ",") {
										add(f, "reopened-view-not-restriction-of-full-order", "reopened view %v vs full order %v", rp, full)
									}
								}
								if strings.Join(sortedCopy(nt.Heads()), ",") != strings.Join(sortedCopy(t.Heads()), ",") {
									add(f, "reopened-heads-differ", "live heads %v, reopened heads %v", t.Heads(), nt.Heads())
								}
								t = nt
							}
						}
						final := idsOf(stored(st))
						if strings.Join(final, ",") != strings.Join(refStored, ",") {
							add(f, "stored-order-differs-between-replicas", "stored %v, reference replica (creation order) stored %v", final, refStored)
						}
						c.Count("evaluations", 1)
						c.Distinct("distinct", dagKey(cs)+fmt.Sprint(perm, sizes))
					}
				}
			}
		}
	}
	// history view (built from storage at the heads) presents the restriction of the full order
	return
}

func (e *env) realStoreCrossCheck(c *vk.Ctx, cs []chg, want []storedRow) string {
	dir, err := os.MkdirTemp(c.Scratch, "db")
	if err != nil {
		return err.Error()
	}
	defer os.RemoveAll(dir)
	db, err := anystore.Open(ctx, filepath.Join(dir, "db"), &anystore.Config{ReadConnections: 1, SQLiteConnectionOptions: map[string]string{"synchronous": "off"}, SQLiteGlobalPageCachePreallocateSizeBytes: -1})
	if err != nil {
		return err.Error()
	}
	defer db.Close()
	hs, err := headstorage.New(ctx, db)
	if err != nil {
		return err.Error()
	}
	coll, err := db.Collection(ctx, objecttree.CollName)
	if err != nil {
		return err.Error()
	}
	if err := coll.EnsureIndex(ctx, anystore.IndexInfo{Fields: []string{objecttree.TreeKey, objecttree.OrderKey}, Unique: true}); err != nil {
		return err.Error()
	}
	st, err := objecttree.CreateStorage(ctx, e.root, hs, db)
	if err != nil {
		return "create storage: " + err.Error()
	}
	if s, ok := st.(interface{ SetAddSeq(*atomic.Uint64) }); ok {
		s.SetAddSeq(&atomic.Uint64{})
	}
	t, err := objecttree.BuildTestableTree(st, e.acl)
	if err != nil {
		return "build tree: " + err.Error()
	}
	for _, x := range cs {
		if _, err := addRaw(t, objecttree.RawChangesPayload{NewHeads: []string{x.Id}, RawChanges: []*treechangeproto.RawTreeChangeWithId{x.raw}, SnapshotPath: x.Path}); err != nil {
			return fmt.Sprintf("feed of %s on any-store failed: %v", x.Id, err)
		}
	}
	c.Count("real_storage_replays", 1)
	got := stored(st)
	if fmt.Sprint(got) != fmt.Sprint(want) {
		return fmt.Sprintf("any-store stored %v, in-memory storage stored %v", got, want)
	}
	// reopen from the database
	st2, err := objecttree.NewStorage(ctx, e.root.Id, hs, db)
	if err != nil {
		return "reopen storage: " + err.Error()
	}
	t2, err := objecttree.BuildTestableTree(st2, e.acl)
	if err != nil {
		return "rebuild tree from any-store: " + err.Error()
	}
	if strings.Join(sortedCopy(t2.Heads()), ",") != strings.Join(sortedCopy(t.Heads()), ",") {
		return fmt.Sprintf("heads after reopen from any-store %v, live %v", t2.Heads(), t.Heads())
	}
	return ""
}

func maximal(ids []string, parents map[string][]string) []string {
	isParent := map[string]bool{}
	for _, id := range ids {
		for _, p := range parents[id] {
			isParent[p] = true
		}
	}
	var o []string
	for _, id := range ids {
		if !isParent[id] {
			o = append(o, id)
		}
	}
	sort.Strings(o)
	return o
}

func sortedCopy(s []string) []string {
	c := append([]string{}, s...)
	sort.Strings(c)
	return c
}

func progStr(p []step) string {
	var s []string
	for _, x := range p {
		s = append(s, x.String())
	}
	return strings.Join(s, " ; ")
}

func TestCheck(t *testing.T) {
	logger.SetDefault(zap.NewNop())
	logger.SetNamedLevels(logger.LevelsFromStr("*=fatal"))
	vk.Main(t, vk.Spec{
		Prop:  "C06",
		Level: "model_checking",
		Rule: "all honest DAGs produced by programs of create(plain|snapshot) / pull over two creator replicas with <= N changes, and over three creator replicas (three concurrent children of one change) with the bounds given in the evidence, and every assignment of letter ids (all relative id orders); for each final change set every arrival permutation x batch partition x head announcement (sender heads | batch maxima) x reopen point is fed to a fresh real object tree (each feeding ends with the complete set); every (arrival order, partition) is repeated on a tree whose validator refuses marked changes, with one refused batch per current head offered before every call; " +
			"states = distinct DAGs (shape + ids + snapshot placement); transitions = AddRawChanges calls; distinct_nontrivial = distinct (DAG, arrival order, partition) feedings of DAGs with a fork or a snapshot",
		Assumptions: []string{
			"test change builder (no signatures) and no-op validator: ordering logic only; feedings run over an in-memory implementation of the storage interface; for every DAG the creation-order feed is repeated on a real any-store tree storage and must store the identical (id, order id) sequence and reopen to the same heads",
			"a change arriving in an earlier call than one of its parents is forgotten by the tree (by design: unattached changes are dropped after each call); every feeding therefore ends with one call carrying the whole set",
		},
		Shards: func(string) int { return 16 },
		Budget: func(tier string) time.Duration {
			if tier == "quick" {
				return 150 * time.Second
			}
			return 25 * time.Minute
		},
	}, body)
}

func body(c *vk.Ctx) {
	f, err := treesim.NewFixture(c.Seed)
	if err != nil {
		c.Broken("fixture: %v", err)
		return
	}
	e := newEnv(f)
	objecttree.VerifUseTestStorageChangeBuilder()
	if c.Replay != "" {
		var rf struct {
			Case dagCase `json:"case"`
		}
		if err := vk.ReadJSON(c.Replay, &rf); err != nil {
			c.Broken("replay: %v", err)
			return
		}
		var cs []chg
		if rf.Case.Parents != nil {
			cs = e.synthDag(rf.Case.Parents, rf.Case.Ids)
		} else {
			var ok bool
			if cs, ok = e.runProgram(rf.Case.Prog, rf.Case.Ids); !ok {
				c.Broken("replay: program no longer runs")
				return
			}
		}
		c.DistinctH("states", 1)
		for _, fd := range e.checkDag(c, cs, rf.Case) {
			c.Violation("replayed:"+fd.key, fd.what, rf.Case)
		}
		return
	}
	maxN := vk.Pick(c, 4, 4)
	c.Bound("max_changes", maxN)
	maxPulls := vk.Pick(c, 1, 2)
	c.Bound("max_pulls", maxPulls)
	progs := programs(maxN, maxPulls)
	if c.Quick() {
		// plus everything with two pulls up to 3 changes
		progs = append(progs, programs(3, 2)...)
	}
	// three creator replicas: the only way to give one change three concurrent children (DAGs already produced by
	// two replicas are skipped by the DAG key)
	wideN, widePulls := vk.Pick(c, 3, 4), vk.Pick(c, 1, 2)
	c.Bound("max_changes_three_replicas", wideN)
	c.Bound("max_pulls_three_replicas", widePulls)
	progs = append(progs, programsN(wideN, widePulls, 3)...)
	c.Bound("programs", len(progs))
	letters := []string{"a", "b", "c", "d"}
	seen := map[string]bool{}
	idx := 0
	forks, snaps := 0, 0
	for _, p := range progs {
		n := 0
		for _, s := range p {
			if s.Op != "pull" {
				n++
			}
		}
		for _, perm := range permutations(n) {
			ids := make([]string, n)
			for i, pi := range perm {
				ids[i] = letters[pi]
			}
			cs, ok := e.runProgram(p, ids)
			if !ok {
				c.Count("programs_not_runnable", 1)
				continue
			}
			k := dagKey(cs)
			if seen[k] {
				continue
			}
			seen[k] = true
			idx++
			if !c.Mine(idx) {
				continue
			}
			if c.TimeUp() {
				c.NotExhaustive("deadline while enumerating DAGs")
				return
			}
			c.Distinct("states", k)
			fork, snap := false, false
			childCount := map[string]int{}
			for _, x := range cs {
				for _, pp := range x.Parents {
					childCount[pp]++
					fork = fork || childCount[pp] > 1
				}
				snap = snap || x.Snap
			}
			if fork {
				forks++
			}
			if snap {
				snaps++
			}
			dc := dagCase{Prog: p, Ids: ids}
			for _, fd := range e.checkDag(c, cs, dc) {
				c.Violation(fd.key, fd.what, dc)
			}
			if idx%97 == 0 {
				c.Sample(map[string]any{"program": progStr(p), "ids": ids, "dag": k})
			}
		}
	}
	// synthetic DAGs with redundant edges (a change naming a parent that is an ancestor of another of its parents):
	// never produced by honest clients, but "all DAGs" are quantified over and peers decide what they send
	synthN := vk.Pick(c, 3, 4)
	c.Bound("max_changes_synthetic_redundant_edges", synthN)
	nSynth := 0
	for n := 2; n <= synthN; n++ {
		for _, ps := range parentSets(n, true) {
			for _, perm := range permutations(n) {
				ids := make([]string, n)
				for i, pi := range perm {
					ids[i] = letters[pi]
				}
				cs := e.synthDag(ps, ids)
				k := "synthetic:" + dagKey(cs)
				if seen[k] {
					continue
				}
				seen[k] = true
				idx++
				if !c.Mine(idx) {
					continue
				}
				if c.TimeUp() {
					c.NotExhaustive("deadline while enumerating synthetic DAGs")
					return
				}
				c.Distinct("states", k)
				nSynth++
				dc := dagCase{Ids: ids, Parents: ps}
				for _, fd := range e.checkDag(c, cs, dc) {
					c.Violation(fd.key, fd.what, dc)
				}
			}
		}
	}
	c.Count("synthetic_dags", int64(nSynth))
	c.Require(forks > 0 && snaps > 0, "vacuity: no DAG with a fork (%d) or no DAG with a snapshot (%d) in this shard", forks, snaps)
}
