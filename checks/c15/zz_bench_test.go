package c15

// Timing helpers used while sizing the search (skipped unless C15_SMOKE is set); not part of the check.

import (
	"fmt"
	"os"
	"testing"
	"time"

	"go.uber.org/zap"

	"github.com/anyproto/any-sync/app/logger"
)

func TestBenchBoot(t *testing.T) {
	if os.Getenv("C15_SMOKE") == "" {
		t.Skip()
	}
	logger.SetDefault(zap.NewNop())
	logger.SetNamedLevels(logger.LevelsFromStr("*=fatal"))
	scratch, _ := os.MkdirTemp(scratchDir(), "c15smoke-")
	defer os.RemoveAll(scratch)
	t0 := time.Now()
	f, err := newFixture(1, scratch)
	if err != nil {
		t.Fatal(err)
	}
	fmt.Println("fixture", time.Since(t0), "order", f.order, "msgs", len(f.msgs), "answers", len(f.answers))
	t0 = time.Now()
	N := 50
	for i := 0; i < N; i++ {
		d, err := newDevice(f, "dev", scratch, tsLocal)
		if err != nil {
			t.Fatal(err)
		}
		if err := d.bootFinish(); err != nil {
			t.Fatal(err)
		}
		d.close()
	}
	fmt.Println("boot+close", time.Since(t0)/time.Duration(N))
}

func TestBenchTemplateSize(t *testing.T) {
	if os.Getenv("C15_SMOKE") == "" {
		t.Skip()
	}
	logger.SetDefault(zap.NewNop())
	scratch, _ := os.MkdirTemp(scratchDir(), "c15smoke-")
	defer os.RemoveAll(scratch)
	f, err := newFixture(1, scratch)
	if err != nil {
		t.Fatal(err)
	}
	for n, b := range f.tmpl {
		fmt.Println(n, len(b))
	}
}

func TestBenchPhases(t *testing.T) {
	if os.Getenv("C15_SMOKE") == "" {
		t.Skip()
	}
	logger.SetDefault(zap.NewNop())
	logger.SetNamedLevels(logger.LevelsFromStr("*=fatal"))
	scratch, _ := os.MkdirTemp(scratchDir(), "c15smoke-")
	defer os.RemoveAll(scratch)
	f, err := newFixture(1, scratch)
	if err != nil {
		t.Fatal(err)
	}
	h := []event{{Op: "create", A: "X"}, {Op: "create", A: "Z"}, {Op: "deliver", A: "a1"}}
	var tReplay, tObs, tProbe, tClosure, tClose time.Duration
	N := 40
	for i := 0; i < N; i++ {
		t0 := time.Now()
		d, err := replayHistory(f, scratch, h)
		if err != nil {
			t.Fatal(err)
		}
		t1 := time.Now()
		o := observe(d)
		t2 := time.Now()
		probes(d, f, o, map[string]bool{})
		t3 := time.Now()
		closure(d, f, o, map[string]bool{})
		t4 := time.Now()
		d.close()
		t5 := time.Now()
		tReplay += t1.Sub(t0)
		tObs += t2.Sub(t1)
		tProbe += t3.Sub(t2)
		tClosure += t4.Sub(t3)
		tClose += t5.Sub(t4)
	}
	n := time.Duration(N)
	fmt.Println("replay", tReplay/n, "observe", tObs/n, "probes", tProbe/n, "closure", tClosure/n, "close", tClose/n)
}

func scratchDir() string {
	if s := os.Getenv("C15_SCRATCH"); s != "" {
		return s
	}
	return "/dev/shm"
}
