package c15

// Observation of a device and the monotonic-tombstone oracle.
//
// Reference model (plain Go): the set T of tombstoned ids of a state is the union of the ObjectDelete ids of every
// change stored in the device's settings tree ("the settings log's delete records applied so far"; a local DeleteObject
// stores such a change too). T is read by decoding the stored raw changes, independently of the state builder.

import (
	"context"
	"errors"
	"fmt"
	"math"
	"sort"
	"strings"

	anystore "github.com/anyproto/any-store"

	"github.com/anyproto/any-sync/commonspace/object/tree/objecttree"
	"github.com/anyproto/any-sync/commonspace/object/tree/treechangeproto"
	"github.com/anyproto/any-sync/commonspace/object/tree/treestorage"
	"github.com/anyproto/any-sync/commonspace/settings"
	"github.com/anyproto/any-sync/commonspace/settings/settingsstate"
	"github.com/anyproto/any-sync/commonspace/spacestorage"
	"github.com/anyproto/any-sync/commonspace/spacesyncproto"
	"github.com/anyproto/any-sync/util/crypto"

	"verif/lib/vk"
)

type objObs struct {
	Entry    bool     `json:"e,omitempty"`  // head storage has an entry
	Status   int      `json:"s,omitempty"`  // DeletedStatus: 0 not deleted, 1 queued, 2 deleted
	Parent   string   `json:"p,omitempty"`  // label of the recorded ParentId
	Heads    []string `json:"h,omitempty"`  // recorded heads (labels, sorted)
	Stored   bool     `json:"st,omitempty"` // SpaceStorage.TreeStorage(id) opens
	InDiff   bool     `json:"d,omitempty"`  // id is in the head index (ldiff.Ids())
	Adv      bool     `json:"a,omitempty"`  // id is returned by DiffManager.HandleRangeRequest over the whole range
	DsExists bool     `json:"x,omitempty"`  // deletion state knows the id
	DsQueued bool     `json:"q,omitempty"`  // ... as queued
	Cached   bool     `json:"c,omitempty"`  // the tree manager holds a live instance
}

type obs struct {
	Obj          map[string]objObs `json:"obj"`
	SetStored    []string          `json:"ss"` // labels of the changes stored in the settings tree (sorted, without root)
	SetHeads     []string          `json:"sh"`
	SetRoot      string            `json:"sr"` // in-memory root of the settings tree
	StateDeleted []string          `json:"sd"` // settings object's incrementally maintained DeletedIds (labels, sorted)
	StateLast    string            `json:"sl"`
	Scratch      []string          `json:"sc"` // DeletedIds built from scratch by the real builder over the history tree
	Ref          []string          `json:"rf"` // reference: ids named by the stored delete records
	Others       []string          `json:"ot,omitempty"`
	Err          string            `json:"err,omitempty"`
}

func (o *obs) tombstoned() map[string]bool {
	t := map[string]bool{}
	for _, l := range o.Ref {
		t[l] = true
	}
	return t
}

func (o *obs) anyStatus() bool {
	for _, ob := range o.Obj {
		if ob.Status > 0 {
			return true
		}
	}
	return false
}

func b2i(b bool) int {
	if b {
		return 1
	}
	return 0
}

func (o *obs) canon() string {
	var sb strings.Builder
	for _, l := range objLabels {
		ob := o.Obj[l]
		fmt.Fprintf(&sb, "%s e%d s%d p=%s h=%v st%d d%d a%d x%d q%d c%d\n", l, b2i(ob.Entry), ob.Status, ob.Parent, ob.Heads,
			b2i(ob.Stored), b2i(ob.InDiff), b2i(ob.Adv), b2i(ob.DsExists), b2i(ob.DsQueued), b2i(ob.Cached))
	}
	fmt.Fprintf(&sb, "S stored=%v heads=%v root=%s state=%v last=%s scratch=%v ref=%v others=%v err=%s", o.SetStored, o.SetHeads, o.SetRoot,
		o.StateDeleted, o.StateLast, o.Scratch, o.Ref, o.Others, o.Err)
	return sb.String()
}

// line is the one-line human form.
func (o *obs) line() string {
	var parts []string
	for _, l := range objLabels {
		ob := o.Obj[l]
		if !ob.Entry && !ob.DsExists && !ob.InDiff {
			parts = append(parts, l+":-")
			continue
		}
		s := fmt.Sprintf("%s:%s", l, [...]string{"live", "QUEUED", "DELETED"}[ob.Status])
		if ob.Stored {
			s += "+stored" + fmt.Sprint(ob.Heads)
		}
		if ob.InDiff {
			s += "+indexed"
		}
		if ob.DsQueued {
			s += "+inqueue"
		} else if ob.DsExists {
			s += "+known"
		}
		if ob.Cached {
			s += "+cached"
		}
		parts = append(parts, s)
	}
	return fmt.Sprintf("%s | settings log=%v root=%s incremental=%v scratch=%v records=%v %s", strings.Join(parts, " "), o.SetStored, o.SetRoot,
		o.StateDeleted, o.Scratch, o.Ref, o.Err)
}

func observe(d *device) (o *obs) {
	o = &obs{Obj: map[string]objObs{}}
	if p, what := vk.Recover(func() { observeInto(d, o) }); p {
		o.Err = "observation panicked: " + vk.PanicSite(what)
	}
	return o
}

func observeInto(d *device, o *obs) {
	f := d.f
	inDiff := map[string]bool{}
	for _, id := range d.diff.Ids() {
		inDiff[id] = true
	}
	adv := map[string]bool{}
	resp, err := d.diffMgr.HandleRangeRequest(ctxBg, &spacesyncproto.HeadSyncRequest{
		SpaceId:  f.spaceId,
		DiffType: spacesyncproto.DiffType_V3,
		Ranges:   []*spacesyncproto.HeadSyncRange{{From: 0, To: math.MaxUint64, Limit: 1000, Elements: true}},
	})
	if err != nil {
		o.Err += "range request: " + err.Error() + "; "
	} else {
		for _, r := range resp.Results {
			for _, el := range r.Elements {
				adv[el.Id] = true
			}
		}
	}
	queued := map[string]bool{}
	for _, id := range d.delState.GetQueued() {
		queued[id] = true
	}
	known := map[string]bool{f.settingsId: true, d.acl.Id(): true}
	for _, l := range objLabels {
		id := f.id[l]
		known[id] = true
		var ob objObs
		e, err := d.space.HeadStorage().GetEntry(ctxBg, id)
		if err == nil {
			ob.Entry = true
			ob.Status = int(e.DeletedStatus)
			if e.ParentId != "" {
				ob.Parent = f.lab(e.ParentId)
			}
			ob.Heads = f.labs(e.Heads)
			sort.Strings(ob.Heads)
		} else if !errors.Is(err, anystore.ErrDocNotFound) {
			o.Err += fmt.Sprintf("head entry %s: %v; ", l, err)
		}
		if _, err := d.space.TreeStorage(ctxBg, id); err == nil {
			ob.Stored = true
		} else if !errors.Is(err, treestorage.ErrUnknownTreeId) {
			o.Err += fmt.Sprintf("tree storage %s: %v; ", l, err)
		}
		ob.InDiff, ob.Adv = inDiff[id], adv[id]
		ob.DsExists, ob.DsQueued = d.delState.Exists(id), queued[id]
		_, ob.Cached = d.tm.cache[id]
		o.Obj[l] = ob
	}
	for id := range inDiff {
		if !known[id] {
			o.Others = append(o.Others, "indexed:"+f.lab(id))
		}
	}
	for id := range queued {
		if !known[id] {
			o.Others = append(o.Others, "queued:"+f.lab(id))
		}
	}
	sort.Strings(o.Others)

	st := d.settingsObj()
	if st == nil || st.Id() == "" {
		o.Err += "no settings object; "
		return
	}
	ref := map[string]struct{}{}
	st.Lock()
	heads, rootId := append([]string{}, st.Heads()...), st.Root().Id
	storage, aclList := st.Storage(), st.AclList()
	type rawCh struct {
		id  string
		raw []byte
	}
	var raws []rawCh
	err = storage.GetAfterOrder(ctxBg, "", func(_ context.Context, ch objecttree.StorageChange) (bool, error) {
		if ch.Id != f.settingsId {
			raws = append(raws, rawCh{ch.Id, append([]byte{}, ch.RawChange...)})
		}
		return true, nil
	})
	st.Unlock()
	if err != nil {
		o.Err += "settings storage scan: " + err.Error() + "; "
	}
	// Changes made by the explored device are labelled by what they are - L{deleted ids}[/snapshot{ids}]<parents> -
	// not by their id: a snapshot change lists the deleted ids in map-iteration order (changeFactory.makeSnapshot), so
	// its bytes and id differ from run to run.
	local := map[string]string{}
	lab := func(id string) string {
		if l, ok := local[id]; ok {
			return l
		}
		return f.lab(id)
	}
	labs := func(ids []string) []string {
		out := make([]string, 0, len(ids))
		for _, id := range ids {
			out = append(out, lab(id))
		}
		sort.Strings(out)
		return out
	}
	for _, rc := range raws { // storage order is a topological order
		ch, err := objecttree.NewChangeBuilder(crypto.NewKeyStorage(), nil).Unmarshall(&treechangeproto.RawTreeChangeWithId{RawChange: rc.raw, Id: rc.id}, false)
		if err != nil {
			o.Err += fmt.Sprintf("decode %s: %v; ", f.lab(rc.id), err)
			continue
		}
		sd := &spacesyncproto.SettingsData{}
		if err := sd.UnmarshalVT(ch.Data); err != nil {
			o.Err += fmt.Sprintf("decode payload %s: %v; ", f.lab(rc.id), err)
			continue
		}
		var dels []string
		for _, cnt := range sd.Content {
			if od := cnt.GetObjectDelete(); od != nil {
				ref[od.GetId()] = struct{}{}
				dels = append(dels, od.GetId())
			}
		}
		if _, known := f.label[rc.id]; !known {
			l := "L" + strings.Join(labs(dels), "")
			if sd.Snapshot != nil {
				l += "/snap" + strings.Join(labs(sd.Snapshot.DeletedIds), "")
			}
			local[rc.id] = l + "<" + strings.Join(labs(ch.PreviousIds), ",") + ">"
		}
		o.SetStored = append(o.SetStored, lab(rc.id))
	}
	sort.Strings(o.SetStored)
	o.SetHeads = labs(heads)
	o.SetRoot = lab(rootId)
	o.Ref = f.labs(sortedKeys(ref))
	sort.Strings(o.Ref)
	if state := settings.VerifState(st); state != nil {
		o.StateDeleted = f.labs(sortedKeys(state.DeletedIds))
		sort.Strings(o.StateDeleted)
		o.StateLast = lab(state.LastIteratedId)
	} else {
		o.Err += "settings object has no state; "
	}
	// from scratch, the way settingsObject.checkHistoryState does it: real builder over the history tree
	hist, err := objecttree.BuildHistoryTree(objecttree.HistoryTreeParams{Storage: storage, AclList: aclList})
	if err != nil {
		o.Err += "history tree: " + err.Error() + "; "
		return
	}
	full, err := settingsstate.NewStateBuilder().Build(hist, nil)
	if err != nil {
		o.Err += "scratch build: " + err.Error() + "; "
		return
	}
	o.Scratch = f.labs(sortedKeys(full.DeletedIds))
	sort.Strings(o.Scratch)
}

// ---- oracle ---------------------------------------------------------------------------------------------

type finding struct{ key, what string }

func setOf(s []string) map[string]bool {
	m := map[string]bool{}
	for _, x := range s {
		m[x] = true
	}
	return m
}

func subset(a, b []string) bool {
	bm := setOf(b)
	for _, x := range a {
		if !bm[x] {
			return false
		}
	}
	return true
}

func sameSet(a, b []string) bool { return subset(a, b) && subset(b, a) }

func isDeletedErr(err error) bool { return errors.Is(err, spacestorage.ErrTreeStorageAlreadyDeleted) }

// stateFindings: what must hold in every state.
func stateFindings(o *obs) (out []finding) {
	add := func(key, format string, a ...any) { out = append(out, finding{key, fmt.Sprintf(format, a...)}) }
	if o.Err != "" {
		add("state-unreadable", "%s", o.Err)
	}
	T := o.tombstoned()
	for _, l := range objLabels {
		ob := o.Obj[l]
		if T[l] && ob.Status < 1 {
			add("tombstone-not-recorded", "%s is named by a stored delete record but its DeletedStatus is 'not deleted'", l)
		}
		if ob.Status >= 1 && (ob.InDiff || ob.Adv) {
			add("deleted-id-advertised", "%s has DeletedStatus %d but is in the head index (ldiff=%v, range request=%v)", l, ob.Status, ob.InDiff, ob.Adv)
		}
		if T[l] && (ob.InDiff || ob.Adv) && ob.Status < 1 {
			add("deleted-id-advertised", "%s is named by a stored delete record but is in the head index", l)
		}
	}
	if !sameSet(o.StateDeleted, o.Scratch) {
		add("settings-incremental-differs-from-scratch", "DeletedIds maintained incrementally %v, built from scratch over the stored settings tree %v", o.StateDeleted, o.Scratch)
	}
	if !sameSet(o.Scratch, o.Ref) {
		add("settings-scratch-differs-from-log", "DeletedIds built from scratch %v, ids named by the stored delete records %v", o.Scratch, o.Ref)
	}
	return
}

// judge: what must hold across one transition, plus the state invariants of the successor; also notes which
// situations of interest occurred (vacuity).
func judge(f *fixture, h []event, pre, post *obs, out outcome, vac map[string]bool) (fs []finding) {
	add := func(key, format string, a ...any) { fs = append(fs, finding{key, fmt.Sprintf(format, a...)}) }
	e := h[len(h)-1]
	T := pre.tombstoned()
	dead := func(l string) bool { return T[l] || pre.Obj[l].Status >= 1 }
	for _, l := range objLabels {
		a, b := pre.Obj[l], post.Obj[l]
		if b.Status < a.Status || (a.Entry && a.Status > 0 && !b.Entry) {
			add("status-decreased", "DeletedStatus of %s went from %d to %d (entry present: %v)", l, a.Status, b.Status, b.Entry)
		}
		if dead(l) && !a.Stored && b.Stored {
			add("resurrected", "%s was deleted (record: %v, status %d) and had no storage; %s created storage for it", l, T[l], a.Status, e)
		}
		if dead(l) && !a.InDiff && b.InDiff {
			add("re-advertised", "%s was deleted (record: %v, status %d) and not in the head index; %s put it back", l, T[l], a.Status, e)
		}
		for _, id := range out.NewFetches {
			if id == f.id[l] && dead(l) {
				add("remote-fetch-for-deleted-id", "%s issued a remote tree request for %s which was deleted (record: %v, status %d)", e, l, T[l], a.Status)
			}
		}
		if a.InDiff && !b.InDiff && b.Status >= 1 {
			vac["id-left-index"] = true
		}
	}
	if !subset(pre.StateDeleted, post.StateDeleted) {
		add("settings-deleted-ids-shrank", "incremental DeletedIds went from %v to %v", pre.StateDeleted, post.StateDeleted)
	}
	if !subset(pre.Ref, post.Ref) {
		add("settings-log-shrank", "ids named by stored delete records went from %v to %v", pre.Ref, post.Ref)
	}
	lateChild := func() {
		if !pre.Obj["Z"].Stored && post.Obj["Z"].Stored && dead("X") {
			if post.Obj["Z"].Status < 1 {
				add("late-child-not-queued", "child Z was created by %s while its parent X was deleted (record: %v, status %d) but Z's DeletedStatus is 'not deleted'", e, T["X"], pre.Obj["X"].Status)
			} else {
				vac["late-child-queued"] = true
			}
		}
	}
	switch e.Op {
	case "create":
		if T[e.A] {
			if !isDeletedErr(out.Err) {
				add("put-not-refused", "PutSyncTree(%s) after its deletion was recorded returned %v, want ErrTreeStorageAlreadyDeleted", e.A, out.Err)
			} else {
				vac["put-refused-as-deleted"] = true
			}
		}
		lateChild()
	case "fetch":
		if T[e.A] && !pre.Obj[e.A].Stored {
			if !isDeletedErr(out.Err) {
				add("fetch-not-refused", "BuildSyncTreeOrGetRemote(%s) after its deletion was recorded (no local storage) returned %v, want ErrTreeStorageAlreadyDeleted", e.A, out.Err)
			} else {
				vac["fetch-refused-as-deleted"] = true
			}
		}
		if !pre.Obj[e.A].Stored && post.Obj[e.A].Stored && len(out.NewFetches) > 0 {
			vac["remote-fetch-created-object"] = true
		}
		lateChild()
	case "hu":
		if !pre.Obj[e.A].Stored && post.Obj[e.A].Stored && len(out.NewFetches) > 0 {
			vac["remote-fetch-created-object"] = true
		}
		if dead(e.A) && pre.Obj[e.A].Stored && !post.Obj[e.A].InDiff && len(post.Obj[e.A].Heads) > len(pre.Obj[e.A].Heads) {
			vac["head-update-for-queued-stored-id"] = true
		}
		if T[e.A] && !pre.Obj[e.A].Stored {
			if out.Requested && !isDeletedErr(out.ApplyErr) {
				add("head-update-not-refused", "head update for deleted %s: the follow-up request was applied with %v, want ErrTreeStorageAlreadyDeleted", e.A, out.ApplyErr)
			} else if !post.Obj[e.A].Stored && !post.Obj[e.A].InDiff && len(out.NewFetches) == 0 {
				vac["head-update-for-deleted-id-ignored"] = true
			}
		}
		lateChild()
	case "deliver":
		ps, qs := setOf(pre.SetStored), setOf(post.SetStored)
		switch e.A {
		case "b1":
			if ps["a1"] && qs["b1"] {
				vac["records-both-orders:a-then-b"] = true
			}
		case "a1", "a12":
			if ps["b1"] && qs["a1"] {
				vac["records-both-orders:b-then-a"] = true
			}
		case "a2":
			if !ps["a1"] {
				vac["unattached-record-delivered-first"] = true
			}
		}
		if !ps["a2"] && qs["a2"] {
			vac["snapshot-record-applied"] = true
		}
	case "delete":
		if e.Snap && out.Err == nil {
			vac["local-snapshot-delete"] = true
		}
	case "crash":
		if out.Err != nil {
			add("restart-failed", "restart after the crash failed: %v", out.Err)
		}
		if out.Requested { // crashed
			for _, l := range objLabels {
				a, b := pre.Obj[l], post.Obj[l]
				if a.Stored && !b.Stored && b.Status == 1 {
					vac["crash-between-storage-deletion-and-status"] = true
				}
				if a.Status == 1 && b.Status == 2 {
					vac["crash-mid-pass"] = true
				}
			}
		}
	case "worker", "workerR":
		progressed := false
		for _, l := range objLabels {
			a, b := pre.Obj[l], post.Obj[l]
			if (a.DsQueued || T[l]) && (b.Status != 2 || b.Stored) {
				add("worker-left-queued", "after a deletion-worker pass %s (queued: %v, record: %v) has DeletedStatus %d, storage present: %v", l, a.DsQueued, T[l], b.Status, b.Stored)
			}
			if a.Entry && a.Parent != "" && pre.Obj[a.Parent].DsQueued {
				if b.Status != 2 || b.Stored {
					add("child-not-deleted-with-parent", "after a deletion-worker pass over parent %s its bound child %s has DeletedStatus %d, storage present: %v", a.Parent, l, b.Status, b.Stored)
				} else if a.Status == 0 {
					vac["child-deleted-with-parent"] = true
				}
			}
			progressed = progressed || (a.Status == 1 && b.Status == 2)
		}
		if progressed && len(h) >= 2 && strings.HasPrefix(h[len(h)-2].Op, "restart") {
			vac["restart-between-record-and-worker"] = true
		}
	case "restart", "restartw":
		if out.Err != nil {
			add("restart-failed", "restart failed: %v", out.Err)
		}
		if e.Op == "restartw" {
			for _, l := range objLabels {
				if pre.Obj[l].Status == 1 && post.Obj[l].Status == 2 {
					vac["early-worker-restart"] = true
				}
			}
		}
	}
	return append(fs, stateFindings(post)...)
}

// probes exercises, in the given state, every create / fetch / head-update path for every tombstoned id; none of them
// may change anything.
func probes(d *device, f *fixture, o *obs, vac map[string]bool) (fs []finding, n int) {
	add := func(key, format string, a ...any) { fs = append(fs, finding{key, fmt.Sprintf(format, a...)}) }
	T := o.tombstoned()
	any := false
	for _, l := range objLabels {
		if !T[l] {
			continue
		}
		any = true
		nf := len(d.net.Fetches)
		err := d.create(l, "local", tsLocal)
		n++
		if !isDeletedErr(err) {
			add("put-not-refused", "probe PutSyncTree(%s) after its deletion was recorded returned %v, want ErrTreeStorageAlreadyDeleted", l, err)
		} else {
			vac["put-refused-as-deleted"] = true
		}
		if !o.Obj[l].Stored {
			_, err = d.objMgr.GetTree(peerCtx(), f.spaceId, f.id[l])
			d.drain()
			n++
			if !isDeletedErr(err) {
				add("fetch-not-refused", "probe BuildSyncTreeOrGetRemote(%s) (no local storage, deletion recorded) returned %v, want ErrTreeStorageAlreadyDeleted", l, err)
			} else {
				vac["fetch-refused-as-deleted"] = true
			}
			_, applyErr, requested := d.incoming(f.msgs["hu:"+l])
			n++
			if requested && !isDeletedErr(applyErr) {
				add("head-update-not-refused", "probe head update for deleted %s: follow-up request applied with %v, want ErrTreeStorageAlreadyDeleted", l, applyErr)
			} else if len(d.net.Fetches) == nf {
				vac["head-update-for-deleted-id-ignored"] = true
			}
		}
		if len(d.net.Fetches) != nf {
			add("remote-fetch-for-deleted-id", "probes for deleted %s issued remote tree requests %v", l, f.labs(d.net.Fetches[nf:]))
		}
	}
	if any {
		after := observe(d)
		if after.canon() != o.canon() {
			add("probe-changed-state", "create / fetch / head-update attempts for deleted ids changed the state:\nbefore: %s\nafter:  %s", o.line(), after.line())
		}
	}
	return
}

// closure: a deletion-worker pass in the given state must leave everything that was queued (and the bound children of
// queued parents) deleted; whatever is tombstoned or queued on disk but unknown to the in-memory queue (a child that
// arrived after its parent's pass) must be deleted after restart + one more pass. Nothing may go backwards on the way.
func closure(d *device, f *fixture, o *obs, vac map[string]bool) (fs []finding, restarted bool) {
	add := func(key, format string, a ...any) { fs = append(fs, finding{key, fmt.Sprintf(format, a...)}) }
	T := o.tombstoned()
	must := map[string]bool{}
	for _, l := range objLabels {
		a := o.Obj[l]
		parentDead := a.Parent != "" && (T[a.Parent] || o.Obj[a.Parent].Status >= 1)
		if T[l] || a.Status >= 1 || (a.Entry && parentDead) {
			must[l] = true
		}
	}
	if len(must) == 0 {
		return
	}
	d.worker(false)
	w := observe(d)
	for _, fd := range judge(f, []event{{Op: "worker"}}, o, w, outcome{}, map[string]bool{}) {
		add("closure:"+fd.key, "%s", fd.what)
	}
	done := func(x *obs) bool {
		for l := range must {
			b := x.Obj[l]
			if b.Status != 2 || b.Stored || b.InDiff || b.Adv {
				return false
			}
		}
		return true
	}
	if done(w) {
		return
	}
	restarted = true
	if err := d.restart(false); err != nil {
		add("restart-failed", "restart failed: %v", err)
		return
	}
	r := observe(d)
	for _, fd := range judge(f, []event{{Op: "restart"}}, w, r, outcome{}, map[string]bool{}) {
		add("closure:across-restart:"+fd.key, "%s", fd.what)
	}
	d.worker(false)
	w2 := observe(d)
	for _, fd := range judge(f, []event{{Op: "worker"}}, r, w2, outcome{}, map[string]bool{}) {
		add("closure:after-restart:"+fd.key, "%s", fd.what)
	}
	for l := range must {
		a, b := o.Obj[l], w2.Obj[l]
		if b.Status != 2 || b.Stored || b.InDiff || b.Adv {
			add("not-deleted-after-restart-and-worker", "%s (record: %v, status %d, parent %q) after a worker pass, a restart and another worker pass: status %d, storage %v, indexed %v", l, T[l], a.Status, a.Parent, b.Status, b.Stored, b.InDiff)
		}
	}
	if done(w2) {
		vac["late-child-deleted-only-after-restart"] = true
	}
	return
}
