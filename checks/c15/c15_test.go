// C15 — deletion is permanent: a deleted object is never resurrected or re-advertised.
//
// Explicit-state breadth-first search over the event histories of ONE device of a space built from the real components
// over a real any-store database file (world_test.go says exactly what is real and what is faked). A state is the
// history that reaches it; every successor is obtained by replaying the history on a fresh copy of the pristine database
// and applying one more event; states are deduplicated on a canonical observation. Every transition and every state is
// judged by the monotonic-tombstone oracle (oracle_test.go); after judging, the same throw-away world is probed (create /
// fetch / head update for every tombstoned id must change nothing) and closed (a deletion-worker pass, if needed
// restart + another pass, must leave everything tombstoned deleted).
package c15

import (
	"encoding/json"
	"fmt"
	"os"
	"sort"
	"strconv"
	"strings"
	"testing"
	"time"

	"go.uber.org/zap"

	"github.com/anyproto/any-sync/app/logger"

	"verif/lib/vk"
)

type event struct {
	Op   string `json:"op"`          // create deliver delete hu fetch worker restart restartw
	A    string `json:"a,omitempty"` // object label (create delete hu fetch) or message name (deliver)
	Snap bool   `json:"snap,omitempty"`
}

func (e event) String() string {
	switch e.Op {
	case "delete":
		if e.Snap {
			return "delete(" + e.A + ",snapshot)"
		}
		return "delete(" + e.A + ")"
	case "worker", "workerR", "restart", "restartw":
		return e.Op
	case "crash":
		if e.Snap {
			return "crash-after-call(" + e.A + ")"
		}
		return "crash-before-call(" + e.A + ")"
	}
	return e.Op + "(" + e.A + ")"
}

func histStr(h []event) string {
	s := make([]string, len(h))
	for i, e := range h {
		s[i] = e.String()
	}
	return strings.Join(s, " ; ")
}

// outcome is what the harness saw while applying one event.
type outcome struct {
	Err        error // create / delete / fetch / restart error; hu: error of HandleHeadUpdate
	ApplyErr   error // hu: error of ApplyRequest for the request HandleHeadUpdate returned
	Requested  bool  // hu: HandleHeadUpdate returned a request
	NewFetches []string
}

func (o outcome) String() string {
	return fmt.Sprintf("err=%v applyErr=%v requested=%v fetches=%v", o.Err, o.ApplyErr, o.Requested, o.NewFetches)
}

func apply(d *device, e event) (out outcome) {
	nf := len(d.net.Fetches)
	switch e.Op {
	case "create":
		out.Err = d.create(e.A, "local", tsLocal)
	case "deliver":
		out.Err, out.ApplyErr, out.Requested = d.incoming(d.f.msgs[e.A])
	case "delete":
		out.Err = d.localDelete(e.A, e.Snap)
	case "hu":
		out.Err, out.ApplyErr, out.Requested = d.incoming(d.f.msgs["hu:"+e.A])
	case "fetch":
		// what the tree syncer does for an id the remote index has and the local one lacks
		_, out.Err = d.objMgr.GetTree(peerCtx(), d.f.spaceId, d.f.id[e.A])
		d.drain()
	case "worker":
		d.worker(false)
	case "workerR":
		d.worker(true)
	case "crash":
		// Snap doubles as "after the call"
		k := int(e.A[0] - '0')
		out.Requested, out.Err = d.workerCrash(k, e.Snap)
	case "restart":
		out.Err = d.restart(false)
	case "restartw":
		out.Err = d.restart(true)
	default:
		panic("unknown event " + e.Op)
	}
	out.NewFetches = append(out.NewFetches, d.net.Fetches[nf:]...)
	return
}

type config struct {
	MaxDepth int
	EarlyW   bool // include restartw (restart with the delete loop's initial pass before the settings object is built)
	HuY      bool // include incoming head updates for Y (symmetric to X; X and Z are always included)
	Crash    bool // include worker passes over the queue in reverse order and passes cut short by a crash (+ restart)
}

// enabled lists the events worth trying in a state. Left out: events that provably change nothing (re-delivering stored
// records, deleting what the settings state already lists, a worker pass over an empty queue, restart after restart) and
// the create / fetch / head-update attempts for TOMBSTONED ids without storage - those are run as probes in every
// distinct state instead (probes()), where they must change nothing.
func enabled(f *fixture, cfg config, o *obs, h []event) (out []event) {
	T := o.tombstoned()
	for _, l := range objLabels {
		ob := o.Obj[l]
		if !ob.Stored && !T[l] {
			out = append(out, event{Op: "create", A: l})
		}
	}
	stored := map[string]bool{}
	for _, s := range o.SetStored {
		stored[s] = true
	}
	for _, m := range []string{"a1", "a2", "a12", "b1"} {
		all := true
		for _, id := range f.recIds[m] {
			all = all && stored[f.lab(id)]
		}
		if !all {
			out = append(out, event{Op: "deliver", A: m})
		}
	}
	inState := map[string]bool{}
	for _, l := range o.StateDeleted {
		inState[l] = true
	}
	for _, l := range []string{"X", "Y"} {
		if o.Obj[l].Entry && !inState[l] {
			out = append(out, event{Op: "delete", A: l}, event{Op: "delete", A: l, Snap: true})
		}
	}
	for _, l := range objLabels {
		ob := o.Obj[l]
		hasRemote := false
		for _, hd := range ob.Heads {
			hasRemote = hasRemote || hd == "r"+l
		}
		if l == "Y" && !cfg.HuY {
			continue
		}
		if (ob.Stored && !hasRemote) || (!ob.Stored && !T[l]) {
			out = append(out, event{Op: "hu", A: l})
		}
	}
	anyQueuedMem, anyQueuedDisk := false, false
	for _, l := range objLabels {
		anyQueuedMem = anyQueuedMem || o.Obj[l].DsQueued
		anyQueuedDisk = anyQueuedDisk || o.Obj[l].Status == 1
	}
	if anyQueuedMem {
		out = append(out, event{Op: "worker"})
		if cfg.Crash {
			nq := 0
			for _, l := range objLabels {
				nq += b2i(o.Obj[l].DsQueued)
			}
			if nq >= 2 {
				out = append(out, event{Op: "workerR"})
			}
			// call 1 = first queued id; a second call exists if two ids are queued or the first has a bound child
			out = append(out, event{Op: "crash", A: "1", Snap: true})
			if nq >= 2 || (o.Obj["X"].DsQueued && o.Obj["Z"].Entry) {
				out = append(out, event{Op: "crash", A: "2"}, event{Op: "crash", A: "2", Snap: true})
			}
		}
	}
	if len(h) == 0 || !strings.HasPrefix(h[len(h)-1].Op, "restart") {
		out = append(out, event{Op: "restart"})
		if cfg.EarlyW && anyQueuedDisk {
			out = append(out, event{Op: "restartw"})
		}
	}
	return
}

func TestCheck(t *testing.T) {
	logger.SetDefault(zap.NewNop())
	logger.SetNamedLevels(logger.LevelsFromStr("*=fatal"))
	vk.Main(t, vk.Spec{
		Prop:  "C15",
		Level: "model_checking",
		Rule: "explicit-state BFS (replay + 1 event on a pristine any-store database, 16 processes, level barriers) over histories of one device built from the real spacestorage / headstorage / deletionstate / deletionmanager+deleter / settings object+state builder+change factory / objectmanager / objecttreebuilder+synctree (PutSyncTree, BuildSyncTreeOrGetRemote, SyncClient) / objectsync (HandleHeadUpdate, ApplyRequest) / DiffManager+ldiff: " +
			"create X, Y or the bound child Z (PutSyncTree + one change); settings delete records of two remote devices delivered as head updates in any order (a1 plain {X}; a2 snapshot {Y} on top of a1, alone = unattached; a1+a2 batched; b1 plain {X,Z} concurrent, iterated before a1/a2); local DeleteObject(X|Y) as plain or snapshot change; incoming head update for X/Y/Z (unknown id: request -> remote fetch; known id: changes applied); one deletion-worker pass; restart (close and reopen the database file, rebuild every component); thorough adds: restart with the worker pass before the settings object is built, head updates for Y, worker pass over the queue in reverse order, worker pass cut by a crash before/after the 1st/2nd tree-manager call followed by restart; " +
			"in every distinct state: PutSyncTree / BuildSyncTreeOrGetRemote(with peer) / head update for every tombstoned id as non-mutating probes, then a closure (worker pass; if something tombstoned is still not deleted: restart + worker pass); " +
			"states = distinct canonical observations (per object: head entry, DeletedStatus, parent, heads, storage present, in ldiff, advertised by a range request, known to / queued in the deletion state, cached instance; settings: stored changes (local ones by content), heads, in-memory root, incremental DeletedIds, last iterated id, from-scratch DeletedIds, ids named by stored records); " +
			"distinct_nontrivial = distinct states in which at least one id is tombstoned (named by a stored delete record or DeletedStatus >= queued)",
		Assumptions: []string{
			"one account on three devices (the explored one and two remote authors whose traffic is produced by running the same real components), derived space, unencrypted content, ACL without delete restriction",
			"faked: the client application's TreeManager (cache map; DeleteTree = GetTree + tree.Delete() + uncache; MarkTreeDeleted = no-op - what commonspace's own test tree manager does), the SyncService below the real SyncClient (records broadcasts, queued requests and remote fetches; answers a fetch with the response stream a remote device really produced), peer manager, pool, key-value service, node configuration, account service; the settings component shell is mirrored around the real settings object; local settings changes get a fixed timestamp",
			"head-storage observer calls are queued and handed to DiffManager.UpdateHeads in FIFO order at the end of every event (the real consumer is one goroutine draining a FIFO; head storage calls observers inside its write transaction, so a synchronous call would deadlock); GetQueued() is sorted (both orders explored in thorough) because the real one iterates a map; a worker pass is atomic except for the crash events",
			"the database file is opened once per process and restored to the pristine content through the open handle before every replay (delete every document, insert the template's documents); restart events really close and reopen the file",
			"interpretation (DESIGN.md): 'fetching fails as already deleted' is about the REMOTE fetch of a tree whose local storage is gone; opening a still-stored tree whose status is queued keeps working and is not flagged; a bound child that arrives after its parent's worker pass is queued on disk at creation and deleted by the first worker pass after the next restart (the in-memory queue does not learn about it) - the property asks for 'queued', so this is recorded, not flagged",
		},
		Shards:   func(string) int { return 16 },
		MaxProcs: 2,
		Budget: func(tier string) time.Duration {
			if tier == "quick" {
				return 85 * time.Second
			}
			return 24 * time.Minute
		},
	}, body)
}

func body(c *vk.Ctx) {
	f, err := newFixture(c.Seed, c.Scratch)
	if err != nil {
		c.Broken("fixture: %v", err)
		return
	}
	if c.Replay != "" {
		replay(c, f)
		return
	}
	cfg := vk.Pick(c, config{MaxDepth: 4}, config{MaxDepth: 6, EarlyW: true, HuY: true, Crash: true})
	if v, err := strconv.Atoi(os.Getenv("C15_DEPTH")); err == nil && v > 0 {
		cfg.MaxDepth = v // experimentation only
	}
	c.Bound("max_depth", cfg.MaxDepth)
	c.Bound("alphabet", fmt.Sprintf("%+v", cfg))
	c.Bound("objects", "X, Y ordinary; Z derived child of X")
	c.Bound("settings_records", fmt.Sprintf("a1{X} plain, a2{Y} snapshot on a1, b1{X,Z} plain concurrent; iteration order %v; local deletes plain/snapshot", f.order))
	search(c, f, cfg)
}

type node struct {
	Hist []event `json:"h"`
	Obs  *obs    `json:"o"`
}

// vacuity flags, merged over all shards at the end
var vacNames = []string{
	"late-child-queued", "restart-between-record-and-worker", "head-update-for-deleted-id-ignored", "records-both-orders:a-then-b",
	"records-both-orders:b-then-a", "snapshot-record-applied", "local-snapshot-delete", "put-refused-as-deleted", "fetch-refused-as-deleted",
	"child-deleted-with-parent", "id-left-index", "unattached-record-delivered-first", "remote-fetch-created-object", "early-worker-restart",
}

func search(c *vk.Ctx, f *fixture, cfg config) {
	seen := map[uint64]bool{}
	vac := map[string]bool{}
	var frontier []node
	// the initial state
	{
		d, err := newDevice(f, "dev", c.Scratch, tsLocal)
		if err == nil {
			err = d.bootFinish()
		}
		if err != nil {
			c.Broken("initial world: %v", err)
			return
		}
		o := observe(d)
		d.close()
		key := vk.HashStr(o.canon())
		seen[key] = true
		if c.Owns(key) {
			c.DistinctH("states", key)
			frontier = append(frontier, node{Obs: o})
		}
	}
	exhaustive := true
	for depth := 0; depth < cfg.MaxDepth; depth++ {
		var found []vk.Item
		expanded := 0
		for _, n := range frontier {
			if c.TimeUp() {
				break
			}
			found = append(found, expand(c, f, cfg, n, seen, vac)...)
			expanded++
		}
		timeUp := expanded < len(frontier)
		all, stop, ok := c.ExchangeOwned(fmt.Sprintf("L%d", depth), found, timeUp)
		if !ok {
			return
		}
		if stop {
			c.NotExhaustive(fmt.Sprintf("deadline while expanding depth %d", depth))
			exhaustive = false
			break
		}
		frontier = frontier[:0]
		total := 0
		for _, it := range all {
			if seen[it.Key] {
				continue
			}
			seen[it.Key] = true
			total++
			if c.Owns(it.Key) {
				var n node
				if err := json.Unmarshal(it.Data, &n); err != nil {
					c.Broken("exchange decode: %v", err)
					return
				}
				frontier = append(frontier, n)
			}
		}
		if c.Shard == 0 {
			c.Bound(fmt.Sprintf("new_states_at_depth_%d", depth+1), total)
		}
		if total == 0 {
			if c.Shard == 0 {
				c.Bound("closed", true)
			}
			break
		}
		if depth+1 == cfg.MaxDepth && c.Shard == 0 {
			c.Note("depth bound %d reached with %d unexpanded states; every history up to the bound was enumerated", cfg.MaxDepth, total)
		}
	}
	// vacuity guards over the union of all shards
	var items []vk.Item
	for name := range vac {
		items = append(items, vk.Item{Key: vk.HashStr(name), Data: []byte(name)})
	}
	if c.NViolations() > 0 {
		items = append(items, vk.Item{Key: vk.HashStr("!violations"), Data: []byte("!violations")})
	}
	all, _, ok := c.Exchange("vacuity", items, false)
	if !ok {
		return
	}
	got := map[string]bool{}
	for _, it := range all {
		got[string(it.Data)] = true
	}
	// a run that found violations is decided; a broken mechanism may well make a situation unreachable
	if c.Shard == 0 && exhaustive && !got["!violations"] {
		var missing []string
		for _, name := range vacNames {
			if name == "early-worker-restart" && !cfg.EarlyW {
				continue
			}
			if strings.HasPrefix(name, "crash") && !cfg.Crash {
				continue
			}
			if !got[name] {
				missing = append(missing, name)
			}
		}
		sort.Strings(missing)
		c.Require(len(missing) == 0, "situations the search never produced: %v", missing)
		c.Bound("situations_exercised", len(got))
	}
}

// expand builds every successor of n by replay + 1 event (the replayed world is kept for the next event when an event
// left the canonical state unchanged); successors whose canonical state is new are judged, probed, closed
// (deletion-worker pass, if needed restart + worker pass) and returned.
func expand(c *vk.Ctx, f *fixture, cfg config, n node, seen map[uint64]bool, vac map[string]bool) (found []vk.Item) {
	local := map[uint64]bool{}
	var d *device // a world in state n, or nil
	defer func() {
		if d != nil {
			d.close()
		}
	}()
	nCanon := n.Obs.canon()
	for _, e := range enabled(f, cfg, n.Obs, n.Hist) {
		h := append(append([]event{}, n.Hist...), e)
		rep := map[string]any{"history": h}
		var post *obs
		var out outcome
		var finds []finding
		panicked, what := vk.Recover(func() {
			if d == nil {
				var err error
				d, err = replayHistory(f, c.Scratch, n.Hist)
				c.Count("executions", 1)
				if err != nil {
					panic(fmt.Sprintf("replay of [%s] failed: %v", histStr(n.Hist), err))
				}
				if pc := observe(d).canon(); pc != nCanon {
					c.Violation("replay-not-deterministic", fmt.Sprintf("[%s]: replaying the history gave a different state than when it was discovered\nthen:\n%s\nnow:\n%s", histStr(n.Hist), nCanon, pc), map[string]any{"history": n.Hist})
				}
			}
			out = apply(d, e)
			post = observe(d)
			finds = judge(f, h, n.Obs, post, out, vac)
		})
		c.Count("transitions", 1)
		c.Count("transitions_"+e.Op, 1)
		if panicked {
			c.Violation("panic:"+vk.PanicSite(what), fmt.Sprintf("[%s]: %s", histStr(h), what), rep)
			if d != nil {
				d.discard()
				d = nil
			}
			continue
		}
		for _, fd := range finds {
			c.Violation(fd.key, fmt.Sprintf("after [%s] (%s): %s\nbefore: %s\nafter:  %s", histStr(h), out, fd.what, n.Obs.line(), post.line()), rep)
		}
		pc := post.canon()
		if pc == nCanon {
			c.Count("self_loops", 1)
			continue // nothing observable changed: the world still stands for state n
		}
		key := vk.HashStr(pc)
		if seen[key] || local[key] {
			d.close()
			d = nil
			continue
		}
		local[key] = true
		c.DistinctH("states", key)
		if len(post.tombstoned()) > 0 || post.anyStatus() {
			c.DistinctH("distinct", key)
		}
		if len(h) == 3 && (e.Op == "worker" || e.Op == "hu") {
			c.Sample(map[string]any{"history": histStr(h), "outcome": out.String(), "state": post.line()})
		}
		// probes and closure on the same throw-away world
		var pf []finding
		panicked, what = vk.Recover(func() {
			np := 0
			pf, np = probes(d, f, post, vac)
			c.Count("evaluations", int64(np))
			cf, restarted := closure(d, f, post, vac)
			c.Count("evaluations", 1)
			if restarted {
				c.Count("closures_with_restart", 1)
			}
			pf = append(pf, cf...)
		})
		for _, fd := range pf {
			c.Violation(fd.key, fmt.Sprintf("in the state after [%s]: %s\nstate: %s", histStr(h), fd.what, post.line()), rep)
		}
		if panicked {
			c.Violation("panic-in-probe:"+vk.PanicSite(what), fmt.Sprintf("[%s]: %s", histStr(h), what), rep)
			d.discard()
		} else {
			d.close()
		}
		d = nil
		nb, _ := json.Marshal(node{Hist: h, Obs: post})
		found = append(found, vk.Item{Key: key, Data: nb})
	}
	return
}

func replayHistory(f *fixture, scratch string, h []event) (*device, error) {
	d, err := newDevice(f, "dev", scratch, tsLocal)
	if err != nil {
		return nil, err
	}
	if err = d.bootFinish(); err != nil {
		d.close()
		return nil, err
	}
	for _, e := range h {
		out := apply(d, e)
		if strings.HasPrefix(e.Op, "restart") && out.Err != nil {
			d.close()
			return nil, fmt.Errorf("%s: %w", e, out.Err)
		}
	}
	return d, nil
}

func replay(c *vk.Ctx, f *fixture) {
	var rf struct {
		Case struct {
			History []event `json:"history"`
		} `json:"case"`
	}
	if err := vk.ReadJSON(c.Replay, &rf); err != nil {
		c.Broken("replay file: %v", err)
		return
	}
	d, err := newDevice(f, "dev", c.Scratch, tsLocal)
	if err == nil {
		err = d.bootFinish()
	}
	if err != nil {
		c.Broken("world: %v", err)
		return
	}
	defer d.close()
	vac := map[string]bool{}
	pre := observe(d)
	fmt.Println("   start:", pre.line())
	for i, e := range rf.Case.History {
		out := apply(d, e)
		post := observe(d)
		c.Count("transitions", 1)
		c.DistinctH("states", vk.HashStr(post.canon()))
		fmt.Printf("   %s -> %s\n      %s\n", e, out, post.line())
		for _, fd := range judge(f, rf.Case.History[:i+1], pre, post, out, vac) {
			c.Violation("replayed:"+fd.key, fd.what, rf.Case)
		}
		pre = post
	}
	c.Count("executions", 1)
	pf, np := probes(d, f, pre, vac)
	c.Count("evaluations", int64(np)+1)
	cf, _ := closure(d, f, pre, vac)
	pf = append(pf, cf...)
	for _, fd := range pf {
		c.Violation("replayed:"+fd.key, fd.what, rf.Case)
	}
	fmt.Println("   after closure (worker pass [; restart ; worker pass]):", observe(d).line())
}
