package c15

// One "device" of a space, assembled from the real components the way commonspace's space app assembles them
// (same Init order, same Run order), over a real any-store database file:
//
//	real:  any-store DB, spacestorage.New, headstorage, statestorage, acl list, deletionstate (New/Init/Run),
//	       deletionmanager (New/Init; the deleter it builds is run on demand through a shim instead of by the timer loop),
//	       settings.NewSettingsObject (Init / DeleteObject / Update / Rebuild, real state builder and change factory),
//	       objectmanager.New, objecttreebuilder.New (BuildTree / PutTree -> synctree.BuildSyncTreeOrGetRemote / PutSyncTree,
//	       real SyncClient from synctree.NewSyncClient), objectsync.New (HandleHeadUpdate / ApplyRequest / HandleStreamRequest),
//	       headsync.NewDiffManager over a real ldiff (FillDiff / UpdateHeads / HandleRangeRequest).
//	faked: the TreeManager of the client application (cache = map; GetTree -> treeBuilder.BuildTree, DeleteTree -> GetTree +
//	       tree.Delete() + drop from cache, MarkTreeDeleted -> recorded no-op; that is what commonspace's own
//	       testTreeManager does), the SyncService below the SyncClient (records broadcasts / queued requests / remote
//	       fetches and answers a fetch from the canned answer of a remote device), peer manager, pool, key-value service,
//	       node configuration, account service (return the fixture keys), sync status (the repo's no-op one).
//	wiring replaced: head-storage observer -> DiffManager.UpdateHeads is called synchronously (the real diffSyncer feeds
//	       the same calls through a FIFO queue drained by one goroutine); the settings component shell (settings.go, 40
//	       lines of dependency lookup) is mirrored by settingsComp; local settings changes get a fixed timestamp through a
//	       wrapper around the tree handed to the settings object (otherwise change ids depend on the wall clock).

import (
	"context"
	"errors"
	"fmt"
	"os"
	"path/filepath"
	"sort"
	"sync/atomic"

	anystore "github.com/anyproto/any-store"
	"github.com/anyproto/any-store/anyenc"
	"google.golang.org/protobuf/proto"
	"storj.io/drpc"

	"github.com/anyproto/any-sync/accountservice"
	"github.com/anyproto/any-sync/app"
	"github.com/anyproto/any-sync/app/ldiff"
	"github.com/anyproto/any-sync/app/logger"
	"github.com/anyproto/any-sync/commonspace/deletionmanager"
	"github.com/anyproto/any-sync/commonspace/deletionstate"
	"github.com/anyproto/any-sync/commonspace/headsync"
	"github.com/anyproto/any-sync/commonspace/headsync/headstorage"
	"github.com/anyproto/any-sync/commonspace/object/accountdata"
	"github.com/anyproto/any-sync/commonspace/object/acl/list"
	"github.com/anyproto/any-sync/commonspace/object/acl/recordverifier"
	"github.com/anyproto/any-sync/commonspace/object/acl/syncacl"
	"github.com/anyproto/any-sync/commonspace/object/acl/syncacl/headupdater"
	"github.com/anyproto/any-sync/commonspace/object/keyvalue/kvinterfaces"
	"github.com/anyproto/any-sync/commonspace/object/tree/objecttree"
	"github.com/anyproto/any-sync/commonspace/object/tree/synctree"
	"github.com/anyproto/any-sync/commonspace/object/tree/synctree/updatelistener"
	"github.com/anyproto/any-sync/commonspace/object/tree/treestorage"
	"github.com/anyproto/any-sync/commonspace/object/treemanager"
	"github.com/anyproto/any-sync/commonspace/objectmanager"
	"github.com/anyproto/any-sync/commonspace/objecttreebuilder"
	"github.com/anyproto/any-sync/commonspace/peermanager"
	"github.com/anyproto/any-sync/commonspace/settings"
	"github.com/anyproto/any-sync/commonspace/spacestate"
	"github.com/anyproto/any-sync/commonspace/spacestorage"
	"github.com/anyproto/any-sync/commonspace/spacesyncproto"
	csync "github.com/anyproto/any-sync/commonspace/sync"
	"github.com/anyproto/any-sync/commonspace/sync/objectsync"
	"github.com/anyproto/any-sync/commonspace/sync/objectsync/objectmessages"
	"github.com/anyproto/any-sync/commonspace/sync/syncdeps"
	"github.com/anyproto/any-sync/commonspace/syncstatus"
	"github.com/anyproto/any-sync/net/peer"
	"github.com/anyproto/any-sync/net/pool"
	"github.com/anyproto/any-sync/nodeconf"
	"github.com/anyproto/any-sync/protobuf"
)

var ctxBg = context.Background()

func storeCfg() *anystore.Config {
	return &anystore.Config{
		ReadConnections:                           1,
		SQLiteConnectionOptions:                   map[string]string{"synchronous": "off"},
		SQLiteGlobalPageCachePreallocateSizeBytes: pageCachePrealloc(),
	}
}

// ---- fakes ----------------------------------------------------------------------------------------------

type comp struct{ name string }

func (c comp) Init(*app.App) error { return nil }
func (c comp) Name() string        { return c.name }

type fakeAccount struct {
	comp
	keys *accountdata.AccountKeys
}

func (f *fakeAccount) Account() *accountdata.AccountKeys { return f.keys }

type fakeNodeConf struct {
	comp
	nodeconf.NodeConf
}

type fakePool struct {
	comp
	pool.Pool
}

func (fakePool) Run(context.Context) error   { return nil }
func (fakePool) Close(context.Context) error { return nil }

type fakeKV struct {
	comp
	kvinterfaces.KeyValueService
}

func (f fakeKV) Init(a *app.App) error { return nil }
func (f fakeKV) Name() string          { return f.comp.name }

type fakePeer struct {
	peer.Peer
	id string
}

func (p fakePeer) Id() string { return p.id }

type fakePeerManager struct{ comp }

func (fakePeerManager) GetResponsiblePeers(context.Context) ([]peer.Peer, error) {
	return []peer.Peer{fakePeer{id: remotePeer}}, nil
}
func (fakePeerManager) GetNodePeers(context.Context) ([]peer.Peer, error)       { return nil, nil }
func (fakePeerManager) BroadcastMessage(context.Context, drpc.Message) error    { return nil }
func (fakePeerManager) SendMessage(context.Context, string, drpc.Message) error { return nil }
func (fakePeerManager) KeepAlive(context.Context)                               {}

var _ peermanager.PeerManager = fakePeerManager{}

// fakeSyncAcl is the real ACL list behind the SyncAcl component interface (nothing in this world syncs the ACL).
type fakeSyncAcl struct {
	list.AclList
}

func (f *fakeSyncAcl) Init(*app.App) error         { return nil }
func (f *fakeSyncAcl) Name() string                { return syncacl.CName }
func (f *fakeSyncAcl) Run(context.Context) error   { return nil }
func (f *fakeSyncAcl) Close(context.Context) error { return nil }
func (f *fakeSyncAcl) HandleHeadUpdate(context.Context, syncstatus.StatusUpdater, drpc.Message) (syncdeps.Request, error) {
	return nil, errors.New("c15: acl sync not modelled")
}
func (f *fakeSyncAcl) HandleStreamRequest(context.Context, syncdeps.Request, syncdeps.QueueSizeUpdater, func(resp proto.Message) error) (syncdeps.Request, error) {
	return nil, errors.New("c15: acl sync not modelled")
}
func (f *fakeSyncAcl) HandleResponse(context.Context, string, string, syncdeps.Response) error {
	return errors.New("c15: acl sync not modelled")
}
func (f *fakeSyncAcl) ResponseCollector() syncdeps.ResponseCollector { return nil }
func (f *fakeSyncAcl) SyncWithPeer(context.Context, peer.Peer) error { return nil }
func (f *fakeSyncAcl) SetAclUpdater(headupdater.AclUpdater)          {}

var _ syncacl.SyncAcl = (*fakeSyncAcl)(nil)

// netLog is what the device handed to its (fake) sync service.
type netLog struct {
	Fetches    []string // object ids for which a new-tree request was SENT to a remote peer (SendTreeRequest)
	Queued     []string // object ids of queued (asynchronous) requests
	Broadcasts [][]byte // wire form of every broadcast head update, in order
	BcastIds   []string
	Applied    []string // object ids of full-sync requests sent for an existing object through ApplyRequest
}

type fakeSyncService struct {
	comp
	d *device
}

func (s *fakeSyncService) BroadcastMessage(ctx context.Context, msg drpc.Message) error {
	return s.d.recordBroadcast(msg)
}
func (s *fakeSyncService) HandleStreamRequest(context.Context, syncdeps.Request, drpc.Stream) error {
	return errors.New("c15: not modelled")
}
func (s *fakeSyncService) HandleMessage(context.Context, drpc.Message) error {
	return errors.New("c15: not modelled")
}
func (s *fakeSyncService) QueueRequest(ctx context.Context, rq syncdeps.Request) error {
	s.d.net.Queued = append(s.d.net.Queued, rq.ObjectId())
	return nil
}
func (s *fakeSyncService) CloseReceiveQueue(string) error { return nil }

// SendRequest is what synctree's remote getter ends in (SyncClient.SendTreeRequest): a remote fetch of a whole tree.
func (s *fakeSyncService) SendRequest(ctx context.Context, rq syncdeps.Request, collector syncdeps.ResponseCollector) error {
	s.d.net.Fetches = append(s.d.net.Fetches, rq.ObjectId())
	return s.d.answer(ctx, rq, collector)
}

var _ csync.SyncService = (*fakeSyncService)(nil)

// applySender is the RequestSender objectsync.ApplyRequest uses for an object that exists locally (peer stays silent).
type applySender struct{ d *device }

func (a applySender) SendRequest(ctx context.Context, rq syncdeps.Request, collector syncdeps.ResponseCollector) error {
	a.d.net.Applied = append(a.d.net.Applied, rq.ObjectId())
	return nil
}

// orderedDelState is the real deletion state with one difference: GetQueued() returns the ids sorted (ascending, or
// descending when rev is set) instead of in map-iteration order, so that a deletion-worker pass - and above all a pass
// that is cut short by a crash - is replayable. Both orders are explored.
type orderedDelState struct {
	deletionstate.ObjectDeletionState
	rev bool
}

func (o *orderedDelState) GetQueued() []string {
	ids := o.ObjectDeletionState.GetQueued()
	sort.Strings(ids)
	if o.rev {
		for i, j := 0, len(ids)-1; i < j; i, j = i+1, j-1 {
			ids[i], ids[j] = ids[j], ids[i]
		}
	}
	return ids
}

// crashSignal is panicked by the tree manager to cut a deletion-worker pass short (the process "dies" there).
type crashSignal struct{}

// treeManager stands for the client application's tree manager.
type treeManager struct {
	d      *device
	cache  map[string]objecttree.ObjectTree
	Marked []string
	// crash injection for the deletion worker: die before / after the crashAt-th DeleteTree / MarkTreeDeleted call
	calls      int
	crashAt    int
	crashAfter bool
}

func (t *treeManager) boundary(after bool) {
	if !after {
		t.calls++
	}
	if t.crashAt > 0 && t.calls == t.crashAt && t.crashAfter == after {
		panic(crashSignal{})
	}
}

func (t *treeManager) Init(*app.App) error         { return nil }
func (t *treeManager) Name() string                { return treemanager.CName }
func (t *treeManager) Run(context.Context) error   { return nil }
func (t *treeManager) Close(context.Context) error { return nil }

func (t *treeManager) GetTree(ctx context.Context, spaceId, treeId string) (objecttree.ObjectTree, error) {
	if tr, ok := t.cache[treeId]; ok {
		return tr, nil
	}
	tr, err := t.d.builder.BuildTree(ctx, treeId, objecttreebuilder.BuildTreeOpts{})
	if err != nil {
		return nil, err
	}
	t.cache[treeId] = tr
	return tr, nil
}

func (t *treeManager) ValidateAndPutTree(context.Context, string, treestorage.TreeStorageCreatePayload) error {
	return errors.New("c15: not modelled")
}

func (t *treeManager) MarkTreeDeleted(ctx context.Context, spaceId, treeId string) error {
	t.boundary(false)
	t.Marked = append(t.Marked, treeId)
	t.boundary(true)
	return nil
}

func (t *treeManager) DeleteTree(ctx context.Context, spaceId, treeId string) error {
	t.boundary(false)
	tr, err := t.GetTree(ctx, spaceId, treeId)
	if err != nil {
		return err
	}
	err = tr.Delete()
	delete(t.cache, treeId)
	t.boundary(true)
	return err
}

// put mirrors what a client does to create an object: treeBuilder.PutTree, keep the instance.
func (t *treeManager) put(ctx context.Context, payload treestorage.TreeStorageCreatePayload) (objecttree.ObjectTree, error) {
	tr, err := t.d.builder.PutTree(ctx, payload, nil)
	if err != nil {
		return nil, err
	}
	t.cache[payload.RootRawChange.Id] = tr
	return tr, nil
}

// fixedClockTree is the settings tree as handed to the settings object: identical, but local changes carry a fixed
// timestamp so that their ids are a function of content and position only.
type fixedClockTree struct {
	synctree.SyncTree
	ts int64
}

func (f *fixedClockTree) AddContent(ctx context.Context, content objecttree.SignableChangeContent) (objecttree.AddResult, error) {
	if content.Timestamp == 0 {
		content.Timestamp = f.ts
	}
	return f.SyncTree.AddContent(ctx, content)
}

// settingsComp mirrors commonspace/settings.settings (the component shell around the settings object).
type settingsComp struct {
	d   *device
	obj settings.SettingsObject
}

func (s *settingsComp) Init(a *app.App) error {
	d := s.d
	deps := settings.Deps{
		BuildFunc: func(ctx context.Context, id string, listener updatelistener.UpdateListener) (synctree.SyncTree, error) {
			res, err := d.builder.BuildTree(ctx, id, objecttreebuilder.BuildTreeOpts{
				Listener:    listener,
				TreeBuilder: settings.VerifTreeBuilder(d.space),
			})
			if err != nil {
				return nil, err
			}
			return &fixedClockTree{SyncTree: res.(synctree.SyncTree), ts: d.settingsTs}, nil
		},
		Account:       a.MustComponent(accountservice.CName).(accountservice.Service),
		Store:         d.space,
		Configuration: a.MustComponent(nodeconf.CName).(nodeconf.NodeConf),
		DelManager:    a.MustComponent(deletionmanager.CName).(deletionmanager.DeletionManager),
	}
	s.obj = settings.NewSettingsObject(deps, d.f.spaceId)
	return nil
}
func (s *settingsComp) Name() string                  { return settings.CName }
func (s *settingsComp) Run(ctx context.Context) error { return s.obj.Init(ctx) }
func (s *settingsComp) Close(context.Context) error   { return s.obj.Close() }
func (s *settingsComp) DeleteTree(ctx context.Context, id string) error {
	return s.obj.DeleteObject(ctx, id)
}
func (s *settingsComp) SettingsObject() settings.SettingsObject { return s.obj }

// headObserver stands for diffSyncer.OnUpdate -> headUpdater (FIFO queue) -> DiffManager.UpdateHeads: head storage calls
// observers inside its write transaction and UpdateHeads writes the space hash, so the calls have to be deferred; the
// harness drains the queue in order at the end of every event (the real consumer goroutine drains it as soon as it can).
type headObserver struct{ d *device }

func (h headObserver) OnUpdate(e headstorage.HeadsEntry) { h.d.pending = append(h.d.pending, e) }

func (d *device) drain() {
	for len(d.pending) > 0 {
		e := d.pending[0]
		d.pending = d.pending[1:]
		d.diffMgr.UpdateHeads(e)
	}
}

// ---- device ---------------------------------------------------------------------------------------------

const remotePeer = "remote-peer"

type device struct {
	f          *fixture
	name       string
	dir        string
	slot       *dbSlot
	db         anystore.DB
	settingsTs int64
	answers    map[string][][]byte // object id -> response batches a remote peer would stream for a new-tree request
	net        netLog
	boots      int

	// rebuilt at every boot
	pending  []headstorage.HeadsEntry
	app      *app.App
	space    spacestorage.SpaceStorage
	acl      list.AclList
	delState deletionstate.ObjectDeletionState // the real one
	ordState *orderedDelState                  // what the deletion manager sees
	delMgr   deletionmanager.DeletionManager
	settings *settingsComp
	objMgr   objectmanager.ObjectManager
	tm       *treeManager
	builder  objecttreebuilder.TreeBuilderComponent
	objSync  syncdeps.SyncHandler
	diff     ldiff.Diff
	diffMgr  *headsync.DiffManager
}

// dbSlot is one database file of this process, kept open across replays: opening and closing an any-store database
// costs more than a whole replay, so a new device first restores the file's CONTENT to the pristine template through the
// open handle (every document of every collection deleted, the template's documents inserted, one transaction). Only
// restart events close and reopen the file. The first device of a slot starts from a byte copy of the template file.
type dbSlot struct {
	dir string
	db  anystore.DB
}

var slots = map[string]*dbSlot{}

func newDevice(f *fixture, name, scratch string, settingsTs int64) (*device, error) {
	slot := slots[name]
	if slot != nil && slot.db != nil {
		if err := resetDB(slot.db, f.docs); err != nil {
			return nil, fmt.Errorf("reset db: %w", err)
		}
	} else {
		dir, err := os.MkdirTemp(scratch, name+"-")
		if err != nil {
			return nil, err
		}
		for fname, b := range f.tmpl {
			if err := os.WriteFile(filepath.Join(dir, fname), b, 0o644); err != nil {
				return nil, err
			}
		}
		slot = &dbSlot{dir: dir}
		slots[name] = slot
	}
	d := &device{f: f, name: name, dir: slot.dir, slot: slot, db: slot.db, settingsTs: settingsTs, answers: f.answers}
	slot.db = nil // owned by the device until it is closed
	if err := d.boot(); err != nil {
		d.discard()
		return nil, err
	}
	return d, nil
}

// dumpDocs reads every document of every collection.
func dumpDocs(db anystore.DB) (map[string][][]byte, error) {
	names, err := db.GetCollectionNames(ctxBg)
	if err != nil {
		return nil, err
	}
	out := map[string][][]byte{}
	for _, n := range names {
		coll, err := db.OpenCollection(ctxBg, n)
		if err != nil {
			return nil, err
		}
		it, err := coll.Find(nil).Iter(ctxBg)
		if err != nil {
			return nil, err
		}
		out[n] = [][]byte{}
		for it.Next() {
			doc, err := it.Doc()
			if err != nil {
				it.Close()
				return nil, err
			}
			out[n] = append(out[n], doc.Value().MarshalTo(nil))
		}
		if err := it.Close(); err != nil {
			return nil, err
		}
	}
	return out, nil
}

func resetDB(db anystore.DB, docs map[string][][]byte) (err error) {
	tx, err := db.WriteTx(ctxBg)
	if err != nil {
		return err
	}
	defer func() {
		if err != nil {
			_ = tx.Rollback()
		} else {
			err = tx.Commit()
		}
	}()
	names, err := db.GetCollectionNames(tx.Context())
	if err != nil {
		return err
	}
	for _, n := range names {
		coll, err := db.OpenCollection(tx.Context(), n)
		if err != nil {
			return err
		}
		if _, err = coll.Find(nil).Delete(tx.Context()); err != nil {
			return err
		}
		if _, ok := docs[n]; !ok {
			return fmt.Errorf("collection %q is not in the template", n)
		}
	}
	p := &anyenc.Parser{}
	for n, ds := range docs {
		coll, err := db.Collection(tx.Context(), n)
		if err != nil {
			return err
		}
		for _, b := range ds {
			v, err := p.Parse(b)
			if err != nil {
				return err
			}
			if err = coll.Insert(tx.Context(), v); err != nil {
				return err
			}
		}
	}
	return nil
}

// boot opens the database file and builds every component from it, in the order the space app does.
func (d *device) boot() (err error) {
	if d.db == nil {
		d.db, err = anystore.Open(ctxBg, filepath.Join(d.dir, "db"), storeCfg())
		if err != nil {
			return fmt.Errorf("open db: %w", err)
		}
	}
	d.boots++
	d.pending = nil
	d.space, err = spacestorage.New(ctxBg, d.f.spaceId, d.db)
	if err != nil {
		return fmt.Errorf("space storage: %w", err)
	}
	aclSt, err := d.space.AclStorage()
	if err != nil {
		return err
	}
	d.acl, err = list.BuildAclListWithIdentity(d.f.keys, aclSt, recordverifier.NewValidateFull())
	if err != nil {
		return fmt.Errorf("acl: %w", err)
	}
	state := &spacestate.SpaceState{
		SpaceId:         d.f.spaceId,
		SpaceIsClosed:   &atomic.Bool{},
		TreesUsed:       &atomic.Int32{},
		TreeBuilderFunc: objecttree.BuildObjectTree,
	}
	d.tm = &treeManager{d: d, cache: map[string]objecttree.ObjectTree{}}
	d.delState = deletionstate.New()
	d.ordState = &orderedDelState{ObjectDeletionState: d.delState}
	d.delMgr = deletionmanager.New()
	d.settings = &settingsComp{d: d}
	d.objMgr = objectmanager.New(d.tm)
	d.builder = objecttreebuilder.New()
	d.objSync = objectsync.New()
	a := new(app.App)
	d.app = a
	comps := []app.Component{
		&fakeAccount{comp{accountservice.CName}, d.f.keys},
		&fakeNodeConf{comp: comp{nodeconf.CName}},
		&fakePool{comp: comp{pool.CName}},
		state,
		syncstatus.NewNoOpSyncStatus(),
		fakePeerManager{comp{peermanager.CName}},
		d.space,
		d.objSync,
		&fakeSyncService{comp{csync.CName}, d},
		&fakeSyncAcl{AclList: d.acl},
		fakeKV{comp: comp{kvinterfaces.CName}},
		d.ordState,
		d.delMgr,
		d.settings,
		d.objMgr,
		d.builder,
	}
	for _, c := range comps {
		a.Register(c)
	}
	for _, c := range comps {
		if err = c.Init(a); err != nil {
			return fmt.Errorf("init %s: %w", c.Name(), err)
		}
	}
	d.diff = ldiff.New(32, 256)
	d.diffMgr = headsync.NewDiffManager(d.diff, d.space, a.MustComponent(syncacl.CName).(syncacl.SyncAcl), logger.NewNamed("c15"), ctxBg, d.delState)
	// Run, in registration order: deletion state (loads tombstones), [deletion manager: its loop is driven by the
	// "worker" event instead], settings (builds the settings tree and state), head sync (observer, then FillDiff)
	if err = d.delState.(app.ComponentRunnable).Run(ctxBg); err != nil {
		return fmt.Errorf("deletion state run: %w", err)
	}
	return nil
}

// bootFinish is the second half of the Run sequence (split so that a deletion-worker pass can be placed where the
// real delete loop's initial pass may happen: right after deletionmanager.Run, before settings.Run).
func (d *device) bootFinish() (err error) {
	if err = d.settings.Run(ctxBg); err != nil {
		return fmt.Errorf("settings run: %w", err)
	}
	d.space.HeadStorage().AddObserver(headObserver{d})
	if err = d.diffMgr.FillDiff(ctxBg); err != nil {
		return fmt.Errorf("fill diff: %w", err)
	}
	d.drain()
	return nil
}

func (d *device) restart(earlyWorker bool) error {
	if err := d.db.Close(); err != nil {
		return fmt.Errorf("close db: %w", err)
	}
	d.db = nil
	if err := d.boot(); err != nil {
		return err
	}
	if earlyWorker {
		d.worker(false)
	}
	return d.bootFinish()
}

// close hands the (open) database back to the slot for the next device.
func (d *device) close() {
	if d.db == nil {
		d.discard()
		return
	}
	d.slot.db, d.db = d.db, nil
}

// discard is close for a device whose database handle cannot be trusted any more (panic inside a transaction, failed
// restart): the handle is abandoned and the slot starts over from a fresh file.
func (d *device) discard() {
	if d.db != nil {
		db := d.db
		d.db = nil
		go func() { _ = db.Close() }()
	}
	if slots[d.name] == d.slot {
		delete(slots, d.name)
	}
}

// worker is one pass of the deletion manager's delete loop (deleter.Delete), over the queue in ascending or descending
// id order.
func (d *device) worker(rev bool) {
	d.ordState.rev = rev
	d.tm.calls, d.tm.crashAt = 0, 0
	deletionmanager.VerifDeleter(d.delMgr).Delete(ctxBg)
	d.drain()
}

// workerCrash is a pass during which the process dies right before (after=false) or right after (after=true) the k-th
// call into the tree manager - i.e. around the deletion of a tree's storage, before the deleter records the id as
// deleted - followed by a restart. Head updates still queued for the index die with the process.
func (d *device) workerCrash(k int, after bool) (crashed bool, err error) {
	d.ordState.rev = false
	d.tm.calls, d.tm.crashAt, d.tm.crashAfter = 0, k, after
	func() {
		defer func() {
			if r := recover(); r != nil {
				if _, ok := r.(crashSignal); !ok {
					panic(r)
				}
				crashed = true
			}
		}()
		deletionmanager.VerifDeleter(d.delMgr).Delete(ctxBg)
	}()
	d.tm.crashAt = 0
	if !crashed {
		d.drain()
	}
	d.pending = nil
	return crashed, d.restart(false)
}

func (d *device) settingsObj() settings.SettingsObject { return d.settings.obj }

// recordBroadcast keeps the wire form of a broadcast head update.
func (d *device) recordBroadcast(msg drpc.Message) error {
	hu, ok := msg.(*objectmessages.HeadUpdate)
	if !ok {
		return fmt.Errorf("c15: unexpected broadcast %T", msg)
	}
	hu.Meta.PeerId = d.name
	pm, err := hu.ProtoMessage()
	if err != nil {
		return err
	}
	osm, ok := pm.(*spacesyncproto.ObjectSyncMessage)
	if !ok {
		return fmt.Errorf("c15: unexpected broadcast proto %T", pm)
	}
	b, err := osm.MarshalVT()
	if err != nil {
		return err
	}
	d.net.Broadcasts = append(d.net.Broadcasts, b)
	d.net.BcastIds = append(d.net.BcastIds, hu.Meta.ObjectId)
	return nil
}

// answer plays the remote peer for a new-tree request: streams the canned batches into the collector exactly like
// requestManager.SendRequest does (NewResponse / decode / CollectResponse per batch).
func (d *device) answer(ctx context.Context, rq syncdeps.Request, collector syncdeps.ResponseCollector) error {
	batches := d.answers[rq.ObjectId()]
	if len(batches) == 0 {
		return errors.New("c15: remote peer does not have the object")
	}
	for _, b := range batches {
		msg := &spacesyncproto.ObjectSyncMessage{}
		if err := msg.UnmarshalVT(b); err != nil {
			return err
		}
		resp := collector.NewResponse()
		setter, ok := resp.(interface {
			SetProtoMessage(m protobuf.Message) error
		})
		if !ok {
			return fmt.Errorf("c15: response %T cannot be decoded", resp)
		}
		if err := setter.SetProtoMessage(msg); err != nil {
			return err
		}
		if err := collector.CollectResponse(ctx, rq.PeerId(), rq.ObjectId(), resp); err != nil {
			return err
		}
	}
	return nil
}

func sortedKeys(m map[string]struct{}) []string {
	out := make([]string, 0, len(m))
	for k := range m {
		out = append(out, k)
	}
	sort.Strings(out)
	return out
}

func pageCachePrealloc() int {
	if os.Getenv("C15_NOPREALLOC") != "" {
		return -1
	}
	return 16 << 20
}
