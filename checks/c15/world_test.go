package c15

// One "device" of a space, assembled from the real components the way commonspace's space app assembles them
// (same Init order, same Run order), over a real any-store database file:
//
//	real:  any-store DB, spacestorage.New, headstorage, statestorage, acl list, deletionstate (New/Init/Run),
//	       deletionmanager (New/Init; the deleter it builds is run on demand through a shim instead of by the timer loop),
//	       settings.NewSettingsObject (Init / DeleteObject / Update / Rebuild, real state builder and change factory),
//	       objectmanager.New, objecttreebuilder.New (BuildTree / PutTree -> synctree.BuildSyncTreeOrGetRemote / PutSyncTree,
//	       real SyncClient from synctree.NewSyncClient), objectsync.New (HandleHeadUpdate / ApplyRequest / HandleStreamRequest),
//	       headsync.NewDiffManager over a real ldiff (FillDiff / UpdateHeads / HandleRangeRequest).
//	faked: the TreeManager of the client application (cache = map; GetTree -> treeBuilder.BuildTree, DeleteTree -> GetTree +
//	       tree.Delete() + drop from cache, MarkTreeDeleted -> recorded no-op; that is what commonspace's own
//	       testTreeManager does), the SyncService below the SyncClient (records broadcasts / queued requests / remote
//	       fetches and answers a fetch from the canned answer of a remote device), peer manager, pool, key-value service,
//	       node configuration, account service (return the fixture keys), sync status (the repo's no-op one).
//	wiring replaced: head-storage observer -> DiffManager.UpdateHeads is called synchronously (the real diffSyncer feeds
//	       the same calls through a FIFO queue drained by one goroutine); the settings component shell (settings.go, 40
//	       lines of dependency lookup) is mirrored by settingsComp; local settings changes get a fixed timestamp through a
//	       wrapper around the tree handed to the settings object (otherwise change ids depend on the wall clock).

import (
	"context"
	"errors"
	"fmt"
	"os"
	"path/filepath"
	"sort"
	"sync/atomic"

	anystore "github.com/anyproto/any-store"
	"google.golang.org/protobuf/proto"
	"storj.io/drpc"

	"github.com/anyproto/any-sync/accountservice"
	"github.com/anyproto/any-sync/app"
	"github.com/anyproto/any-sync/app/ldiff"
	"github.com/anyproto/any-sync/app/logger"
	"github.com/anyproto/any-sync/commonspace/deletionmanager"
	"github.com/anyproto/any-sync/commonspace/deletionstate"
	"github.com/anyproto/any-sync/commonspace/headsync"
	"github.com/anyproto/any-sync/commonspace/headsync/headstorage"
	"github.com/anyproto/any-sync/commonspace/object/accountdata"
	"github.com/anyproto/any-sync/commonspace/object/acl/list"
	"github.com/anyproto/any-sync/commonspace/object/acl/recordverifier"
	"github.com/anyproto/any-sync/commonspace/object/acl/syncacl"
	"github.com/anyproto/any-sync/commonspace/object/acl/syncacl/headupdater"
	"github.com/anyproto/any-sync/commonspace/object/keyvalue/kvinterfaces"
	"github.com/anyproto/any-sync/commonspace/object/tree/objecttree"
	"github.com/anyproto/any-sync/commonspace/object/tree/synctree"
	"github.com/anyproto/any-sync/commonspace/object/tree/synctree/updatelistener"
	"github.com/anyproto/any-sync/commonspace/object/tree/treestorage"
	"github.com/anyproto/any-sync/commonspace/object/treemanager"
	"github.com/anyproto/any-sync/commonspace/objectmanager"
	"github.com/anyproto/any-sync/commonspace/objecttreebuilder"
	"github.com/anyproto/any-sync/commonspace/peermanager"
	"github.com/anyproto/any-sync/commonspace/settings"
	"github.com/anyproto/any-sync/commonspace/spacestate"
	"github.com/anyproto/any-sync/commonspace/spacestorage"
	"github.com/anyproto/any-sync/commonspace/spacesyncproto"
	csync "github.com/anyproto/any-sync/commonspace/sync"
	"github.com/anyproto/any-sync/commonspace/sync/objectsync"
	"github.com/anyproto/any-sync/commonspace/sync/objectsync/objectmessages"
	"github.com/anyproto/any-sync/commonspace/sync/syncdeps"
	"github.com/anyproto/any-sync/commonspace/syncstatus"
	"github.com/anyproto/any-sync/net/peer"
	"github.com/anyproto/any-sync/net/pool"
	"github.com/anyproto/any-sync/nodeconf"
	"github.com/anyproto/any-sync/protobuf"
)

var ctxBg = context.Background()

func storeCfg() *anystore.Config {
	return &anystore.Config{
		ReadConnections:                           1,
		SQLiteConnectionOptions:                   map[string]string{"synchronous": "off"},
		SQLiteGlobalPageCachePreallocateSizeBytes: -1,
	}
}

// ---- fakes ----------------------------------------------------------------------------------------------

type comp struct{ name string }

func (c comp) Init(*app.App) error { return nil }
func (c comp) Name() string        { return c.name }

type fakeAccount struct {
	comp
	keys *accountdata.AccountKeys
}

func (f *fakeAccount) Account() *accountdata.AccountKeys { return f.keys }

type fakeNodeConf struct {
	comp
	nodeconf.NodeConf
}

type fakePool struct {
	comp
	pool.Pool
}

func (fakePool) Run(context.Context) error   { return nil }
func (fakePool) Close(context.Context) error { return nil }

type fakeKV struct {
	comp
	kvinterfaces.KeyValueService
}

func (f fakeKV) Init(a *app.App) error { return nil }
func (f fakeKV) Name() string          { return f.comp.name }

type fakePeer struct {
	peer.Peer
	id string
}

func (p fakePeer) Id() string { return p.id }

type fakePeerManager struct{ comp }

func (fakePeerManager) GetResponsiblePeers(context.Context) ([]peer.Peer, error) {
	return []peer.Peer{fakePeer{id: remotePeer}}, nil
}
func (fakePeerManager) GetNodePeers(context.Context) ([]peer.Peer, error)         { return nil, nil }
func (fakePeerManager) BroadcastMessage(context.Context, drpc.Message) error      { return nil }
func (fakePeerManager) SendMessage(context.Context, string, drpc.Message) error   { return nil }
func (fakePeerManager) KeepAlive(context.Context)                                 {}

var _ peermanager.PeerManager = fakePeerManager{}

// fakeSyncAcl is the real ACL list behind the SyncAcl component interface (nothing in this world syncs the ACL).
type fakeSyncAcl struct {
	list.AclList
}

func (f *fakeSyncAcl) Init(*app.App) error         { return nil }
func (f *fakeSyncAcl) Name() string                { return syncacl.CName }
func (f *fakeSyncAcl) Run(context.Context) error   { return nil }
func (f *fakeSyncAcl) Close(context.Context) error { return nil }
func (f *fakeSyncAcl) HandleHeadUpdate(context.Context, syncstatus.StatusUpdater, drpc.Message) (syncdeps.Request, error) {
	return nil, errors.New("c15: acl sync not modelled")
}
func (f *fakeSyncAcl) HandleStreamRequest(context.Context, syncdeps.Request, syncdeps.QueueSizeUpdater, func(resp proto.Message) error) (syncdeps.Request, error) {
	return nil, errors.New("c15: acl sync not modelled")
}
func (f *fakeSyncAcl) HandleResponse(context.Context, string, string, syncdeps.Response) error {
	return errors.New("c15: acl sync not modelled")
}
func (f *fakeSyncAcl) ResponseCollector() syncdeps.ResponseCollector { return nil }
func (f *fakeSyncAcl) SyncWithPeer(context.Context, peer.Peer) error  { return nil }
func (f *fakeSyncAcl) SetAclUpdater(headupdater.AclUpdater)           {}

var _ syncacl.SyncAcl = (*fakeSyncAcl)(nil)

// netLog is what the device handed to its (fake) sync service.
type netLog struct {
	Fetches    []string // object ids for which a new-tree request was SENT to a remote peer (SendTreeRequest)
	Queued     []string // object ids of queued (asynchronous) requests
	Broadcasts [][]byte // wire form of every broadcast head update, in order
	BcastIds   []string
	Applied    []string // object ids of full-sync requests sent for an existing object through ApplyRequest
}

type fakeSyncService struct {
	comp
	d *device
}

func (s *fakeSyncService) BroadcastMessage(ctx context.Context, msg drpc.Message) error {
	return s.d.recordBroadcast(msg)
}
func (s *fakeSyncService) HandleStreamRequest(context.Context, syncdeps.Request, drpc.Stream) error {
	return errors.New("c15: not modelled")
}
func (s *fakeSyncService) HandleMessage(context.Context, drpc.Message) error { return errors.New("c15: not modelled") }
func (s *fakeSyncService) QueueRequest(ctx context.Context, rq syncdeps.Request) error {
	s.d.net.Queued = append(s.d.net.Queued, rq.ObjectId())
	return nil
}
func (s *fakeSyncService) CloseReceiveQueue(string) error { return nil }

// SendRequest is what synctree's remote getter ends in (SyncClient.SendTreeRequest): a remote fetch of a whole tree.
func (s *fakeSyncService) SendRequest(ctx context.Context, rq syncdeps.Request, collector syncdeps.ResponseCollector) error {
	s.d.net.Fetches = append(s.d.net.Fetches, rq.ObjectId())
	return s.d.answer(ctx, rq, collector)
}

var _ csync.SyncService = (*fakeSyncService)(nil)

// applySender is the RequestSender objectsync.ApplyRequest uses for an object that exists locally (peer stays silent).
type applySender struct{ d *device }

func (a applySender) SendRequest(ctx context.Context, rq syncdeps.Request, collector syncdeps.ResponseCollector) error {
	a.d.net.Applied = append(a.d.net.Applied, rq.ObjectId())
	return nil
}

// treeManager stands for the client application's tree manager.
type treeManager struct {
	d      *device
	cache  map[string]objecttree.ObjectTree
	Marked []string
}

func (t *treeManager) Init(*app.App) error         { return nil }
func (t *treeManager) Name() string                { return treemanager.CName }
func (t *treeManager) Run(context.Context) error   { return nil }
func (t *treeManager) Close(context.Context) error { return nil }

func (t *treeManager) GetTree(ctx context.Context, spaceId, treeId string) (objecttree.ObjectTree, error) {
	if tr, ok := t.cache[treeId]; ok {
		return tr, nil
	}
	tr, err := t.d.builder.BuildTree(ctx, treeId, objecttreebuilder.BuildTreeOpts{})
	if err != nil {
		return nil, err
	}
	t.cache[treeId] = tr
	return tr, nil
}

func (t *treeManager) ValidateAndPutTree(context.Context, string, treestorage.TreeStorageCreatePayload) error {
	return errors.New("c15: not modelled")
}

func (t *treeManager) MarkTreeDeleted(ctx context.Context, spaceId, treeId string) error {
	t.Marked = append(t.Marked, treeId)
	return nil
}

func (t *treeManager) DeleteTree(ctx context.Context, spaceId, treeId string) error {
	tr, err := t.GetTree(ctx, spaceId, treeId)
	if err != nil {
		return err
	}
	err = tr.Delete()
	delete(t.cache, treeId)
	return err
}

// put mirrors what a client does to create an object: treeBuilder.PutTree, keep the instance.
func (t *treeManager) put(ctx context.Context, payload treestorage.TreeStorageCreatePayload) (objecttree.ObjectTree, error) {
	tr, err := t.d.builder.PutTree(ctx, payload, nil)
	if err != nil {
		return nil, err
	}
	t.cache[payload.RootRawChange.Id] = tr
	return tr, nil
}

// fixedClockTree is the settings tree as handed to the settings object: identical, but local changes carry a fixed
// timestamp so that their ids are a function of content and position only.
type fixedClockTree struct {
	synctree.SyncTree
	ts int64
}

func (f *fixedClockTree) AddContent(ctx context.Context, content objecttree.SignableChangeContent) (objecttree.AddResult, error) {
	if content.Timestamp == 0 {
		content.Timestamp = f.ts
	}
	return f.SyncTree.AddContent(ctx, content)
}

// settingsComp mirrors commonspace/settings.settings (the component shell around the settings object).
type settingsComp struct {
	d   *device
	obj settings.SettingsObject
}

func (s *settingsComp) Init(a *app.App) error {
	d := s.d
	deps := settings.Deps{
		BuildFunc: func(ctx context.Context, id string, listener updatelistener.UpdateListener) (synctree.SyncTree, error) {
			res, err := d.builder.BuildTree(ctx, id, objecttreebuilder.BuildTreeOpts{
				Listener:    listener,
				TreeBuilder: settings.VerifTreeBuilder(d.space),
			})
			if err != nil {
				return nil, err
			}
			return &fixedClockTree{SyncTree: res.(synctree.SyncTree), ts: d.settingsTs}, nil
		},
		Account:       a.MustComponent(accountservice.CName).(accountservice.Service),
		Store:         d.space,
		Configuration: a.MustComponent(nodeconf.CName).(nodeconf.NodeConf),
		DelManager:    a.MustComponent(deletionmanager.CName).(deletionmanager.DeletionManager),
	}
	s.obj = settings.NewSettingsObject(deps, d.f.spaceId)
	return nil
}
func (s *settingsComp) Name() string                                   { return settings.CName }
func (s *settingsComp) Run(ctx context.Context) error                  { return s.obj.Init(ctx) }
func (s *settingsComp) Close(context.Context) error                    { return s.obj.Close() }
func (s *settingsComp) DeleteTree(ctx context.Context, id string) error { return s.obj.DeleteObject(ctx, id) }
func (s *settingsComp) SettingsObject() settings.SettingsObject        { return s.obj }

// headObserver is the synchronous stand-in for diffSyncer.OnUpdate -> headUpdater -> DiffManager.UpdateHeads.
type headObserver struct{ dm *headsync.DiffManager }

func (h headObserver) OnUpdate(e headstorage.HeadsEntry) { h.dm.UpdateHeads(e) }

// ---- device ---------------------------------------------------------------------------------------------

const remotePeer = "remote-peer"

type device struct {
	f          *fixture
	name       string
	dir        string
	db         anystore.DB
	settingsTs int64
	answers    map[string][][]byte // object id -> response batches a remote peer would stream for a new-tree request
	net        netLog
	boots      int

	// rebuilt at every boot
	app      *app.App
	space    spacestorage.SpaceStorage
	acl      list.AclList
	delState deletionstate.ObjectDeletionState
	delMgr   deletionmanager.DeletionManager
	settings *settingsComp
	objMgr   objectmanager.ObjectManager
	tm       *treeManager
	builder  objecttreebuilder.TreeBuilderComponent
	objSync  syncdeps.SyncHandler
	diff     ldiff.Diff
	diffMgr  *headsync.DiffManager
}

func newDevice(f *fixture, name, scratch string, settingsTs int64) (*device, error) {
	dir, err := os.MkdirTemp(scratch, name+"-")
	if err != nil {
		return nil, err
	}
	for fname, b := range f.tmpl {
		if err := os.WriteFile(filepath.Join(dir, fname), b, 0o644); err != nil {
			return nil, err
		}
	}
	d := &device{f: f, name: name, dir: dir, settingsTs: settingsTs, answers: f.answers}
	if err := d.boot(); err != nil {
		d.close()
		return nil, err
	}
	return d, nil
}

// boot opens the database file and builds every component from it, in the order the space app does.
func (d *device) boot() (err error) {
	d.db, err = anystore.Open(ctxBg, filepath.Join(d.dir, "db"), storeCfg())
	if err != nil {
		return fmt.Errorf("open db: %w", err)
	}
	d.boots++
	d.space, err = spacestorage.New(ctxBg, d.f.spaceId, d.db)
	if err != nil {
		return fmt.Errorf("space storage: %w", err)
	}
	aclSt, err := d.space.AclStorage()
	if err != nil {
		return err
	}
	d.acl, err = list.BuildAclListWithIdentity(d.f.keys, aclSt, recordverifier.NewValidateFull())
	if err != nil {
		return fmt.Errorf("acl: %w", err)
	}
	state := &spacestate.SpaceState{
		SpaceId:         d.f.spaceId,
		SpaceIsClosed:   &atomic.Bool{},
		TreesUsed:       &atomic.Int32{},
		TreeBuilderFunc: objecttree.BuildObjectTree,
	}
	d.tm = &treeManager{d: d, cache: map[string]objecttree.ObjectTree{}}
	d.delState = deletionstate.New()
	d.delMgr = deletionmanager.New()
	d.settings = &settingsComp{d: d}
	d.objMgr = objectmanager.New(d.tm)
	d.builder = objecttreebuilder.New()
	d.objSync = objectsync.New()
	a := new(app.App)
	d.app = a
	comps := []app.Component{
		&fakeAccount{comp{accountservice.CName}, d.f.keys},
		&fakeNodeConf{comp: comp{nodeconf.CName}},
		&fakePool{comp: comp{pool.CName}},
		state,
		syncstatus.NewNoOpSyncStatus(),
		fakePeerManager{comp{peermanager.CName}},
		d.space,
		d.objSync,
		&fakeSyncService{comp{csync.CName}, d},
		&fakeSyncAcl{AclList: d.acl},
		fakeKV{comp: comp{kvinterfaces.CName}},
		d.delState,
		d.delMgr,
		d.settings,
		d.objMgr,
		d.builder,
	}
	for _, c := range comps {
		a.Register(c)
	}
	for _, c := range comps {
		if err = c.Init(a); err != nil {
			return fmt.Errorf("init %s: %w", c.Name(), err)
		}
	}
	d.diff = ldiff.New(32, 256)
	d.diffMgr = headsync.NewDiffManager(d.diff, d.space, a.MustComponent(syncacl.CName).(syncacl.SyncAcl), logger.NewNamed("c15"), ctxBg, d.delState)
	// Run, in registration order: deletion state (loads tombstones), [deletion manager: its loop is driven by the
	// "worker" event instead], settings (builds the settings tree and state), head sync (observer, then FillDiff)
	if err = d.delState.(app.ComponentRunnable).Run(ctxBg); err != nil {
		return fmt.Errorf("deletion state run: %w", err)
	}
	return nil
}

// bootFinish is the second half of the Run sequence (split so that a deletion-worker pass can be placed where the
// real delete loop's initial pass may happen: right after deletionmanager.Run, before settings.Run).
func (d *device) bootFinish() (err error) {
	if err = d.settings.Run(ctxBg); err != nil {
		return fmt.Errorf("settings run: %w", err)
	}
	d.space.HeadStorage().AddObserver(headObserver{d.diffMgr})
	if err = d.diffMgr.FillDiff(ctxBg); err != nil {
		return fmt.Errorf("fill diff: %w", err)
	}
	return nil
}

func (d *device) restart(earlyWorker bool) error {
	if err := d.db.Close(); err != nil {
		return fmt.Errorf("close db: %w", err)
	}
	d.db = nil
	if err := d.boot(); err != nil {
		return err
	}
	if earlyWorker {
		d.worker()
	}
	return d.bootFinish()
}

func (d *device) close() {
	if d.db != nil {
		_ = d.db.Close()
		d.db = nil
	}
	_ = os.RemoveAll(d.dir)
}

func (d *device) worker() {
	deletionmanager.VerifDeleter(d.delMgr).Delete(ctxBg)
}

func (d *device) settingsObj() settings.SettingsObject { return d.settings.obj }

// recordBroadcast keeps the wire form of a broadcast head update.
func (d *device) recordBroadcast(msg drpc.Message) error {
	hu, ok := msg.(*objectmessages.HeadUpdate)
	if !ok {
		return fmt.Errorf("c15: unexpected broadcast %T", msg)
	}
	hu.Meta.PeerId = d.name
	pm, err := hu.ProtoMessage()
	if err != nil {
		return err
	}
	osm, ok := pm.(*spacesyncproto.ObjectSyncMessage)
	if !ok {
		return fmt.Errorf("c15: unexpected broadcast proto %T", pm)
	}
	b, err := osm.MarshalVT()
	if err != nil {
		return err
	}
	d.net.Broadcasts = append(d.net.Broadcasts, b)
	d.net.BcastIds = append(d.net.BcastIds, hu.Meta.ObjectId)
	return nil
}

// answer plays the remote peer for a new-tree request: streams the canned batches into the collector exactly like
// requestManager.SendRequest does (NewResponse / decode / CollectResponse per batch).
func (d *device) answer(ctx context.Context, rq syncdeps.Request, collector syncdeps.ResponseCollector) error {
	batches := d.answers[rq.ObjectId()]
	if len(batches) == 0 {
		return errors.New("c15: remote peer does not have the object")
	}
	for _, b := range batches {
		msg := &spacesyncproto.ObjectSyncMessage{}
		if err := msg.UnmarshalVT(b); err != nil {
			return err
		}
		resp := collector.NewResponse()
		setter, ok := resp.(interface{ SetProtoMessage(m protobuf.Message) error })
		if !ok {
			return fmt.Errorf("c15: response %T cannot be decoded", resp)
		}
		if err := setter.SetProtoMessage(msg); err != nil {
			return err
		}
		if err := collector.CollectResponse(ctx, rq.PeerId(), rq.ObjectId(), resp); err != nil {
			return err
		}
	}
	return nil
}

func sortedKeys(m map[string]struct{}) []string {
	out := make([]string, 0, len(m))
	for k := range m {
		out = append(out, k)
	}
	sort.Strings(out)
	return out
}
