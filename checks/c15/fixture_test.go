package c15

// The fixture is everything that does not depend on the explored history: the space (derived, so every byte is a
// function of the seed), a pristine database file, the roots of the objects X, Y (ordinary) and Z (derived, bound to X
// through ParentId), and the traffic of two REMOTE devices of the same account, produced once per process by running
// the real code on two more devices:
//
//	device A holds X and Y:      a1 = DeleteObject(X)           -> plain record {X}
//	                             a2 = DeleteObject(Y), snapshot -> record {Y} with snapshot {Y, X}, child of a1
//	device B holds X, Y and Z:   b1 = DeleteObject(X)           -> plain record {X, Z} (cascade to the bound child),
//	                                                               concurrent with a1 and a2, iterated before them
//
// plus, from B, the head updates it broadcast for X, Y, Z after adding one change to each and the response streams it
// serves for a new-tree request for X, Y, Z.

import (
	"context"
	"fmt"
	"math/rand"
	"os"
	"path/filepath"

	anystore "github.com/anyproto/any-store"
	"google.golang.org/protobuf/proto"

	"github.com/anyproto/any-sync/commonspace/object/accountdata"
	"github.com/anyproto/any-sync/commonspace/object/acl/list"
	"github.com/anyproto/any-sync/commonspace/object/acl/recordverifier"
	"github.com/anyproto/any-sync/commonspace/object/tree/objecttree"
	"github.com/anyproto/any-sync/commonspace/object/tree/synctree"
	"github.com/anyproto/any-sync/commonspace/object/tree/treechangeproto"
	"github.com/anyproto/any-sync/commonspace/object/tree/treestorage"
	"github.com/anyproto/any-sync/commonspace/settings"
	"github.com/anyproto/any-sync/commonspace/spacepayloads"
	"github.com/anyproto/any-sync/commonspace/spacestorage"
	"github.com/anyproto/any-sync/commonspace/spacesyncproto"
	"github.com/anyproto/any-sync/commonspace/sync/objectsync/objectmessages"
	"github.com/anyproto/any-sync/consensus/consensusproto"
	"github.com/anyproto/any-sync/net/peer"
	"github.com/anyproto/any-sync/util/crypto"
)

var objLabels = []string{"X", "Y", "Z"}

type fixture struct {
	keys       *accountdata.AccountKeys
	payload    spacestorage.SpaceStorageCreatePayload
	spaceId    string
	settingsId string
	tmpl       map[string][]byte
	docs       map[string][][]byte                             // every document of the pristine database, by collection
	roots      map[string]*treechangeproto.RawTreeChangeWithId // by label
	id         map[string]string                               // label -> id
	label      map[string]string                               // id -> label (objects, settings records)
	msgs       map[string][]byte                               // a1 a2 a12 b1 hu:X hu:Y hu:Z -> ObjectSyncMessage wire bytes
	answers    map[string][][]byte                             // object id -> response batches for a new-tree request
	recIds     map[string][]string                             // message name -> ids of the settings changes it carries
	recDeletes map[string][]string                             // settings change id -> labels it deletes (from the authors)
	order      []string                                        // iteration order of {a1,a2,b1} in a tree holding all three
}

const (
	tsRoot   = 1700000000
	tsRemote = 1700000100 // timestamp of the changes the remote devices add to X, Y, Z
	tsLocal  = 1700000200 // timestamp of every change the explored device makes
	tsA      = 1700000300 // settings changes of device A
	tsB0     = 1700000400 // settings changes of device B (first candidate)
)

func (f *fixture) lab(id string) string {
	if l, ok := f.label[id]; ok {
		return l
	}
	if len(id) > 6 {
		return "#" + id[len(id)-6:]
	}
	return id
}

func (f *fixture) labs(ids []string) []string {
	out := make([]string, 0, len(ids))
	for _, id := range ids {
		out = append(out, f.lab(id))
	}
	return out
}

func newFixture(seed int64, scratch string) (*fixture, error) {
	r := rand.New(rand.NewSource(seed*7 + 1))
	sign, _, err := crypto.GenerateEd25519Key(r)
	if err != nil {
		return nil, err
	}
	peerKey, _, _ := crypto.GenerateEd25519Key(r)
	master, _, _ := crypto.GenerateEd25519Key(r)
	f := &fixture{
		keys:  accountdata.New(peerKey, sign),
		roots: map[string]*treechangeproto.RawTreeChangeWithId{}, id: map[string]string{}, label: map[string]string{},
		msgs: map[string][]byte{}, answers: map[string][][]byte{}, recIds: map[string][]string{}, recDeletes: map[string][]string{},
	}
	f.payload, err = spacepayloads.StoragePayloadForSpaceDerive(spacepayloads.SpaceDerivePayload{SigningKey: sign, MasterKey: master, SpaceType: "verif"})
	if err != nil {
		return nil, err
	}
	f.spaceId = f.payload.SpaceHeaderWithId.Id
	f.settingsId = f.payload.SpaceSettingsWithId.Id
	f.label[f.settingsId] = "S"
	if err = f.makeTemplate(scratch); err != nil {
		return nil, fmt.Errorf("template: %w", err)
	}
	aclSt, err := list.NewInMemoryStorage(f.payload.AclWithId.Id, []*consensusproto.RawRecordWithId{f.payload.AclWithId})
	if err != nil {
		return nil, err
	}
	acl, err := list.BuildAclListWithIdentity(f.keys, aclSt, recordverifier.NewValidateFull())
	if err != nil {
		return nil, err
	}
	for _, l := range []string{"X", "Y"} {
		root, err := objecttree.CreateObjectTreeRoot(objecttree.ObjectTreeCreatePayload{
			PrivKey: sign, ChangeType: "verif.doc", ChangePayload: []byte("doc " + l), SpaceId: f.spaceId,
			Seed: []byte("seed-" + l), Timestamp: tsRoot,
		}, acl)
		if err != nil {
			return nil, err
		}
		f.roots[l] = root
	}
	f.roots["Z"], err = objecttree.DeriveObjectTreeRoot(objecttree.ObjectTreeDerivePayload{
		ChangeType: "verif.child", ChangePayload: []byte("child of X"), SpaceId: f.spaceId, ParentId: f.roots["X"].Id,
	}, acl)
	if err != nil {
		return nil, err
	}
	for l, root := range f.roots {
		f.id[l] = root.Id
		f.label[root.Id] = l
	}
	if err = f.runRemotes(scratch); err != nil {
		return nil, fmt.Errorf("remote devices: %w", err)
	}
	return f, nil
}

func (f *fixture) makeTemplate(scratch string) error {
	dir, err := os.MkdirTemp(scratch, "tmpl-")
	if err != nil {
		return err
	}
	defer os.RemoveAll(dir)
	db, err := anystore.Open(ctxBg, filepath.Join(dir, "db"), storeCfg())
	if err != nil {
		return err
	}
	_, err = spacestorage.Create(ctxBg, db, f.payload)
	if err == nil {
		// what spacestorage.New / headstorage.New add on first open (indexes) belongs to the pristine state too
		_, err = spacestorage.New(ctxBg, f.spaceId, db)
	}
	if err == nil {
		f.docs, err = dumpDocs(db)
	}
	if err == nil {
		err = db.Flush(ctxBg, 0, anystore.FlushModeCheckpointFull)
	}
	if cerr := db.Close(); err == nil {
		err = cerr
	}
	if err != nil {
		return err
	}
	f.tmpl = map[string][]byte{}
	ents, _ := os.ReadDir(dir)
	for _, e := range ents {
		if e.IsDir() {
			continue
		}
		b, err := os.ReadFile(filepath.Join(dir, e.Name()))
		if err != nil {
			return err
		}
		f.tmpl[e.Name()] = b
	}
	return nil
}

// create puts object l on the device (treeBuilder.PutTree -> synctree.PutSyncTree) and adds one change to it so that it
// has a non-root head (only then the head index advertises it).
func (d *device) create(l, data string, ts int64) error {
	root := d.f.roots[l]
	tr, err := d.tm.put(ctxBg, treestorage.TreeStorageCreatePayload{
		RootRawChange: root, Changes: []*treechangeproto.RawTreeChangeWithId{root}, Heads: []string{root.Id},
	})
	if err != nil {
		return err
	}
	defer d.drain()
	tr.Lock()
	defer tr.Unlock()
	_, err = tr.AddContent(ctxBg, objecttree.SignableChangeContent{
		Data: []byte(data + " " + l), Key: d.f.keys.SignKey, Timestamp: ts, DataType: "verif",
	})
	return err
}

// localDelete is the API call of the settings component: settingsObject.DeleteObject.
func (d *device) localDelete(l string, snapshot bool) error {
	old := settings.DoSnapshot
	settings.DoSnapshot = func(int) bool { return snapshot }
	defer func() { settings.DoSnapshot = old }()
	defer d.drain()
	return d.settings.DeleteTree(ctxBg, d.f.id[l])
}

func peerCtx() context.Context { return peer.CtxWithPeerId(ctxBg, remotePeer) }

// incoming hands one wire message to the device's object-sync handler the way the sync service does: HandleHeadUpdate,
// and if that returns a request, ApplyRequest for it (the request queue's job).
func (d *device) incoming(wire []byte) (huErr, applyErr error, requested bool) {
	defer d.drain()
	msg := &spacesyncproto.ObjectSyncMessage{}
	if err := msg.UnmarshalVT(wire); err != nil {
		return err, nil, false
	}
	hu := &objectmessages.HeadUpdate{}
	if err := hu.SetProtoMessage(msg); err != nil {
		return err, nil, false
	}
	hu.SetPeerId(remotePeer)
	req, err := d.objSync.HandleHeadUpdate(peerCtx(), hu)
	if err != nil || req == nil {
		return err, nil, false
	}
	return nil, d.objSync.ApplyRequest(ctxBg, req, applySender{d}), true
}

type noQueue struct{}

func (noQueue) UpdateQueueSize(uint64, int, bool) {}

func (f *fixture) runRemotes(scratch string) error {
	// ---- device A
	a, err := newDevice(f, "devA", scratch, tsA)
	if err != nil {
		return err
	}
	defer a.close()
	if err = a.bootFinish(); err != nil {
		return err
	}
	for _, l := range []string{"X", "Y"} {
		if err = a.create(l, "remote", tsRemote); err != nil {
			return fmt.Errorf("A create %s: %w", l, err)
		}
	}
	n := len(a.net.Broadcasts)
	if err = a.localDelete("X", false); err != nil {
		return fmt.Errorf("A delete X: %w", err)
	}
	if len(a.net.Broadcasts) != n+1 {
		return fmt.Errorf("A: delete of X broadcast %d messages", len(a.net.Broadcasts)-n)
	}
	f.msgs["a1"] = a.net.Broadcasts[n]
	if err = a.localDelete("Y", true); err != nil {
		return fmt.Errorf("A delete Y: %w", err)
	}
	if len(a.net.Broadcasts) != n+2 {
		return fmt.Errorf("A: delete of Y broadcast %d messages", len(a.net.Broadcasts)-n-1)
	}
	f.msgs["a2"] = a.net.Broadcasts[n+1]
	ids1, err := changeIds(f.msgs["a1"])
	if err != nil || len(ids1) != 1 {
		return fmt.Errorf("a1: %v %v", ids1, err)
	}
	ids2, err := changeIds(f.msgs["a2"])
	if err != nil || len(ids2) != 1 {
		return fmt.Errorf("a2: %v %v", ids2, err)
	}
	f.label[ids1[0]], f.label[ids2[0]] = "a1", "a2"
	f.recIds["a1"], f.recIds["a2"], f.recIds["a12"] = ids1, ids2, []string{ids1[0], ids2[0]}
	f.recDeletes[ids1[0]], f.recDeletes[ids2[0]] = []string{"X"}, []string{"Y"}
	// the batched form: one head update carrying both records (what a peer that missed the first broadcast gets)
	st := a.settingsObj()
	st.Lock()
	var raws []*treechangeproto.RawTreeChangeWithId
	for _, id := range f.recIds["a12"] {
		ch, err := st.Storage().Get(ctxBg, id)
		if err != nil {
			st.Unlock()
			return err
		}
		// the storage hands out bytes that alias its parser buffer: copy before the next Get
		raws = append(raws, &treechangeproto.RawTreeChangeWithId{RawChange: append([]byte{}, ch.RawChange...), Id: ch.Id})
	}
	hu, err := synctree.NewRequestFactory(f.spaceId).CreateHeadUpdate(st, "", raws)
	st.Unlock()
	if err != nil {
		return err
	}
	n = len(a.net.Broadcasts)
	if err = a.recordBroadcast(hu); err != nil {
		return err
	}
	f.msgs["a12"] = a.net.Broadcasts[n]

	// ---- device B: b1 must be iterated before a2 in a tree that holds a1, a2, b1 (vary B's clock until it is)
	for ts := int64(tsB0); ; ts++ {
		if ts > tsB0+64 {
			return fmt.Errorf("no timestamp puts b1 before a2")
		}
		ok, err := f.runB(scratch, ts)
		if err != nil {
			return err
		}
		if ok {
			// the remote devices are done: release their database files
			for _, n := range []string{"devA", "devB"} {
				if sl := slots[n]; sl != nil && sl.db != nil {
					_ = sl.db.Close()
					_ = os.RemoveAll(sl.dir)
				}
				delete(slots, n)
			}
			return nil
		}
	}
}

func (f *fixture) runB(scratch string, ts int64) (ok bool, err error) {
	b, err := newDevice(f, "devB", scratch, ts)
	if err != nil {
		return false, err
	}
	defer b.close()
	if err = b.bootFinish(); err != nil {
		return false, err
	}
	msgs := map[string][]byte{}
	for _, l := range objLabels {
		n := len(b.net.Broadcasts)
		if err = b.create(l, "remote", tsRemote); err != nil {
			return false, fmt.Errorf("B create %s: %w", l, err)
		}
		// PutSyncTree does not broadcast a bare root; AddContent broadcasts the new change
		if len(b.net.Broadcasts) != n+1 {
			return false, fmt.Errorf("B: create %s broadcast %d messages", l, len(b.net.Broadcasts)-n)
		}
		msgs["hu:"+l] = b.net.Broadcasts[n]
		if ids, err := changeIds(msgs["hu:"+l]); err == nil && len(ids) == 1 {
			f.label[ids[0]] = "r" + l
		} else {
			return false, fmt.Errorf("B: head update for %s carries %v (%v)", l, ids, err)
		}
	}
	answers := map[string][][]byte{}
	for _, l := range objLabels {
		id := f.id[l]
		pm, err := synctree.NewRequestFactory(f.spaceId).CreateNewTreeRequest(b.name, id).Proto()
		if err != nil {
			return false, err
		}
		rq := objectmessages.NewByteRequest("requester", f.spaceId, id, pm.(*spacesyncproto.ObjectSyncMessage).Payload)
		_, err = b.objSync.HandleStreamRequest(peer.CtxWithPeerId(ctxBg, "requester"), rq, noQueue{}, func(resp proto.Message) error {
			wire, err := resp.(*spacesyncproto.ObjectSyncMessage).MarshalVT()
			if err != nil {
				return err
			}
			answers[id] = append(answers[id], wire)
			return nil
		})
		if err != nil {
			return false, fmt.Errorf("B serve %s: %w", l, err)
		}
		if len(answers[id]) == 0 {
			return false, fmt.Errorf("B serves nothing for %s", l)
		}
	}
	n := len(b.net.Broadcasts)
	if err = b.localDelete("X", false); err != nil {
		return false, fmt.Errorf("B delete X: %w", err)
	}
	if len(b.net.Broadcasts) != n+1 {
		return false, fmt.Errorf("B: delete of X broadcast %d messages", len(b.net.Broadcasts)-n)
	}
	msgs["b1"] = b.net.Broadcasts[n]
	ids, err := changeIds(msgs["b1"])
	if err != nil || len(ids) != 1 {
		return false, fmt.Errorf("b1: %v %v", ids, err)
	}
	// let B learn a1 and a2 and read the order in which its settings tree iterates the three records
	if e1, e2, _ := b.incoming(f.msgs["a12"]); e1 != nil || e2 != nil {
		return false, fmt.Errorf("B cannot take a1+a2: %v %v", e1, e2)
	}
	var order []string
	st := b.settingsObj()
	st.Lock()
	err = st.IterateRoot(nil, func(c *objecttree.Change) bool {
		if c.Id != f.settingsId {
			order = append(order, c.Id)
		}
		return true
	})
	st.Unlock()
	if err != nil {
		return false, err
	}
	if len(order) != 3 {
		return false, fmt.Errorf("B's settings tree iterates %d records, want 3", len(order))
	}
	pos := map[string]int{}
	for i, id := range order {
		pos[id] = i
	}
	if pos[ids[0]] > pos[f.recIds["a2"][0]] {
		return false, nil
	}
	f.label[ids[0]] = "b1"
	f.recIds["b1"] = ids
	f.recDeletes[ids[0]] = []string{"X", "Z"}
	for k, v := range msgs {
		f.msgs[k] = v
	}
	f.answers = answers
	f.order = f.labs(order)
	return true, nil
}

// changeIds lists the ids of the changes a head-update wire message carries.
func changeIds(wire []byte) ([]string, error) {
	msg := &spacesyncproto.ObjectSyncMessage{}
	if err := msg.UnmarshalVT(wire); err != nil {
		return nil, err
	}
	tm := &treechangeproto.TreeSyncMessage{}
	if err := tm.UnmarshalVT(msg.Payload); err != nil {
		return nil, err
	}
	var ids []string
	for _, c := range tm.GetContent().GetHeadUpdate().GetChanges() {
		ids = append(ids, c.Id)
	}
	return ids, nil
}
