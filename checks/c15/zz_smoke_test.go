package c15

import (
	"fmt"
	"os"
	"testing"
	"time"

	"go.uber.org/zap"

	"github.com/anyproto/any-sync/app/logger"
)

func TestSmoke(t *testing.T) {
	if os.Getenv("C15_SMOKE") == "" {
		t.Skip()
	}
	logger.SetDefault(zap.NewNop())
	logger.SetNamedLevels(logger.LevelsFromStr("*=fatal"))
	scratch, _ := os.MkdirTemp("/dev/shm", "c15smoke-")
	defer os.RemoveAll(scratch)
	t0 := time.Now()
	f, err := newFixture(1, scratch)
	if err != nil {
		t.Fatal(err)
	}
	fmt.Println("fixture", time.Since(t0), "order", f.order, "msgs", len(f.msgs), "answers", len(f.answers))
	t0 = time.Now()
	N := 50
	for i := 0; i < N; i++ {
		d, err := newDevice(f, "dev", scratch, tsLocal)
		if err != nil {
			t.Fatal(err)
		}
		if err := d.bootFinish(); err != nil {
			t.Fatal(err)
		}
		d.close()
	}
	fmt.Println("boot+close", time.Since(t0)/time.Duration(N))
}
