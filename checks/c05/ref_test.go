package c05

// Reference side of C05: everything here is computed from the RAW LOG ALONE (every record decoded by hand:
// RawRecordWithId -> RawRecord -> Record / AclRoot -> AclData), independently of the AclState machine under test.
//
//   - refModel: who holds a permission after every record, when an account last lost it, which invites are live,
//     which record introduced which key generation, and every encrypted-read-key blob of the log.
//   - attacker: what a key holder can DERIVE from those blobs (own account key / invite keys, then closing
//     backwards over EncryptedOldReadKey).

import (
	"fmt"
	"sort"

	"github.com/anyproto/any-sync/commonspace/object/acl/aclrecordproto"
	"github.com/anyproto/any-sync/consensus/consensusproto"
	"github.com/anyproto/any-sync/util/crypto"

	. "verif/lib/aclsim"
	"verif/lib/vk"
)

// idKey normalises identity bytes (a marshalled public key) to the key's storage form.
func idKey(b []byte) string {
	if k, err := crypto.UnmarshalEd25519PublicKeyProto(b); err == nil {
		return string(k.Storage())
	}
	return "raw:" + string(b)
}

type refInvite struct {
	id         string
	key        string // idKey of the invite public key
	open       bool   // anyone-can-join
	perm       Perm
	created    int // record index
	createdPos int // index of the content item that created it
	revoked    int // record index of the revoke, -1 while live
}

type refGen struct {
	id     string // record id that introduced the generation (root id for the first)
	intro  int    // record index
	encOld []byte // EncryptedOldReadKey of that record (nil for the root)
}

type blob struct {
	kind string // root | rotation-account | rotation-invite | accept | add | invite-join | invite
	rec  int
	to   string // idKey of the labelled recipient ("" when the record does not name one)
	data []byte
}

// rotation is one AclReadKeyChange found in the log with the sets it must address (state AFTER its record).
type rotation struct {
	rec         int
	where       string // stand-alone | account-remove | batch
	pos         int    // index of the content item that carries it
	gotAccounts []string
	gotInvites  []string
	expAccounts []string
	expInvites  []string
}

type refModel struct {
	names      map[string]string // idKey -> account name
	perm       map[string]Perm   // account name -> permission now
	everHad    map[string]bool
	lastLoss   map[string]int // account name -> record index of the last perm -> none transition (-1 never lost)
	lastGain   map[string]int // account name -> record index of the last none -> perm transition (-1 never)
	readdByAdd map[string]int // account name -> record index of the last DIRECT add (AclAccountsAdd) of an account that had been a member before
	invites    []*refInvite
	gens       []refGen
	blobs      []blob
	rotations  []rotation
	// per record: events used by vacuity guards
	events map[string]int
	nRecs  int
}

func (m *refModel) liveOpenInviteKeys() (out []string) {
	for _, iv := range m.invites {
		if iv.open && iv.revoked < 0 {
			out = append(out, iv.key)
		}
	}
	sort.Strings(out)
	return
}

// liveOpenInviteKeysAt: the live open invites except those created by record rec at a content position after pos.
func (m *refModel) liveOpenInviteKeysAt(rec, pos int) (out []string) {
	for _, iv := range m.invites {
		if iv.open && iv.revoked < 0 && !(iv.created == rec && iv.createdPos > pos) {
			out = append(out, iv.key)
		}
	}
	sort.Strings(out)
	return
}

func (m *refModel) members() (out []string) {
	for k, n := range m.names {
		if m.perm[n] != None {
			out = append(out, k)
		}
	}
	sort.Strings(out)
	return
}

func (m *refModel) invite(id string) *refInvite {
	for _, iv := range m.invites {
		if iv.id == id {
			return iv
		}
	}
	return nil
}

func (m *refModel) setPerm(name string, p Perm, rec int) {
	if name == "" {
		return
	}
	old := m.perm[name]
	if old == None && p != None {
		if m.everHad[name] {
			m.events["re-admitted"]++
		}
		m.everHad[name] = true
		m.lastGain[name] = rec
	}
	if old != None && p == None {
		m.lastLoss[name] = rec
	}
	m.perm[name] = p
}

// walk decodes the whole log and rebuilds the reference model.
func walk(s *Sim) (*refModel, error) {
	m := &refModel{names: map[string]string{}, perm: map[string]Perm{}, everHad: map[string]bool{}, lastLoss: map[string]int{}, lastGain: map[string]int{}, readdByAdd: map[string]int{},
		events: map[string]int{}, nRecs: len(s.Log)}
	for _, a := range s.Accounts {
		m.names[idKey(a.Proto)] = a.Name
		m.perm[a.Name] = None
		m.lastLoss[a.Name] = -1
		m.lastGain[a.Name] = -1
	}
	for i, rw := range s.Log {
		raw := &consensusproto.RawRecord{}
		if err := raw.UnmarshalVT(rw.Payload); err != nil {
			return nil, fmt.Errorf("record %d: raw: %w", i, err)
		}
		if i == 0 {
			root := &aclrecordproto.AclRoot{}
			if err := root.UnmarshalVT(raw.Payload); err != nil {
				return nil, fmt.Errorf("root: %w", err)
			}
			m.setPerm(m.names[idKey(root.Identity)], Owner, 0)
			m.gens = append(m.gens, refGen{id: rw.Id, intro: 0})
			m.blobs = append(m.blobs, blob{"root", 0, idKey(root.Identity), root.EncryptedReadKey})
			continue
		}
		rec := &consensusproto.Record{}
		if err := rec.UnmarshalVT(raw.Payload); err != nil {
			return nil, fmt.Errorf("record %d: %w", i, err)
		}
		data := &aclrecordproto.AclData{}
		if err := data.UnmarshalVT(rec.Data); err != nil {
			return nil, fmt.Errorf("record %d data: %w", i, err)
		}
		author := m.names[idKey(rec.Identity)]
		var rots []*rotation
		nRevokes := 0
		pos := 0 // index of the content item being decoded
		addRotation := func(rk *aclrecordproto.AclReadKeyChange, where string) {
			if rk == nil {
				return
			}
			m.gens = append(m.gens, refGen{id: rw.Id, intro: i, encOld: rk.EncryptedOldReadKey})
			r := &rotation{rec: i, where: where, pos: pos}
			for _, ak := range rk.AccountKeys {
				r.gotAccounts = append(r.gotAccounts, idKey(ak.Identity))
				m.blobs = append(m.blobs, blob{"rotation-account", i, idKey(ak.Identity), ak.EncryptedReadKey})
			}
			for _, ik := range rk.InviteKeys {
				r.gotInvites = append(r.gotInvites, idKey(ik.Identity))
				m.blobs = append(m.blobs, blob{"rotation-invite", i, idKey(ik.Identity), ik.EncryptedReadKey})
			}
			sort.Strings(r.gotAccounts)
			sort.Strings(r.gotInvites)
			rots = append(rots, r)
		}
		for ci, c := range data.AclContent {
			pos = ci
			switch {
			case c.GetInvite() != nil:
				iv := c.GetInvite()
				open := iv.InviteType == aclrecordproto.AclInviteType_AnyoneCanJoin
				m.invites = append(m.invites, &refInvite{id: rw.Id, key: idKey(iv.InviteKey), open: open, perm: iv.Permissions, created: i, createdPos: ci, revoked: -1})
				if len(iv.EncryptedReadKey) > 0 {
					m.blobs = append(m.blobs, blob{"invite", i, idKey(iv.InviteKey), iv.EncryptedReadKey})
				}
			case c.GetInviteRevoke() != nil:
				if iv := m.invite(c.GetInviteRevoke().InviteRecordId); iv != nil && iv.revoked < 0 {
					iv.revoked = i
					nRevokes++
				}
			case c.GetInviteChange() != nil:
				if iv := m.invite(c.GetInviteChange().InviteRecordId); iv != nil {
					iv.perm = c.GetInviteChange().Permissions
				}
			case c.GetInviteJoin() != nil:
				j := c.GetInviteJoin()
				p := j.Permissions
				if iv := m.invite(j.InviteRecordId); iv != nil && p == None {
					p = iv.perm
				}
				who := m.names[idKey(j.Identity)]
				if who != "" && !m.everHad[who] {
					m.events["outsider-joined-by-open-invite"]++
				} else if who != "" {
					m.events["removed-account-rejoined-by-open-invite"]++
				}
				m.setPerm(who, p, i)
				m.blobs = append(m.blobs, blob{"invite-join", i, idKey(j.Identity), j.EncryptedReadKey})
			case c.GetRequestAccept() != nil:
				a := c.GetRequestAccept()
				m.setPerm(m.names[idKey(a.Identity)], a.Permissions, i)
				m.events["joined-by-request"]++
				m.blobs = append(m.blobs, blob{"accept", i, idKey(a.Identity), a.EncryptedReadKey})
			case c.GetAccountsAdd() != nil:
				for _, a := range c.GetAccountsAdd().Additions {
					if nm := m.names[idKey(a.Identity)]; nm != "" && m.everHad[nm] {
						m.readdByAdd[nm] = i
					}
					m.setPerm(m.names[idKey(a.Identity)], a.Permissions, i)
					m.blobs = append(m.blobs, blob{"add", i, idKey(a.Identity), a.EncryptedReadKey})
				}
			case c.GetAccountRemove() != nil:
				for _, id := range c.GetAccountRemove().Identities {
					m.setPerm(m.names[idKey(id)], None, i)
				}
				addRotation(c.GetAccountRemove().ReadKeyChange, "account-remove")
			case c.GetReadKeyChange() != nil:
				where := "stand-alone"
				if len(data.AclContent) > 1 {
					where = "batch"
				}
				addRotation(c.GetReadKeyChange(), where)
			case c.GetPermissionChange() != nil:
				pc := c.GetPermissionChange()
				m.setPerm(m.names[idKey(pc.Identity)], pc.Permissions, i)
			case c.GetPermissionChanges() != nil:
				for _, pc := range c.GetPermissionChanges().Changes {
					m.setPerm(m.names[idKey(pc.Identity)], pc.Permissions, i)
				}
			case c.GetOwnershipChange() != nil:
				oc := c.GetOwnershipChange()
				m.setPerm(author, oc.OldOwnerPermissions, i)
				m.setPerm(m.names[idKey(oc.NewOwnerIdentity)], Owner, i)
			case c.GetAccountRequestRemove() != nil:
				m.events["leave-request"]++
			}
		}
		for _, r := range rots {
			r.expAccounts = m.members()
			// an invite created by a later item of this same record carries its own copy of the read key: it is not
			// a recipient of a rotation that lands before it exists
			r.expInvites = m.liveOpenInviteKeysAt(i, r.pos)
			if nRevokes > 0 {
				m.events["revoke+rotate-batch"]++
			}
			m.rotations = append(m.rotations, *r)
		}
	}
	return m, nil
}

// ---- attacker ----------------------------------------------------------------------------------------

// attacker accumulates, incrementally along a history, the AES keys directly obtainable from the log's
// encrypted-read-key blobs: per pool account with its own private key (tried on EVERY blob, whatever recipient the
// record names), and with the private key of every invite ever created (tried on every blob as well).
type attacker struct {
	triedAcc int            // blobs already tried with the account keys
	triedInv map[string]int // invite record id -> blobs already tried with that invite's private key
	acc      map[string][]string
	inv      map[string][]string // invite record id -> raw AES keys obtained with that invite key
	attempts int64
}

func newAttacker() *attacker {
	return &attacker{triedInv: map[string]int{}, acc: map[string][]string{}, inv: map[string][]string{}}
}

func (a *attacker) fork() *attacker {
	n := newAttacker()
	n.triedAcc = a.triedAcc
	for k, v := range a.triedInv {
		n.triedInv[k] = v
	}
	for k, v := range a.acc {
		n.acc[k] = append([]string(nil), v...)
	}
	for k, v := range a.inv {
		n.inv[k] = append([]string(nil), v...)
	}
	return n
}

func tryBlob(k crypto.PrivKey, data []byte) (rawKey string, ok bool) {
	if len(data) < 48 {
		return "", false
	}
	var plain []byte
	var err error
	if p, _ := vk.Recover(func() { plain, err = k.Decrypt(data) }); p || err != nil {
		return "", false
	}
	sym, err := crypto.UnmarshallAESKeyProto(plain)
	if err != nil {
		return "", false
	}
	raw, err := sym.Raw()
	if err != nil {
		return "", false
	}
	return string(raw), true
}

func appendUniq(l []string, v string) []string {
	for _, x := range l {
		if x == v {
			return l
		}
	}
	return append(l, v)
}

// absorb tries the not yet tried (key, blob) pairs.
func (a *attacker) absorb(s *Sim, m *refModel) {
	for bi := a.triedAcc; bi < len(m.blobs); bi++ {
		for _, acc := range s.Accounts {
			a.attempts++
			if k, ok := tryBlob(acc.Keys.SignKey, m.blobs[bi].data); ok {
				a.acc[acc.Name] = appendUniq(a.acc[acc.Name], k)
			}
		}
	}
	a.triedAcc = len(m.blobs)
	for _, iv := range m.invites {
		priv := s.InviteKeys[iv.id]
		if priv == nil {
			continue
		}
		for bi := a.triedInv[iv.id]; bi < len(m.blobs); bi++ {
			a.attempts++
			if k, ok := tryBlob(priv, m.blobs[bi].data); ok {
				a.inv[iv.id] = appendUniq(a.inv[iv.id], k)
			}
		}
		a.triedInv[iv.id] = len(m.blobs)
	}
}

// closure returns the set of generation indexes (into m.gens) derivable from the start keys: a start key that IS
// the key of generation g (truth[g]) yields g; a derivable key decrypts every EncryptedOldReadKey it can (normally
// the one of its own generation), which yields an older key, and so on.
func closure(m *refModel, truth []string, start []string) map[int]bool {
	have := map[string]bool{}
	queue := append([]string(nil), start...)
	for _, k := range start {
		have[k] = true
	}
	for len(queue) > 0 {
		k := queue[0]
		queue = queue[1:]
		sym, err := crypto.UnmarshallAESKey([]byte(k))
		if err != nil {
			continue
		}
		for _, g := range m.gens {
			if len(g.encOld) == 0 {
				continue
			}
			plain, err := sym.Decrypt(g.encOld)
			if err != nil {
				continue
			}
			old, err := crypto.UnmarshallAESKeyProto(plain)
			if err != nil {
				continue
			}
			raw, _ := old.Raw()
			if !have[string(raw)] {
				have[string(raw)] = true
				queue = append(queue, string(raw))
			}
		}
	}
	out := map[int]bool{}
	for gi := range m.gens {
		if truth[gi] != "" && have[truth[gi]] {
			out[gi] = true
		}
	}
	return out
}

func genList(set map[int]bool) (out []int) {
	for g := range set {
		out = append(out, g)
	}
	sort.Ints(out)
	return
}
