// C05 — Read keys: members can always decrypt, removed accounts never can.
//
// Explicit-state search over MEMBERSHIP HISTORIES made of legit operations with real key material: every operation
// is built by the acting account's own record builder over its own fully validating view of the raw log, submitted
// to a validating observer, and after EVERY accepted record every pool account's private view is rebuilt from the
// raw log alone and judged (O1), the raw rotation records are judged (O2), and real object trees are written /
// re-read under every key generation (O3, tree_test.go). The reference side (who is a member, which generation was
// introduced when, what an attacker can derive) is computed from the decoded raw log only (ref_test.go).
package c05

import (
	"fmt"
	"sort"
	"strings"
	"sync"
	"testing"
	"time"

	"go.uber.org/zap"

	"github.com/anyproto/any-sync/app/logger"
	"github.com/anyproto/any-sync/commonspace/object/acl/aclrecordproto"
	"github.com/anyproto/any-sync/commonspace/object/acl/list"
	"github.com/anyproto/any-sync/commonspace/object/acl/recordverifier"
	"github.com/anyproto/any-sync/consensus/consensusproto"
	"github.com/anyproto/any-sync/util/crypto"

	. "verif/lib/aclsim"
	"verif/lib/vk"
)

var pool = []string{"O", "A", "P", "Q", "X"}

const maxInvites = 2

// Op is one legit operation of the alphabet (replayable: invites are named by creation slot).
type Op struct {
	K  string `json:"k"`            // invite-req invite-open request approve join add remove leave revoke-rotate revoke rotate perm
	By string `json:"by"`           // acting account
	T  string `json:"t,omitempty"`  // target account
	I  int    `json:"i,omitempty"`  // invite slot (creation order)
	P  string `json:"p,omitempty"`  // permission (add / perm)
	Cr string `json:"cr,omitempty"` // crafted adversarial variant (probes only)
}

func (o Op) String() string {
	s := o.K + " by " + o.By
	if o.T != "" {
		s += " " + o.T
	}
	if o.K == "request" || o.K == "join" || o.K == "revoke" || o.K == "revoke-rotate" {
		s += fmt.Sprintf(" invite#%d", o.I)
	}
	if o.P != "" {
		s += " " + o.P
	}
	if o.Cr != "" {
		s += " CRAFTED:" + o.Cr
	}
	return s
}

func opsString(ops []Op) string {
	var p []string
	for _, o := range ops {
		p = append(p, o.String())
	}
	return strings.Join(p, "; ")
}

func permByName(n string) Perm {
	for _, p := range AllPerms {
		if PermName(p) == n {
			return p
		}
	}
	return Writer
}

// noValidate is the client-side verifier shape: records are not re-validated and foreign account keys are dropped
// while decoding (keep-only-ours path). The acceptor signature is not modelled by aclsim.
type noValidate struct{}

func (noValidate) VerifyAcceptor(*consensusproto.RawRecord) error { return nil }
func (noValidate) ShouldValidate() bool                           { return false }

type node struct {
	seed   string
	sim    *Sim
	ops    []Op
	cuts   []int             // log length after each op
	invIds []string          // invite record id per slot
	known  map[string]string // generation record id -> raw AES key the harness itself generated for it
	att    *attacker
	depth  int
	key    string // state key
	abs    Abs    // observer-independent abstract state (set by judge)
	left   int    // remaining expansion depth
	sample bool
	tr     *treeTrack
}

func (n *node) fork() *node {
	c := &node{seed: n.seed, sim: n.sim.Fork(), depth: n.depth, left: n.left, att: n.att.fork(), known: map[string]string{}, tr: n.tr.fork()}
	c.ops = append(c.ops, n.ops...)
	c.cuts = append(c.cuts, n.cuts...)
	c.invIds = append(c.invIds, n.invIds...)
	for k, v := range n.known {
		c.known[k] = v
	}
	return c
}

func newRoot(seed int64) *node {
	return &node{seed: "root", sim: New(seed, pool...), att: newAttacker(), known: map[string]string{}}
}

func freshChange() list.ReadKeyChangePayload {
	mk, _, err := crypto.GenerateRandomEd25519KeyPair()
	if err != nil {
		panic(err)
	}
	return list.ReadKeyChangePayload{MetadataKey: mk, ReadKey: crypto.NewAES()}
}

func rawOf(k crypto.SymKey) string {
	r, err := k.Raw()
	if err != nil {
		panic(err)
	}
	return string(r)
}

var errNotApplicable = fmt.Errorf("not applicable")

// build lets the acting account build the operation's record with its own record builder over its own view.
func (n *node) build(op Op) (raw *consensusproto.RawRecord, invKey crypto.PrivKey, newKey crypto.SymKey, err error) {
	s := n.sim
	actor := s.Acc(op.By)
	view, err := s.View(actor, len(s.Log), recordverifier.NewValidateFull())
	if err != nil {
		return nil, nil, nil, fmt.Errorf("actor view: %w", err)
	}
	rb := view.RecordBuilder()
	inviteId := func() (string, crypto.PrivKey, error) {
		if op.I >= len(n.invIds) {
			return "", nil, errNotApplicable
		}
		return n.invIds[op.I], s.InviteKeys[n.invIds[op.I]], nil
	}
	switch op.K {
	case "invite-req":
		res, e := rb.BuildInvite()
		return res.InviteRec, res.InviteKey, nil, e
	case "invite-open":
		res, e := rb.BuildInviteAnyone(list.AclPermissions(Writer))
		return res.InviteRec, res.InviteKey, nil, e
	case "request":
		_, k, e := inviteId()
		if e != nil {
			return nil, nil, nil, e
		}
		raw, err = rb.BuildRequestJoin(list.RequestJoinPayload{InviteKey: k, Metadata: []byte("meta-" + op.By)})
	case "join":
		_, k, e := inviteId()
		if e != nil {
			return nil, nil, nil, e
		}
		raw, err = rb.BuildInviteJoinWithoutApprove(list.InviteJoinPayload{InviteKey: k, Permissions: list.AclPermissions(Writer), Metadata: []byte("meta-" + op.By)})
	case "approve":
		recs, _ := view.AclState().JoinRecords(false)
		id := ""
		for _, r := range recs {
			if r.RequestIdentity.Equals(s.Acc(op.T).Pub()) {
				id = r.RecordId
			}
		}
		if id == "" {
			return nil, nil, nil, errNotApplicable
		}
		raw, err = rb.BuildRequestAccept(list.RequestAcceptPayload{RequestRecordId: id, Permissions: list.AclPermissions(Writer)})
	case "add":
		p := Reader
		if op.P != "" {
			p = permByName(op.P)
		}
		raw, err = rb.BuildAccountsAdd(list.AccountsAddPayload{Additions: []list.AccountAdd{{Identity: s.Acc(op.T).Pub(), Permissions: list.AclPermissions(p), Metadata: []byte("meta-" + op.T)}}})
	case "remove":
		ch := freshChange()
		newKey = ch.ReadKey
		raw, err = rb.BuildAccountRemove(list.AccountRemovePayload{Identities: []crypto.PubKey{s.Acc(op.T).Pub()}, Change: ch})
	case "remove-revoke":
		// one batch record: removal (which rotates) together with the revoke of an invite
		id, _, e := inviteId()
		if e != nil {
			return nil, nil, nil, e
		}
		ch := freshChange()
		newKey = ch.ReadKey
		var res list.BatchResult
		res, err = rb.BuildBatchRequest(list.BatchRequestPayload{Removals: list.AccountRemovePayload{Identities: []crypto.PubKey{s.Acc(op.T).Pub()}, Change: ch}, InviteRevokes: []string{id}})
		raw = res.Rec
	case "remove-invite-open":
		// one batch record: removal (which rotates) together with a new anyone-can-join invite
		ch := freshChange()
		newKey = ch.ReadKey
		var res list.BatchResult
		res, err = rb.BuildBatchRequest(list.BatchRequestPayload{Removals: list.AccountRemovePayload{Identities: []crypto.PubKey{s.Acc(op.T).Pub()}, Change: ch}, NewInvites: []list.AclPermissions{list.AclPermissions(Writer)}})
		if err == nil && len(res.Invites) == 1 {
			return res.Rec, res.Invites[0], newKey, nil
		}
		raw = res.Rec
	case "leave":
		raw, err = rb.BuildRequestRemove()
	case "revoke-rotate":
		id, _, e := inviteId()
		if e != nil {
			return nil, nil, nil, e
		}
		ch := freshChange()
		newKey = ch.ReadKey
		var res list.BatchResult
		res, err = rb.BuildBatchRequest(list.BatchRequestPayload{InviteRevokes: []string{id}, ReadKeyChange: &ch})
		raw = res.Rec
	case "revoke":
		id, _, e := inviteId()
		if e != nil {
			return nil, nil, nil, e
		}
		raw, err = rb.BuildInviteRevoke(id)
	case "rotate":
		ch := freshChange()
		newKey = ch.ReadKey
		raw, err = rb.BuildReadKeyChange(ch)
	case "perm":
		raw, err = rb.BuildPermissionChange(list.PermissionChangePayload{Identity: s.Acc(op.T).Pub(), Permissions: list.AclPermissions(permByName(op.P))})
	default:
		panic("unknown op " + op.K)
	}
	return raw, nil, newKey, err
}

// apply returns the successor node, or an error when the builder refuses / the validating observer rejects.
func (n *node) apply(c *vk.Ctx, op Op) (*node, error) {
	var (
		raw    *consensusproto.RawRecord
		invKey crypto.PrivKey
		newKey crypto.SymKey
		err    error
	)
	if p, what := vk.Recover(func() { raw, invKey, newKey, err = n.build(op) }); p {
		return nil, fmt.Errorf("builder panic: %s", what)
	}
	c.Count("executions", 1)
	if err != nil {
		return nil, err
	}
	if raw == nil {
		return nil, fmt.Errorf("builder returned no record")
	}
	ch := n.fork()
	var rec *consensusproto.RawRecordWithId
	if p, what := vk.Recover(func() { rec, err = ch.sim.Submit(raw) }); p {
		return nil, fmt.Errorf("submit panic: %s", what)
	}
	c.Count("executions", 1)
	if err != nil {
		return nil, fmt.Errorf("observer rejected: %w", err)
	}
	if invKey != nil {
		ch.sim.InviteKeys[rec.Id] = invKey
		ch.invIds = append(ch.invIds, rec.Id)
	}
	if newKey != nil {
		ch.known[rec.Id] = rawOf(newKey)
	}
	ch.ops = append(ch.ops, op)
	ch.cuts = append(ch.cuts, len(ch.sim.Log))
	ch.depth = n.depth + 1
	ch.left = n.left - 1
	return ch, nil
}

// enabled enumerates the alphabet in a state (builder refusals are filtered later by apply).
func enabled(n *node, m *refModel, abs Abs, thorough bool) (out []Op) {
	var managers, members, outsiders []string
	for _, name := range pool {
		p := m.perm[name]
		switch {
		case p == Owner || p == Admin:
			managers = append(managers, name)
			members = append(members, name)
		case p != None:
			members = append(members, name)
		default:
			outsiders = append(outsiders, name)
		}
	}
	pending := map[string]bool{}
	for _, r := range abs.Requests {
		pending[fmt.Sprint(r.Who, r.Join)] = true
	}
	type slot struct {
		i    int
		open bool
	}
	var live []slot
	for i, id := range n.invIds {
		if iv := m.invite(id); iv != nil && iv.revoked < 0 {
			live = append(live, slot{i, iv.open})
		}
	}
	for _, by := range managers {
		if len(n.invIds) < maxInvites {
			out = append(out, Op{K: "invite-req", By: by}, Op{K: "invite-open", By: by})
		}
		for _, y := range outsiders {
			out = append(out, Op{K: "add", By: by, T: y})
			if m.everHad[y] {
				// a permission change naming an account that holds none any more (it was removed or left)
				out = append(out, Op{K: "perm", By: by, T: y, P: PermName(Writer)})
			}
			if pending[fmt.Sprint(y, true)] {
				out = append(out, Op{K: "approve", By: by, T: y})
			}
		}
		for _, y := range members {
			if y != by && m.perm[y] != Owner {
				out = append(out, Op{K: "remove", By: by, T: y})
				if len(n.invIds) < maxInvites {
					out = append(out, Op{K: "remove-invite-open", By: by, T: y})
				}
				{
					for _, sl := range live {
						out = append(out, Op{K: "remove-revoke", By: by, T: y, I: sl.i})
					}
				}
			}
			if thorough && y != by && (m.perm[y] == Writer || m.perm[y] == Reader) {
				np := Writer
				if m.perm[y] == Writer {
					np = Reader
				}
				out = append(out, Op{K: "perm", By: by, T: y, P: PermName(np)})
			}
			if y != by && (m.perm[y] == Writer || m.perm[y] == Reader) {
				// a permission change down to no permission at all (a removal spelled as a permission change)
				out = append(out, Op{K: "perm", By: by, T: y, P: PermName(None)})
			}
		}
		for _, sl := range live {
			out = append(out, Op{K: "revoke-rotate", By: by, I: sl.i}, Op{K: "revoke", By: by, I: sl.i})
		}
		out = append(out, Op{K: "rotate", By: by})
	}
	for _, y := range outsiders {
		for _, sl := range live {
			if sl.open {
				out = append(out, Op{K: "join", By: y, I: sl.i})
			} else if !pending[fmt.Sprint(y, true)] {
				out = append(out, Op{K: "request", By: y, I: sl.i})
			}
		}
	}
	for _, y := range members {
		if m.perm[y] != Owner && !pending[fmt.Sprint(y, false)] {
			out = append(out, Op{K: "leave", By: y})
		}
	}
	return
}

// ---- judgement (O1, O2) ----------------------------------------------------------------------------------

type shared struct {
	mu      sync.Mutex
	reached map[string]bool
	samples int
}

func (sh *shared) mark(f string) {
	sh.mu.Lock()
	sh.reached[f] = true
	sh.mu.Unlock()
}

func short(id string) string {
	if len(id) > 8 {
		return id[len(id)-8:]
	}
	return id
}

// stateKey = abstract state of the observer + what matters for key exposure that the abstract state forgets.
func stateKey(n *node, m *refModel, abs Abs) string {
	k := abs.Canon() + " | since-loss:"
	for _, name := range pool {
		if m.perm[name] != None {
			continue
		}
		if !m.everHad[name] {
			k += " " + name + "=never"
			continue
		}
		cnt := 0
		for _, g := range m.gens {
			if g.intro >= m.lastLoss[name] {
				cnt++
			}
		}
		k += fmt.Sprintf(" %s=%d", name, cnt)
	}
	k += " | slots:"
	for _, id := range n.invIds {
		iv := m.invite(id)
		if iv == nil {
			k += " ?"
			continue
		}
		t := "req"
		if iv.open {
			t = "open"
		}
		if iv.revoked < 0 {
			k += " " + t + "/live"
			continue
		}
		cnt := 0
		for _, g := range m.gens {
			if g.intro >= iv.revoked {
				cnt++
			}
		}
		k += fmt.Sprintf(" %s/revoked+%d", t, cnt)
	}
	return k
}

type verdict struct {
	m     *refModel
	abs   Abs
	key   string
	truth []string
	bad   bool
}

// judge evaluates O1 and O2 on the node's log; records with index >= firstNew are new in this step.
func judge(c *vk.Ctx, sh *shared, n *node, firstNew int) (v verdict) {
	s := n.sim
	replay := map[string]any{"seed": n.seed, "ops": n.ops}
	where := fmt.Sprintf("history from %q: [%s]", n.seed, opsString(n.ops))
	viol := func(key, f string, a ...any) {
		v.bad = true
		c.Violation(key, where+": "+fmt.Sprintf(f, a...), replay)
	}
	m, err := walk(s)
	if err != nil {
		c.Broken("reference walk failed on %s: %v", where, err)
		v.bad = true
		return
	}
	v.m = m
	n.att.absorb(s, m)
	ngens := len(m.gens)
	lastGen := m.gens[ngens-1].id

	// every account's private views
	type views struct {
		full, light *list.AclState
	}
	vs := map[string]views{}
	for _, name := range pool {
		acc := s.Acc(name)
		var x views
		for vi, ver := range []recordverifier.AcceptorVerifier{recordverifier.NewValidateFull(), noValidate{}} {
			var l list.AclList
			var err error
			if p, what := vk.Recover(func() { l, err = ViewOf(acc.Keys, s.Log, ver) }); p {
				err = fmt.Errorf("panic: %s", what)
			}
			c.Count("executions", 1)
			kind := [...]string{"validating", "non-validating"}[vi]
			if err != nil {
				if m.perm[name] != None {
					viol("view-build-fails:member:"+kind, "%s (%s) cannot build its %s view from the raw log: %v", name, PermName(m.perm[name]), kind, err)
				} else {
					// the property says nothing about what an account without permission can build: noted, not judged
					c.Count("non_member_view_build_failures", 1)
					c.Note("%s: %s (no permission) cannot build its %s view: %v", where, name, kind, err)
				}
				continue
			}
			if vi == 0 {
				x.full = l.AclState()
			} else {
				x.light = l.AclState()
			}
		}
		vs[name] = x
	}

	// observer-independent state (taken from the owner's validating view: accounts, invites, requests do not depend on
	// whose view it is) for enumeration / dedup, and a cross-check of the reference model against the implementation
	ov := vs["O"].full
	if ov == nil {
		return
	}
	v.abs = s.Abstract(ov)
	for _, name := range pool {
		if got := Perm(ov.Permissions(s.Acc(name).Pub())); got != m.perm[name] {
			viol("reference-model-divergence:permissions", "%s: implementation says %s, decoded log says %s", name, PermName(got), PermName(m.perm[name]))
		}
	}
	if got := ov.CurrentReadKeyId(); got != lastGen {
		viol("reference-model-divergence:current-read-key-id", "implementation says %s, decoded log says %s", short(got), short(lastGen))
	}

	// ground truth generation -> key: what the harness generated itself, else the creator's (O's) view
	truth := make([]string, ngens)
	for gi, g := range m.gens {
		truth[gi] = n.known[g.id]
		{
			if k := ov.Keys()[g.id].ReadKey; k != nil {
				if truth[gi] == "" {
					truth[gi] = rawOf(k)
				} else if truth[gi] != rawOf(k) {
					viol("member-view-wrong-key:Owner", "O's view holds a key for generation %d that is not the key the rotation was built with", gi)
				}
			}
		}
	}

	v.truth = truth

	allInv := []string{}
	for _, iv := range m.invites {
		allInv = append(allInv, n.att.inv[iv.id]...)
	}
	excused := func(g refGen) bool {
		for _, iv := range m.invites {
			if iv.open && (iv.revoked < 0 || g.intro < iv.revoked) {
				return true
			}
		}
		return false
	}
	anyRevokedOpen := false
	for _, iv := range m.invites {
		anyRevokedOpen = anyRevokedOpen || (iv.open && iv.revoked >= 0)
	}

	for _, name := range pool {
		c.Count("evaluations", 1)
		own := closure(m, truth, n.att.acc[name])
		if m.perm[name] != None {
			// ---- member: can derive everything, from its view and in principle
			role := PermName(m.perm[name])
			for vi, st := range []*list.AclState{vs[name].full, vs[name].light} {
				if st == nil {
					continue
				}
				kind := [...]string{"validating", "non-validating"}[vi]
				if st.CurrentReadKeyId() != lastGen {
					viol("member-view-wrong-current-key-id:"+kind, "%s (%s): CurrentReadKeyId %s, expected %s", name, role, short(st.CurrentReadKeyId()), short(lastGen))
				}
				for gi, g := range m.gens {
					age := "earlier"
					if gi == ngens-1 {
						age = "current"
					}
					k := st.Keys()[g.id].ReadKey
					if k == nil {
						viol("member-view-missing-key:"+age+":"+kind, "%s (%s) is a member but its %s view has no read key for generation %d/%d (record %s)", name, role, kind, gi+1, ngens, short(g.id))
						continue
					}
					if truth[gi] != "" && rawOf(k) != truth[gi] {
						viol("member-view-wrong-key:"+age+":"+kind, "%s (%s): %s view's read key of generation %d/%d differs from the owner's", name, role, kind, gi+1, ngens)
					}
				}
			}
			if len(own) != ngens {
				viol("member-cannot-derive-key", "%s (%s) is a member but only generations %v of %d are derivable from the raw log with its private key", name, role, genList(own), ngens)
			}
			c.Distinct("distinct", v.abs.Canon()+"|"+name+"|member")
			continue
		}
		// ---- non-member
		forbidden := map[int]bool{}
		for gi, g := range m.gens {
			if !m.everHad[name] || g.intro >= m.lastLoss[name] {
				forbidden[gi] = true
			}
		}
		status := "never-admitted"
		if m.everHad[name] {
			status = "removed"
		}
		for gi := range forbidden {
			if own[gi] {
				viol("non-member-derives-key:own-private-key:"+status, "%s (%s, last lost permission at record %d) derives generation %d/%d (introduced at record %d) with its own private key; derivable: %v",
					name, status, m.lastLoss[name], gi+1, ngens, m.gens[gi].intro, genList(own))
			}
			for vi, st := range []*list.AclState{vs[name].full, vs[name].light} {
				if st != nil && st.Keys()[m.gens[gi].id].ReadKey != nil {
					viol("non-member-view-holds-key:"+status, "%s (%s): view %d holds the read key of generation %d/%d introduced at record %d, after it lost access at record %d", name, status, vi, gi+1, ngens, m.gens[gi].intro, m.lastLoss[name])
				}
			}
		}
		// with every invite key ever handed out
		all := closure(m, truth, append(append([]string{}, n.att.acc[name]...), allInv...))
		judged := 0
		for gi := range forbidden {
			if excused(m.gens[gi]) {
				continue
			}
			judged++
			if all[gi] && !own[gi] {
				viol("non-member-derives-key:retired-invite-key:"+status, "%s (%s) holding the invite keys derives generation %d/%d, introduced at record %d when every open invite was already revoked (invites: %s)",
					name, status, gi+1, ngens, m.gens[gi].intro, inviteDesc(m))
			}
		}
		if judged > 0 && anyRevokedOpen {
			sh.mark("holder-of-revoked-open-invite-judged")
			if len(all) > len(own) {
				sh.mark("revoked-invite-key-still-opens-older-generations")
			}
		}
		if m.everHad[name] && len(own) >= 1 && len(forbidden) >= 1 {
			sh.mark("removed-keeps-old-loses-new")
		}
		if !m.everHad[name] && len(forbidden) == ngens {
			sh.mark("never-admitted-judged")
		}
		c.Distinct("distinct", fmt.Sprintf("%s|%s|%s|keeps=%d|forbidden=%d|unexcused=%d", v.abs.Canon(), name, status, len(own), len(forbidden), judged))
	}

	// ---- O2: raw rotation records
	for _, r := range m.rotations {
		if r.rec < firstNew {
			continue
		}
		c.Count("rotations_judged", 1)
		nameSet := func(keys []string) string {
			var out []string
			for _, k := range keys {
				if nm, ok := m.names[k]; ok {
					out = append(out, nm)
				} else {
					out = append(out, "key:"+short(fmt.Sprintf("%x", k)))
				}
			}
			return "{" + strings.Join(out, ",") + "}"
		}
		if strings.Join(r.gotAccounts, "|") != strings.Join(r.expAccounts, "|") {
			viol("rotation-recipients:accounts:"+r.where, "record %d (%s rotation) addresses accounts %s, the accounts holding a permission after it are %s", r.rec, r.where, nameSet(r.gotAccounts), nameSet(r.expAccounts))
		}
		if strings.Join(r.gotInvites, "|") != strings.Join(r.expInvites, "|") {
			viol("rotation-recipients:invites:"+r.where, "record %d (%s rotation) addresses %d invite keys %s, the live anyone-can-join invites after it are %s", r.rec, r.where, len(r.gotInvites), nameSet(r.gotInvites), nameSet(r.expInvites))
		}
	}

	for ev, cnt := range m.events {
		if cnt > 0 {
			sh.mark(ev)
		}
	}
	if ngens >= 3 {
		sh.mark("three-generations")
	}
	v.key = stateKey(n, m, v.abs)
	n.key, n.abs = v.key, v.abs
	return
}

func inviteDesc(m *refModel) string {
	var p []string
	for i, iv := range m.invites {
		t := "request"
		if iv.open {
			t = "open"
		}
		st := "live"
		if iv.revoked >= 0 {
			st = fmt.Sprintf("revoked@%d", iv.revoked)
		}
		p = append(p, fmt.Sprintf("#%d %s created@%d %s", i, t, iv.created, st))
	}
	return strings.Join(p, ", ")
}

// ---- crafted adversarial rotations (must be rejected; if accepted the oracles above speak) ------------------

func realRotation(cur crypto.SymKey, accounts []crypto.PubKey, invites []crypto.PubKey) *aclrecordproto.AclReadKeyChange {
	ch := freshChange()
	proto, _ := ch.ReadKey.Marshall()
	rk := &aclrecordproto.AclReadKeyChange{}
	for _, a := range accounts {
		id, _ := a.Marshall()
		enc, err := a.Encrypt(proto)
		if err != nil {
			panic(err)
		}
		rk.AccountKeys = append(rk.AccountKeys, &aclrecordproto.AclEncryptedReadKey{Identity: id, EncryptedReadKey: enc})
	}
	for _, a := range invites {
		id, _ := a.Marshall()
		enc, err := a.Encrypt(proto)
		if err != nil {
			panic(err)
		}
		rk.InviteKeys = append(rk.InviteKeys, &aclrecordproto.AclEncryptedReadKey{Identity: id, EncryptedReadKey: enc})
	}
	rk.MetadataPubKey, _ = ch.MetadataKey.GetPublic().Marshall()
	mkProto, _ := ch.MetadataKey.Marshall()
	rk.EncryptedMetadataPrivKey, _ = ch.ReadKey.Encrypt(mkProto)
	curProto, _ := cur.Marshall()
	rk.EncryptedOldReadKey, _ = ch.ReadKey.Encrypt(curProto)
	return rk
}

type probe struct {
	op       Op
	contents []*aclrecordproto.AclContentValue
}

// probes builds hand-signed rotations by the owner whose recipient sets are wrong (real ciphertexts throughout).
func probes(n *node, m *refModel) (out []probe) {
	s := n.sim
	view, err := s.View(s.Acc("O"), len(s.Log), recordverifier.NewValidateFull())
	if err != nil {
		return nil
	}
	cur, err := view.AclState().CurrentReadKey()
	if err != nil || cur == nil {
		return nil
	}
	var members, outsiders []*Account
	for _, name := range pool {
		if m.perm[name] != None {
			members = append(members, s.Acc(name))
		} else {
			outsiders = append(outsiders, s.Acc(name))
		}
	}
	pubs := func(as []*Account, skip, add *Account) (out []crypto.PubKey) {
		for _, a := range as {
			if a != skip {
				out = append(out, a.Pub())
			}
		}
		if add != nil {
			out = append(out, add.Pub())
		}
		return
	}
	var liveOpen []crypto.PubKey
	var liveOpenIds []string
	for _, id := range n.invIds {
		if iv := m.invite(id); iv != nil && iv.open && iv.revoked < 0 {
			liveOpen = append(liveOpen, s.InviteKeys[id].GetPublic())
			liveOpenIds = append(liveOpenIds, id)
		}
	}
	rot := func(rk *aclrecordproto.AclReadKeyChange) *aclrecordproto.AclContentValue { return CReadKeyChange(rk) }
	if len(members) > 1 && len(outsiders) > 0 {
		victim := members[len(members)-1]
		out = append(out, probe{Op{K: "rotate", By: "O", T: victim.Name, Cr: "member-replaced-by-non-member"},
			[]*aclrecordproto.AclContentValue{rot(realRotation(cur, pubs(members, victim, outsiders[0]), liveOpen))}})
	}
	if len(members) > 1 {
		victim := members[len(members)-1]
		out = append(out, probe{Op{K: "rotate", By: "O", T: victim.Name, Cr: "member-omitted"},
			[]*aclrecordproto.AclContentValue{rot(realRotation(cur, pubs(members, victim, nil), liveOpen))}})
	}
	if len(outsiders) > 0 {
		out = append(out, probe{Op{K: "rotate", By: "O", T: outsiders[0].Name, Cr: "extra-non-member"},
			[]*aclrecordproto.AclContentValue{rot(realRotation(cur, pubs(members, nil, outsiders[0]), liveOpen))}})
	}
	if len(members) > 2 {
		// remove members[1] but keep addressing it, dropping members[2] instead
		rm, dropped := members[1], members[2]
		keep := pubs(members, dropped, nil)
		out = append(out, probe{Op{K: "remove", By: "O", T: rm.Name, Cr: "removed-still-addressed-instead-of-" + dropped.Name},
			[]*aclrecordproto.AclContentValue{CAccountRemove(realRotation(cur, keep, liveOpen), rm)}})
	}
	if len(members) == 2 {
		rm := members[1]
		out = append(out, probe{Op{K: "remove", By: "O", T: rm.Name, Cr: "removed-addressed-instead-of-owner"},
			[]*aclrecordproto.AclContentValue{CAccountRemove(realRotation(cur, []crypto.PubKey{rm.Pub()}, liveOpen), rm)}})
	}
	if len(liveOpen) > 0 {
		_, stranger, _ := crypto.GenerateRandomEd25519KeyPair()
		repl := append(append([]crypto.PubKey{}, liveOpen[1:]...), stranger)
		out = append(out, probe{Op{K: "rotate", By: "O", Cr: "live-invite-replaced-by-foreign-key"},
			[]*aclrecordproto.AclContentValue{rot(realRotation(cur, pubs(members, nil, nil), repl))}})
		out = append(out, probe{Op{K: "rotate", By: "O", Cr: "live-invite-omitted"},
			[]*aclrecordproto.AclContentValue{rot(realRotation(cur, pubs(members, nil, nil), liveOpen[1:]))}})
		// revoke + rotate in one record, the rotation still addressing the revoked invite
		out = append(out, probe{Op{K: "revoke-rotate", By: "O", Cr: "rotation-still-addresses-revoked-invite"},
			[]*aclrecordproto.AclContentValue{CInviteRevoke(liveOpenIds[0]), rot(realRotation(cur, pubs(members, nil, nil), liveOpen))}})
		if len(liveOpen) > 1 {
			out = append(out, probe{Op{K: "revoke-rotate", By: "O", Cr: "rotation-addresses-revoked-invite-instead-of-live-one"},
				[]*aclrecordproto.AclContentValue{CInviteRevoke(liveOpenIds[0]), rot(realRotation(cur, pubs(members, nil, nil), liveOpen[:1]))}})
		}
	}
	return
}

func runProbes(c *vk.Ctx, sh *shared, n *node, m *refModel) {
	for _, p := range probes(n, m) {
		ch := n.fork()
		raw := ch.sim.Craft(ch.sim.Acc("O"), ch.sim.HeadId(), p.contents...)
		var err error
		if pn, what := vk.Recover(func() { _, err = ch.sim.Submit(raw) }); pn {
			err = fmt.Errorf("panic: %s", what)
		}
		c.Count("executions", 1)
		c.Count("crafted_rotations_offered", 1)
		if err != nil {
			continue
		}
		c.Count("crafted_rotations_accepted", 1)
		ch.ops = append(ch.ops, p.op)
		ch.cuts = append(ch.cuts, len(ch.sim.Log))
		c.Count("transitions", 1)
		judge(c, sh, ch, len(n.sim.Log))
	}
}

// ---- search -------------------------------------------------------------------------------------------------

var seedScripts = map[string][]Op{
	"root": nil,
	"team": {{K: "add", By: "O", T: "A", P: "Admin"}, {K: "add", By: "O", T: "P", P: "Writer"}, {K: "add", By: "A", T: "Q", P: "Reader"}},
	"rich": {{K: "add", By: "O", T: "A", P: "Admin"}, {K: "add", By: "O", T: "P", P: "Writer"}, {K: "add", By: "A", T: "Q", P: "Reader"},
		{K: "invite-open", By: "A"}, {K: "join", By: "X", I: 0}, {K: "remove", By: "O", T: "P"}, {K: "invite-req", By: "O"}, {K: "request", By: "P", I: 1}},
}

// scripted full-length histories (every step judged, with trees): the listed kinds of the property in one run each.
var scripted = map[string][]Op{
	"all-kinds": {
		{K: "add", By: "O", T: "A", P: "Admin"}, {K: "invite-req", By: "A"}, {K: "request", By: "P", I: 0}, {K: "approve", By: "O", T: "P"},
		{K: "invite-open", By: "O"}, {K: "join", By: "X", I: 1}, {K: "add", By: "A", T: "Q", P: "Reader"},
		{K: "remove", By: "A", T: "P"}, {K: "leave", By: "Q"}, {K: "remove", By: "O", T: "Q"},
		{K: "revoke-rotate", By: "O", I: 1}, {K: "rotate", By: "A"}, {K: "add", By: "O", T: "P", P: "Writer"}, {K: "remove", By: "O", T: "X"},
		{K: "request", By: "X", I: 0}, {K: "rotate", By: "O"}, {K: "approve", By: "A", T: "X"},
	},
	"open-invite-lifecycle": {
		{K: "invite-open", By: "O"}, {K: "join", By: "P", I: 0}, {K: "rotate", By: "O"}, {K: "join", By: "Q", I: 0}, {K: "remove", By: "O", T: "P"},
		{K: "join", By: "P", I: 0}, {K: "remove", By: "O", T: "P"}, {K: "revoke", By: "O", I: 0}, {K: "rotate", By: "O"}, {K: "invite-open", By: "O"},
		{K: "revoke-rotate", By: "O", I: 1}, {K: "add", By: "O", T: "X", P: "Writer"}, {K: "remove", By: "O", T: "Q"},
	},
}

// runScript applies ops one by one from the root, judging (and writing / reading the tree) after every step.
func runScript(c *vk.Ctx, sh *shared, name string, ops []Op, mustApply bool) *node {
	n := newRoot(c.Seed)
	live := newLiveWriter(c, n.sim)
	defer live.close()
	if v := judge(c, sh, n, 0); v.m != nil && v.truth != nil {
		treeStep(c, sh, n, v.m, v.truth, true)
		live.step(c, n, v.m, v.truth)
	}
	for i, op := range ops {
		ch, err := n.apply(c, op)
		if err != nil {
			if mustApply && c.NViolations() == 0 {
				c.Broken("scripted history %q: step %d {%s} not applicable: %v", name, i, op, err)
			} else {
				c.Note("history %q: step %d {%s} not applicable: %v", name, i, op, err)
			}
			return n
		}
		c.Count("transitions", 1)
		if v := judge(c, sh, ch, len(n.sim.Log)); v.m != nil && v.truth != nil {
			treeStep(c, sh, ch, v.m, v.truth, true)
			live.step(c, ch, v.m, v.truth)
		}
		n = ch
	}
	return n
}

func TestCheck(t *testing.T) {
	logger.SetDefault(zap.NewNop())
	logger.SetNamedLevels(logger.LevelsFromStr("*=fatal"))
	vk.Main(t, vk.Spec{
		Prop:  "C05",
		Level: "model_checking",
		Rule: "explicit-state BFS over membership histories of a shareable space; every operation is built by the acting account's own real record builder over its own validating view of the raw log (real keys, real ciphertexts) and submitted to a validating non-member observer: " +
			"invite (request / open), join request, approve, join by open invite, direct add, remove with rotation, leave request (+ removal), invite revoke with rotation (one batch record), plain revoke, stand-alone rotation, re-add / re-join of removed accounts, permission change naming a former member, permission change down to None, removal + invite revoke in one batch record, removal + new open invite in one batch record (thorough: also Reader<->Writer permission changes); owner and admin both act. " +
			"BFS from 3 seed states (root with the owner only; team O+A+P+Q; rich: + open invite used by X, P removed under a 2nd generation, request invite with P's pending request) to the per-seed depth, plus 2 scripted 13/17-step histories covering every kind; level-synchronous, deterministic dedup. " +
			"After EVERY accepted record all 5 accounts' private views (validating and client-style non-validating / keep-only-ours decode) are rebuilt from the raw log alone and compared with a reference computed from the hand-decoded raw records only (membership, generations, last loss of permission, attacker closure over every encrypted-read-key blob and the backward EncryptedOldReadKey chain); every AclReadKeyChange of the new record is compared with the exact member / live-open-invite sets after it; " +
			"in every expanded state hand-signed rotations with real ciphertexts but wrong recipient sets (member swapped for non-member, member omitted, extra non-member, removed account still addressed, live invite replaced / omitted, revoked invite still addressed) are offered and must be rejected; " +
			"real encrypted object trees (authors rotate among owner / admin / writers; every 4th change a snapshot) are written and re-read by every account over its own ACL view after every step of the scripted and seed histories (writer on a real any-store database incl. a scan of the database files, plus a long-lived owner replica whose list and tree persist across all ACL changes) and on every BFS path up to the tree depth (in-memory storage); ChangeBuilder.Build is enumerated over 24 payload shapes. " +
			"states = distinct (abstract ACL state + generations since each non-member's loss + invite slot status); transitions = accepted operations; distinct_nontrivial = distinct (abstract state, account, status class, #generations kept / forbidden / judged against invite keys)",
		Assumptions: []string{
			"pool of 5 accounts (owner O, admin A, members P and Q, outsider X), at most 2 invites per history; builder timestamps, keys and nonces are random, only semantics are compared (counts are identical between runs)",
			"invite links are assumed to have been handed to EVERY pool account: each invite private key is tried on every blob for every non-member; generations that an anyone-can-join invite exposes by design (every generation introduced before that invite's revoke record: through InviteKeys while it is live and through the backward chain for older ones) are not held against its holders, generations introduced by the revoking record itself or later are",
			"a non-member's own private key is tried on every encrypted-read-key blob of the log, whatever recipient the record names; with its own key alone it must derive NO generation introduced at or after its last loss of permission (none at all if never admitted), whatever invites are live",
			"only read keys are compared (metadata keys are not part of the statement); a non-member failing to build its list is counted, not judged; tree ciphertext may be under the named generation's key or its per-tree derivation, and must not open under any other generation's",
			"the readers' trees and the writers' trees on BFS paths use a plain in-memory objecttree.Storage written for this check (it keeps exactly the bytes the tree hands to its storage); the stored-bytes claims on real any-store files are judged along the scripted and seed histories (generation counts 1..7)",
		},
		Budget: func(tier string) time.Duration {
			if tier == "quick" {
				return 80 * time.Second
			}
			return 18 * time.Minute
		},
	}, body)
}

func body(c *vk.Ctx) {
	sh := &shared{reached: map[string]bool{}}
	if c.Replay != "" {
		var rf struct {
			Case struct {
				Seed string `json:"seed"`
				Ops  []Op   `json:"ops"`
			} `json:"case"`
		}
		if err := vk.ReadJSON(c.Replay, &rf); err != nil {
			c.Broken("replay file: %v", err)
			return
		}
		ops := append(append([]Op{}, seedScripts[rf.Case.Seed]...), rf.Case.Ops...)
		if rf.Case.Seed == "root" || rf.Case.Seed == "" {
			ops = rf.Case.Ops
		}
		var legit []Op
		for _, o := range ops {
			if o.Cr != "" {
				c.Note("replay: crafted step {%s} is re-offered through the probes of the state before it", o)
				break
			}
			legit = append(legit, o)
		}
		n := runScript(c, sh, "replay", legit, false)
		if v := judge(c, sh, n, len(n.sim.Log)); v.m != nil {
			runProbes(c, sh, n, v.m)
		}
		builderChecks(c, sh)
		c.DistinctH("states", 1)
		return
	}

	seedDepth := vk.Pick(c, map[string]int{"root": 4, "team": 3, "rich": 3}, map[string]int{"root": 6, "team": 5, "rich": 4})
	treeDepth := vk.Pick(c, 2, 3)
	c.Bound("depth_from_seed", seedDepth)
	c.Bound("tree_oracle_on_every_path_up_to_depth", treeDepth)
	c.Bound("accounts", len(pool))
	c.Bound("max_invites_per_history", maxInvites)

	// scripted histories with trees
	var names []string
	for name := range scripted {
		names = append(names, name)
	}
	sort.Strings(names)
	for _, name := range names {
		n := runScript(c, sh, name, scripted[name], true)
		c.Sample(map[string]any{"scripted_history": name, "ops": opsString(scripted[name]), "records": len(n.sim.Log)})
	}
	builderChecks(c, sh)

	// BFS from every seed
	seen := map[string]bool{}
	var seedNames []string
	for name := range seedScripts {
		seedNames = append(seedNames, name)
	}
	sort.Strings(seedNames)
	var frontier []*node
	for _, name := range seedNames {
		n := runScript(c, sh, "seed "+name, seedScripts[name], true)
		n.seed, n.ops, n.depth, n.left = name, nil, 0, seedDepth[name]
		n.cuts = nil
		if v := judge(c, sh, n, len(n.sim.Log)); v.key == "" {
			if c.NViolations() == 0 {
				c.Broken("seed %s cannot be judged", name)
			}
			return
		}
		if !seen[n.key] {
			seen[n.key] = true
			c.Distinct("states", n.key)
			frontier = append(frontier, n)
		}
	}
	c.Bound("seed_states", len(frontier))
	exhaustive := true
	for level := 0; len(frontier) > 0 && exhaustive; level++ {
		var mu sync.Mutex
		var next []*node
		var wg sync.WaitGroup
		sem := make(chan struct{}, 16)
		expanded := 0
		for i, n := range frontier {
			if n.left <= 0 {
				continue
			}
			expanded++
			n.sample = level == 1 && i < 3
			wg.Add(1)
			sem <- struct{}{}
			go func(n *node) {
				defer wg.Done()
				defer func() { <-sem }()
				if c.TimeUp() {
					mu.Lock()
					exhaustive = false
					mu.Unlock()
					return
				}
				succ := expand(c, sh, n, treeDepth)
				mu.Lock()
				next = append(next, succ...)
				mu.Unlock()
			}(n)
		}
		wg.Wait()
		if !exhaustive {
			c.NotExhaustive(fmt.Sprintf("deadline while expanding level %d (levels below are complete)", level))
			break
		}
		c.Bound(fmt.Sprintf("states_expanded_at_level_%d", level), expanded)
		// deterministic dedup: successors sorted by (state key, more remaining depth first, history)
		sort.Slice(next, func(i, j int) bool {
			if next[i].key != next[j].key {
				return next[i].key < next[j].key
			}
			if next[i].left != next[j].left {
				return next[i].left > next[j].left
			}
			return next[i].seed+opsString(next[i].ops) < next[j].seed+opsString(next[j].ops)
		})
		frontier = nil
		for _, n := range next {
			if seen[n.key] {
				continue
			}
			seen[n.key] = true
			c.Distinct("states", n.key)
			frontier = append(frontier, n)
		}
	}

	for _, f := range []string{"removed-keeps-old-loses-new", "re-admitted", "outsider-joined-by-open-invite", "removed-account-rejoined-by-open-invite",
		"joined-by-request", "leave-request", "revoke+rotate-batch", "three-generations", "never-admitted-judged", "holder-of-revoked-open-invite-judged",
		"revoked-invite-key-still-opens-older-generations", "tree:three-generations", "tree:removed-cannot-read-later-content", "tree:late-joiner-reads-earlier-content"} {
		// (a tree that already violates the property may make operations impossible: the violation is the verdict then)
		c.Require(sh.reached[f] || c.NViolations() > 0, "vacuity: no explored history exercised %q", f)
	}
}

// expand applies every enabled operation of the state, judges every successor and offers the crafted rotations.
func expand(c *vk.Ctx, sh *shared, n *node, treeDepth int) (succ []*node) {
	m, err := walk(n.sim)
	if err != nil {
		c.Broken("walk: %v", err)
		return
	}
	abs := n.abs
	applied := 0
	for _, op := range enabled(n, m, abs, c.Thorough()) {
		if c.TimeUp() {
			c.NotExhaustive("deadline inside a state's alphabet")
			return
		}
		ch, err := n.apply(c, op)
		if err != nil {
			c.Count("operations_refused", 1)
			continue
		}
		applied++
		c.Count("transitions", 1)
		v := judge(c, sh, ch, len(n.sim.Log))
		ch.key = v.key
		if v.m == nil || v.key == "" {
			continue
		}
		if ch.depth <= treeDepth && v.truth != nil {
			treeStep(c, sh, ch, v.m, v.truth, false)
		}
		succ = append(succ, ch)
	}
	runProbes(c, sh, n, m)
	if n.sample {
		c.Sample(map[string]any{"seed": n.seed, "history": opsString(n.ops), "state": n.key, "operations_applied": applied})
	}
	return
}
