package c05

// O3 — encrypted tree content under every key generation, on real object trees over real any-store storages.
//
// A history carries one tree (created by the owner at the first tree step). At every tree step the owner re-opens the
// tree over its CURRENT ACL view and adds one encrypted change holding a unique plaintext marker; then every pool
// account builds the same tree over ITS OWN ACL view (fresh storage, same raw changes) and reads it back.

import (
	"bytes"
	"context"
	"errors"
	"fmt"
	"os"
	"path/filepath"
	"sort"
	"sync"
	"sync/atomic"

	anystore "github.com/anyproto/any-store"
	"github.com/anyproto/lexid"

	"github.com/anyproto/any-sync/commonspace/headsync/headstorage"
	"github.com/anyproto/any-sync/commonspace/object/acl/list"
	"github.com/anyproto/any-sync/commonspace/object/acl/recordverifier"
	"github.com/anyproto/any-sync/commonspace/object/tree/objecttree"
	"github.com/anyproto/any-sync/commonspace/object/tree/treechangeproto"
	"github.com/anyproto/any-sync/util/crypto"

	. "verif/lib/aclsim"
	"verif/lib/vk"
)

var storeCfg = &anystore.Config{
	ReadConnections:                           1,
	SQLiteConnectionOptions:                   map[string]string{"synchronous": "off"},
	SQLiteGlobalPageCachePreallocateSizeBytes: -1,
}

type treeChange struct {
	author string
	snap   bool
	raw    *treechangeproto.RawTreeChangeWithId
	marker string
	gen    int // generation index (into refModel.gens) the change was written under
	logLen int // ACL log length when it was written
}

type treeTrack struct {
	root    *treechangeproto.RawTreeChangeWithId
	changes []treeChange
}

func (t *treeTrack) fork() *treeTrack {
	if t == nil {
		return nil
	}
	return &treeTrack{root: t.root, changes: append([]treeChange(nil), t.changes...)}
}

var dbSeq atomic.Int64

// writerDB is a real any-store database for the writer's tree storage.
type writerDB struct {
	db  anystore.DB
	hs  headstorage.HeadStorage
	dir string
}

func newWriterDB(c *vk.Ctx) (*writerDB, error) {
	ctx := context.Background()
	dir := filepath.Join(c.Scratch, fmt.Sprintf("t%d", dbSeq.Add(1)))
	if err := os.MkdirAll(dir, 0o755); err != nil {
		return nil, err
	}
	db, err := anystore.Open(ctx, filepath.Join(dir, "db"), storeCfg)
	if err != nil {
		return nil, err
	}
	hs, err := headstorage.New(ctx, db)
	if err != nil {
		db.Close()
		return nil, err
	}
	return &writerDB{db: db, hs: hs, dir: dir}, nil
}

func (w *writerDB) close() {
	if w != nil {
		w.db.Close()
		os.RemoveAll(w.dir)
	}
}

func setAddSeq(st objecttree.Storage) {
	if s, ok := st.(interface{ SetAddSeq(*atomic.Uint64) }); ok {
		s.SetAddSeq(&atomic.Uint64{})
	}
}

// memStorage is a plain in-memory objecttree.Storage used for the READERS' copies of the tree (the writer's tree, on
// which the "stored bytes" claims are judged, lives in a real any-store database). It only keeps what the tree hands it.
type memStorage struct {
	mu       sync.Mutex
	id       string
	root     objecttree.StorageChange
	byId     map[string]objecttree.StorageChange
	heads    []string
	snapshot string
	seq      uint64
}

var memLexId = lexid.Must(lexid.CharsAllNoEscape, 4, 100)

func newMemStorage(root *treechangeproto.RawTreeChangeWithId) *memStorage {
	rc := objecttree.StorageChange{RawChange: root.RawChange, Id: root.Id, SnapshotCounter: 1, OrderId: memLexId.Next(""), TreeId: root.Id, ChangeSize: len(root.RawChange)}
	return &memStorage{id: root.Id, root: rc, byId: map[string]objecttree.StorageChange{root.Id: rc}, heads: []string{root.Id}, snapshot: root.Id}
}

func (m *memStorage) Id() string { return m.id }
func (m *memStorage) Root(context.Context) (objecttree.StorageChange, error) {
	return m.root, nil
}
func (m *memStorage) Heads(context.Context) ([]string, error) {
	m.mu.Lock()
	defer m.mu.Unlock()
	return append([]string(nil), m.heads...), nil
}
func (m *memStorage) CommonSnapshot(context.Context) (string, error) {
	m.mu.Lock()
	defer m.mu.Unlock()
	return m.snapshot, nil
}
func (m *memStorage) Has(_ context.Context, id string) (bool, error) {
	m.mu.Lock()
	defer m.mu.Unlock()
	_, ok := m.byId[id]
	return ok, nil
}
func (m *memStorage) Get(_ context.Context, id string) (objecttree.StorageChange, error) {
	m.mu.Lock()
	defer m.mu.Unlock()
	ch, ok := m.byId[id]
	if !ok {
		return objecttree.StorageChange{}, anystore.ErrDocNotFound
	}
	return ch, nil
}
func (m *memStorage) sorted(keep func(objecttree.StorageChange) bool) (out []objecttree.StorageChange) {
	m.mu.Lock()
	for _, ch := range m.byId {
		if keep(ch) {
			out = append(out, ch)
		}
	}
	m.mu.Unlock()
	sort.Slice(out, func(i, j int) bool { return out[i].OrderId < out[j].OrderId })
	return
}
func (m *memStorage) iterate(ctx context.Context, chs []objecttree.StorageChange, it objecttree.StorageIterator) error {
	for _, ch := range chs {
		cont, err := it(ctx, ch)
		if !cont {
			return err
		}
	}
	return nil
}
func (m *memStorage) GetAfterOrder(ctx context.Context, orderId string, it objecttree.StorageIterator) error {
	return m.iterate(ctx, m.sorted(func(ch objecttree.StorageChange) bool { return ch.OrderId >= orderId }), it)
}
func (m *memStorage) GetAfterAddSeq(ctx context.Context, addSeq uint64, it objecttree.StorageIterator) error {
	return m.iterate(ctx, m.sorted(func(ch objecttree.StorageChange) bool { return ch.AddSeq > addSeq }), it)
}
func (m *memStorage) add(changes []objecttree.StorageChange, heads []string, snapshot string, strict bool) error {
	m.mu.Lock()
	defer m.mu.Unlock()
	m.seq++
	for i := range changes {
		if _, dup := m.byId[changes[i].Id]; dup {
			if strict {
				return anystore.ErrDocExists
			}
			continue
		}
		changes[i].AddSeq = m.seq
		changes[i].TreeId = m.id
		cp := changes[i]
		cp.RawChange = append([]byte(nil), cp.RawChange...)
		m.byId[cp.Id] = cp
	}
	m.heads = append([]string(nil), heads...)
	m.snapshot = snapshot
	return nil
}
func (m *memStorage) AddAll(_ context.Context, changes []objecttree.StorageChange, heads []string, snapshot string) error {
	return m.add(changes, heads, snapshot, true)
}
func (m *memStorage) AddAllNoError(_ context.Context, changes []objecttree.StorageChange, heads []string, snapshot string) error {
	return m.add(changes, heads, snapshot, false)
}
func (m *memStorage) Delete(context.Context) error { return nil }
func (m *memStorage) Close() error                 { return nil }

func (t *treeTrack) rawChanges() (out []*treechangeproto.RawTreeChangeWithId, head []string) {
	for _, ch := range t.changes {
		out = append(out, ch.raw)
	}
	if len(t.changes) > 0 {
		head = []string{t.changes[len(t.changes)-1].raw.Id}
	}
	return
}

func decodeChange(raw *treechangeproto.RawTreeChangeWithId) (*treechangeproto.TreeChange, error) {
	rc := &treechangeproto.RawTreeChange{}
	if err := rc.UnmarshalVT(raw.RawChange); err != nil {
		return nil, err
	}
	tc := &treechangeproto.TreeChange{}
	if err := tc.UnmarshalVT(rc.Payload); err != nil {
		return nil, err
	}
	return tc, nil
}

func dirContains(dir string, needle []byte) bool {
	found := false
	filepath.Walk(dir, func(p string, info os.FileInfo, err error) error {
		if err != nil || info.IsDir() {
			return nil
		}
		b, err := os.ReadFile(p)
		if err == nil && bytes.Contains(b, needle) {
			found = true
		}
		return nil
	})
	return found
}

// treeStep writes one encrypted change under the node's current generation and lets every account read the tree.
func treeStep(c *vk.Ctx, sh *shared, n *node, m *refModel, truth []string, scanFiles bool) {
	treeStepOnce(c, sh, n, m, truth, scanFiles, false)
}

func treeStepOnce(c *vk.Ctx, sh *shared, n *node, m *refModel, truth []string, scanFiles bool, restarted bool) {
	s := n.sim
	ctx := context.Background()
	replay := map[string]any{"seed": n.seed, "ops": n.ops}
	where := fmt.Sprintf("history from %q: [%s]", n.seed, opsString(n.ops))
	viol := func(key, f string, a ...any) { c.Violation(key, where+": "+fmt.Sprintf(f, a...), replay) }
	// the author rotates among the accounts that may write (owner / admin / writer), so that content of every
	// generation comes from different members
	var writers []string
	for _, name := range pool {
		if p := m.perm[name]; p == Owner || p == Admin || p == Writer {
			writers = append(writers, name)
		}
	}
	nWritten := 0
	if n.tr != nil {
		nWritten = len(n.tr.changes)
	}
	owner := s.Acc(writers[nWritten%len(writers)])
	if n.tr == nil {
		owner = s.Acc("O")
	}
	wrole := owner.Name + " (" + PermName(m.perm[owner.Name]) + ")"
	writerView, err := s.View(owner, len(s.Log), recordverifier.NewValidateFull())
	if err != nil {
		return // reported by judge
	}
	ownerView := writerView
	if n.tr == nil {
		root, err := objecttree.CreateObjectTreeRoot(objecttree.ObjectTreeCreatePayload{
			PrivKey: owner.Keys.SignKey, ChangeType: "c05", SpaceId: fmt.Sprintf("space%d", s.Seed), IsEncrypted: true,
			Seed: []byte("c05-tree-seed"), Timestamp: 1700000000,
		}, ownerView)
		if err != nil {
			c.Broken("tree root: %v", err)
			return
		}
		n.tr = &treeTrack{root: root}
	}
	tr := n.tr
	treeId := tr.root.Id
	ngens := len(m.gens)
	curGen := ngens - 1

	// ---- writer
	// the writer's tree lives in a real any-store database along scripted / seed histories (scanFiles), and in the
	// in-memory storage (which keeps exactly the bytes the tree hands to its storage) on the BFS paths
	var (
		wdb *writerDB
		wst objecttree.Storage
	)
	if scanFiles {
		wdb, err = newWriterDB(c)
		if err != nil {
			c.Broken("%s: cannot open a database: %v", where, err)
			return
		}
		defer wdb.close()
		wst, err = objecttree.CreateStorage(ctx, tr.root, wdb.hs, wdb.db)
		if err != nil {
			c.Broken("%s: cannot create the tree storage: %v", where, err)
			return
		}
		c.Count("tree_steps_on_real_database", 1)
	} else {
		wst = newMemStorage(tr.root)
	}
	setAddSeq(wst)
	wtree, err := objecttree.BuildObjectTree(wst, ownerView)
	c.Count("executions", 1)
	if err != nil {
		viol("tree:member-cannot-open", "%s cannot build the tree over its own ACL view: %v", wrole, err)
		return
	}
	wtree.Lock() // the tree logs a compressed stack trace for every use while unlocked
	unlocked := false
	defer func() {
		if !unlocked {
			wtree.Unlock()
		}
	}()
	if prev, head := tr.rawChanges(); len(prev) > 0 {
		if _, err := wtree.AddRawChanges(ctx, objecttree.RawChangesPayload{NewHeads: head, RawChanges: prev}); err != nil {
			key := loadFailureKey(tr, m, err, PermName(m.perm[owner.Name]))
			viol(key, "%s cannot load the tree's %d earlier changes over its own ACL view: %v%s", wrole, len(prev), err, readdNote(tr, m))
			if key == "tree:content-of-readded-author-rejected" && !restarted {
				// this tree is lost to every member from here on: go on with a new tree so that later steps are still judged
				n.tr = nil
				wtree.Unlock()
				unlocked = true
				treeStepOnce(c, sh, n, m, truth, scanFiles, true)
			}
			return
		}
	}
	marker := fmt.Sprintf("PLAINTEXT-MARKER-c05-%d-gen%d-%s", len(tr.changes), curGen, short(s.HeadId()))
	plain := []byte("payload<" + marker + ">end")
	snapshot := len(tr.changes)%4 == 3
	var res objecttree.AddResult
	if p, what := vk.Recover(func() {
		res, err = wtree.AddContent(ctx, objecttree.SignableChangeContent{Data: plain, Key: owner.Keys.SignKey, IsSnapshot: snapshot, ShouldBeEncrypted: true, DataType: "c05", Timestamp: 1700000000 + int64(len(tr.changes))})
	}); p {
		err = fmt.Errorf("panic: %s", what)
	}
	c.Count("executions", 1)
	c.Count("tree_changes_written", 1)
	if err != nil {
		viol("tree:member-cannot-write-encrypted", "%s cannot add encrypted content under generation %d/%d: %v", wrole, curGen+1, ngens, err)
		return
	}
	if len(res.Added) != 1 {
		c.Broken("AddContent returned %d changes", len(res.Added))
		return
	}
	raw := res.RawChanges()[0]
	stored, err := wst.Get(ctx, raw.Id)
	if err != nil {
		viol("tree:change-not-stored", "the added change is not in storage: %v", err)
		return
	}
	if bytes.Contains(raw.RawChange, []byte(marker)) {
		viol("tree:plaintext-in-transmitted-change", "the raw change handed out by AddContent (what is broadcast) contains the plaintext marker")
	}
	if bytes.Contains(stored.RawChange, []byte(marker)) {
		viol("tree:plaintext-in-stored-change", "the stored raw change contains the plaintext marker")
	}
	tc, err := decodeChange(raw)
	if err != nil {
		c.Broken("decode change: %v", err)
		return
	}
	if scanFiles && len(tc.ChangesData) >= 24 && dirContains(wdb.dir, tc.ChangesData[4:20]) {
		c.Count("db_file_scans", 1)
		sh.mark("tree:database-files-scanned")
		if dirContains(wdb.dir, []byte(marker)) {
			viol("tree:plaintext-in-database-files", "the storage files contain the plaintext marker")
		}
	}
	if got := writerView.AclState().CurrentReadKeyId(); got != tc.ReadKeyId {
		viol("tree:wrong-read-key-id", "change names read key %q, the writer's ACL view says %s", short(tc.ReadKeyId), short(got))
	}
	checkCipher(viol, m, truth, treeId, tc, plain)
	tr.changes = append(tr.changes, treeChange{author: owner.Name, snap: snapshot, raw: raw, marker: marker, gen: curGen, logLen: len(s.Log)})
	gensUsed := map[int]bool{}
	for _, ch := range tr.changes {
		gensUsed[ch.gen] = true
	}
	if len(gensUsed) >= 3 {
		sh.mark("tree:three-generations")
	}

	// ---- readers: every account over its own ACL view
	all, head := tr.rawChanges()
	lastSnap := 0
	for ci, ch := range tr.changes {
		if ch.snap {
			lastSnap = ci
		}
	}
	for _, name := range pool {
		acc := s.Acc(name)
		view, err := ViewOf(acc.Keys, s.Log, recordverifier.NewValidateFull())
		if err != nil {
			continue // reported by judge
		}
		member := m.perm[name] != None
		role := PermName(m.perm[name])
		c.Count("tree_reads", 1)
		c.Count("executions", 1)
		rtree, err := objecttree.BuildObjectTree(newMemStorage(tr.root), view)
		if err != nil {
			if member {
				viol("tree:member-cannot-open", "%s (%s) cannot build the tree over its own ACL view: %v", name, role, err)
			}
			continue
		}
		rtree.Lock()
		_, addErr := rtree.AddRawChanges(ctx, objecttree.RawChangesPayload{NewHeads: head, RawChanges: all})
		if addErr != nil && member {
			viol(loadFailureKey(tr, m, addErr, role), "%s (%s) cannot add the %d raw changes to its tree: %v%s", name, role, len(all), addErr, readdNote(tr, m))
			continue
		}
		got := map[string][]byte{}
		iterErr := rtree.IterateRoot(func(ch *objecttree.Change, decrypted []byte) (any, error) {
			got[ch.Id] = append([]byte(nil), decrypted...)
			return "model", nil
		}, func(ch *objecttree.Change) bool { return true })
		if member {
			if iterErr != nil {
				viol("tree:member-cannot-decrypt:"+role, "%s (%s): IterateRoot with decryption fails: %v", name, role, iterErr)
				continue
			}
			for ci, ch := range tr.changes {
				if ci < lastSnap {
					continue // the in-memory tree starts at the last snapshot
				}
				want := []byte("payload<" + ch.marker + ">end")
				if !bytes.Equal(got[ch.raw.Id], want) {
					viol("tree:member-cannot-decrypt:"+role, "%s (%s): content written under generation %d/%d does not come back as the original (got %d bytes)", name, role, ch.gen+1, ngens, len(got[ch.raw.Id]))
				}
				if m.lastGain[name] >= ch.logLen && ch.gen < curGen {
					sh.mark("tree:late-joiner-reads-earlier-content")
				}
			}
			continue
		}
		for _, ch := range tr.changes {
			if m.everHad[name] && m.gens[ch.gen].intro < m.lastLoss[name] {
				continue // written under a generation the account legitimately held
			}
			if bytes.Contains(got[ch.raw.Id], []byte(ch.marker)) {
				viol("tree:non-member-decrypts-later-content", "%s (no permission, lost at record %d) reads the plaintext of content written under generation %d/%d (introduced at record %d)", name, m.lastLoss[name], ch.gen+1, ngens, m.gens[ch.gen].intro)
			} else if m.everHad[name] {
				if iterErr != nil && !errors.Is(iterErr, list.ErrNoReadKey) {
					c.Count("tree_non_member_other_errors", 1)
				}
				sh.mark("tree:removed-cannot-read-later-content")
			}
		}
	}
}

// readdedAuthor names an author of earlier tree content that was removed and later re-admitted by a direct add.
func readdedAuthor(tr *treeTrack, m *refModel) string {
	for _, ch := range tr.changes {
		if at, ok := m.readdByAdd[ch.author]; ok && at >= ch.logLen {
			return ch.author
		}
	}
	return ""
}

func loadFailureKey(tr *treeTrack, m *refModel, err error, role string) string {
	if errors.Is(err, list.ErrInsufficientPermissions) && readdedAuthor(tr, m) != "" {
		return "tree:content-of-readded-author-rejected"
	}
	return "tree:member-cannot-load-changes:" + role
}

func readdNote(tr *treeTrack, m *refModel) string {
	if a := readdedAuthor(tr, m); a != "" {
		return fmt.Sprintf(" (the tree holds content authored by %s before it was removed; %s was re-admitted by a direct add at record %d)", a, a, m.readdByAdd[a])
	}
	return ""
}

// checkCipher: the change names the ACL's current generation, and its ciphertext opens under that generation's key
// (the space key or its per-tree derivation) and under no other generation's.
func checkCipher(viol func(key, f string, a ...any), m *refModel, truth []string, treeId string, tc *treechangeproto.TreeChange, plain []byte) {
	ngens := len(m.gens)
	curGen := ngens - 1
	if want := m.gens[curGen].id; tc.ReadKeyId != want {
		viol("tree:wrong-read-key-id", "change written under generation %d/%d names read key %q, the ACL's current read key id is %s", curGen+1, ngens, short(tc.ReadKeyId), short(want))
	}
	opens := func(gi int) bool {
		if truth[gi] == "" {
			return false
		}
		space, err := crypto.UnmarshallAESKey([]byte(truth[gi]))
		if err != nil {
			return false
		}
		derived, err := crypto.DeriveSymmetricKey([]byte(truth[gi]), fmt.Sprintf(crypto.AnysyncTreePath, treeId))
		if err != nil {
			return false
		}
		for _, k := range []crypto.SymKey{derived, space} {
			if out, err := k.Decrypt(tc.ChangesData); err == nil && bytes.Equal(out, plain) {
				return true
			}
		}
		return false
	}
	for gi := range m.gens {
		if got := opens(gi); got != (gi == curGen) {
			if gi == curGen {
				viol("tree:ciphertext-not-under-named-key", "change written under generation %d/%d does not decrypt to the original with that generation's key", curGen+1, ngens)
			} else {
				viol("tree:ciphertext-under-other-generation", "change naming generation %d/%d decrypts with the key of generation %d/%d", curGen+1, ngens, gi+1, ngens)
			}
		}
	}
}

// liveWriter is a LONG-LIVED owner replica: one ACL list fed record by record and one open tree on a real database,
// kept across the whole scripted history (a client does not rebuild its objects at every ACL change).
type liveWriter struct {
	acl    list.AclList
	db     *writerDB
	tree   objecttree.ObjectTree
	fed    int
	nextId int
}

func newLiveWriter(c *vk.Ctx, s *Sim) *liveWriter {
	owner := s.Acc("O")
	acl, err := ViewOf(owner.Keys, s.Log, noValidate{})
	if err != nil {
		c.Broken("live writer acl: %v", err)
		return nil
	}
	root, err := objecttree.CreateObjectTreeRoot(objecttree.ObjectTreeCreatePayload{PrivKey: owner.Keys.SignKey, ChangeType: "c05-live", SpaceId: fmt.Sprintf("space%d", s.Seed),
		IsEncrypted: true, Seed: []byte("c05-live-tree"), Timestamp: 1700000000}, acl)
	if err != nil {
		c.Broken("live writer root: %v", err)
		return nil
	}
	db, err := newWriterDB(c)
	if err != nil {
		c.Broken("live writer db: %v", err)
		return nil
	}
	st, err := objecttree.CreateStorage(context.Background(), root, db.hs, db.db)
	if err != nil {
		db.close()
		c.Broken("live writer storage: %v", err)
		return nil
	}
	setAddSeq(st)
	t, err := objecttree.BuildObjectTree(st, acl)
	if err != nil {
		db.close()
		c.Broken("live writer tree: %v", err)
		return nil
	}
	return &liveWriter{acl: acl, db: db, tree: t, fed: len(s.Log)}
}

func (l *liveWriter) close() {
	if l != nil {
		l.db.close()
	}
}

// step feeds the new ACL records to the long-lived list and writes one encrypted change with the long-lived tree.
func (l *liveWriter) step(c *vk.Ctx, n *node, m *refModel, truth []string) {
	if l == nil {
		return
	}
	s := n.sim
	replay := map[string]any{"seed": n.seed, "ops": n.ops}
	where := fmt.Sprintf("history from %q: [%s] (long-lived owner replica)", n.seed, opsString(n.ops))
	viol := func(key, f string, a ...any) { c.Violation(key, where+": "+fmt.Sprintf(f, a...), replay) }
	l.acl.Lock()
	for ; l.fed < len(s.Log); l.fed++ {
		if err := l.acl.AddRawRecord(s.Log[l.fed]); err != nil {
			l.acl.Unlock()
			viol("view-build-fails:member:live", "the owner's long-lived list rejects accepted record %d: %v", l.fed, err)
			return
		}
	}
	l.acl.Unlock()
	c.Count("executions", 1)
	ngens := len(m.gens)
	st := l.acl.AclState()
	for gi, g := range m.gens {
		k := st.Keys()[g.id].ReadKey
		if k == nil {
			viol("member-view-missing-key:live", "the owner's long-lived list has no read key for generation %d/%d", gi+1, ngens)
		} else if truth[gi] != "" && rawOf(k) != truth[gi] {
			viol("member-view-wrong-key:live", "the owner's long-lived list holds a different key for generation %d/%d", gi+1, ngens)
		}
	}
	l.nextId++
	marker := fmt.Sprintf("PLAINTEXT-MARKER-c05-live-%d", l.nextId)
	plain := []byte("payload<" + marker + ">end")
	l.tree.Lock()
	defer l.tree.Unlock()
	var res objecttree.AddResult
	var err error
	if p, what := vk.Recover(func() {
		res, err = l.tree.AddContent(context.Background(), objecttree.SignableChangeContent{Data: plain, Key: s.Acc("O").Keys.SignKey, ShouldBeEncrypted: true, DataType: "c05", Timestamp: 1700000000 + int64(l.nextId)})
	}); p {
		err = fmt.Errorf("panic: %s", what)
	}
	c.Count("executions", 1)
	c.Count("tree_changes_written", 1)
	if err != nil || len(res.Added) != 1 {
		viol("tree:member-cannot-write-encrypted", "the long-lived owner tree cannot add encrypted content under generation %d/%d: %v", ngens, ngens, err)
		return
	}
	raw := res.RawChanges()[0]
	if bytes.Contains(raw.RawChange, []byte(marker)) {
		viol("tree:plaintext-in-transmitted-change", "the raw change handed out by AddContent contains the plaintext marker")
	}
	if dirContains(l.db.dir, []byte(marker)) {
		viol("tree:plaintext-in-database-files", "the storage files contain the plaintext marker")
	}
	tc, err := decodeChange(raw)
	if err != nil {
		c.Broken("decode change: %v", err)
		return
	}
	checkCipher(viol, m, truth, l.tree.Id(), tc, plain)
}

// builderChecks: ChangeBuilder.Build never emits plaintext when encryption is requested.
func builderChecks(c *vk.Ctx, sh *shared) {
	key, _, err := crypto.GenerateRandomEd25519KeyPair()
	if err != nil {
		panic(err)
	}
	marker := []byte("PLAINTEXT-MARKER-c05-builder")
	for _, snapshot := range []bool{false, true} {
		for _, readKeyId := range []string{"", "bafyreadkeyid"} {
			for _, content := range [][]byte{marker, nil, {}} {
				for _, heads := range [][]string{nil, {"h1"}} {
					bc := objecttree.BuilderContent{TreeHeadIds: heads, AclHeadId: "aclhead", SnapshotBaseId: "snap", ReadKeyId: readKeyId, IsSnapshot: snapshot,
						PrivKey: key, Content: content, Timestamp: 1700000000, DataType: "c05"}
					// encryption requested, no key
					b := objecttree.NewChangeBuilder(crypto.NewKeyStorage(), nil)
					ch, raw, err := b.Build(bc)
					c.Count("executions", 1)
					c.Count("builder_cases", 1)
					if !errors.Is(err, objecttree.ErrMissingEncryptKey) {
						leak := raw != nil && bytes.Contains(raw.RawChange, marker) || ch != nil && bytes.Contains(ch.Data, marker)
						c.Violation("builder:no-key-does-not-fail", fmt.Sprintf("ChangeBuilder.Build{Unencrypted:false, ReadKey:nil, snapshot:%v, readKeyId:%q, content:%d bytes} returned err=%v instead of ErrMissingEncryptKey (plaintext emitted: %v)", snapshot, readKeyId, len(content), err, leak), nil)
					} else if raw != nil || ch != nil {
						c.Violation("builder:no-key-still-emits-change", "Build returned ErrMissingEncryptKey together with a change", nil)
					}
					// encryption requested, key given
					bc.ReadKey = crypto.NewAES()
					ch, raw, err = b.Build(bc)
					c.Count("executions", 1)
					if err != nil {
						c.Violation("builder:encrypted-build-fails", fmt.Sprintf("Build with a read key fails: %v", err), nil)
						continue
					}
					if len(content) > 0 && (bytes.Contains(raw.RawChange, marker) || bytes.Contains(ch.Data, marker)) {
						c.Violation("builder:plaintext-with-key", "Build with a read key emitted the plaintext", nil)
					}
					if out, err := bc.ReadKey.Decrypt(ch.Data); err != nil || !bytes.Equal(out, content) {
						c.Violation("builder:ciphertext-not-under-given-key", fmt.Sprintf("Build output does not decrypt with the given key: %v", err), nil)
					}
					// explicit opt-out stays plaintext (sanity of the marker search)
					bc.Unencrypted, bc.ReadKey = true, nil
					_, raw, err = b.Build(bc)
					if len(content) > 0 {
						c.Require(err == nil && bytes.Contains(raw.RawChange, marker), "marker search is vacuous: an unencrypted build does not show the marker")
					}
				}
			}
		}
	}
	sh.mark("builder-checked")
}
