package c03

// Tamper evidence: bounded exhaustive mutations of the LAST record of a history, offered to lists holding the history
// without that record. Oracle: rejected (error) and nothing observable changed (projection, storage dump, head).

import (
	"bytes"
	"fmt"

	"github.com/anyproto/any-sync/commonspace/object/acl/aclrecordproto"
	"github.com/anyproto/any-sync/commonspace/object/acl/list"
	"github.com/anyproto/any-sync/consensus/consensusproto"
	"github.com/anyproto/any-sync/util/crypto"

	. "verif/lib/aclsim"
	"verif/lib/vk"
)

type target struct {
	k        lkind
	o        observer
	l        list.AclList
	st       list.Storage
	base     proj
	baseDump string
	// for the lazy comparison inside sweeps
	baseHead      string
	baseLen       int
	baseState     *list.AclState
	pending       int
	pendingClass  string
	pendingDetail string
	pendingErr    error
}

func (t *target) name() string { return t.k.String() + "/" + t.o.class }

type tamperer struct {
	e        *env
	h        *hist
	prefix   rawLog
	last     *consensusproto.RawRecordWithId
	lastKind string
	targets  []*target
	broken   bool
	skipInfo bool // skip the lists on which the next mutation is informational only
	lazy     bool // inside a byte sweep: see unchanged
	classes  map[string]int
}

func (t *tamperer) mkTarget(k lkind, o observer) *target {
	l, st, err := t.e.build(o.acc.Keys, t.prefix, k)
	if err != nil {
		t.e.c.Violation("determinism:m4-restart-at-prefix/"+k.String()+":observer="+o.class+":error", fmt.Sprintf("history %s: list over the prefix without the last record: %v", t.h, err), t.h.replay())
		t.broken = true
		return nil
	}
	d, head, _ := dump(st)
	return &target{k: k, o: o, l: l, st: st, base: project(t.h.sim, l), baseDump: dumpKey(d, head), baseHead: l.Head().Id, baseLen: len(l.Records()), baseState: l.AclState()}
}

// unchanged verifies that a rejected record left no trace. Inside the byte sweeps (lazy) the full comparison of
// projection and storage dump runs at every 16th rejected mutation of a list and at the end of every mutation class
// (flush); in between only head, record count, state identity and storage head are compared. A trace is persistent, so
// it is found at the next full comparison at the latest (the report then names the mutation at which it was found).
func (t *tamperer) unchanged(tg *target, class, detail string, err error) {
	if t.lazy {
		tg.pending++
		tg.pendingClass, tg.pendingDetail, tg.pendingErr = class, detail, err
		head, _ := tg.st.Head(ctx)
		if tg.pending < 16 && tg.l.Head().Id == tg.baseHead && len(tg.l.Records()) == tg.baseLen && tg.l.AclState() == tg.baseState && head == tg.baseHead {
			return
		}
	}
	t.fullCheck(tg, class, detail, err)
}

func (t *tamperer) flush() {
	for _, tg := range t.targets {
		if tg.pending > 0 && !t.broken {
			t.fullCheck(tg, tg.pendingClass, "found after "+tg.pendingDetail, tg.pendingErr)
		}
	}
}

func (t *tamperer) fullCheck(tg *target, class, detail string, err error) {
	tg.pending = 0
	p := project(t.h.sim, tg.l)
	key := "tamper:" + class + ":" + tg.k.String() + ":last=" + t.lastKind
	if f, got, want := diff(append(append([]string{}, p.common...), p.keys...), append(append([]string{}, tg.base.common...), tg.base.keys...)); f != "" {
		t.e.c.Violation(key+":rejected-but-state-changed:"+f, fmt.Sprintf("history %s, list %s: mutation %s (%s) was rejected with %q but the observable state changed: got {%s} want {%s}", t.h, tg.name(), class, detail, err, got, want), t.h.replay())
		t.broken = true
	}
	d, head, derr := dump(tg.st)
	if derr != nil || dumpKey(d, head) != tg.baseDump {
		t.e.c.Violation(key+":rejected-but-storage-changed", fmt.Sprintf("history %s, list %s: mutation %s (%s) was rejected with %q but Storage.GetAfterOrder / Head changed (%v)", t.h, tg.name(), class, detail, err, derr), t.h.replay())
		t.broken = true
	}
}

// try offers rec to every target. must[k]: a list of kind k has to reject it; otherwise acceptance may be legitimate
// (informational) and the record is offered to a throw-away copy of the node's list only.
func (t *tamperer) try(class, detail string, rec *consensusproto.RawRecordWithId, mustV, mustN bool) {
	if rec.Id == t.last.Id && bytes.Equal(rec.Payload, t.last.Payload) {
		t.e.c.Count("mutations_identical_skipped", 1)
		return
	}
	t.e.c.Distinct("distinct", "mut|"+class+"|"+t.lastKind)
	t.classes[class]++
	for i, tg := range t.targets {
		if t.broken {
			return
		}
		must := mustN
		if tg.k == V {
			must = mustV
		}
		use := tg
		if !must {
			if tg.o.class != "node" || t.skipInfo {
				continue
			}
			if use = t.mkTarget(tg.k, tg.o); use == nil {
				return
			}
		}
		t.e.c.Count("evaluations", 1)
		var err error
		if p, what := vk.Recover(func() { err = use.l.AddRawRecord(rec) }); p {
			// a panic on a constructible record is C11's business; for C03 it must still leave no trace
			t.e.c.Count("tamper_panics", 1)
			err = fmt.Errorf("panic: %s", vk.PanicSite(what))
		}
		if err == nil {
			if must {
				t.e.c.Violation("tamper:"+class+":"+tg.k.String()+":last="+t.lastKind+":accepted",
					fmt.Sprintf("history %s, list %s: mutation %s (%s) of the last record was ACCEPTED; head is now %s", t.h, tg.name(), class, detail, use.l.Head().Id), t.h.replay())
				// the list is extended now: replace it to go on
				if t.targets[i] = t.mkTarget(tg.k, tg.o); t.targets[i] == nil {
					return
				}
				continue
			}
			t.e.c.Count("info_accepted_legitimately:"+class+":"+tg.k.String(), 1)
			continue
		}
		if !must {
			t.e.c.Count("info_rejected:"+class+":"+tg.k.String(), 1)
		}
		t.unchanged(use, class, detail, err)
	}
}

// differential offers rec to throw-away copies of the validating and the non-validating list of every observer: if
// the validating list accepts it, the non-validating one (keep-only-ours decode) must accept it too and both must show
// the same state, including the observer's own key visibility.
func (t *tamperer) differential(class, detail string, rec *consensusproto.RawRecordWithId) {
	t.e.c.Distinct("distinct", "mut|"+class+"|"+t.lastKind)
	t.classes[class]++
	byObs := map[string]map[lkind]*target{}
	var order []string
	for _, tg := range t.targets {
		if byObs[tg.o.class] == nil {
			byObs[tg.o.class] = map[lkind]*target{}
			order = append(order, tg.o.class)
		}
		byObs[tg.o.class][tg.k] = tg
	}
	for _, oc := range order {
		tv, tn := byObs[oc][V], byObs[oc][N]
		if tv == nil || tn == nil || t.broken {
			continue
		}
		cv, cn := t.mkTarget(V, tv.o), t.mkTarget(N, tn.o)
		if cv == nil || cn == nil {
			return
		}
		t.e.c.Count("evaluations", 2)
		var ev, en error
		if p, what := vk.Recover(func() { ev = cv.l.AddRawRecord(rec) }); p {
			ev = fmt.Errorf("panic: %s", vk.PanicSite(what))
		}
		if p, what := vk.Recover(func() { en = cn.l.AddRawRecord(rec) }); p {
			en = fmt.Errorf("panic: %s", vk.PanicSite(what))
		}
		key := "tamper:" + class + ":last=" + t.lastKind + ":observer=" + oc
		if ev != nil {
			t.e.c.Count("info_rejected:"+class+":validating", 1)
			t.unchanged(cv, class, detail, ev)
			continue
		}
		t.e.c.Count("info_accepted_legitimately:"+class+":validating", 1)
		if en != nil {
			t.e.c.Violation(key+":accepted-by-validating-rejected-by-non-validating", fmt.Sprintf("history %s, observer %s: %s (%s) is accepted by the validating list but the non-validating list says %v", t.h, oc, class, detail, en), t.h.replay())
			continue
		}
		pv, pn := project(t.h.sim, cv.l), project(t.h.sim, cn.l)
		if f, got, want := diff(append(append([]string{}, pn.common...), pn.keys...), append(append([]string{}, pv.common...), pv.keys...)); f != "" {
			t.e.c.Violation(key+":full-and-partial-decode-differ:"+f, fmt.Sprintf("history %s, observer %s: after %s (%s) the keep-only-ours list shows {%s}, the fully decoding list {%s}", t.h, oc, class, detail, got, want), t.h.replay())
		}
	}
}

const b32 = "abcdefghijklmnopqrstuvwxyz234567"

func withId(raw *consensusproto.RawRecord) *consensusproto.RawRecordWithId { return WithId(raw) }

func cloneRaw(r *consensusproto.RawRecord) *consensusproto.RawRecord {
	return &consensusproto.RawRecord{Payload: bytes.Clone(r.Payload), Signature: bytes.Clone(r.Signature), AcceptorIdentity: bytes.Clone(r.AcceptorIdentity),
		AcceptorSignature: bytes.Clone(r.AcceptorSignature), AcceptorTimestamp: r.AcceptorTimestamp}
}

// remake marshals rec, signs it with signer, counter-signs with the network key and derives the id.
func (t *tamperer) remake(rec *consensusproto.Record, signer crypto.PrivKey, ts int64) *consensusproto.RawRecordWithId {
	payload, err := rec.MarshalVT()
	if err != nil {
		panic(err)
	}
	sig, err := signer.Sign(payload)
	if err != nil {
		panic(err)
	}
	return WithId(CounterSign(&consensusproto.RawRecord{Payload: payload, Signature: sig}, t.e.net.Keys.SignKey, ts))
}

// flips: the distinct values among {^b, b^1, b+1, 0x00, 0xFF} other than b itself.
func flips(b byte) (out []byte) {
	for _, v := range []byte{^b, b ^ 1, b + 1, 0x00, 0xFF} {
		if v != b && !bytes.Contains(out, []byte{v}) {
			out = append(out, v)
		}
	}
	return
}

// tamper runs the mutation classes on the last record of h. sweep: also the per-byte / per-length classes.
func (e *env) tamper(h *hist, sweep bool, ref [][]string) {
	H, n := h.sim.Log, len(h.sim.Log)
	if n < 2 {
		return
	}
	t := &tamperer{e: e, h: h, prefix: H[:n-1], last: H[n-1], lastKind: h.kinds[len(h.kinds)-1], classes: map[string]int{}}
	if sweep && h.depth <= 1 && h.index == 0 {
		defer func() {
			e.c.Sample(map[string]any{"tampered_last_record_of": h.String(), "record_kind": t.lastKind, "wrapped_payload_bytes": len(t.last.Payload), "mutations_per_class": t.classes})
		}()
	}
	rr := &consensusproto.RawRecord{}
	rec := &consensusproto.Record{}
	if err := rr.UnmarshalVT(t.last.Payload); err != nil {
		panic(err)
	}
	if err := rec.UnmarshalVT(rr.Payload); err != nil {
		panic(err)
	}
	var author *Account
	for _, a := range h.sim.Accounts {
		if bytes.Equal(a.Proto, rec.Identity) {
			author = a
		}
	}
	if author == nil {
		e.c.Broken("last record of %s has an unknown author", h)
		return
	}
	// the state before the last record decides who the owner is
	nodeT := t.mkTarget(V, observer{e.node, "node"})
	if nodeT == nil {
		return
	}
	before := h.sim.Abstract(nodeT.l.AclState())
	ownerAcc := h.sim.Acc(before.Owners[0])
	t.targets = []*target{nodeT, t.mkTarget(N, observer{e.node, "node"}), t.mkTarget(V, observer{ownerAcc, "owner"}), t.mkTarget(N, observer{ownerAcc, "owner"})}
	for _, tg := range t.targets {
		if tg == nil {
			return
		}
	}
	allTargets := t.targets
	payload, id := t.last.Payload, t.last.Id
	mk := func(p []byte, id string) *consensusproto.RawRecordWithId {
		return &consensusproto.RawRecordWithId{Payload: p, Id: id}
	}

	if sweep {
		// the sweeps go to the node's two lists only (a record is authenticated before the observer's identity plays any role)
		t.targets = allTargets[:2]
		t.lazy = true
	}
	if sweep {
		// every byte offset of the wrapped payload x {^b, b^1, b+1, 0x00, 0xFF}, id kept: the CID no longer matches
		for off := range payload {
			for vi, v := range flips(payload[off]) {
				if v == payload[off] {
					continue
				}
				p := bytes.Clone(payload)
				p[off] = v
				t.try("payload-byte", fmt.Sprintf("offset %d of %d, variant %d", off, len(payload), vi), mk(p, id), true, true)
			}
			if t.broken {
				return
			}
		}
		t.flush()
		for k := 0; k < len(payload); k++ {
			t.try("payload-truncated", fmt.Sprintf("to %d of %d bytes", k, len(payload)), mk(bytes.Clone(payload[:k]), id), true, true)
		}
		t.try("payload-extended", "one zero byte appended", mk(append(bytes.Clone(payload), 0), id), true, true)
		t.flush()
		// every character of the id replaced
		for i := range id {
			c := id[i]
			r := b32[(bytes.IndexByte([]byte(b32), c)+1+len(b32))%len(b32)]
			t.try("id-char", fmt.Sprintf("position %d of %d: %c -> %c", i, len(id), c, r), mk(payload, id[:i]+string(r)+id[i+1:]), true, true)
			if i == 0 || i == len(id)-1 {
				t.try("id-char", fmt.Sprintf("position %d upper-cased", i), mk(payload, id[:i]+string(bytes.ToUpper([]byte{c}))+id[i+1:]), true, true)
			}
		}
		t.flush()
		// every byte of the author signature, id recomputed (the acceptor signature covers the payload only and stays valid)
		for i := range rr.Signature {
			for vi, v := range []byte{^rr.Signature[i], rr.Signature[i] ^ 1} {
				m := cloneRaw(rr)
				m.Signature[i] = v
				t.try("author-signature-byte", fmt.Sprintf("byte %d variant %d, id recomputed", i, vi), withId(m), true, true)
			}
		}
		t.flush()
		// every byte of the acceptor signature and identity, id recomputed: only the non-validating list authenticates them
		for i := range rr.AcceptorSignature {
			m := cloneRaw(rr)
			m.AcceptorSignature[i] ^= 0xFF
			w := withId(m)
			// (on the validating list acceptance is legitimate: counted only, and only for every 8th byte)
			t.skipInfo = i%8 != 0
			t.try("acceptor-signature-byte", fmt.Sprintf("byte %d, id recomputed", i), w, false, true)
			t.skipInfo = false
			t.try("acceptor-signature-byte-id-kept", fmt.Sprintf("byte %d, id kept", i), mk(w.Payload, id), true, true)
		}
		for i := range rr.AcceptorIdentity {
			for vi, v := range []byte{^rr.AcceptorIdentity[i], rr.AcceptorIdentity[i] ^ 1} {
				m := cloneRaw(rr)
				m.AcceptorIdentity[i] = v
				mustN := true
				if pk, err := decodeAcceptor(m.AcceptorIdentity); err == nil && pk.Equals(e.net.Pub()) {
					mustN = false // another encoding of the same network key
				}
				t.skipInfo = i%8 != 0 || vi != 0
				t.try("acceptor-identity-byte", fmt.Sprintf("byte %d variant %d, id recomputed", i, vi), withId(m), false, mustN)
				t.skipInfo = false
			}
		}
	}

	t.flush()
	t.lazy = false
	t.targets = allTargets
	// --- structural classes: for every history -------------------------------------------------------------------
	t.try("id-of-another-record", "id := root id", mk(payload, H[0].Id), true, true)
	t.try("id-of-another-record", "id := id of the previous record", mk(payload, H[n-2].Id), true, true)
	t.try("id-empty", "", mk(payload, ""), true, true)
	t.try("id-char", "first character replaced", mk(payload, "c"+id[1:]), true, true)
	t.try("id-char", "last character replaced", mk(payload, id[:len(id)-1]+string(b32[(bytes.IndexByte([]byte(b32), id[len(id)-1])+1)%len(b32)])), true, true)
	if !sweep {
		// one representative per wrapper field even when the byte sweep is not run for this history
		for _, off := range []int{0, len(payload) / 2, len(payload) - 1} {
			p := bytes.Clone(payload)
			p[off] ^= 0xFF
			t.try("payload-byte", fmt.Sprintf("offset %d of %d inverted", off, len(payload)), mk(p, id), true, true)
		}
		t.try("payload-truncated", "last byte dropped", mk(bytes.Clone(payload[:len(payload)-1]), id), true, true)
		t.try("payload-truncated", "to zero bytes", mk(nil, id), true, true)
		m := cloneRaw(rr)
		m.Signature[0] ^= 0xFF
		t.try("author-signature-byte", "byte 0 inverted, id recomputed", withId(m), true, true)
		m = cloneRaw(rr)
		m.AcceptorSignature[len(m.AcceptorSignature)-1] ^= 1
		t.try("acceptor-signature-byte", "last byte, id recomputed", withId(m), false, true)
		m = cloneRaw(rr)
		m.AcceptorIdentity[len(m.AcceptorIdentity)-1] ^= 1
		t.try("acceptor-identity-byte", "last byte, id recomputed", withId(m), false, true)
	}
	// author signature removed / shortened / extended, id recomputed
	for _, v := range []struct {
		d string
		s []byte
	}{{"removed", nil}, {"shortened by one byte", rr.Signature[:len(rr.Signature)-1]}, {"one byte appended", append(bytes.Clone(rr.Signature), 0)},
		{"replaced by the acceptor's signature", rr.AcceptorSignature}} {
		m := cloneRaw(rr)
		m.Signature = bytes.Clone(v.s)
		t.try("author-signature-replaced", v.d+", id recomputed", withId(m), true, true)
	}
	// PrevId edited to another existing id / an unknown id / empty, re-signed by the author, counter-signed, id recomputed:
	// a perfectly well-formed record that does not extend the head
	others := []struct{ d, id string }{{"root id", H[0].Id}, {"unknown id", "bafyreiaaaaaaaaaaaaaaaaaaaaaaaaaaaaaaaaaaaaaaaaaaaaaaaaaaaa"}, {"empty", ""}, {"its own former id", id}}
	if n >= 4 {
		others = append(others, struct{ d, id string }{"id two records back", H[n-3].Id})
	}
	for _, o := range others {
		if o.id == rec.PrevId {
			continue
		}
		r2 := &consensusproto.Record{PrevId: o.id, Identity: rec.Identity, Data: rec.Data, Timestamp: rec.Timestamp}
		t.try("prev-id-edited-resigned", "PrevId := "+o.d, t.remake(r2, author.Keys.SignKey, rr.AcceptorTimestamp), true, true)
		// not re-signed by the author (but counter-signed again and id recomputed)
		p2, _ := r2.MarshalVT()
		t.try("prev-id-edited-not-resigned", "PrevId := "+o.d, WithId(CounterSign(&consensusproto.RawRecord{Payload: p2, Signature: rr.Signature}, e.net.Keys.SignKey, rr.AcceptorTimestamp)), true, true)
	}
	// identity replaced by another account's (and by a stranger's): not re-signed / re-signed with the real author's key
	for _, other := range append(append([]*Account{}, h.sim.Accounts...), NewAccount(h.sim.Seed, "~stranger")) {
		if other == author {
			continue
		}
		r2 := &consensusproto.Record{PrevId: rec.PrevId, Identity: other.Proto, Data: rec.Data, Timestamp: rec.Timestamp}
		p2, _ := r2.MarshalVT()
		t.try("identity-replaced-not-resigned", "identity := "+other.Name, WithId(CounterSign(&consensusproto.RawRecord{Payload: p2, Signature: rr.Signature}, e.net.Keys.SignKey, rr.AcceptorTimestamp)), true, true)
		t.try("identity-replaced-signed-by-real-author", "identity := "+other.Name, t.remake(r2, author.Keys.SignKey, rr.AcceptorTimestamp), true, true)
		if other.Name == before.Owners[0] || other.Name == "W" {
			// signed by the named account itself: simply that account's own record (valid or not by its permissions)
			t.try("identity-replaced-signed-by-that-account", "identity := "+other.Name, t.remake(r2, other.Keys.SignKey, rr.AcceptorTimestamp), false, false)
		}
	}
	// every identity inside the record's content written in another encoding of the same key (the zero-valued key type
	// spelled out), re-signed by the author: whatever a list makes of it, the same observer must see the same thing
	// with the full and with the keep-only-ours decode
	if data := (&aclrecordproto.AclData{}); data.UnmarshalVT(rec.Data) == nil {
		respell := func(b []byte) []byte {
			if len(b) > 0 && b[0] == 0x12 {
				return append([]byte{0x08, 0x00}, b...)
			}
			return b
		}
		touched := 0
		rkc := func(ch *aclrecordproto.AclReadKeyChange) {
			if ch == nil {
				return
			}
			for _, ak := range ch.AccountKeys {
				if nb := respell(ak.Identity); len(nb) != len(ak.Identity) {
					ak.Identity = nb
					touched++
				}
			}
		}
		for _, cv := range data.AclContent {
			rkc(cv.GetReadKeyChange())
			if v := cv.GetAccountRemove(); v != nil {
				rkc(v.ReadKeyChange)
			}
			if v := cv.GetInviteRevoke(); v != nil {
				_ = v
			}
			if v := cv.GetAccountsAdd(); v != nil {
				for _, a := range v.Additions {
					if nb := respell(a.Identity); len(nb) != len(a.Identity) {
						a.Identity = nb
						touched++
					}
				}
			}
			if v := cv.GetRequestAccept(); v != nil {
				if nb := respell(v.Identity); len(nb) != len(v.Identity) {
					v.Identity = nb
					touched++
				}
			}
		}
		if nd, err := data.MarshalVT(); err == nil && touched > 0 {
			r2 := &consensusproto.Record{PrevId: rec.PrevId, Identity: rec.Identity, Data: nd, Timestamp: rec.Timestamp}
			t.differential("content-identities-in-another-encoding", fmt.Sprintf("%d identities", touched), t.remake(r2, author.Keys.SignKey, rr.AcceptorTimestamp))
		}
	}
	// acceptor fields (id recomputed so that the CID matches): required by the non-validating list only
	acc := func(d string, f func(m *consensusproto.RawRecord), mustN bool) {
		m := cloneRaw(rr)
		f(m)
		w := withId(m)
		t.try("acceptor-"+d, "id recomputed", w, false, mustN)
		t.try("acceptor-"+d+"-id-kept", "id kept", mk(w.Payload, id), true, true)
	}
	acc("signature-removed", func(m *consensusproto.RawRecord) { m.AcceptorSignature = nil }, true)
	acc("identity-removed", func(m *consensusproto.RawRecord) { m.AcceptorIdentity = nil }, true)
	acc("fields-removed", func(m *consensusproto.RawRecord) {
		m.AcceptorIdentity, m.AcceptorSignature, m.AcceptorTimestamp = nil, nil, 0
	}, true)
	acc("is-the-author", func(m *consensusproto.RawRecord) {
		m.AcceptorIdentity = author.Proto
		m.AcceptorSignature, _ = author.Keys.SignKey.Sign(m.Payload)
	}, true)
	acc("is-a-stranger", func(m *consensusproto.RawRecord) {
		s := NewAccount(h.sim.Seed, "~stranger")
		m.AcceptorIdentity = s.Proto
		m.AcceptorSignature, _ = s.Keys.SignKey.Sign(m.Payload)
	}, true)
	acc("signature-is-the-authors", func(m *consensusproto.RawRecord) { m.AcceptorSignature = bytes.Clone(m.Signature) }, true)
	acc("signature-over-the-wrapper", func(m *consensusproto.RawRecord) {
		m.AcceptorSignature, _ = e.net.Keys.SignKey.Sign(t.last.Payload)
	}, true)
	acc("identity-raw-32-bytes", func(m *consensusproto.RawRecord) { m.AcceptorIdentity, _ = e.net.Pub().Raw() }, false) // second accepted encoding
	acc("timestamp-changed", func(m *consensusproto.RawRecord) { m.AcceptorTimestamp++ }, false)                         // covered by no signature

	// a multi-content record whose FIRST content is valid and whose SECOND is not: nothing of the first may stay
	t.badSecondContent(before, ownerAcc)

	// the genuine record must still be accepted by every list that went through all of the above
	for _, tg := range t.targets {
		if t.broken {
			return
		}
		e.c.Count("evaluations", 1)
		if err := tg.l.AddRawRecord(t.last); err != nil {
			e.c.Violation("tamper:genuine-record-rejected-after-rejections:"+tg.k.String(), fmt.Sprintf("history %s, list %s: after the rejected mutations the genuine last record is rejected: %v", h, tg.name(), err), h.replay())
			continue
		}
		if ref != nil {
			if f, got, want := diff(project(h.sim, tg.l).common, ref[n]); f != "" {
				e.c.Violation("tamper:state-after-genuine-record-differs:"+tg.k.String()+":"+f, fmt.Sprintf("history %s, list %s: after the rejected mutations and the genuine last record: got {%s} want {%s}", h, tg.name(), got, want), h.replay())
			}
		}
	}
}

func decodeAcceptor(b []byte) (crypto.PubKey, error) {
	if pk, err := crypto.UnmarshalEd25519PublicKeyProto(b); err == nil {
		return pk, nil
	}
	return crypto.UnmarshalEd25519PublicKey(b)
}

// badSecondContent crafts (by hand, signed by the owner, counter-signed by the network) records extending the head
// of the prefix whose first content applies and whose second does not.
func (t *tamperer) badSecondContent(before Abs, owner *Account) {
	s := t.h.sim.Fork()
	head := t.prefix[len(t.prefix)-1].Id
	garbage := []byte("not-a-key")
	invKey, _, _ := crypto.GenerateRandomEd25519KeyPair()
	badPerm := &aclrecordproto.AclContentValue{Value: &aclrecordproto.AclContentValue_PermissionChange{
		PermissionChange: &aclrecordproto.AclAccountPermissionChange{Identity: garbage, Permissions: Reader}}}
	badInvite := &aclrecordproto.AclContentValue{Value: &aclrecordproto.AclContentValue_Invite{
		Invite: &aclrecordproto.AclAccountInvite{InviteKey: garbage, InviteType: aclrecordproto.AclInviteType_RequestToJoin}}}
	goodInvite := CInvite(invKey.GetPublic(), aclrecordproto.AclInviteType_RequestToJoin, None)
	optV := uint32(1)
	if o := t.targets[0].l.AclState().CurrentOptions(); o != nil && o.DeleteRestricted {
		optV = 0
	}
	var outsider *Account
	for _, n := range roles {
		if before.Accounts[n].Perm == None && before.Accounts[n].Status != list.StatusJoining {
			outsider = s.Acc(n)
			break
		}
	}
	// recipients of a placeholder rotation (the node is never one of them, so it does not try to decrypt)
	var accs, invs [][]byte
	for _, n := range roles {
		if before.Accounts[n].Perm != None {
			accs = append(accs, s.Acc(n).Proto)
		}
	}
	for _, iv := range before.Invites {
		if iv.Type == aclrecordproto.AclInviteType_AnyoneCanJoin {
			p, _ := iv.Key.Marshall()
			invs = append(invs, p)
		}
	}
	metaPub, _ := owner.Pub().Marshall()
	type bc struct {
		d            string
		c            []*aclrecordproto.AclContentValue
		mustV, mustN bool
		nodeOnly     bool
	}
	cases := []bc{
		{"[Invite ; InviteRevoke(unknown invite)]", []*aclrecordproto.AclContentValue{goodInvite, CInviteRevoke("bafyunknowninvite")}, true, false, false},
		{"[Invite ; PermissionChange(undecodable identity)]", []*aclrecordproto.AclContentValue{goodInvite, badPerm}, true, true, false},
		{"[SpaceOptionsChange ; Invite(undecodable invite key)]", []*aclrecordproto.AclContentValue{COptions(optV), badInvite}, true, true, false},
		{"[SpaceOptionsChange ; PermissionChange(owner -> Reader)]", []*aclrecordproto.AclContentValue{COptions(optV), CPermissionChange(owner, Reader)}, true, false, false},
		{"[ReadKeyChange ; PermissionChange(undecodable identity)]", []*aclrecordproto.AclContentValue{CReadKeyChange(ReadKeyChange(metaPub, accs, invs)), badPerm}, true, true, true},
	}
	if outsider != nil {
		cases = append(cases, bc{"[AccountsAdd(" + outsider.Name + ") ; Invite(undecodable invite key)]", []*aclrecordproto.AclContentValue{CAccountsAdd(Reader, outsider), badInvite}, true, true, false})
	}
	if len(before.Invites) > 0 {
		cases = append(cases, bc{"[InviteRevoke(live invite) ; PermissionChange(undecodable identity)]", []*aclrecordproto.AclContentValue{CInviteRevoke(before.Invites[0].Id), badPerm}, true, true, false})
	}
	saved := t.targets
	for _, cs := range cases {
		rec := s.Accept(s.Craft(owner, head, cs.c...))
		t.e.flags[fSecondContentBad].Add(1)
		if cs.nodeOnly {
			t.targets = saved[:2]
		}
		t.try("second-content-invalid", cs.d, rec, cs.mustV, cs.mustN)
		t.targets = saved
	}
}
