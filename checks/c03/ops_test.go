package c03

// Operation alphabet: every record kind of the ACL, built by the acting account's OWN real record builder (real key
// material: read keys encrypted to every recipient, invite keys, metadata keys), incl. multi-content batch records.

import (
	"fmt"
	"strings"

	"github.com/anyproto/any-sync/commonspace/object/acl/aclrecordproto"
	"github.com/anyproto/any-sync/commonspace/object/acl/list"
	"github.com/anyproto/any-sync/consensus/consensusproto"
	"github.com/anyproto/any-sync/util/crypto"

	. "verif/lib/aclsim"
)

var roles = []string{"O", "A", "W", "R", "X", "M"}

type buildFn func(b list.AclRecordBuilder) (*consensusproto.RawRecord, []crypto.PrivKey, error)

type op struct {
	Label string // role-relative and stable between runs: "<actor>:<kind>(<detail>)"
	Kind  string
	Actor string
	build buildFn
}

func newKeys() list.ReadKeyChangePayload {
	priv, _, err := crypto.GenerateRandomEd25519KeyPair()
	if err != nil {
		panic(err)
	}
	return list.ReadKeyChangePayload{MetadataKey: priv, ReadKey: crypto.NewAES()}
}

func lp(p Perm) list.AclPermissions { return list.AclPermissions(p) }

// defaultPerm is the permission an account gets when it is added directly.
func defaultPerm(name string) Perm {
	switch name {
	case "A", "O":
		return Admin
	case "W", "M":
		return Writer
	}
	return Reader
}

func altPerm(p Perm) Perm {
	switch p {
	case Reader:
		return Writer
	case Writer:
		return Reader
	case Admin:
		return Writer
	}
	return Reader
}

func isManager(p Perm) bool { return p == Owner || p == Admin }

// enumerate lists the operations offered in a state. Whether an operation is enabled is decided by the real builder
// (its own pre-checks and its preflight application on the actor's state), never by this function.
func enumerate(s *Sim, abs Abs, optRestricted bool, thorough bool) (out []op) {
	add := func(actor, kind, detail string, f buildFn) {
		out = append(out, op{Label: fmt.Sprintf("%s:%s(%s)", actor, kind, detail), Kind: kind, Actor: actor, build: f})
	}
	perm := func(n string) Perm { return abs.Accounts[n].Perm }
	pub := func(n string) crypto.PubKey { return s.Acc(n).Pub() }
	var reqInv, anyInv *AbsInvite
	for i := range abs.Invites {
		iv := &abs.Invites[i]
		if iv.Type == aclrecordproto.AclInviteType_RequestToJoin && reqInv == nil {
			reqInv = iv
		}
		if iv.Type == aclrecordproto.AclInviteType_AnyoneCanJoin && anyInv == nil {
			anyInv = iv
		}
	}
	pending := map[string]AbsRequest{}
	for _, r := range abs.Requests {
		pending[r.Who] = r
	}
	var members, outsiders []string
	for _, n := range roles {
		if perm(n) != None {
			members = append(members, n)
		} else {
			outsiders = append(outsiders, n)
		}
	}
	for _, m := range members {
		if !isManager(perm(m)) {
			continue
		}
		if reqInv == nil {
			add(m, "Invite", "request", func(b list.AclRecordBuilder) (*consensusproto.RawRecord, []crypto.PrivKey, error) {
				r, err := b.BuildInvite()
				return r.InviteRec, []crypto.PrivKey{r.InviteKey}, err
			})
		}
		if anyInv == nil {
			ps := []Perm{Writer}
			if thorough {
				ps = append(ps, Reader)
			}
			for _, p := range ps {
				add(m, "InviteAnyone", PermName(p), func(b list.AclRecordBuilder) (*consensusproto.RawRecord, []crypto.PrivKey, error) {
					r, err := b.BuildInviteAnyone(lp(p))
					return r.InviteRec, []crypto.PrivKey{r.InviteKey}, err
				})
			}
		}
		if anyInv != nil {
			id, p := anyInv.Id, altPerm(anyInv.Perm)
			add(m, "InviteChange", "any->"+PermName(p), func(b list.AclRecordBuilder) (*consensusproto.RawRecord, []crypto.PrivKey, error) {
				r, err := b.BuildInviteChange(list.InviteChangePayload{IniviteRecordId: id, Permissions: lp(p)})
				return r, nil, err
			})
		}
		for _, iv := range []*AbsInvite{reqInv, anyInv} {
			if iv == nil {
				continue
			}
			id := iv.Id
			add(m, "InviteRevoke", inviteName(iv), func(b list.AclRecordBuilder) (*consensusproto.RawRecord, []crypto.PrivKey, error) {
				r, err := b.BuildInviteRevoke(id)
				return r, nil, err
			})
		}
		for _, who := range roles {
			rq, ok := pending[who]
			if !ok || !rq.Join {
				continue
			}
			id := rq.Id
			ps := []Perm{Reader}
			if thorough {
				ps = append(ps, Writer)
			}
			for _, p := range ps {
				add(m, "RequestAccept", who+"="+PermName(p), func(b list.AclRecordBuilder) (*consensusproto.RawRecord, []crypto.PrivKey, error) {
					r, err := b.BuildRequestAccept(list.RequestAcceptPayload{RequestRecordId: id, Permissions: lp(p)})
					return r, nil, err
				})
			}
			add(m, "RequestDecline", who, func(b list.AclRecordBuilder) (*consensusproto.RawRecord, []crypto.PrivKey, error) {
				r, err := b.BuildRequestDecline(id)
				return r, nil, err
			})
			if reqInv != nil {
				inv := reqInv.Id
				add(m, "Batch", "decline "+who+"+revoke request-invite", func(b list.AclRecordBuilder) (*consensusproto.RawRecord, []crypto.PrivKey, error) {
					r, err := b.BuildBatchRequest(list.BatchRequestPayload{Declines: []string{id}, InviteRevokes: []string{inv}})
					return r.Rec, r.Invites, err
				})
				if thorough {
					add(m, "Batch", "decline "+who+"+revoke request-invite+rotate", func(b list.AclRecordBuilder) (*consensusproto.RawRecord, []crypto.PrivKey, error) {
						k := newKeys()
						r, err := b.BuildBatchRequest(list.BatchRequestPayload{Declines: []string{id}, InviteRevokes: []string{inv}, ReadKeyChange: &k})
						return r.Rec, r.Invites, err
					})
				}
			}
		}
		nBatch := 0
		for _, t := range members {
			if t == m || perm(t) == Owner {
				continue
			}
			add(m, "AccountRemove", t, func(b list.AclRecordBuilder) (*consensusproto.RawRecord, []crypto.PrivKey, error) {
				r, err := b.BuildAccountRemove(list.AccountRemovePayload{Identities: []crypto.PubKey{pub(t)}, Change: newKeys()})
				return r, nil, err
			})
			p := altPerm(perm(t))
			add(m, "PermissionChange", t+"->"+PermName(p), func(b list.AclRecordBuilder) (*consensusproto.RawRecord, []crypto.PrivKey, error) {
				r, err := b.BuildPermissionChange(list.PermissionChangePayload{Identity: pub(t), Permissions: lp(p)})
				return r, nil, err
			})
			if thorough && perm(t) == Writer {
				add(m, "PermissionChange", t+"->Admin", func(b list.AclRecordBuilder) (*consensusproto.RawRecord, []crypto.PrivKey, error) {
					r, err := b.BuildPermissionChange(list.PermissionChangePayload{Identity: pub(t), Permissions: lp(Admin)})
					return r, nil, err
				})
			}
			// batch: remove t and add an outsider under the new key, in one record
			if len(outsiders) > 0 && nBatch < 2 && perm(t) != Admin {
				nBatch++
				u := outsiders[0]
				if pending[u].Join && len(outsiders) > 1 {
					u = outsiders[1]
				}
				add(m, "Batch", "remove "+t+"+add "+u, func(b list.AclRecordBuilder) (*consensusproto.RawRecord, []crypto.PrivKey, error) {
					r, err := b.BuildBatchRequest(list.BatchRequestPayload{
						Removals:  list.AccountRemovePayload{Identities: []crypto.PubKey{pub(t)}, Change: newKeys()},
						Additions: []list.AccountAdd{{Identity: pub(u), Permissions: lp(defaultPerm(u)), Metadata: []byte("meta-" + u)}},
					})
					return r.Rec, r.Invites, err
				})
			}
		}
		for _, u := range outsiders {
			add(m, "AccountsAdd", u+"="+PermName(defaultPerm(u)), func(b list.AclRecordBuilder) (*consensusproto.RawRecord, []crypto.PrivKey, error) {
				r, err := b.BuildAccountsAdd(list.AccountsAddPayload{Additions: []list.AccountAdd{{Identity: pub(u), Permissions: lp(defaultPerm(u)), Metadata: []byte("meta-" + u)}}})
				return r, nil, err
			})
		}
		if perm("W") == None && perm("R") == None {
			add(m, "AccountsAdd", "W=Writer,R=Reader", func(b list.AclRecordBuilder) (*consensusproto.RawRecord, []crypto.PrivKey, error) {
				r, err := b.BuildAccountsAdd(list.AccountsAddPayload{Additions: []list.AccountAdd{
					{Identity: pub("W"), Permissions: lp(Writer), Metadata: []byte("meta-W")},
					{Identity: pub("R"), Permissions: lp(Reader), Metadata: []byte("meta-R")}}})
				return r, nil, err
			})
		}
		if perm("W") != None && perm("R") != None && m != "W" && m != "R" && perm("W") != Owner && perm("R") != Owner {
			pw, pr := altPerm(perm("W")), altPerm(perm("R"))
			add(m, "PermissionChanges", "W->"+PermName(pw)+",R->"+PermName(pr), func(b list.AclRecordBuilder) (*consensusproto.RawRecord, []crypto.PrivKey, error) {
				r, err := b.BuildPermissionChanges(list.PermissionChangesPayload{Changes: []list.PermissionChangePayload{
					{Identity: pub("W"), Permissions: lp(pw)}, {Identity: pub("R"), Permissions: lp(pr)}}})
				return r, nil, err
			})
		}
		add(m, "ReadKeyChange", "", func(b list.AclRecordBuilder) (*consensusproto.RawRecord, []crypto.PrivKey, error) {
			r, err := b.BuildReadKeyChange(newKeys())
			return r, nil, err
		})
		if len(abs.Invites) > 0 {
			var ids []string
			var names []string
			for i := range abs.Invites {
				ids = append(ids, abs.Invites[i].Id)
				names = append(names, inviteName(&abs.Invites[i]))
			}
			add(m, "Batch", "revoke "+strings.Join(names, ",")+"+rotate", func(b list.AclRecordBuilder) (*consensusproto.RawRecord, []crypto.PrivKey, error) {
				k := newKeys()
				r, err := b.BuildBatchRequest(list.BatchRequestPayload{InviteRevokes: ids, ReadKeyChange: &k})
				return r.Rec, r.Invites, err
			})
		}
		if perm(m) == Owner {
			for _, t := range []string{"A", "W"} {
				if t != m && perm(t) != None {
					add(m, "OwnershipChange", t, func(b list.AclRecordBuilder) (*consensusproto.RawRecord, []crypto.PrivKey, error) {
						r, err := b.BuildOwnershipChange(list.OwnershipChangePayload{NewOwner: pub(t), OldOwnerPermissions: lp(Admin)})
						return r, nil, err
					})
					break
				}
			}
			v := uint32(1)
			if optRestricted {
				v = 0
			}
			add(m, "SpaceOptionsChange", fmt.Sprintf("restricted=%v", !optRestricted), func(b list.AclRecordBuilder) (*consensusproto.RawRecord, []crypto.PrivKey, error) {
				r, err := b.BuildSpaceOptionsChange(MakeOptions(v))
				return r, nil, err
			})
		}
	}
	for _, m := range members {
		if perm(m) == Owner {
			continue
		}
		if rq, ok := pending[m]; ok {
			id := rq.Id
			add(m, "RequestCancel", "own-remove", func(b list.AclRecordBuilder) (*consensusproto.RawRecord, []crypto.PrivKey, error) {
				r, err := b.BuildRequestCancel(id)
				return r, nil, err
			})
		} else {
			add(m, "RequestRemove", "", func(b list.AclRecordBuilder) (*consensusproto.RawRecord, []crypto.PrivKey, error) {
				r, err := b.BuildRequestRemove()
				return r, nil, err
			})
		}
	}
	for _, u := range outsiders {
		if rq, ok := pending[u]; ok {
			id := rq.Id
			add(u, "RequestCancel", "own-join", func(b list.AclRecordBuilder) (*consensusproto.RawRecord, []crypto.PrivKey, error) {
				r, err := b.BuildRequestCancel(id)
				return r, nil, err
			})
		} else if reqInv != nil && s.InviteKeys[reqInv.Id] != nil {
			k := s.InviteKeys[reqInv.Id]
			add(u, "RequestJoin", "", func(b list.AclRecordBuilder) (*consensusproto.RawRecord, []crypto.PrivKey, error) {
				r, err := b.BuildRequestJoin(list.RequestJoinPayload{InviteKey: k, Metadata: []byte("meta-" + u)})
				return r, nil, err
			})
		}
		if anyInv != nil && s.InviteKeys[anyInv.Id] != nil {
			k, p := s.InviteKeys[anyInv.Id], anyInv.Perm
			add(u, "InviteJoin", PermName(p), func(b list.AclRecordBuilder) (*consensusproto.RawRecord, []crypto.PrivKey, error) {
				r, err := b.BuildInviteJoinWithoutApprove(list.InviteJoinPayload{InviteKey: k, Permissions: lp(p), Metadata: []byte("meta-" + u)})
				return r, nil, err
			})
		}
	}
	return
}

func inviteName(iv *AbsInvite) string {
	if iv.Type == aclrecordproto.AclInviteType_AnyoneCanJoin {
		return "anyone-invite"
	}
	return "request-invite"
}
