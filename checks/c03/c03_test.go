// C03 — the ACL log is a tamper-evident chain with deterministic, atomically updated state.
//
// Explicit-state BFS over ACL record histories on the real implementation. Every record is built by the acting
// account's own real record builder (real key material), counter-signed by a harness "network" key the way the
// consensus node does it (acceptor fields added before the id is derived), and accepted by a fully validating list of
// a non-member. Dedup on the abstract ACL state. For every history reached:
//   - determinism: one-by-one / batched / every 2-split / non-validating (keep-only-ours decode) / rebuilt from an
//     in-memory storage and from the real any-store storage (also with a perturbed order index: PrevId-walk fallback) /
//     every prefix replica catching up from RecordsAfter — for owner, member, removed member and node observers — all
//     yield the same observable projection; what RecordsAfter serves are the stored raw bytes;
//   - tamper evidence: bounded exhaustive mutations of the last record (bytes, truncations, id, PrevId re-signed,
//     signatures, identities, acceptor fields, second content of a multi-content record invalid) are rejected and
//     leave projection, storage and head untouched.
package c03

import (
	"fmt"
	"os"
	"runtime/debug"
	"sort"
	"strconv"
	"strings"
	"sync"
	"sync/atomic"
	"testing"
	"time"

	"go.uber.org/zap"
	"go.uber.org/zap/zapcore"

	"github.com/anyproto/any-sync/app/logger"
	"github.com/anyproto/any-sync/commonspace/object/acl/list"
	"github.com/anyproto/any-sync/consensus/consensusproto"
	"github.com/anyproto/any-sync/util/crypto"

	. "verif/lib/aclsim"
	"verif/lib/vk"
)

// fallbackCore counts the acl list's "falling back to head->root walk" warnings and drops everything else.
type fallbackCore struct{ n *atomic.Int64 }

func (f fallbackCore) Enabled(l zapcore.Level) bool               { return l >= zapcore.WarnLevel }
func (f fallbackCore) With([]zapcore.Field) zapcore.Core          { return f }
func (f fallbackCore) Sync() error                                { return nil }
func (f fallbackCore) Write(zapcore.Entry, []zapcore.Field) error { return nil }
func (f fallbackCore) Check(e zapcore.Entry, ce *zapcore.CheckedEntry) *zapcore.CheckedEntry {
	if e.Level == zapcore.WarnLevel && strings.Contains(e.Message, "falling back to head->root walk") {
		f.n.Add(1)
	}
	return ce
}

var fallbackWarnings atomic.Int64

func TestCheck(t *testing.T) {
	logger.SetDefault(zap.New(fallbackCore{&fallbackWarnings}))
	logger.SetNamedLevels(logger.LevelsFromStr("*=warn"))
	vk.Main(t, vk.Spec{
		Prop:  "C03",
		Level: "model_checking",
		Rule: "explicit-state BFS over ACL record histories of the real list implementation, from the root and from 3 scripted seed histories, up to the depth bound; every operation is built by the acting account's own real record builder (19 builder entry points incl. 3-4 kinds of multi-content batch records; 6 accounts: owner, admin, writer, reader, outsider, removed member), counter-signed by a harness network key and accepted by a validating non-member list; " +
			"states = distinct abstract ACL states (aclsim Abs.Canon: members with permission+status, invites with type+permission, pending requests, key generations, options); transitions = operations applied; " +
			"every distinct-state history goes through 5 families of ways to obtain a list (one-by-one, AddRawRecords whole + every 2-split, non-validating keep-only-ours, rebuild from in-memory / any-store / order-perturbed any-store storage, every-prefix catch-up from RecordsAfter) x validating/non-validating x observers (node, owner, member, removed member; thorough: all 6 accounts + node) and through the mutation classes of its last record; " +
			"distinct_nontrivial = distinct (abstract state, mode family) pairs + distinct (mutation class, kind of the mutated record) pairs",
		Assumptions: []string{
			"builder timestamps (time.Now) and crypto nonces are not controlled: histories are compared on observable state only, never on raw bytes of independently built records",
			"acceptance by a fully validating list with recomputed id after editing unauthenticated wrapper fields (acceptor fields) is legitimate and only counted (info_*); so are a second valid encoding of the network key and a changed acceptor timestamp (covered by no signature) on the non-validating list",
			"states / transitions / distinct counts are reproducible; the number of evaluations varies by a fraction of a percent between runs because byte mutations identical to the original byte or to another variant of the same byte are skipped and record bytes contain fresh nonces",
			"per-byte / per-length / per-id-character / per-signature-byte sweeps (node observer lists) run on the seed histories, on every history up to depth 1 from the root (thorough: depth 2 from the root and from the seeds) and, beyond, on the first history in BFS order ending in each record kind (thorough: plus every 5th history of a level); the structural mutation classes run on every history, for node and owner observers",
		},
		Budget: func(tier string) time.Duration {
			if tier == "quick" {
				return 75 * time.Second
			}
			return 18 * time.Minute
		},
	}, body)
}

// ---- seeds -------------------------------------------------------------------------------------------------------

type script struct {
	e *env
	h *hist
}

// step lets actor build an operation with its own builder on its own view and submits it through the consensus step.
func (sc *script) step(actor, kind string, f buildFn) *consensusproto.RawRecordWithId {
	s := sc.h.sim
	raw, keys, err := f(s.Full(s.Acc(actor)).RecordBuilder())
	if err != nil {
		panic(fmt.Sprintf("seed %s: %s by %s: builder: %v", sc.h.seed, kind, actor, err))
	}
	rec, err := s.SubmitAccepted(raw)
	if err != nil {
		panic(fmt.Sprintf("seed %s: %s by %s: rejected: %v", sc.h.seed, kind, actor, err))
	}
	if len(keys) > 0 {
		s.InviteKeys[rec.Id] = keys[0]
	}
	sc.h.kinds = append(sc.h.kinds, kind)
	return rec
}

func (sc *script) fork(name string) *script {
	return &script{sc.e, &hist{sim: sc.h.sim.Fork(), seed: name, kinds: append([]string{}, sc.h.kinds...)}}
}

func addOne(s *Sim, n string, p Perm) buildFn {
	return func(b list.AclRecordBuilder) (*consensusproto.RawRecord, []crypto.PrivKey, error) {
		r, err := b.BuildAccountsAdd(list.AccountsAddPayload{Additions: []list.AccountAdd{{Identity: s.Acc(n).Pub(), Permissions: lp(p), Metadata: []byte("meta-" + n)}}})
		return r, nil, err
	}
}

func seeds(e *env, seed int64) (out []*hist) {
	root := &script{e, &hist{sim: New(seed, roles...), seed: "root"}}
	out = append(out, root.h)

	// members: admin, writer+reader added in one record, a member added and removed again (one key rotation)
	m := root.fork("members")
	s := m.h.sim
	m.step("O", "AccountsAdd", addOne(s, "A", Admin))
	m.step("O", "AccountsAdd", func(b list.AclRecordBuilder) (*consensusproto.RawRecord, []crypto.PrivKey, error) {
		r, err := b.BuildAccountsAdd(list.AccountsAddPayload{Additions: []list.AccountAdd{
			{Identity: s.Acc("W").Pub(), Permissions: lp(Writer), Metadata: []byte("meta-W")},
			{Identity: s.Acc("R").Pub(), Permissions: lp(Reader), Metadata: []byte("meta-R")}}})
		return r, nil, err
	})
	m.step("A", "AccountsAdd", addOne(s, "M", Writer))
	m.step("A", "AccountRemove", func(b list.AclRecordBuilder) (*consensusproto.RawRecord, []crypto.PrivKey, error) {
		r, err := b.BuildAccountRemove(list.AccountRemovePayload{Identities: []crypto.PubKey{s.Acc("M").Pub()}, Change: newKeys()})
		return r, nil, err
	})
	out = append(out, m.h)

	// members + both kinds of invites + a pending join request of the outsider + a pending removal request of the writer
	p := m.fork("members+invites+pending")
	s2 := p.h.sim
	p.step("A", "Invite", func(b list.AclRecordBuilder) (*consensusproto.RawRecord, []crypto.PrivKey, error) {
		r, err := b.BuildInvite()
		return r.InviteRec, []crypto.PrivKey{r.InviteKey}, err
	})
	var reqKey crypto.PrivKey
	for _, k := range s2.InviteKeys {
		reqKey = k
	}
	p.step("O", "InviteAnyone", func(b list.AclRecordBuilder) (*consensusproto.RawRecord, []crypto.PrivKey, error) {
		r, err := b.BuildInviteAnyone(lp(Writer))
		return r.InviteRec, []crypto.PrivKey{r.InviteKey}, err
	})
	p.step("X", "RequestJoin", func(b list.AclRecordBuilder) (*consensusproto.RawRecord, []crypto.PrivKey, error) {
		r, err := b.BuildRequestJoin(list.RequestJoinPayload{InviteKey: reqKey, Metadata: []byte("meta-X")})
		return r, nil, err
	})
	p.step("W", "RequestRemove", func(b list.AclRecordBuilder) (*consensusproto.RawRecord, []crypto.PrivKey, error) {
		r, err := b.BuildRequestRemove()
		return r, nil, err
	})
	out = append(out, p.h)

	// rotations, a join through an open invite, the removed member back in under the rotated key (batch), ownership moved
	// to the admin, options changed
	r := m.fork("rotated+open-join+ownership-moved")
	s3 := r.h.sim
	inv := r.step("O", "InviteAnyone", func(b list.AclRecordBuilder) (*consensusproto.RawRecord, []crypto.PrivKey, error) {
		x, err := b.BuildInviteAnyone(lp(Reader))
		return x.InviteRec, []crypto.PrivKey{x.InviteKey}, err
	})
	r.step("X", "InviteJoin", func(b list.AclRecordBuilder) (*consensusproto.RawRecord, []crypto.PrivKey, error) {
		x, err := b.BuildInviteJoinWithoutApprove(list.InviteJoinPayload{InviteKey: s3.InviteKeys[inv.Id], Permissions: lp(Reader), Metadata: []byte("meta-X")})
		return x, nil, err
	})
	r.step("O", "ReadKeyChange", func(b list.AclRecordBuilder) (*consensusproto.RawRecord, []crypto.PrivKey, error) {
		x, err := b.BuildReadKeyChange(newKeys())
		return x, nil, err
	})
	r.step("O", "Batch", func(b list.AclRecordBuilder) (*consensusproto.RawRecord, []crypto.PrivKey, error) {
		x, err := b.BuildBatchRequest(list.BatchRequestPayload{
			Removals:  list.AccountRemovePayload{Identities: []crypto.PubKey{s3.Acc("R").Pub()}, Change: newKeys()},
			Additions: []list.AccountAdd{{Identity: s3.Acc("M").Pub(), Permissions: lp(Writer), Metadata: []byte("meta-M")}},
		})
		return x.Rec, x.Invites, err
	})
	r.step("O", "OwnershipChange", func(b list.AclRecordBuilder) (*consensusproto.RawRecord, []crypto.PrivKey, error) {
		x, err := b.BuildOwnershipChange(list.OwnershipChangePayload{NewOwner: s3.Acc("A").Pub(), OldOwnerPermissions: lp(Admin)})
		return x, nil, err
	})
	r.step("A", "SpaceOptionsChange", func(b list.AclRecordBuilder) (*consensusproto.RawRecord, []crypto.PrivKey, error) {
		x, err := b.BuildSpaceOptionsChange(MakeOptions(1))
		return x, nil, err
	})
	out = append(out, r.h)
	for _, h := range out {
		e.describe(h)
	}
	return
}

// describe fills the abstract state of a history from the node's validating view.
func (e *env) describe(h *hist) list.AclList {
	l := h.sim.Full(e.node)
	e.c.Count("executions", 1)
	h.abs = h.sim.Abstract(l.AclState())
	h.canon = h.abs.Canon()
	return l
}

// ---- search ------------------------------------------------------------------------------------------------------

// expand applies every enabled operation to h and returns the successor histories.
func (e *env) expand(h *hist) (succ []*hist) {
	s := h.sim
	nodeList := s.Full(e.node)
	restricted := false
	if o := nodeList.AclState().CurrentOptions(); o != nil {
		restricted = o.DeleteRestricted
	}
	views := map[string]list.AclList{}
	offered, enabled := 0, 0
	for _, o := range enumerate(s, h.abs, restricted, e.c.Thorough()) {
		offered++
		v := views[o.Actor]
		if v == nil {
			v = s.Full(s.Acc(o.Actor))
			e.c.Count("executions", 1)
			views[o.Actor] = v
		}
		var raw *consensusproto.RawRecord
		var keys []crypto.PrivKey
		var err error
		if p, what := vk.Recover(func() { raw, keys, err = o.build(v.RecordBuilder()) }); p {
			e.c.Count("builder_panics", 1)
			e.c.Note("builder panic (C11's business) at %s + %s: %s", h, o.Label, vk.PanicSite(what))
			continue
		}
		if err != nil || raw == nil {
			continue // not enabled in this state
		}
		enabled++
		e.c.Count("transitions", 1)
		ns := s.Fork()
		rec := ns.Accept(raw)
		l := ns.Full(e.node)
		e.c.Count("executions", 1)
		nh := &hist{sim: ns, seed: h.seed, trail: append(append([]string{}, h.trail...), o.Label), depth: h.depth + 1, kinds: append(append([]string{}, h.kinds...), o.Kind)}
		if err := l.AddRawRecord(rec); err != nil {
			e.c.Violation("determinism:builder-preflight-accepts-but-validating-node-rejects:"+o.Kind,
				fmt.Sprintf("history %s: %s passed the builder's own preflight on the actor's view but a validating non-member list rejects it: %v", h, o.Label, err), nh.replay())
			continue
		}
		ns.Append(rec)
		if len(keys) > 0 {
			ns.InviteKeys[rec.Id] = keys[0]
		}
		nh.abs = ns.Abstract(l.AclState())
		nh.canon = nh.abs.Canon()
		succ = append(succ, nh)
	}
	if h.depth == 0 {
		e.c.Sample(map[string]any{"seed": h.seed, "records": len(s.Log), "state": h.canon, "operations_offered": offered, "operations_enabled": enabled})
	}
	return
}

// features records vacuity witnesses of a history that goes through the oracles.
func (e *env) features(h *hist) {
	for i, k := range h.kinds {
		switch k {
		case "Batch":
			e.flags[fBatch].Add(1)
		case "ReadKeyChange", "AccountRemove":
			e.flags[fRotation].Add(1)
		case "RequestAccept":
			e.flags[fJoinViaRequest].Add(1)
		case "InviteJoin":
			e.flags[fJoinViaOpenInvite].Add(1)
		}
		_ = i
	}
}

func (e *env) oracle(h *hist, sweep bool) {
	e.features(h)
	t0 := time.Now()
	ref, ok := e.determinism(h)
	e.prof("determinism", t0)
	defer func(t time.Time) { e.prof("tamper_sweep="+fmt.Sprint(sweep), t) }(time.Now())
	for _, fam := range []string{"m1", "m2", "m3", "m4-inmemory", "m4-anystore", "m4-anystore-perturbed", "m5"} {
		e.c.Distinct("distinct", h.canon+"|"+fam)
	}
	if !ok {
		return // the history itself is in doubt: its tamper results would only repeat that
	}
	e.tamper(h, sweep, ref)
}

// parallel runs f(worker, i) for i in [0,n) on the worker goroutines; indices are dealt in small contiguous blocks so
// that one worker sees neighbouring histories (they share long prefixes, which its any-store database then keeps).
func parallel(n int, f func(w, i int)) {
	const block = 6
	var wg sync.WaitGroup
	var next atomic.Int64
	nw := nWorkers
	if v, err := strconv.Atoi(os.Getenv("C03_WORKERS")); err == nil && v > 0 && v < nWorkers {
		nw = v
	}
	for w := 0; w < nw; w++ {
		wg.Add(1)
		go func() {
			defer wg.Done()
			for {
				b := int(next.Add(1)) - 1
				if b*block >= n {
					return
				}
				for i := b * block; i < (b+1)*block && i < n; i++ {
					f(w, i)
				}
			}
		}()
	}
	wg.Wait()
}

func body(c *vk.Ctx) {
	e := &env{c: c, net: Network(c.Seed), node: Observer(c.Seed), fbWarn: &fallbackWarnings}
	if c.Replay != "" {
		replay(e)
		return
	}

	debug.SetGCPercent(400) // allocation-heavy (protobuf decoding, state copies); the heap stays small
	depthRoot := vk.Pick(c, 3, 4)
	depthSeed := vk.Pick(c, 1, 2)
	sweepDepth := vk.Pick(c, 1, 2) // byte-level sweeps: the seeds, every history up to this depth from the root (thorough: also from the seeds) ...
	stride := vk.Pick(c, 0, 5)     // ... beyond: the first history in BFS order ending in each record kind, and every stride-th of a level
	c.Bound("depth_from_root", depthRoot)
	c.Bound("depth_from_scripted_seed_histories", depthSeed)
	c.Bound("byte_sweeps_on_every_history_up_to_depth", sweepDepth)
	c.Bound("byte_sweeps_beyond_first_history_per_record_kind_and_every_nth_of_a_level", stride)
	all := seeds(e, c.Seed)
	c.Bound("seed_histories", len(all))
	seen := map[string]bool{}
	var frontier []*hist
	for _, h := range all {
		if !seen[h.canon] {
			seen[h.canon] = true
			c.Distinct("states", h.canon)
			frontier = append(frontier, h)
		}
	}
	maxLen := 0
	stop := false
	kindSeen := map[string]bool{}
	for level := 0; len(frontier) > 0 && !stop; level++ {
		// oracles on every history of this level
		var done atomic.Int64
		firstOfKind := make([]bool, len(frontier)) // the first history (in BFS order) ending in each record kind
		for i, h := range frontier {
			if len(h.kinds) > 0 && !kindSeen[h.kinds[len(h.kinds)-1]] {
				kindSeen[h.kinds[len(h.kinds)-1]] = true
				firstOfKind[i] = true
			}
		}
		parallel(len(frontier), func(w, i int) {
			if c.TimeUp() {
				return
			}
			h := frontier[i]
			h.worker, h.index = w, i
			sweep := h.depth == 0 || (h.depth <= sweepDepth && (h.seed == "root" || c.Thorough())) || firstOfKind[i] || (stride > 0 && i%stride == 0)
			e.oracle(h, sweep)
			done.Add(1)
		})
		if int(done.Load()) < len(frontier) {
			c.NotExhaustive(fmt.Sprintf("deadline at level %d: %d of %d histories went through the oracles", level, done.Load(), len(frontier)))
			break
		}
		per := map[string]int{}
		for _, h := range frontier {
			per[h.seed]++
		}
		c.Bound(fmt.Sprintf("histories_checked_at_level_%d", level), per)
		// expansion
		succ := make([][]*hist, len(frontier))
		parallel(len(frontier), func(_, i int) {
			h := frontier[i]
			limit := depthSeed
			if h.seed == "root" {
				limit = depthRoot
			}
			if h.depth >= limit || c.TimeUp() {
				return
			}
			t0 := time.Now()
			succ[i] = e.expand(h)
			e.prof("expand", t0)
		})
		if c.TimeUp() {
			c.NotExhaustive(fmt.Sprintf("deadline while expanding level %d", level))
			stop = true
		}
		var next []*hist
		for _, ss := range succ {
			next = append(next, ss...)
		}
		sort.SliceStable(next, func(i, j int) bool {
			if next[i].seed != next[j].seed {
				return next[i].seed < next[j].seed
			}
			return strings.Join(next[i].trail, ";") < strings.Join(next[j].trail, ";")
		})
		frontier = frontier[:0:0]
		for _, h := range next {
			if len(h.sim.Log) > maxLen {
				maxLen = len(h.sim.Log)
			}
			if seen[h.canon] {
				continue
			}
			seen[h.canon] = true
			c.Distinct("states", h.canon)
			frontier = append(frontier, h)
			if len(frontier)%97 == 1 && h.depth >= 2 {
				c.Sample(map[string]any{"seed": h.seed, "ops": h.trail, "state": h.canon})
			}
		}
	}
	e.closeDBs()
	c.Bound("longest_history_records", maxLen)
	c.Count("fallback_warnings_logged", e.fbWarn.Load())
	if c.NViolations() == 0 {
		c.Require(e.flags[fBatch].Load() > 0, "vacuity: no checked history contains a multi-content batch record")
		c.Require(e.flags[fRotation].Load() > 0, "vacuity: no checked history contains a key rotation")
		c.Require(e.flags[fRemovedObserver].Load() > 0, "vacuity: no checked history was observed by a removed member")
		c.Require(e.flags[fJoinViaRequest].Load() > 0, "vacuity: no checked history contains an accepted join request")
		c.Require(e.flags[fJoinViaOpenInvite].Load() > 0, "vacuity: no checked history contains a join through an open invite")
		c.Require(e.flags[fSecondContentBad].Load() > 0, "vacuity: no record with an invalid second content was offered")
		c.Require(e.flags[fFallbackExpected].Load() > 0 && e.fbWarn.Load() >= e.flags[fFallbackExpected].Load(),
			"vacuity: %d lists were built over an order-perturbed any-store storage but the PrevId-walk fallback was logged only %d times", e.flags[fFallbackExpected].Load(), e.fbWarn.Load())
	}
}

// replay re-runs one stored history, described by its seed and its operation labels, through all oracles (the
// records are rebuilt: same operations, fresh nonces).
func replay(e *env) {
	var f struct {
		Case struct {
			Seed string   `json:"seed"`
			Ops  []string `json:"ops"`
		} `json:"case"`
	}
	if err := vk.ReadJSON(e.c.Replay, &f); err != nil {
		e.c.Broken("replay file: %v", err)
		return
	}
	var h *hist
	for _, s := range seeds(e, e.c.Seed) {
		if s.seed == f.Case.Seed {
			h = s
		}
	}
	if h == nil {
		e.c.Broken("replay: unknown seed history %q", f.Case.Seed)
		return
	}
	for _, label := range f.Case.Ops {
		var nxt *hist
		for _, s := range e.expand(h) {
			if s.trail[len(s.trail)-1] == label {
				nxt = s
			}
		}
		if nxt == nil {
			e.c.Broken("replay: operation %q is not enabled after %s", label, h)
			return
		}
		h = nxt
	}
	e.c.Distinct("states", h.canon)
	e.oracle(h, true)
	e.closeDBs()
}
