package c03

// Mode m7 — "catching up from the records another replica serves", for the node observer, at the call site that does
// it: the real node-side ACL service (acl.New()) fed by the consensus stream. The stream hands every batch over
// newest-first; the first batch is the whole log as it was when the object was built, later batches are what was
// accepted since. For every prefix k (initial load) and three ways of cutting the rest into batches (all at once, one
// by one, two halves) the list the service serves must be exactly the reference of the same records applied one by
// one on a validating list.

import (
	"context"
	"fmt"

	"github.com/anyproto/any-sync/accountservice"
	"github.com/anyproto/any-sync/acl"
	"github.com/anyproto/any-sync/app"
	"github.com/anyproto/any-sync/commonspace/object/accountdata"
	"github.com/anyproto/any-sync/commonspace/object/acl/list"
	"github.com/anyproto/any-sync/consensus/consensusclient"
	"github.com/anyproto/any-sync/consensus/consensusproto"
	"github.com/anyproto/any-sync/nodeconf"
)

type fakeCons struct {
	consensusclient.Service
	initial []*consensusproto.RawRecordWithId
	watcher consensusclient.Watcher
}

func (f *fakeCons) Init(*app.App) error       { return nil }
func (f *fakeCons) Name() string              { return consensusclient.CName }
func (f *fakeCons) Run(context.Context) error { return nil }
func (f *fakeCons) Close(context.Context) error {
	return nil
}
func (f *fakeCons) Watch(_ string, w consensusclient.Watcher) error {
	f.watcher = w
	w.AddConsensusRecords(newestFirst(f.initial))
	return nil
}
func (f *fakeCons) UnWatch(string) error { return nil }

type fakeAccount struct{ keys *accountdata.AccountKeys }

func (f *fakeAccount) Init(*app.App) error                { return nil }
func (f *fakeAccount) Name() string                       { return accountservice.CName }
func (f *fakeAccount) Account() *accountdata.AccountKeys { return f.keys }

type fakeNodeConf struct{ nodeconf.Service }

func (fakeNodeConf) Init(*app.App) error                   { return nil }
func (fakeNodeConf) Name() string                          { return nodeconf.CName }
func (fakeNodeConf) Run(context.Context) error             { return nil }
func (fakeNodeConf) Close(context.Context) error           { return nil }
func (fakeNodeConf) Configuration() nodeconf.Configuration { return nodeconf.Configuration{} }

func newestFirst(recs []*consensusproto.RawRecordWithId) []*consensusproto.RawRecordWithId {
	out := make([]*consensusproto.RawRecordWithId, len(recs))
	for i, r := range recs {
		out[len(recs)-1-i] = r
	}
	return out
}

// nodeService runs mode m7 for the node observer's comparison c.
func (e *env) nodeService(c *cmp) (ok bool) {
	H, n := c.h.sim.Log, len(c.h.sim.Log)
	ok = true
	bg := context.Background()
	for k := 1; k <= n; k++ {
		rest := H[k:]
		cuts := [][]int{{len(rest)}}
		if len(rest) > 1 {
			ones := make([]int, len(rest))
			for i := range ones {
				ones[i] = 1
			}
			cuts = append(cuts, ones, []int{len(rest) / 2, len(rest) - len(rest)/2})
		}
		for ci, cut := range cuts {
			mode := fmt.Sprintf("m7-node-service/initial-load-%d/%s", k, []string{"rest-at-once", "rest-one-by-one", "rest-in-two-halves"}[ci])
			cons := &fakeCons{initial: H[:k]}
			svc := acl.New()
			a := new(app.App)
			a.Register(cons).Register(&fakeAccount{keys: c.o.acc.Keys}).Register(fakeNodeConf{}).Register(svc)
			if err := a.Start(bg); err != nil {
				c.errf(mode, k, fmt.Errorf("harness: app start: %w", err))
				return false
			}
			spaceId := H[0].Id
			e.c.Count("executions", 1)
			// the object is built on first use, from the initial load
			if err := svc.ReadList(bg, spaceId, func(l list.AclList) error {
				if !c.check(mode, k, l) {
					ok = false
				}
				return nil
			}); err != nil {
				c.errf(mode, k, err)
				ok = false
				_ = a.Close(bg)
				continue
			}
			at := 0
			for _, sz := range cut {
				if sz == 0 {
					continue
				}
				cons.watcher.AddConsensusRecords(newestFirst(rest[at : at+sz]))
				at += sz
				if err := svc.ReadList(bg, spaceId, func(l list.AclList) error {
					if !c.check(mode, k+at, l) {
						ok = false
					}
					return nil
				}); err != nil {
					c.errf(mode, k+at, err)
					ok = false
				}
			}
			_ = a.Close(bg)
		}
	}
	return ok
}
