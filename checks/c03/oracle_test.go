package c03

// Determinism oracle: one accepted history, many ways of obtaining a list from it, one observable projection.

import (
	"bytes"
	"context"
	"errors"
	"encoding/hex"
	"fmt"
	"os"
	"path/filepath"
	"sort"
	"strings"
	"sync/atomic"
	"time"

	anystore "github.com/anyproto/any-store"
	"github.com/anyproto/any-store/anyenc"
	"github.com/anyproto/any-store/query"

	"github.com/anyproto/any-sync/commonspace/headsync/headstorage"
	"github.com/anyproto/any-sync/commonspace/object/accountdata"
	"github.com/anyproto/any-sync/commonspace/object/acl/list"
	"github.com/anyproto/any-sync/commonspace/object/acl/recordverifier"
	"github.com/anyproto/any-sync/consensus/consensusproto"
	"github.com/anyproto/any-sync/util/crypto"

	. "verif/lib/aclsim"
	"verif/lib/vk"
)

var ctx = context.Background()

type rawLog = []*consensusproto.RawRecordWithId

// env is what all workers share.
type env struct {
	c      *vk.Ctx
	net    *Account
	node   *Account
	dbs    [nWorkers]*workerDB
	flags  [nFlags]atomic.Int64 // vacuity witnesses
	fbWarn *atomic.Int64        // number of "falling back to head->root walk" warnings the package logged
}

const nWorkers = 16

const (
	fBatch = iota
	fRotation
	fRemovedObserver
	fJoinViaRequest
	fJoinViaOpenInvite
	fFallbackExpected
	fSecondContentBad
	nFlags
)

// kind of list: fully validating, or non-validating (network acceptor key required, keep-only-ours decode).
type lkind bool

const (
	V lkind = true
	N lkind = false
)

func (k lkind) String() string {
	if k == V {
		return "validating"
	}
	return "non-validating"
}

func (e *env) verifier(k lkind) recordverifier.AcceptorVerifier {
	if k == V {
		return recordverifier.NewValidateFull()
	}
	return recordverifier.New(e.net.Pub()) // one per list: its key cache is not goroutine-safe
}

// build makes a list for keys over a fresh in-memory storage already holding log.
func (e *env) build(keys *accountdata.AccountKeys, log rawLog, k lkind) (list.AclList, list.Storage, error) {
	st, err := list.NewInMemoryStorage(log[0].Id, log)
	if err != nil {
		return nil, nil, err
	}
	e.c.Count("executions", 1)
	l, err := list.BuildAclListWithIdentity(keys, st, e.verifier(k))
	return l, st, err
}

// refusing wraps a storage: while armed, the next AddAll is refused with an error and nothing is written.
type refusing struct {
	list.Storage
	armed bool
}

var errRefused = errors.New("c03: storage refused the write")

func (r *refusing) AddAll(ctx context.Context, recs []list.StorageRecord) error {
	if r.armed {
		r.armed = false
		return errRefused
	}
	return r.Storage.AddAll(ctx, recs)
}

// ---- projection ------------------------------------------------------------------------------------------------

// proj is the observable projection of a list: common must agree for every observer and mode; keys is what the
// observer itself can decrypt and must agree across modes for one observer.
type proj struct {
	common []string // "field=value"
	keys   []string
}

func (p proj) String() string {
	return strings.Join(p.common, "; ") + " || " + strings.Join(p.keys, "; ")
}

func keyName(s *Sim, k crypto.PubKey) string {
	if k == nil {
		return "<nil>"
	}
	if n := s.NameOf(k); n != "?" {
		return n
	}
	return "?" + hex.EncodeToString(k.Storage())[:12]
}

func project(s *Sim, l list.AclList) (p proj) {
	st := l.AclState()
	add := func(f, v string) { p.common = append(p.common, f+"="+v) }
	add("head", l.Head().Id)
	add("last-record-id", st.LastRecordId())
	var ids []string
	for _, r := range l.Records() {
		ids = append(ids, r.Id)
	}
	add("record-ids", strings.Join(ids, ","))
	var accs []string
	for _, a := range st.CurrentAccounts() {
		accs = append(accs, fmt.Sprintf("%s:%s:%s", keyName(s, a.PubKey), PermName(Perm(a.Permissions)), StatusName(a.Status)))
	}
	sort.Strings(accs)
	add("accounts", strings.Join(accs, ","))
	var perms []string
	for _, a := range s.Accounts {
		perms = append(perms, a.Name+":"+PermName(Perm(st.Permissions(a.Pub()))))
	}
	add("permissions", strings.Join(perms, ","))
	var invs []string
	for _, iv := range st.Invites() {
		invs = append(invs, fmt.Sprintf("%s:%d:%s:%s", iv.Id, iv.Type, PermName(Perm(iv.Permissions)), hex.EncodeToString(iv.Key.Storage())[:12]))
	}
	sort.Strings(invs)
	add("invites", strings.Join(invs, ","))
	var joins, rems []string
	jr, err := st.JoinRecords(false)
	if err != nil {
		joins = append(joins, "error:"+err.Error())
	}
	for _, r := range jr {
		joins = append(joins, r.RecordId+":"+keyName(s, r.RequestIdentity))
	}
	for _, r := range st.RemoveRecords() {
		rems = append(rems, r.RecordId+":"+keyName(s, r.RequestIdentity))
	}
	sort.Strings(joins)
	sort.Strings(rems)
	add("join-records", strings.Join(joins, ","))
	add("remove-records", strings.Join(rems, ","))
	var kids []string
	for id := range st.Keys() {
		kids = append(kids, id)
	}
	sort.Strings(kids)
	add("key-ids", strings.Join(kids, ","))
	add("current-read-key-id", st.CurrentReadKeyId())
	opt := "<nil>"
	if o := st.CurrentOptions(); o != nil {
		b, _ := o.MarshalVT()
		opt = "x" + hex.EncodeToString(b)
	}
	add("options", opt)
	owner, err := st.OwnerPubKey()
	if err != nil {
		add("owner", "error:"+err.Error())
	} else {
		add("owner", keyName(s, owner))
	}
	for _, id := range kids {
		k := st.Keys()[id]
		rk, mk := "nil", "nil"
		if k.ReadKey != nil {
			raw, _ := k.ReadKey.Raw()
			rk = hex.EncodeToString(raw)
		}
		if k.MetadataPrivKey != nil {
			raw, _ := k.MetadataPrivKey.Raw()
			mk = fmt.Sprintf("%x", vk.Hash64(raw))
		}
		p.keys = append(p.keys, fmt.Sprintf("%s=read:%s/meta:%s", id, rk, mk))
	}
	return
}

// diff names the first field two projections differ in ("" when equal).
func diff(a, b []string) (field, av, bv string) {
	for i := 0; i < len(a) || i < len(b); i++ {
		var x, y string
		if i < len(a) {
			x = a[i]
		}
		if i < len(b) {
			y = b[i]
		}
		if x != y {
			f := x
			if f == "" {
				f = y
			}
			return strings.SplitN(f, "=", 2)[0], x, y
		}
	}
	return "", "", ""
}

// ---- observers -------------------------------------------------------------------------------------------------

type observer struct {
	acc   *Account
	class string // owner | member | removed | outsider | node
}

func (e *env) observers(s *Sim, abs Abs) (out []observer) {
	out = append(out, observer{e.node, "node"})
	class := func(n string) string {
		a := abs.Accounts[n]
		switch {
		case a.Perm == Owner:
			return "owner"
		case a.Perm != None:
			return "member"
		case a.Status == list.StatusRemoved:
			return "removed"
		}
		return "outsider"
	}
	if e.c.Thorough() {
		for _, n := range roles {
			out = append(out, observer{s.Acc(n), class(n)})
		}
		return
	}
	// quick: one representative per class (lowest-privileged member first: it shares every key record with others)
	seen := map[string]bool{}
	for _, n := range []string{"O", "R", "W", "X", "M", "A"} {
		if cl := class(n); !seen[cl] && cl != "outsider" {
			seen[cl] = true
			out = append(out, observer{s.Acc(n), cl})
		}
	}
	return
}

// ---- the oracle ------------------------------------------------------------------------------------------------

type hist struct {
	worker int // index of the worker goroutine that runs the oracles on this history
	index  int // position in its BFS level
	sim    *Sim
	seed   string
	trail  []string // operation labels after the seed
	depth  int
	kinds  []string // kind of every record after the root ("" unknown)
	abs    Abs
	canon  string
}

func (h *hist) replay() map[string]any { return map[string]any{"seed": h.seed, "ops": h.trail} }
func (h *hist) String() string         { return fmt.Sprintf("seed %q + %v", h.seed, h.trail) }

type cmp struct {
	e    *env
	h    *hist
	o    observer
	ref  [][]string // common projection per prefix length (index k = first k records), from the node's m1
	keys [][]string // this observer's key visibility per prefix length, from its own m1
}

func (c *cmp) fail(mode, what, detail string) {
	c.e.c.Violation("determinism:"+mode+":observer="+c.o.class+":"+what,
		fmt.Sprintf("history %s (%d records), observer %s (%s), mode %s: %s", c.h, len(c.h.sim.Log), c.o.acc.Name, c.o.class, mode, detail), c.h.replay())
}

// check compares list l (obtained by mode) holding the first k records with the references.
func (c *cmp) check(mode string, k int, l list.AclList) bool {
	c.e.c.Count("evaluations", 1)
	p := project(c.h.sim, l)
	ok := true
	if f, got, want := diff(p.common, c.ref[k]); f != "" {
		c.fail(mode, "differs-in-"+f, fmt.Sprintf("at prefix %d the state differs from applying the records one by one on a validating list: got {%s} want {%s}", k, got, want))
		ok = false
	}
	if c.keys[k] != nil {
		if f, got, want := diff(p.keys, c.keys[k]); f != "" {
			c.fail(mode, "key-visibility-differs", fmt.Sprintf("at prefix %d the observer's own keys differ from its one-by-one validating list: got {%s} want {%s} (%s)", k, got, want, f))
			ok = false
		}
	}
	return ok
}

func (c *cmp) errf(mode string, k int, err error) {
	c.e.c.Count("evaluations", 1)
	c.fail(mode, "error", fmt.Sprintf("at prefix %d: %v", k, err))
}

// determinism runs every mode for every observer on h. It returns the node's per-prefix reference projection.
func (e *env) determinism(h *hist) (ref [][]string, okAll bool) {
	H := h.sim.Log
	n := len(H)
	okAll = true
	obs := e.observers(h.sim, h.abs)
	for _, o := range obs {
		if o.class == "removed" {
			e.flags[fRemovedObserver].Add(1)
		}
	}
	var cmps []*cmp
	for _, o := range obs {
		c := &cmp{e: e, h: h, o: o, keys: make([][]string, n+1)}
		// (m1) root only, then AddRawRecord one by one on a validating list: the reference
		l, _, err := e.build(o.acc.Keys, H[:1], V)
		if err != nil {
			c.ref = make([][]string, n+1)
			c.errf("m1-one-by-one", 1, err)
			return nil, false
		}
		own := make([][]string, n+1)
		p := project(h.sim, l)
		own[1], c.keys[1] = p.common, p.keys
		for i := 1; i < n; i++ {
			if err := l.AddRawRecord(H[i]); err != nil {
				c.ref = own
				c.errf("m1-one-by-one", i+1, err)
				return nil, false
			}
			p = project(h.sim, l)
			own[i+1], c.keys[i+1] = p.common, p.keys
		}
		if ref == nil {
			ref = own // the node is first
		}
		c.ref = ref
		for k := 1; k <= n; k++ {
			e.c.Count("evaluations", 1)
			if f, got, want := diff(own[k], ref[k]); f != "" {
				c.fail("m1-one-by-one", "differs-in-"+f, fmt.Sprintf("at prefix %d this observer's state differs from the node's: got {%s} want {%s}", k, got, want))
				okAll = false
			}
		}
		cmps = append(cmps, c)
	}
	if head := ref[n][0]; head != "head="+H[n-1].Id {
		e.c.Violation("determinism:m1-one-by-one:head-is-not-last-record", fmt.Sprintf("history %s: %s after adding %s", h, head, H[n-1].Id), h.replay())
		okAll = false
	}
	t0 := time.Now()
	for _, c := range cmps {
		if !e.modes(c) {
			okAll = false
		}
	}
	e.prof("modes_inmemory", t0)
	t0 = time.Now()
	for _, c := range cmps {
		if c.o.class == "node" && !e.nodeService(c) {
			okAll = false
		}
	}
	e.prof("modes_node_service", t0)
	t0 = time.Now()
	if !e.anystoreModes(h, cmps) {
		okAll = false
	}
	e.prof("modes_anystore", t0)
	return
}

var profiling = os.Getenv("VERIF_PROFILE") != ""

// prof accumulates wall time per section (only with VERIF_PROFILE set: the values are not reproducible).
func (e *env) prof(section string, since time.Time) {
	if profiling {
		e.c.Count("prof_us_"+section, time.Since(since).Microseconds())
	}
}

// addAll adds recs through AddRawRecords and checks the result against prefix k.
func (c *cmp) addAll(mode string, l list.AclList, recs rawLog, k int) bool {
	if err := l.AddRawRecords(recs); err != nil {
		c.errf(mode, k, err)
		return false
	}
	return c.check(mode, k, l)
}

func (e *env) modes(c *cmp) (ok bool) {
	H, n, keys := c.h.sim.Log, len(c.h.sim.Log), c.o.acc.Keys
	ok = true
	note := func(b bool) {
		if !b {
			ok = false
		}
	}
	// (m3) the same, one by one, on a non-validating list (keep-only-ours decode for this observer)
	if l, _, err := e.build(keys, H[:1], N); err != nil {
		c.errf("m3-non-validating-one-by-one", 1, err)
		ok = false
	} else {
		for i := 1; i < n; i++ {
			if err := l.AddRawRecord(H[i]); err != nil {
				c.errf("m3-non-validating-one-by-one", i+1, err)
				ok = false
				break
			}
			note(c.check("m3-non-validating-one-by-one", i+1, l))
		}
	}
	// (m6) every record is first offered while the storage refuses the write: the record was not accepted, so the list
	// must be exactly as before (state, heads, what it serves), and the same record offered again must be accepted
	for _, k := range []lkind{V, N} {
		if k == N && e.c.Quick() && c.o.class != "node" {
			continue
		}
		mode := "m6-refused-write-then-retry/" + k.String()
		inner, err := list.NewInMemoryStorage(H[0].Id, H[:1])
		if err != nil {
			c.errf(mode, 1, err)
			ok = false
			continue
		}
		st := &refusing{Storage: inner}
		e.c.Count("executions", 1)
		l, err := list.BuildAclListWithIdentity(keys, st, e.verifier(k))
		if err != nil {
			c.errf(mode, 1, err)
			ok = false
			continue
		}
		for i := 1; i < n; i++ {
			st.armed = true
			err := l.AddRawRecord(H[i])
			if err == nil || st.armed {
				c.fail(mode, "refused-write-not-reported", fmt.Sprintf("at prefix %d: AddRawRecord returned %v although the storage refused the write (write attempted: %v)", i, err, !st.armed))
				ok = false
				break
			}
			e.c.Count("n_refused_writes", 1)
			note(c.check(mode+":after-refusal", i, l))
			if l.HasHead(H[i].Id) {
				c.fail(mode, "refused-record-known", fmt.Sprintf("at prefix %d: HasHead(%s) is true for a record the storage refused", i, H[i].Id))
				ok = false
			}
			if recs, err := l.RecordsAfter(ctx, H[i].Id); err == nil {
				c.fail(mode, "refused-record-served-from", fmt.Sprintf("at prefix %d: RecordsAfter(refused record) serves %d records instead of failing", i, len(recs)))
				ok = false
			}
			if err := l.AddRawRecords(rawLog{H[i]}); err != nil {
				c.errf(mode+":retry", i+1, err)
				ok = false
				break
			}
			if !c.check(mode+":retry", i+1, l) {
				ok = false
				break
			}
		}
		note(e.dumpEquals(c, mode, inner, H))
	}
	for _, k := range []lkind{V, N} {
		tag := "/" + k.String()
		// (m2) the whole tail in one AddRawRecords call, and every 2-split of it
		for split := 0; split < n-1; split++ { // split = records in the first call (0: everything in one call)
			if split > 0 && k == N && e.c.Quick() {
				break // quick: the 2-splits run on the validating list only (AddRawRecords is the same loop for both kinds)
			}
			mode := "m2-batch-whole" + tag
			if split > 0 {
				mode = "m2-batch-2-split" + tag
			}
			l, _, err := e.build(keys, H[:1], k)
			if err != nil {
				c.errf(mode, 1, err)
				ok = false
				break
			}
			if split > 0 && !c.addAll(mode, l, H[1:1+split], 1+split) {
				ok = false
				continue
			}
			note(c.addAll(mode, l, H[1+split:], n))
		}
		// (m4, in-memory) build over a storage already holding H; (m5) every prefix replica catches up from RecordsAfter
		full, fullSt, err := e.build(keys, H, k)
		if err != nil {
			c.errf("m4-build-from-inmemory-storage"+tag, n, err)
			ok = false
			continue
		}
		note(c.check("m4-build-from-inmemory-storage"+tag, n, full))
		note(e.dumpEquals(c, "m4-build-from-inmemory-storage"+tag, fullSt, H))
		for kk := 1; kk < n; kk++ {
			if k == V && c.o.class != "node" && e.c.Quick() {
				break // quick: validating prefix replicas for the node only; non-validating ones for every observer
			}
			mode := "m5-catch-up" + tag
			replica, _, err := e.build(keys, H[:kk], k)
			if err != nil {
				c.errf("m4-restart-at-prefix"+tag, kk, err)
				ok = false
				continue
			}
			note(c.check("m4-restart-at-prefix"+tag, kk, replica))
			recs, err := full.RecordsAfter(ctx, H[kk-1].Id)
			if err != nil {
				c.errf(mode, kk, err)
				ok = false
				continue
			}
			if !e.servedOK(c, mode, "inmemory-storage", recs, kk) {
				if !(len(recs) == 0 && kk == 1) {
					ok = false
				}
				continue
			}
			note(c.addAll(mode, replica, recs, n))
		}
	}
	return
}

// served checks what a full replica served to a peer whose head is record kk-1: raw stored bytes, a contiguous run of
// the log that contains every record after the peer's head. It returns "" or (what, detail) of the first problem.
func served(H rawLog, recs rawLog, kk int) (what, detail string) {
	pos := map[string]int{}
	for i, r := range H {
		pos[r.Id] = i
	}
	prev := -1
	for i, r := range recs {
		at, known := pos[r.Id]
		if !known || !bytes.Equal(r.Payload, H[at].Payload) {
			return "served-bytes-differ-from-stored", fmt.Sprintf("RecordsAfter(head of prefix %d) served record #%d (id %s) whose bytes are not the stored raw bytes", kk, i, r.Id)
		}
		if i > 0 && at != prev+1 {
			return "served-records-not-contiguous", fmt.Sprintf("RecordsAfter(head of prefix %d) served log positions %d then %d", kk, prev, at)
		}
		prev = at
	}
	first := len(H)
	if len(recs) > 0 {
		first = pos[recs[0].Id]
	}
	if first > kk || prev != len(H)-1 {
		what = "served-records-incomplete"
		if len(recs) == 0 {
			what = "served-nothing"
		}
		return what, fmt.Sprintf("RecordsAfter(head of prefix %d = log position %d) served %d records covering log positions %d..%d of a log with %d records: the peer cannot catch up", kk, kk-1, len(recs), first, prev, len(H))
	}
	return "", ""
}

func (e *env) servedOK(c *cmp, mode, storage string, recs rawLog, kk int) bool {
	e.c.Count("evaluations", 1)
	what, detail := served(c.h.sim.Log, recs, kk)
	if what == "" {
		return true
	}
	if what == "served-nothing" && kk == 1 {
		// one finding, one key (independent of observer / list kind); the history itself is not in doubt
		e.c.Violation("catch-up:records-after-root-serves-nothing:"+storage,
			fmt.Sprintf("history %s: a full replica over the %s holding %d records answers RecordsAfter(<root id>) with no records at all, so a peer that has only the root never catches up (observer %s, mode %s)", c.h, storage, len(c.h.sim.Log), c.o.acc.Name, mode), c.h.replay())
		return false
	}
	c.fail(mode, what+":"+storage, detail)
	return false
}

// storageContract: GetAfterOrder(k) delivers exactly the records with order >= k, ascending (what RecordsAfter and
// the scan-by-order of the list build rely on). One finding, one key per storage implementation.
func (e *env) storageContract(c *cmp, storage string, st list.Storage, H rawLog) bool {
	for k := 1; k <= len(H); k++ {
		e.c.Count("evaluations", 1)
		var got []string
		err := st.GetAfterOrder(ctx, k, func(_ context.Context, r list.StorageRecord) (bool, error) {
			got = append(got, r.Id)
			return true, nil
		})
		bad := err != nil || len(got) != len(H)-k+1
		for i := 0; !bad && i < len(got); i++ {
			bad = got[i] != H[k-1+i].Id
		}
		if bad {
			e.c.Violation("storage:"+storage+":get-after-order-ignores-order-bound-or-sort",
				fmt.Sprintf("history %s: %s holding the %d records of the log in order: GetAfterOrder(%d) delivered %d records (%v) instead of exactly the %d records with order >= %d, ascending", c.h, storage, len(H), k, len(got), err, len(H)-k+1, k), c.h.replay())
			return false
		}
	}
	return true
}

type dumpRec struct {
	id, prev string
	order    int
	size     int
	hash     uint64 // of the raw bytes (taken inside the iteration: a storage may reuse its buffers)
}

func dump(st list.Storage) (out []dumpRec, head string, err error) {
	err = st.GetAfterOrder(ctx, 1, func(_ context.Context, r list.StorageRecord) (bool, error) {
		out = append(out, dumpRec{id: r.Id, prev: r.PrevId, order: r.Order, size: len(r.RawRecord), hash: vk.Hash64(r.RawRecord)})
		return true, nil
	})
	if err != nil {
		return
	}
	head, err = st.Head(ctx)
	return
}

func dumpKey(d []dumpRec, head string) string {
	h := vk.HashStr(head)
	for _, r := range d {
		h = h*1099511628211 ^ vk.HashStr(r.id)
		h = h*1099511628211 ^ vk.HashStr(r.prev)
		h = h*1099511628211 ^ uint64(r.order)<<32 ^ uint64(r.size)
		h = h*1099511628211 ^ r.hash
	}
	return fmt.Sprintf("%d:%x", len(d), h)
}

// dumpEquals: the storage holds exactly H, in order, byte for byte, head = last record.
func (e *env) dumpEquals(c *cmp, mode string, st list.Storage, H rawLog) bool {
	e.c.Count("evaluations", 1)
	d, head, err := dump(st)
	if err != nil {
		c.fail(mode, "storage-dump-error", err.Error())
		return false
	}
	bad := len(d) != len(H) || head != H[len(H)-1].Id
	for i := 0; !bad && i < len(d); i++ {
		bad = d[i].id != H[i].Id || d[i].size != len(H[i].Payload) || d[i].hash != vk.Hash64(H[i].Payload) || d[i].order != i+1 || (i > 0 && d[i].prev != H[i-1].Id)
	}
	if bad {
		c.fail(mode, "storage-differs-from-log", fmt.Sprintf("storage holds %d records, head %s; log has %d records, head %s (or ids / bytes / orders / prev ids differ)", len(d), head, len(H), H[len(H)-1].Id))
	}
	return !bad
}

// ---- any-store -------------------------------------------------------------------------------------------------

var dbConfig = &anystore.Config{
	ReadConnections:         1,
	SQLiteConnectionOptions: map[string]string{"synchronous": "off"},
}

// workerDB is one any-store database per worker goroutine, reused for every history the worker checks. All histories
// share the root, hence the records collection. Document deletes and collection create/drop are by far the most
// expensive operations here (ms each), so between two histories only the records the next history does not contain
// are deleted; what stays was stored by an earlier live list (and is re-verified by the storage dump).
type workerDB struct {
	db   anystore.DB
	hs   headstorage.HeadStorage
	path string
	root string
	rows []string // ids of the non-root documents currently stored, in row (insertion) order
	// tainted: something went wrong while this database was in use; everything but the root is deleted before reuse
	tainted bool
}

func (e *env) workerDB(w int, root *consensusproto.RawRecordWithId) (*workerDB, error) {
	if e.dbs[w] != nil {
		return e.dbs[w], nil
	}
	d := &workerDB{path: filepath.Join(e.c.Scratch, fmt.Sprintf("acl-%d.db", w)), root: root.Id}
	var err error
	if d.db, err = anystore.Open(ctx, d.path, dbConfig); err != nil {
		return nil, err
	}
	if d.hs, err = headstorage.New(ctx, d.db); err != nil {
		return nil, err
	}
	if _, err = list.CreateStorage(ctx, root, d.hs, d.db); err != nil {
		return nil, err
	}
	e.dbs[w] = d
	return d, nil
}

// reopen closes and reopens the database file: a real restart.
func (d *workerDB) reopen() (err error) {
	if err = d.db.Close(); err != nil {
		return
	}
	if d.db, err = anystore.Open(ctx, d.path, dbConfig); err != nil {
		return
	}
	d.hs, err = headstorage.New(ctx, d.db)
	return
}

func (d *workerDB) delete(ids []string) error {
	if len(ids) == 0 {
		return nil
	}
	coll, err := d.db.Collection(ctx, d.root)
	if err != nil {
		return err
	}
	tx, err := d.db.WriteTx(ctx)
	if err != nil {
		return err
	}
	for _, id := range ids {
		if err := coll.DeleteId(tx.Context(), id); err != nil {
			_ = tx.Rollback()
			return err
		}
	}
	return tx.Commit()
}

func (d *workerDB) setHead(id string) error {
	return d.hs.UpdateEntry(ctx, headstorage.HeadsUpdate{Id: d.root, Heads: []string{id}})
}

// prepare leaves in the collection a prefix of H whose rows are in log order, points the head entry at its last record
// and returns its length in records (>= 1: the root).
func (d *workerDB) prepare(H rawLog) (int, error) {
	pos := map[string]int{}
	for i, r := range H {
		pos[r.Id] = i
	}
	if d.tainted {
		for _, id := range d.rows { // row by row: some may be missing
			_ = d.delete([]string{id})
		}
		d.rows, d.tainted = nil, false
	}
	var keep, drop []string
	for _, id := range d.rows { // rows that stay keep their relative order, so this leaves H[1..len(keep)] in row order
		if at, ok := pos[id]; ok && at == len(keep)+1 {
			keep = append(keep, id)
		} else {
			drop = append(drop, id)
		}
	}
	if err := d.delete(drop); err != nil {
		return 0, err
	}
	d.rows = keep
	coll, err := d.db.Collection(ctx, d.root)
	if err != nil {
		return 0, err
	}
	if n, err := coll.Count(ctx); err != nil || n != len(keep)+1 {
		return 0, fmt.Errorf("records collection holds %d documents, expected %d (%v)", n, len(keep)+1, err)
	}
	return len(keep) + 1, d.setHead(H[len(keep)].Id)
}

// swapOrders exchanges the 'o' (order) values of two stored records; the head entry is not touched.
func (d *workerDB) swapOrders(idA string, orderA int, idB string, orderB int) error {
	coll, err := d.db.Collection(ctx, d.root)
	if err != nil {
		return err
	}
	set := func(id string, o int) error {
		_, err := coll.UpdateId(ctx, id, query.ModifyFunc(func(a *anyenc.Arena, v *anyenc.Value) (*anyenc.Value, bool, error) {
			v.Set("o", a.NewNumberInt(o))
			return v, true, nil
		}))
		return err
	}
	if err = set(idA, 1<<30); err != nil { // the order index is unique
		return err
	}
	if err = set(idB, orderA); err != nil {
		return err
	}
	return set(idA, orderB)
}

// harness reports a failure of the any-store harness itself. After a violation the stored rows may be what the faulty
// implementation left behind (wrong orders, missing rows), so then it is a note and the database starts from scratch.
func (e *env) harness(d *workerDB, format string, a ...any) {
	d.tainted = true
	if e.c.NViolations() > 0 {
		e.c.Count("anystore_harness_failures_after_a_violation", 1)
		return
	}
	e.c.Broken(format, a...)
}

func (d *workerDB) storage() (list.Storage, error) { return list.NewStorage(ctx, d.root, d.hs, d.db) }

func (e *env) closeDBs() {
	for _, d := range e.dbs {
		if d != nil {
			_ = d.db.Close()
		}
	}
}

// anystoreModes: (m4) the real any-store storage, filled by a live list, (thorough: reopened,) every observer rebuilds
// from it; RecordsAfter served from it; and the same records stored with an order index that does not follow the PrevId
// chain (hand-made StorageRecord.Order through AddAll), which must load to the same state through the PrevId walk.
func (e *env) anystoreModes(h *hist, cmps []*cmp) (ok bool) {
	H, n := h.sim.Log, len(h.sim.Log)
	ok = true
	c0 := cmps[0]
	owner := cmps[len(cmps)-1]
	for _, c := range cmps {
		if c.o.class == "owner" {
			owner = c
		}
	}
	d, err := e.workerDB(h.worker, H[0])
	if err != nil {
		e.c.Broken("any-store open / CreateStorage: %v", err)
		return false
	}
	have, err := d.prepare(H)
	if err != nil {
		e.harness(d, "any-store prepare: %v", err)
		return false
	}
	st, err := d.storage()
	if err != nil {
		e.harness(d, "NewStorage: %v", err)
		return false
	}
	// live ingest the way a client does it: non-validating list of the owner over the any-store storage (which may
	// already hold a prefix of H, stored the same way while an earlier history was checked)
	e.c.Count("executions", 1)
	live, err := list.BuildAclListWithIdentity(owner.o.acc.Keys, st, e.verifier(N))
	if err != nil {
		owner.errf("m4-anystore-live-ingest", have, err)
		return false
	}
	for _, r := range H[have:] {
		d.rows = append(d.rows, r.Id)
	}
	if !owner.addAll("m4-anystore-live-ingest", live, H[have:], n) {
		d.tainted = true
		return false
	}
	contract := e.storageContract(owner, "anystore", st, H) // a finding of its own: the history is not in doubt
	if contract && !e.dumpEquals(owner, "m4-anystore-live-ingest", st, H) {
		d.tainted = true
		return false
	}
	if e.c.Thorough() { // a real restart: close and reopen the database file
		if err = d.reopen(); err != nil {
			e.harness(d, "any-store reopen: %v", err)
			return false
		}
	}
	// what a restarted client does: a fresh storage object over the same database (NewStorage), shared by the lists below
	st2, err := d.storage()
	if err != nil {
		e.harness(d, "NewStorage: %v", err)
		return false
	}
	for _, c := range cmps {
		for _, k := range []lkind{N, V} {
			if k == V && c != c0 && e.c.Quick() {
				continue
			}
			mode := "m4-build-from-anystore/" + k.String()
			e.c.Count("executions", 1)
			l, err := list.BuildAclListWithIdentity(c.o.acc.Keys, st2, e.verifier(k))
			if err != nil {
				c.errf(mode, n, err)
				ok = false
				continue
			}
			if !c.check(mode, n, l) {
				ok = false
			}
			if k == V {
				continue
			}
			// (m5) served from the any-store replica
			for kk := 1; kk < n; kk++ {
				recs, err := l.RecordsAfter(ctx, H[kk-1].Id)
				if err != nil {
					c.errf("m5-catch-up-from-anystore", kk, err)
					ok = false
					continue
				}
				if !e.servedOK(c, "m5-catch-up-from-anystore", "anystore", recs, kk) {
					if !(len(recs) == 0 && kk == 1) {
						ok = false
					}
					continue
				}
				if c == c0 {
					replica, _, err := e.build(c.o.acc.Keys, H[:kk], V)
					if err != nil {
						c.errf("m5-catch-up-from-anystore", kk, err)
						ok = false
						continue
					}
					if !c.addAll("m5-catch-up-from-anystore", replica, recs, n) {
						ok = false
					}
				}
			}
		}
	}
	if n < 3 {
		return
	}
	// Perturbed storages: same records, same head, but (a) the 'o' (order) values of two neighbours exchanged, (b) the rows
	// not in log order (a record deleted and stored again, with its correct order value), (c) both. In each, a scan by
	// order index and/or by row does not follow the PrevId chain; every list must still load to the same state (through
	// the head->root walk wherever the scan is not the chain).
	loads := func(tag string) {
		for _, c := range cmps {
			if e.c.Quick() && c.o.class != "node" && c.o.class != "owner" && c.o.class != "member" {
				continue
			}
			for _, k := range []lkind{N, V} {
				if (k == V) != (c == c0) && (e.c.Quick() || k == V) {
					continue // quick: the node validating, owner and member non-validating; thorough: the node both, everyone else non-validating
				}
				mode := "m4-build-from-anystore-perturbed(" + tag + ")/" + k.String()
				e.c.Count("executions", 1)
				l, err := list.BuildAclListWithIdentity(c.o.acc.Keys, st2, e.verifier(k))
				if err != nil {
					c.errf(mode, n, err)
					ok = false
					continue
				}
				if !c.check(mode, n, l) {
					ok = false
				}
			}
		}
	}
	swapped := func(tag string, i, j int) bool {
		if err = d.swapOrders(H[i].Id, i+1, H[j].Id, j+1); err != nil {
			e.harness(d, "swapping two orders: %v", err)
			return false
		}
		loads(tag)
		if err = d.swapOrders(H[i].Id, j+1, H[j].Id, i+1); err != nil { // back: the stored records are reused
			e.harness(d, "swapping two orders back: %v", err)
			return false
		}
		return true
	}
	if n >= 4 && !swapped("orders-of-two-middle-records-swapped", 1, 2) {
		return false
	}
	if (n < 4 || e.c.Thorough()) && !swapped("orders-of-last-two-records-swapped", n-2, n-1) {
		return false
	}
	// (b) rows out of log order, order index correct: the record before the head is deleted and stored again
	restore := func(i int) bool {
		err := d.delete([]string{H[i].Id})
		if err == nil {
			err = st2.AddAll(ctx, []list.StorageRecord{{RawRecord: H[i].Payload, PrevId: H[i-1].Id, Id: H[i].Id, Order: i + 1, ChangeSize: len(H[i].Payload)}})
		}
		if err == nil {
			err = d.setHead(H[n-1].Id)
		}
		if err != nil {
			e.harness(d, "re-storing a record: %v", err)
			return false
		}
		for x, id := range d.rows {
			if id == H[i].Id {
				d.rows = append(append(d.rows[:x:x], d.rows[x+1:]...), id)
				break
			}
		}
		return true
	}
	if !restore(n - 2) {
		return false
	}
	loads("rows-of-last-two-records-swapped")
	e.flags[fFallbackExpected].Add(1) // whichever the scan goes by (rows or order index), (b) or (c) leaves the chain
	// such a replica keeps a correct order index, so what it serves must still let every prefix replica catch up
	if l, err := list.BuildAclListWithIdentity(c0.o.acc.Keys, st2, e.verifier(N)); err == nil {
		{
			for kk := 2; kk < n; kk++ {
				recs, err := l.RecordsAfter(ctx, H[kk-1].Id)
				e.c.Count("evaluations", 1)
				what, detail := "error", fmt.Sprint(err)
				if err == nil {
					what, detail = served(H, recs, kk)
				}
				if what == "" {
					continue
				}
				if !contract {
					// the same defect as the storage contract finding, seen from a peer
					e.c.Violation("storage:anystore:get-after-order-ignores-order-bound-or-sort", fmt.Sprintf("history %s: a replica whose rows are not in log order but whose order index is correct: %s", h, detail), h.replay())
				} else {
					c0.fail("m5-catch-up-from-anystore-rows-out-of-order", what, detail)
					ok = false
				}
				break
			}
		}
	}
	// (c) both: on top of (b), the order values of the same two records exchanged
	if !swapped("rows-and-orders-of-last-two-records-swapped", n-2, n-1) {
		return false
	}
	if n == 4 && (e.c.Thorough() || h.index%8 == 0) {
		// rows root, r2, r1, r3 (root first and head last still hold for a scan by rows); then the orders of r1, r2 as well
		if !restore(1) || !restore(3) {
			return false
		}
		loads("rows-of-two-middle-records-swapped")
		if !swapped("rows-and-orders-of-two-middle-records-swapped", 1, 2) {
			return false
		}
	}
	return
}
