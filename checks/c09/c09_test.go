// C09 — full-sync responses are complete, causally ordered and size-bounded.
//
// Replica state pairs are produced by the C01 simulator (real sync trees): every history over edit / snapshot on
// either replica, "flush" (deliver everything in flight until quiet) and "lose" (drop everything in flight) up to a
// length bound, deduplicated on the world's canonical state. For every ordered pair (responder, requester) of
// every state, every requester-heads variant and every batch limit, the batches the responder's real loader
// produces (and the messages the real HandleStreamRequest sends) are judged and then fed to the real requester.
package c09

import (
	"context"
	"encoding/json"
	"fmt"
	"sort"
	"strings"
	"testing"
	"time"

	"go.uber.org/zap"

	"github.com/anyproto/any-sync/app/logger"
	"github.com/anyproto/any-sync/commonspace/object/tree/objecttree"
	"github.com/anyproto/any-sync/commonspace/object/tree/synctree/response"
	"github.com/anyproto/any-sync/commonspace/object/tree/treechangeproto"
	"github.com/anyproto/any-sync/net/peer"

	"verif/lib/treesim"
	"verif/lib/vk"
)

type event struct {
	Op string `json:"op"` // edit snap flush lose
	R  int    `json:"r"`
}

func (e event) String() string {
	if e.Op == "edit" || e.Op == "snap" {
		return fmt.Sprintf("%s(r%d)", e.Op, e.R)
	}
	return e.Op
}

func histStr(h []event) string {
	var s []string
	for _, e := range h {
		s = append(s, e.String())
	}
	return strings.Join(s, " ; ")
}

func apply(w *treesim.World, e event) {
	switch e.Op {
	case "edit":
		w.Edit(e.R, false)
	case "snap":
		w.Edit(e.R, true)
	case "flush":
		for n := 0; len(w.Net) > 0 && n < 200; n++ {
			w.Deliver(w.Take(0), -1)
		}
	case "lose":
		w.Net = nil
	}
}

func build(f *treesim.Fixture, scratch string, h []event) *treesim.World {
	w, err := treesim.NewWorld(f, 2, scratch)
	if err != nil {
		panic(err)
	}
	for _, e := range h {
		apply(w, e)
	}
	w.Net = nil
	return w
}

type storedChange struct {
	id      string
	parents []string
	size    int
	raw     *treechangeproto.RawTreeChangeWithId
}

func storedOf(r *treesim.Replica) (out []storedChange, byId map[string]storedChange) {
	byId = map[string]storedChange{}
	_ = r.Tree.Storage().GetAfterOrder(context.Background(), "", func(_ context.Context, c objecttree.StorageChange) (bool, error) {
		sc := storedChange{id: c.Id, parents: append([]string{}, c.PrevIds...), size: len(c.RawChange), raw: c.RawTreeChangeWithId()}
		out = append(out, sc)
		byId[c.Id] = sc
		return true, nil
	})
	return
}

type variant struct {
	Name  string
	Heads []string
	Path  []string
}

func variants(q *treesim.Replica) []variant {
	q.Tree.Lock()
	heads := append([]string{}, q.Tree.Heads()...)
	path, _ := q.Tree.SnapshotPath()
	q.Tree.Unlock()
	path = append([]string{}, path...)
	vs := []variant{
		{"requester-heads", heads, path},
		{"empty-request", nil, nil},
		{"unknown-heads", []string{"bafyreiunknownhead000000000000000000000000000000000000000000"}, path},
		{"partly-known-heads", append(append([]string{}, heads...), "bafyreiunknownhead000000000000000000000000000000000000000000"), path},
	}
	return vs
}

type finding struct{ key, what string }

type batchOut struct {
	ids   []string
	heads []string
	size  int
	raws  []*treechangeproto.RawTreeChangeWithId
	path  []string
	root  *treechangeproto.RawTreeChangeWithId
}

func loadBatches(r *treesim.Replica, v variant, limit int) (bs []batchOut, err error) {
	r.Tree.Lock()
	it, err := r.Tree.ChangesAfterCommonSnapshotLoader(v.Path, v.Heads)
	r.Tree.Unlock()
	if err != nil {
		return nil, err
	}
	for n := 0; n < 10000; n++ {
		b, err := it.NextBatch(limit)
		if err != nil {
			return bs, err
		}
		if len(b.Batch) == 0 {
			break
		}
		o := batchOut{heads: append([]string{}, b.Heads...), raws: b.Batch, path: b.SnapshotPath, root: b.Root}
		for _, c := range b.Batch {
			o.ids = append(o.ids, c.Id)
			o.size += len(c.RawChange)
		}
		bs = append(bs, o)
	}
	return
}

func judge(rStored []storedChange, rBy map[string]storedChange, qBy map[string]storedChange, v variant, limit int, bs []batchOut, rootId string) (out []finding) {
	add := func(k, f string, a ...any) { out = append(out, finding{k + ":" + v.Name, fmt.Sprintf(f, a...)}) }
	sent := map[string]int{}
	var order []string
	for bi, b := range bs {
		if b.size > limit && len(b.ids) != 1 {
			add("batch-exceeds-limit", "batch %d carries %d bytes in %d changes with limit %d", bi, b.size, len(b.ids), limit)
		}
		for _, id := range b.ids {
			if _, dup := sent[id]; dup {
				add("change-sent-twice", "%s appears in batch %d and in batch %d", id, sent[id], bi)
			}
			sent[id] = bi
			order = append(order, id)
			if _, ok := rBy[id]; !ok {
				add("sent-change-not-held-by-responder", "batch %d carries %s which the responder does not store", bi, id)
			}
		}
	}
	// completeness
	var missing []string
	for _, c := range rStored {
		if c.id == rootId {
			continue // the root travels in the Root field of every batch
		}
		_, has := qBy[c.id]
		if v.Name == "empty-request" {
			has = false
		}
		if _, ok := sent[c.id]; !ok && !has {
			missing = append(missing, c.id)
		}
	}
	if len(missing) > 0 {
		add("incomplete-response", "responder holds %v which the requester lacks, but they are in no batch (sent %v)", missing, order)
	}
	// causal order: each parent is held by the requester or earlier in the stream
	pos := map[string]int{}
	for i, id := range order {
		pos[id] = i
	}
	for i, id := range order {
		for _, p := range rBy[id].parents {
			if p == rootId {
				continue
			}
			_, has := qBy[p]
			if v.Name == "empty-request" {
				has = false
			}
			if pp, ok := pos[p]; ok {
				if pp > i {
					add("parent-after-child", "%s is sent before its parent %s", id, p)
				}
			} else if !has {
				add("parent-never-sent", "%s is sent but its parent %s is neither sent nor held by the requester", id, p)
			}
		}
	}
	// announced heads: sent so far or held by the requester; every change of the batch below some announced head
	anc := func(heads []string) map[string]bool {
		seen := map[string]bool{}
		stack := append([]string{}, heads...)
		for len(stack) > 0 {
			id := stack[len(stack)-1]
			stack = stack[:len(stack)-1]
			if seen[id] {
				continue
			}
			seen[id] = true
			stack = append(stack, rBy[id].parents...)
		}
		return seen
	}
	for bi, b := range bs {
		for _, h := range b.heads {
			_, has := qBy[h]
			if sb, ok := sent[h]; (!ok || sb > bi) && !has && h != rootId {
				add("announced-head-not-yet-sent", "batch %d announces head %s which is neither sent by then nor held by the requester", bi, h)
			}
		}
		// heads are maximal: no announced head is a strict ancestor of another announced head of the same batch
		for _, h := range b.heads {
			others := []string{}
			for _, o := range b.heads {
				if o != h {
					others = append(others, rBy[o].parents...)
				}
			}
			if anc(others)[h] {
				add("announced-head-is-ancestor-of-another", "batch %d announces %v but %s is an ancestor of another announced head", bi, b.heads, h)
			}
		}
		below := anc(b.heads)
		for _, id := range b.ids {
			if !below[id] {
				add("batch-change-not-below-announced-heads", "batch %d carries %s which is not an ancestor of its announced heads %v", bi, id, b.heads)
			}
		}
	}
	return
}

func limitsFor(rStored []storedChange) []int {
	set := map[int]bool{1: true, 10 << 20: true}
	sum := 0
	minSz := 1 << 30
	for _, c := range rStored {
		if c.size < minSz {
			minSz = c.size
		}
	}
	set[minSz] = true
	for _, c := range rStored {
		sum += c.size
		set[sum-1], set[sum], set[sum+1] = true, true, true
	}
	var out []int
	for l := range set {
		if l > 0 {
			out = append(out, l)
		}
	}
	sort.Ints(out)
	return out
}

func TestCheck(t *testing.T) {
	logger.SetDefault(zap.NewNop())
	logger.SetNamedLevels(logger.LevelsFromStr("*=fatal"))
	vk.Main(t, vk.Spec{
		Prop:  "C09",
		Level: "model_checking",
		Rule: "explicit-state BFS over histories (edit / snapshot on either of two real sync-tree replicas, flush the network, lose the network) with canonical-state dedup; for every ordered (responder, requester) pair of every state x 4 requester-heads variants (real heads+path, empty request, unknown heads, partly known heads) plus requesters that stopped at an earlier point (either replica as it was after each proper prefix of the history, distinct states, smallest and largest limit) x every batch limit (1, smallest change, every partial sum of stored sizes +-1, total, 10 MiB) the responder's real loader output is judged and (for the real-heads and empty variants) fed batch by batch to the real requester; " +
			"states = distinct world states; transitions = (pair, variant, limit) evaluations; distinct_nontrivial = evaluations with >= 2 batches or with a responder reduced to a later snapshot",
		Assumptions: []string{
			"replica pairs come from honest participation of one account on two devices; storage = in-memory implementation of the storage interfaces (see C01)",
			"the requester is taken to lack exactly what its storage lacks; for the empty request it is taken to hold nothing",
		},
		Shards: func(string) int { return 16 },
		Budget: func(tier string) time.Duration {
			if tier == "quick" {
				return 150 * time.Second
			}
			return 25 * time.Minute
		},
	}, body)
}

func body(c *vk.Ctx) {
	f, err := treesim.NewFixture(c.Seed)
	if err != nil {
		c.Broken("fixture: %v", err)
		return
	}
	if c.Replay != "" {
		var rf struct {
			Case struct {
				History []event `json:"history"`
				R       int     `json:"responder"`
				Variant string  `json:"variant"`
				Limit   int     `json:"limit"`
			} `json:"case"`
		}
		if err := vk.ReadJSON(c.Replay, &rf); err != nil {
			c.Broken("replay: %v", err)
			return
		}
		c.DistinctH("states", 1)
		evaluate(c, f, rf.Case.History, rf.Case.R, rf.Case.Variant, rf.Case.Limit)
		return
	}
	maxLen := vk.Pick(c, 5, 7)
	maxEdits := vk.Pick(c, 4, 5)
	c.Bound("max_history_length", maxLen)
	c.Bound("max_edits", maxEdits)
	seen := map[uint64]bool{}
	frontier := [][]event{{}}
	var alphabet []event
	for r := 0; r < 2; r++ {
		alphabet = append(alphabet, event{"edit", r}, event{"snap", r})
	}
	alphabet = append(alphabet, event{Op: "flush"}, event{Op: "lose"})
	multiBatch, reduced := 0, 0
	for depth := 0; depth <= maxLen; depth++ {
		var found []vk.Item
		for i, h := range frontier {
			if !c.Mine(i) {
				continue
			}
			if c.TimeUp() {
				break
			}
			for _, e := range alphabet {
				edits := 0
				for _, x := range h {
					if x.Op == "edit" || x.Op == "snap" {
						edits++
					}
				}
				if (e.Op == "edit" || e.Op == "snap") && edits >= maxEdits {
					continue
				}
				if len(h) > 0 && (e.Op == "flush" || e.Op == "lose") && (h[len(h)-1].Op == "flush" || h[len(h)-1].Op == "lose") {
					continue
				}
				nh := append(append([]event{}, h...), e)
				w := build(f, c.Scratch, h)
				apply(w, e)
				keepNet := w.Net
				w.Net = nil
				canon, err := w.Canon()
				w.Net = keepNet
				inflight := len(keepNet)
				w.Close()
				c.Count("executions", 1)
				if err != nil {
					c.Violation("state-unreadable", fmt.Sprintf("[%s]: %v", histStr(nh), err), nil)
					continue
				}
				key := vk.HashStr(canon + fmt.Sprint(inflight > 0))
				if seen[key] {
					continue
				}
				hb, _ := json.Marshal(nh)
				found = append(found, vk.Item{Key: key, Data: hb})
			}
		}
		all, stop, ok := c.Exchange(fmt.Sprintf("L%d", depth), found, c.TimeUp())
		if !ok {
			return
		}
		if stop {
			c.NotExhaustive(fmt.Sprintf("deadline at history length %d", depth))
			return
		}
		frontier = frontier[:0]
		idx := 0
		for _, it := range all {
			if seen[it.Key] {
				continue
			}
			seen[it.Key] = true
			var h []event
			json.Unmarshal(it.Data, &h)
			frontier = append(frontier, h)
			idx++
			if !c.Mine(idx) {
				continue
			}
			c.DistinctH("states", it.Key)
			mb, rd := evaluateState(c, f, h)
			multiBatch += mb
			reduced += rd
		}
		if c.Shard == 0 {
			c.Bound(fmt.Sprintf("new_states_at_length_%d", depth+1), len(frontier))
		}
		if len(frontier) == 0 {
			break
		}
	}
	if c.Shard == 0 {
		c.Require(multiBatch > 0 || c.NViolations() > 0, "vacuity: no evaluation produced two or more batches")
	}
}

// evaluateState judges every (pair, variant, limit) of the state reached by h.
func evaluateState(c *vk.Ctx, f *treesim.Fixture, h []event) (multiBatch, reduced int) {
	w := build(f, c.Scratch, h)
	defer w.Close()
	rootId := f.TreeRoot.Id
	for ri := 0; ri < 2; ri++ {
		r, q := w.Replicas[ri], w.Replicas[1-ri]
		rStored, _ := storedOf(r)
		for _, v := range variants(q) {
			for _, limit := range limitsFor(rStored) {
				if c.TimeUp() {
					c.NotExhaustive("deadline inside a state's evaluations")
					return
				}
				mb, rd := evaluate(c, f, h, ri, v.Name, limit)
				multiBatch += mb
				reduced += rd
			}
		}
		// requesters that synced earlier and were away since: either replica as it was after a proper prefix of the
		// history (distinct states only), asking with the heads and snapshot path it had then
		seenPast := map[string]bool{}
		for _, cur := range w.Replicas {
			seenPast[replicaSig(cur)] = true
		}
		lims := limitsFor(rStored)
		if len(lims) > 2 {
			lims = []int{lims[0], lims[len(lims)-1]}
		}
		for k := 0; k < len(h); k++ {
			wp := build(f, c.Scratch, h[:k])
			for j := 0; j < 2; j++ {
				sig := replicaSig(wp.Replicas[j])
				if seenPast[sig] {
					continue
				}
				seenPast[sig] = true
				for _, limit := range lims {
					if c.TimeUp() {
						wp.Close()
						c.NotExhaustive("deadline inside a state's evaluations")
						return
					}
					mb, rd := evaluate(c, f, h, ri, fmt.Sprintf("past:%d:%d", k, j), limit)
					multiBatch += mb
					reduced += rd
				}
			}
			wp.Close()
		}
	}
	_ = rootId
	return
}

// replicaSig identifies what a replica holds and announces.
func replicaSig(q *treesim.Replica) string {
	q.Tree.Lock()
	heads := append([]string{}, q.Tree.Heads()...)
	path, _ := q.Tree.SnapshotPath()
	q.Tree.Unlock()
	st, _ := storedOf(q)
	var ids []string
	for _, x := range st {
		ids = append(ids, x.id)
	}
	sort.Strings(ids)
	sort.Strings(heads)
	return strings.Join(heads, ",") + "|" + strings.Join(path, ",") + "|" + strings.Join(ids, ",")
}

func evaluate(c *vk.Ctx, f *treesim.Fixture, h []event, ri int, variantName string, limit int) (multiBatch, reduced int) {
	w := build(f, c.Scratch, h)
	defer w.Close()
	c.Count("executions", 1)
	c.Count("transitions", 1)
	r, q := w.Replicas[ri], w.Replicas[1-ri]
	past := strings.HasPrefix(variantName, "past:")
	if past {
		var k, j int
		if _, err := fmt.Sscanf(variantName, "past:%d:%d", &k, &j); err != nil || k > len(h) {
			c.Broken("bad variant %q", variantName)
			return
		}
		wq := build(f, c.Scratch, h[:k])
		defer wq.Close()
		q = wq.Replicas[j]
	}
	rStored, rBy := storedOf(r)
	_, qBy := storedOf(q)
	var v variant
	for _, x := range variants(q) {
		if x.Name == variantName || past && x.Name == "requester-heads" {
			v = x
		}
	}
	if past {
		v.Name = "past-requester"
	}
	rep := map[string]any{"history": h, "responder": ri, "variant": variantName, "limit": limit}
	where := fmt.Sprintf("after [%s], responder r%d, %s, limit %d", histStr(h), ri, variantName, limit)
	var bs []batchOut
	var lerr error
	if p, what := vk.Recover(func() { bs, lerr = loadBatches(r, v, limit) }); p {
		c.Violation("panic:"+vk.PanicSite(what), where+": "+what, rep)
		return
	}
	if lerr != nil {
		c.Violation("loader-error:"+variantName, fmt.Sprintf("%s: %v", where, lerr), rep)
		return
	}
	if len(bs) >= 2 {
		multiBatch = 1
	}
	r.Tree.Lock()
	if r.Tree.Root().Id != f.TreeRoot.Id {
		reduced = 1
	}
	r.Tree.Unlock()
	if multiBatch+reduced > 0 {
		c.Distinct("distinct", fmt.Sprint(histStr(h), ri, variantName, limit))
	}
	for _, fd := range judge(rStored, rBy, qBy, v, limit, bs, f.TreeRoot.Id) {
		c.Violation(fd.key, where+": "+fd.what, rep)
	}
	c.Count("evaluations", 1)
	if len(h) == 3 && limit == 1 && variantName == "requester-heads" {
		var ids [][]string
		for _, b := range bs {
			ids = append(ids, shortIds(b.ids))
		}
		c.Sample(map[string]any{"history": histStr(h), "responder": ri, "variant": variantName, "limit": limit, "batches": ids})
	}
	// feed the batches in order to the real requester
	if variantName == "requester-heads" || past {
		ctx := peer.CtxWithPeerId(context.Background(), r.PeerId)
		for bi, b := range bs {
			resp := &response.Response{SpaceId: f.SpaceId, ObjectId: f.TreeRoot.Id, Heads: b.heads, SnapshotPath: b.path, Changes: b.raws, Root: b.root}
			if err := q.Tree.HandleResponse(ctx, r.PeerId, f.TreeRoot.Id, resp); err != nil {
				c.Violation("requester-rejects-batch", fmt.Sprintf("%s: requester failed on batch %d %v: %v", where, bi, shortIds(b.ids), err), rep)
				return
			}
		}
		_, qAfter := storedOf(q)
		var lacking []string
		for _, x := range rStored {
			if _, ok := qAfter[x.id]; !ok {
				lacking = append(lacking, x.id)
			}
		}
		if len(lacking) > 0 {
			c.Violation("requester-still-lacks-changes", fmt.Sprintf("%s: after applying all %d batches the requester still lacks %v", where, len(bs), shortIds(lacking)), rep)
		}
		// the messages the real request handler sends (fixed 1 MiB batches) must carry the same changes
		if limit == 10<<20 && !past {
			w2 := build(f, c.Scratch, h)
			defer w2.Close()
			if err := w2.SyncWithPeer(1-ri, ri); err == nil && len(w2.Net) == 1 {
				m := w2.Take(0)
				w2.Deliver(m, -1)
				var sentIds []string
				for _, x := range w2.Net {
					if x.Kind == "resp" {
						sentIds = append(sentIds, x.Changes...)
					}
				}
				var want []string
				for _, b := range bs {
					want = append(want, b.ids...)
				}
				if strings.Join(sentIds, ",") != strings.Join(want, ",") {
					c.Violation("handler-sends-different-changes", fmt.Sprintf("%s: HandleStreamRequest sent %v, the loader produced %v", where, shortIds(sentIds), shortIds(want)), rep)
				}
			}
		}
	}
	return
}

func shortIds(ids []string) []string {
	var o []string
	for _, id := range ids {
		if len(id) > 8 {
			o = append(o, id[len(id)-6:])
		} else {
			o = append(o, id)
		}
	}
	return o
}
