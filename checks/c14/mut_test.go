package c14

import (
	"encoding/binary"
	"fmt"
)

// mut is one manipulation the man in the middle applies to the K-th frame of direction Dir (engine M).
type mut struct {
	Dir   int      `json:"dir"` // 0: outgoing->incoming, 1: incoming->outgoing
	K     int      `json:"k"`
	Kind  string   `json:"kind"` // byte | trunc | type | len | drop | dup | swap | garbage | pad
	Off   int      `json:"off,omitempty"`
	Val   int64    `json:"val,omitempty"`
	After int      `json:"after,omitempty"` // afterCont | afterSilent | afterEOF (what follows the manipulated frame)
	Aux   hexBytes `json:"aux,omitempty"`   // garbage bytes / the successor frame (swap)
}

func (m *mut) String() string {
	return fmt.Sprintf("frame %s#%d %s off=%d val=%d after=%d aux=%x", []string{"out->in", "in->out"}[m.Dir], m.K, m.Kind, m.Off, m.Val, m.After, []byte(m.Aux))
}

// padTo pads a frame's payload with one unknown length-delimited protobuf field (number 15) so that the payload is
// exactly size bytes long, and announces that size. The padded message still decodes to the same known fields.
func padTo(frame []byte, size int) []byte {
	payload := frame[5:]
	need := size - len(payload)
	// tag (1 byte) + varint(len) + len zero bytes == need
	var pad []byte
	for l := need - 2; l >= 0 && l > need-8; l-- {
		p := apVarint([]byte{0x7a}, uint64(l))
		if len(p)+l == need {
			pad = append(p, make([]byte, l)...)
			break
		}
	}
	if pad == nil {
		panic("padTo: cannot pad")
	}
	out := make([]byte, 5, 5+size)
	out[0] = frame[0]
	binary.LittleEndian.PutUint32(out[1:5], uint32(size))
	out = append(out, payload...)
	return append(out, pad...)
}

func (m *mut) apply(data []byte) ([]byte, int) {
	d := append([]byte(nil), data...)
	switch m.Kind {
	case "byte":
		if m.Off < len(d) {
			d[m.Off] = byte(m.Val)
		}
	case "trunc":
		if m.Off < len(d) {
			d = d[:m.Off]
		}
	case "type":
		d[0] = byte(m.Val)
	case "len":
		binary.LittleEndian.PutUint32(d[1:5], uint32(m.Val))
	case "drop":
		d = nil
	case "dup":
		d = append(d, data...)
	case "swap", "garbage":
		d = append(append([]byte(nil), m.Aux...), d...)
	case "pad":
		d = padTo(d, int(m.Val))
	default:
		panic("unknown mutation kind " + m.Kind)
	}
	return d, m.After
}

func (m *mut) rewriter() func(dir, k int, data []byte) ([]byte, int) {
	return func(dir, k int, data []byte) ([]byte, int) {
		if dir != m.Dir {
			return data, afterCont
		}
		if k == m.K {
			return m.apply(data)
		}
		if m.Kind == "swap" && k == m.K+1 {
			return nil, afterCont // it was delivered ahead of its predecessor
		}
		return data, afterCont
	}
}

// mutations enumerates the manipulations of frame (dir,k) of a recorded run. next = its successor in the same
// direction (nil if none). big: include the cases that need ~200 KB frames.
func mutations(dir, k int, frame, next []byte, big bool) (out []*mut) {
	add := func(m *mut) { m.Dir, m.K = dir, k; out = append(out, m) }
	// every byte x {^b, b^1, b+1, 0, 0xFF}
	for off, b := range frame {
		seen := map[byte]bool{b: true}
		for _, v := range []byte{^b, b ^ 1, b + 1, 0, 0xff} {
			if seen[v] {
				continue
			}
			seen[v] = true
			add(&mut{Kind: "byte", Off: off, Val: int64(v)})
		}
	}
	// every truncation, followed by: the rest of the stream / silence / EOF
	for l := 0; l < len(frame); l++ {
		for _, after := range []int{afterCont, afterSilent, afterEOF} {
			add(&mut{Kind: "trunc", Off: l, After: after})
		}
	}
	// type byte
	for tp := 0; tp <= 5; tp++ {
		if byte(tp) != frame[0] {
			add(&mut{Kind: "type", Val: int64(tp)})
		}
	}
	// length field (payload untouched)
	plen := int64(len(frame) - 5)
	seenLen := map[int64]bool{plen: true}
	for _, v := range []int64{0, plen - 1, plen + 1, refSizeLimit, refSizeLimit + 1, 1<<32 - 1} {
		if v < 0 || seenLen[v] {
			continue
		}
		seenLen[v] = true
		for _, after := range []int{afterCont, afterEOF} {
			add(&mut{Kind: "len", Val: v, After: after})
		}
	}
	// dropped / duplicated / swapped with its successor
	add(&mut{Kind: "drop"})
	add(&mut{Kind: "drop", After: afterEOF})
	add(&mut{Kind: "dup"})
	if next != nil {
		add(&mut{Kind: "swap", Aux: next})
	}
	// 1-2 garbage bytes in front
	gb := []byte{0x00, 0x01, 0x02, 0x03, 0x0a, 0xff}
	for _, a := range gb {
		add(&mut{Kind: "garbage", Aux: []byte{a}})
		for _, b := range gb {
			add(&mut{Kind: "garbage", Aux: []byte{a, b}})
		}
	}
	// a well-formed frame of exactly the size limit (admissible) and one byte more (oversized)
	if big {
		add(&mut{Kind: "pad", Val: refSizeLimit})
		add(&mut{Kind: "pad", Val: refSizeLimit + 1})
	}
	return
}
