package c14

import (
	"context"
	"crypto/ed25519"
	"crypto/sha256"
	"encoding/binary"
	"encoding/hex"
	"encoding/json"
	"fmt"
	"io"
	"sync"
	"testing"
	"testing/synctest"
	"time"

	"github.com/anyproto/any-sync/commonspace/object/accountdata"
	"github.com/anyproto/any-sync/net/peer"
	"github.com/anyproto/any-sync/net/secureservice"
	"github.com/anyproto/any-sync/net/secureservice/handshake"
	"github.com/anyproto/any-sync/net/secureservice/handshake/handshakeproto"
	"github.com/anyproto/any-sync/util/crypto"

	"verif/lib/vk"
)

const fakeDeadline = 10 * time.Second

// ---------------------------------------------------------------------------------------------------
// accounts (deterministic keys; Ed25519 signatures are deterministic, so every frame is reproducible)

type acct struct {
	name     string
	keys     *accountdata.AccountKeys
	peerId   string
	signSeed []byte
	identity []byte // marshalled public account key as it appears in credentials (crypto Key proto)
}

func seedOf(s string) []byte { h := sha256.Sum256([]byte("c14/" + s)); return h[:] }

func mkAcct(name, peerSeed, signSeed string) *acct {
	ss := seedOf("sign/" + signSeed)
	peerKey := crypto.NewEd25519PrivKey(ed25519.NewKeyFromSeed(seedOf("peer/" + peerSeed)))
	signPriv := ed25519.NewKeyFromSeed(ss)
	signKey := crypto.NewEd25519PrivKey(signPriv)
	k := accountdata.New(peerKey, signKey)
	pub := signPriv.Public().(ed25519.PublicKey)
	return &acct{name: name, keys: k, peerId: k.PeerId, signSeed: ss, identity: append([]byte{0x12, 0x20}, pub...)}
}

// Account table. A2 is "the same account on another device" (same signing key as A, other transport peer id).
const (
	acA = iota
	acB
	acA2
	acB2
	acC
	acD
	acE
	acF
	acG
	nAccts
)

var accts = func() []*acct {
	return []*acct{
		mkAcct("A", "A", "A"), mkAcct("B", "B", "B"), mkAcct("A'", "A2", "A"), mkAcct("B'", "B2", "B2"), mkAcct("C", "C", "C"),
		mkAcct("D", "D", "D"), mkAcct("E", "E", "E"), mkAcct("F", "F", "F"), mkAcct("G", "G", "G"),
	}
}()

// refSign: account a's signature over (own transport peer id ++ verifier's peer id), made with the standard
// library only.
func refSign(a *acct, verifierPeer string) []byte {
	return ed25519.Sign(ed25519.NewKeyFromSeed(a.signSeed), []byte(a.peerId+verifierPeer))
}

// ---------------------------------------------------------------------------------------------------
// a tiny protobuf writer (harness-made credentials for scripted peers)

func apVarint(b []byte, v uint64) []byte {
	for v >= 0x80 {
		b = append(b, byte(v)|0x80)
		v >>= 7
	}
	return append(b, byte(v))
}

func apBytes(b []byte, field int, data []byte) []byte {
	b = apVarint(b, uint64(field<<3|2))
	b = apVarint(b, uint64(len(data)))
	return append(b, data...)
}

func apUint(b []byte, field int, v uint64) []byte {
	b = apVarint(b, uint64(field<<3|0))
	return apVarint(b, v)
}

func mkFrame(tp byte, payload []byte) []byte {
	f := make([]byte, 5, 5+len(payload))
	f[0] = tp
	binary.LittleEndian.PutUint32(f[1:5], uint32(len(payload)))
	return append(f, payload...)
}

// ---------------------------------------------------------------------------------------------------
// configuration of one side

type sideCfg struct {
	Acct    int      `json:"acct"`
	Version uint32   `json:"version"`
	Accept  []uint32 `json:"accept"`
	Verify  bool     `json:"verify"`
	CV      string   `json:"cv"`
	// ViaService: the checker is the one a real secure service builds in its Init, with Accept delivered through the
	// application's "config" component (sub-check f) instead of the checker constructors
	ViaService bool `json:"via_service,omitempty"`
}

func (s sideCfg) String() string {
	m := "skip"
	if s.Verify {
		m = "signed"
	}
	return fmt.Sprintf("%s(v=%d accept=%v %s)", accts[s.Acct].name, s.Version, s.Accept, m)
}

func (s sideCfg) checker() handshake.CredentialChecker {
	if s.ViaService {
		cc, err := secureservice.VerifServiceChecker(s.Version, s.Accept, s.CV, accts[s.Acct].keys, s.Verify)
		if err != nil {
			panic(fmt.Sprintf("c14: secure service Init with version %d and configured list %v: %v", s.Version, s.Accept, err))
		}
		return cc
	}
	if s.Verify {
		return secureservice.VerifNewPeerSignVerifier(s.Version, s.Accept, s.CV, accts[s.Acct].keys)
	}
	return secureservice.VerifNewNoVerifyChecker(s.Version, s.Accept, s.CV)
}

func (s sideCfg) verifier() verifier {
	return verifier{Accept: s.Accept, Verify: s.Verify, LocalPeer: accts[s.Acct].peerId}
}

func modeName(v bool) string {
	if v {
		return "signed"
	}
	return "skip"
}

// ---------------------------------------------------------------------------------------------------
// chunking

// chunkSpec: the default read size (whole = as much as asked for and available, or one byte) and the Read calls
// (side, index) that deviate from the default.
type chunkSpec struct {
	One   bool     `json:"one,omitempty"`
	Flips [][2]int `json:"flips,omitempty"`
}

func (cs chunkSpec) fn(side int) func(i int) int {
	flip := map[int]bool{}
	for _, f := range cs.Flips {
		if f[0] == side {
			flip[f[1]] = true
		}
	}
	return func(i int) int {
		one := cs.One
		if flip[i] {
			one = !one
		}
		if one {
			return 1
		}
		return 0
	}
}

func (cs chunkSpec) String() string {
	b := "whole"
	if cs.One {
		b = "1-byte"
	}
	if len(cs.Flips) > 0 {
		b += fmt.Sprintf("^%v", cs.Flips)
	}
	return b
}

// ---------------------------------------------------------------------------------------------------
// results

type hexBytes []byte

func (h hexBytes) MarshalJSON() ([]byte, error) { return json.Marshal(hex.EncodeToString(h)) }
func (h *hexBytes) UnmarshalJSON(b []byte) error {
	var s string
	if err := json.Unmarshal(b, &s); err != nil {
		return err
	}
	d, err := hex.DecodeString(s)
	*h = d
	return err
}

type sideOut struct {
	Returned bool
	OK       bool
	Err      string
	Att      attached
	At       time.Duration // fake time of return
}

func (s sideOut) verdict() string {
	switch {
	case !s.Returned:
		return "HUNG"
	case s.OK:
		return "ok"
	default:
		return "err(" + s.Err + ")"
	}
}

// viaService runs one side through a real secure service (HandshakeOutbound / HandshakeInbound) and reads what the
// service attached to the connection context back into a handshake.Result.
func viaService(sc sideCfg, outgoing bool, ctx context.Context, conn io.ReadWriteCloser, remotePeer string) (res handshake.Result, err error) {
	svc, err := secureservice.VerifService(sc.Version, sc.Accept, sc.CV, accts[sc.Acct].keys, sc.Verify)
	if err != nil {
		panic(fmt.Sprintf("c14: secure service Init with version %d and configured list %v: %v", sc.Version, sc.Accept, err))
	}
	var cctx context.Context
	if outgoing {
		if sc.Verify {
			ctx = secureservice.CtxAllowAccountCheck(ctx)
		}
		cctx, err = svc.HandshakeOutbound(ctx, conn, remotePeer)
	} else {
		cctx, err = svc.HandshakeInbound(ctx, conn, remotePeer)
	}
	if err != nil || cctx == nil {
		return res, err
	}
	res.Identity, _ = peer.CtxIdentity(cctx)
	res.ProtoVersion, _ = peer.CtxProtoVersion(cctx)
	res.ClientVersion = peer.CtxPeerClientVersion(cctx)
	return res, nil
}

func mkSideOut(res handshake.Result, err error, start time.Time) sideOut {
	o := sideOut{Returned: true, OK: err == nil, At: time.Since(start)}
	if err != nil {
		o.Err = err.Error()
	}
	o.Att = attached{Identity: append([]byte(nil), res.Identity...), ProtoVersion: res.ProtoVersion, ClientVersion: res.ClientVersion}
	if len(o.Att.Identity) == 0 {
		o.Att.Identity = nil
	}
	return o
}

type cancelSpec struct {
	Side int `json:"side"` // 0 = outgoing side, 1 = incoming side
	K    int `json:"k"`    // the side's context is cancelled right before its K-th conn operation (Read/Write)
}

type pairSpec struct {
	Out         sideCfg     `json:"out"`
	In          sideCfg     `json:"in"`
	Chunk       chunkSpec   `json:"chunk"`
	Mut         *mut        `json:"mut,omitempty"`
	Cancel      *cancelSpec `json:"cancel,omitempty"`
	SilentClose bool        `json:"silent_close,omitempty"`
	StrictWrite bool        `json:"strict_write,omitempty"`
}

type pairResult struct {
	Side     [2]sideOut
	Frames   [2][][]byte // frames written by side s
	Received [2][]byte   // bytes consumed by side s
	ReadLens [2][]int
	NOps     [2]int // conn operations started by side s
	Hung     bool
	Late     int
	Leaked   int // conn operations still blocked after both sides returned
	CancelAt int // frames the cancelled side had written when the cancellation hit (-1: never hit)
	Ops      []opRec
}

type world struct {
	t *testing.T
	c *vk.Ctx
}

// freshPool gives every run its own, never used handshake objects (the pooled-object histories are the subject
// of sub-check (d); everywhere else runs must not depend on what ran before them in the same process).
func freshPool() {
	handshake.VerifSetPool(&sync.Pool{New: func() any { return handshake.VerifNewPoolObject() }})
}

// stuck: goroutines of the code under test are blocked for good; the bubble cannot be left.
func (w *world) stuck(key, what string, rc any) {
	w.c.Violation(key, what, rc)
	w.c.FlushAndExit()
}

func (w *world) runPair(ps pairSpec, rc any) *pairResult {
	r := &pairResult{CancelAt: -1}
	synctest.Test(w.t, func(t *testing.T) {
		freshPool()
		p := newPipe()
		p.silentClose = ps.SilentClose
		p.strictWrite = ps.StrictWrite
		p.ends[0].chunk, p.ends[1].chunk = ps.Chunk.fn(0), ps.Chunk.fn(1)
		if ps.Mut != nil {
			p.rewrite = ps.Mut.rewriter()
		}
		ccO, ccI := ps.Out.checker(), ps.In.checker()
		ctxO, cancelO := context.WithTimeout(context.Background(), fakeDeadline)
		// (one millisecond apart: two timers firing at the same fake instant would leave the order of the two sides'
		// reactions to the Go scheduler)
		ctxI, cancelI := context.WithTimeout(context.Background(), fakeDeadline+time.Millisecond)
		defer cancelO()
		defer cancelI()
		hookWaiting := 0
		if cs := ps.Cancel; cs != nil {
			cancel := cancelO
			if cs.Side == 1 {
				cancel = cancelI
			}
			p.ends[cs.Side].beforeOp = func(i int, kind byte) {
				if i != cs.K {
					return
				}
				r.CancelAt = p.writesDone(cs.Side)
				cancel()
				// the operation itself is held back until the handshake function has reacted to the cancellation
				// (it closes the conn), so that the outcome does not depend on a race between the two
				p.mu.Lock()
				hookWaiting++
				p.mu.Unlock()
				p.waitClosed(cs.Side)
				p.mu.Lock()
				hookWaiting--
				p.mu.Unlock()
			}
		}
		start := time.Now()
		done := make(chan int, 2)
		go func() {
			var res handshake.Result
			var err error
			if ps.Out.ViaService {
				res, err = viaService(ps.Out, true, ctxO, p.ends[0], accts[ps.In.Acct].peerId)
			} else {
				res, err = handshake.OutgoingHandshake(ctxO, p.ends[0], accts[ps.In.Acct].peerId, ccO)
			}
			if r.Hung {
				r.Late++ // returned only after the harness tore the conn down: stays "not returned" for the oracle
			} else {
				r.Side[0] = mkSideOut(res, err, start)
			}
			done <- 0
		}()
		go func() {
			var res handshake.Result
			var err error
			if ps.In.ViaService {
				res, err = viaService(ps.In, false, ctxI, p.ends[1], accts[ps.Out.Acct].peerId)
			} else {
				res, err = handshake.IncomingHandshake(ctxI, p.ends[1], accts[ps.Out.Acct].peerId, ccI)
			}
			if r.Hung {
				r.Late++
			} else {
				r.Side[1] = mkSideOut(res, err, start)
			}
			done <- 1
		}()
		timeout := time.After(fakeDeadline + 2*time.Second)
		for n := 0; n < 2 && !r.Hung; {
			select {
			case <-done:
				n++
			case <-timeout:
				r.Hung = true
			}
		}
		synctest.Wait()
		p.mu.Lock()
		r.Leaked = p.blocked + hookWaiting
		p.mu.Unlock()
		if r.Hung || r.Leaked > 0 {
			// last resort: close the conn under everybody's feet; whatever does not come back now never will
			p.forceCloseBoth()
			cancelO()
			cancelI()
			synctest.Wait()
			p.mu.Lock()
			still := p.blocked + hookWaiting
			p.mu.Unlock()
			if still > 0 || countReturned(r)+r.Late < 2 {
				w.stuck("unbounded-wait:never-returns", fmt.Sprintf("%d conn operations blocked, %d of 2 sides returned even after the conn was closed on both ends and the contexts were cancelled",
					still, countReturned(r)+r.Late), rc)
			}
		}
		p.mu.Lock()
		for s := 0; s < 2; s++ {
			r.Frames[s] = p.dirs[s].frames
			r.Received[s] = p.dirs[1-s].consumed
			r.ReadLens[s] = p.ends[s].readLens
			r.NOps[s] = p.ends[s].nOps
		}
		r.Ops = p.ops
		p.mu.Unlock()
	})
	return r
}

func countReturned(r *pairResult) int {
	n := 0
	for _, s := range r.Side {
		if s.Returned {
			n++
		}
	}
	return n
}

// ---------------------------------------------------------------------------------------------------
// one real side against a scripted peer (replay attacker, crafted credentials)

type step struct {
	Send hexBytes `json:"send,omitempty"` // write these bytes in one Write
	Recv bool     `json:"recv,omitempty"` // read one frame (header + announced payload)
}

type soloSpec struct {
	RoleOut    bool      `json:"role_out"`    // role of the real side
	Real       sideCfg   `json:"real"`        // its configuration
	RemotePeer int       `json:"remote_peer"` // account whose transport peer id the real side is told it talks to
	Script     []step    `json:"script"`      // behaviour of the scripted peer
	Chunk      chunkSpec `json:"chunk"`
	// Warm: before the run the real side's (long-lived) checker is shown this credentials frame as coming from
	// transport peer WarmPeer - the connection the credentials were recorded on, which it accepts
	Warm     hexBytes `json:"warm,omitempty"`
	WarmPeer int      `json:"warm_peer,omitempty"`
}

type soloResult struct {
	Side     sideOut
	Received []byte
	Sent     [][]byte // frames the real side wrote
	Hung     bool
	Late     bool
	Leaked   int
	CredPtr  *handshakeproto.Credentials // the pooled remote-credentials message the checker was handed
	Seen     refCred                     // its contents at that moment
	Checks   int
	WarmOK   bool // the warm-up credentials were accepted
}

// spy forwards to the real checker and remembers which (pooled) message it was handed.
type spy struct {
	inner handshake.CredentialChecker
	ptr   *handshakeproto.Credentials
	seen  refCred // what the message held when the checker was called
	calls int
}

func (s *spy) MakeCredentials(remotePeerId string) *handshakeproto.Credentials {
	return s.inner.MakeCredentials(remotePeerId)
}

func (s *spy) CheckCredential(remotePeerId string, cred *handshakeproto.Credentials) (handshake.Result, error) {
	s.ptr = cred
	s.seen = refCred{Type: int32(cred.Type), Payload: append([]byte(nil), cred.Payload...), Version: cred.Version, CV: cred.ClientVersion}
	s.calls++
	return s.inner.CheckCredential(remotePeerId, cred)
}

func runScript(e *end, script []step) {
	hdr := make([]byte, 5)
	for _, st := range script {
		if st.Recv {
			if _, err := io.ReadFull(e, hdr); err != nil {
				break
			}
			n := binary.LittleEndian.Uint32(hdr[1:])
			if n > 1<<20 {
				break
			}
			if _, err := io.ReadFull(e, make([]byte, n)); err != nil {
				break
			}
			continue
		}
		if _, err := e.Write(st.Send); err != nil {
			break
		}
	}
	// the scripted peer keeps the connection open (a successful handshake is followed by traffic); the harness
	// closes it once the real side has returned
}

// runSolo runs the real side of ss. pooled=false: on a fresh handshake object; pooled=true: on whatever pool is
// installed.
func (w *world) runSolo(ss soloSpec, pooled bool, rc any) *soloResult {
	r := &soloResult{}
	synctest.Test(w.t, func(t *testing.T) {
		if !pooled {
			freshPool()
		}
		p := newPipe()
		ri, si := 1, 0
		if ss.RoleOut {
			ri, si = 0, 1
		}
		p.ends[ri].chunk = ss.Chunk.fn(ri)
		sp := &spy{inner: ss.Real.checker()}
		if len(ss.Warm) > 5 {
			wc := &handshakeproto.Credentials{}
			if err := wc.UnmarshalVT(ss.Warm[5:]); err == nil {
				_, werr := sp.inner.CheckCredential(accts[ss.WarmPeer].peerId, wc)
				r.WarmOK = werr == nil
			}
		}
		ctx, cancel := context.WithTimeout(context.Background(), fakeDeadline)
		defer cancel()
		start := time.Now()
		done := make(chan int, 1)
		scriptDone := make(chan struct{})
		go func() { defer close(scriptDone); runScript(p.ends[si], ss.Script) }()
		go func() {
			var res handshake.Result
			var err error
			if ss.RoleOut {
				res, err = handshake.OutgoingHandshake(ctx, p.ends[ri], accts[ss.RemotePeer].peerId, sp)
			} else {
				res, err = handshake.IncomingHandshake(ctx, p.ends[ri], accts[ss.RemotePeer].peerId, sp)
			}
			if r.Hung {
				r.Late = true
			} else {
				r.Side = mkSideOut(res, err, start)
			}
			done <- 0
		}()
		select {
		case <-done:
		case <-time.After(fakeDeadline + 2*time.Second):
			r.Hung = true
		}
		// end of the scripted peer
		p.ends[si].Close()
		synctest.Wait()
		p.mu.Lock()
		// the scripted peer's own pending read does not count
		r.Leaked = p.blocked
		p.mu.Unlock()
		if r.Hung || r.Leaked > 0 {
			p.forceCloseBoth()
			cancel()
			synctest.Wait()
			if p.blockedReaders() > 0 || (!r.Side.Returned && !r.Late) {
				w.stuck("unbounded-wait:never-returns", "the handshake does not return even after the conn was closed on both ends and the context was cancelled", rc)
			}
		}
		<-scriptDone
		p.mu.Lock()
		r.Received = p.dirs[1-ri].consumed
		r.Sent = p.dirs[ri].frames
		p.mu.Unlock()
		r.CredPtr, r.Checks, r.Seen = sp.ptr, sp.calls, sp.seen
	})
	return r
}

// ---------------------------------------------------------------------------------------------------
// judging helpers shared by the sub-checks

func whyClass(why string) string {
	// strip the variable parts of a reference reason so that it can be part of a stable key
	out := make([]rune, 0, len(why))
	for _, r := range why {
		switch {
		case r >= '0' && r <= '9', r == ':', r == '(', r == ')', r == '+':
			continue
		case r == ' ':
			if len(out) > 0 && out[len(out)-1] == '-' {
				continue
			}
			r = '-'
		}
		out = append(out, r)
	}
	return string(out)
}

// mine deals case i to a shard by a hash of its number, so that the shards are not correlated with the inner
// dimensions of the enumerations.
func (w *world) mine(i int) bool {
	c := w.c
	if c.NShards <= 1 {
		return true
	}
	var b [8]byte
	binary.LittleEndian.PutUint64(b[:], uint64(i)*0x9e3779b97f4a7c15+12345)
	return int(vk.Hash64(b[:])%uint64(c.NShards)) == c.Shard
}

// judgeProof is the oracle that holds for every run of every sub-check: a side reports success only if the bytes
// it actually received justify that, and then it attaches what those bytes prove.
func (w *world) judgeProof(sub string, roleOut bool, v verifier, remotePeer string, so sideOut, received []byte, desc string, rc any) {
	if !so.Returned || !so.OK {
		return
	}
	role := "incoming"
	if roleOut {
		role = "outgoing"
	}
	acc, att, why := refStream(roleOut, v, remotePeer, received)
	if !acc {
		w.c.Violation(fmt.Sprintf("%s:success-without-proof:%s:%s", sub, role, whyClass(why)),
			fmt.Sprintf("%s: the %s side returned success although the bytes it received do not justify it (%s)", desc, role, why), rc)
		return
	}
	if !att.equal(so.Att) {
		w.c.Violation(fmt.Sprintf("%s:attached-values-not-proven:%s:%s", sub, role, diffFields(att, so.Att)),
			fmt.Sprintf("%s: the %s side attached %s but the credentials it received prove %s", desc, role, so.Att, att), rc)
	}
}

func diffFields(a, b attached) string {
	s := ""
	add := func(x string) {
		if s != "" {
			s += "+"
		}
		s += x
	}
	if string(a.Identity) != string(b.Identity) {
		add("identity")
	}
	if a.ProtoVersion != b.ProtoVersion {
		add("version")
	}
	if a.ClientVersion != b.ClientVersion {
		add("clientVersion")
	}
	return s
}
