// C14 — Handshake: mutual version gating, proven identity, same verdict on both sides.
//
// Both ends are the real handshake.OutgoingHandshake / handshake.IncomingHandshake with the real credential checkers
// of net/secureservice (peerSignVerifier, noVerifyChecker; constructors exported by a verif shim), connected by a
// harness-owned in-memory byte pipe (pipe_test.go) inside a testing/synctest bubble, so that context deadlines are
// fake-clock events. Sub-checks (all exhaustive within their bounds, deterministic):
//
//	(a) every pair of side configurations (version 0..3 x accepted subset of {1,2,3} x mode) x chunkings of the
//	    stream (default whole reads, <= 2 one-byte deviations among the first reads; all one-byte);
//	(b) a man in the middle manipulating each frame of recorded runs (every byte, every truncation, type, length,
//	    drop, duplicate, swap, garbage, frames of exactly / one over the size limit);
//	(c) recorded credentials replayed on connections with other endpoints;
//	(d) histories of 2-3 handshakes over a pool holding exactly one handshake object, compared with the same
//	    handshake on a fresh object;
//	(e) cancellation of one side's context before each of its conn operations (close propagating or lost), and 2-3
//	    handshakes at once on the shared pool under every schedule of their conn operations within a deviation bound;
//	(f) as (a) with one side's checker built by a real secure service from the application's config component.
//
// The reference model (ref_test.go) is written from the property text and shares no code with /repo.
package c14

import (
	"fmt"
	"os"
	"testing"
	"time"

	"go.uber.org/zap"

	"github.com/anyproto/any-sync/app/logger"
	"github.com/anyproto/any-sync/net/secureservice/handshake"

	"verif/lib/vk"
)

func TestCheck(t *testing.T) {
	logger.SetDefault(zap.NewNop())
	logger.SetNamedLevels(logger.LevelsFromStr("*=fatal"))
	vk.Main(t, vk.Spec{
		Prop:  "C14",
		Level: "model_checking",
		Rule: "real Outgoing/IncomingHandshake + real credential checkers over a harness pipe in a synctest bubble (fake 10 s deadlines); exhaustive enumeration of " +
			"(a) 64x64 side configurations (version 0..3, accepted subset of {1,2,3}, skip-verify|signed-peer-ids) x chunkings (whole, all 1-byte, <=2 (thorough: 3) one-byte deviations among the first 6 reads of each side), " +
			"(b) man-in-the-middle manipulations of every frame of recorded runs (each byte x {^b,b^1,b+1,0,0xFF}, each truncation followed by rest/silence/EOF, type 0..5, length {0,len-1,len+1,limit,limit+1,2^32-1}, drop, duplicate, swap, 1-2 garbage bytes, well-formed frames of size limit and limit+1) under whole and 1-byte chunking, " +
			"(c) recorded credentials replayed to other endpoints, (d) all histories of 2 and 3 handshakes (quick: 3 only with the real side keeping role and mode; thorough: also 4 with that restriction) over a pool holding exactly one object, 96 handshake kinds, differential against a fresh object, " +
			"(e) context cancellation before each conn operation of either side (close propagating / lost) and all schedules within a deviation bound (quick 3 for two / 2 for three handshakes, thorough 4 / 3) of the conn operations of 2-3 concurrent handshakes on the shared pool; " +
			"states = distinct (case, verdict of both sides) tuples, transitions = frames written / scheduling decisions, executions = handshakes of the real code, " +
			"distinct_nontrivial = distinct outcome classes (sub-check, mode pair or manipulation class, error of each side)",
		Assumptions: []string{
			"the conn is a reliable, buffered byte stream: one Write per frame is never split or reordered by the pipe itself, only by the man in the middle; Close lets the peer drain queued bytes, then EOF (or is lost entirely in the lost-close variant)",
			"every handshake gets a context with a (fake-clock) deadline of 10 s; 'never an unbounded wait' is checked as: both sides have returned and no conn operation is left blocked 2 s after that deadline",
			"sub-checks a, b, c, e1 run every handshake on fresh handshake objects (pool replaced per run) so that they are independent of each other; reuse of pooled objects is the subject of (d), simultaneous use of the real pool of (e2)",
			"a cancellation is injected right before a conn operation and that operation is held until the handshake function has closed the conn; the race 'operation completes although the context is already cancelled' is covered by the next cancellation point",
			"in (e2) goroutines interleave at conn operations only (the handshake package has no other blocking points); the -race pass of DESIGN is not part of this check",
			"peer ids are real libp2p ids of fixed length; the concatenation ambiguity of variable-length ids is out of scope",
		},
		Shards:   func(string) int { return 16 },
		MaxProcs: 1,
		Budget: func(tier string) time.Duration {
			if tier == "quick" {
				return 75 * time.Second
			}
			return 19 * time.Minute
		},
	}, func(c *vk.Ctx) { body(t, c) })
}

func body(t *testing.T, c *vk.Ctx) {
	w := &world{t: t, c: c}
	if c.Replay != "" {
		replay(w)
		return
	}
	g := newGuards()
	// (d) first: its violations carry the minimal histories
	for _, sub := range []struct {
		name string
		f    func(*guards)
	}{{"d", w.subD}, {"a", w.subA}, {"b", w.subB}, {"c", w.subC}, {"e1", w.subE1}, {"e2", w.subE2}, {"f", w.subF}} {
		t0 := time.Now()
		sub.f(g)
		if os.Getenv("C14_TIMING") != "" {
			fmt.Fprintf(os.Stderr, "shard %d: sub-check %s took %v\n", c.Shard, sub.name, time.Since(t0).Round(time.Millisecond))
		}
	}
	if g.capped {
		return
	}
	// vacuity guards (per shard: the cases are dealt round-robin, every shard sees every class)
	for _, mp := range []string{"skip-skip", "signed-signed"} {
		c.Require(g.okByMode[mp] > 0, "vacuity: no successful handshake for mode pair %s in this shard", mp)
	}
	for _, mp := range []string{"skip-skip", "signed-signed", "skip-signed", "signed-skip"} {
		c.Require(g.failByMode[mp] > 0, "vacuity: no failing handshake for mode pair %s in this shard", mp)
	}
	c.Require(g.bCases > 0 && g.bSplit > 0, "vacuity: no corrupted run in which one side succeeded and the other failed (man in the middle inert?) cases=%d", g.bCases)
	c.Require(g.dSeqs > 0 && g.dReuse > 0, "vacuity: the pooled handshake object was never reused in (d)")
	one := c.NShards <= 1
	if one || c.Shard == 1%c.NShards {
		c.Require(g.cControl > 0 && g.cRejected > 0 && g.cWarm > 0, "vacuity: replay sub-check: controls accepted=%d, replays rejected=%d, replays against a checker that accepted the genuine connection first=%d", g.cControl, g.cRejected, g.cWarm)
	}
	if one || c.Shard == 2%c.NShards {
		c.Require(g.eCancelled > 0, "vacuity: no cancellation case ran")
		c.Require(g.eYok > 0, "vacuity: no cancellation case in which the other side legitimately succeeded")
	}
	if one || c.Shard == 3%c.NShards {
		c.Require(g.eConcExec > 1, "vacuity: the concurrent scenario was not explored")
	}
}

func replay(w *world) {
	c := w.c
	var rf struct {
		Case rcase `json:"case"`
	}
	if err := vk.ReadJSON(c.Replay, &rf); err != nil {
		c.Broken("replay file: %v", err)
		return
	}
	rc := rf.Case
	g := newGuards()
	say := func(f string, a ...any) { fmt.Fprintf(os.Stderr, f+"\n", a...) }
	switch rc.Sub {
	case "a", "b", "e1":
		if rc.Pair == nil {
			c.Broken("replay: no pair spec")
			return
		}
		r := w.runPair(*rc.Pair, rc)
		c.Count("executions", 1)
		say("outgoing: %s %s\nincoming: %s %s\nframes out->in %x\nframes in->out %x\nreceived by outgoing %x\nreceived by incoming %x",
			r.Side[0].verdict(), r.Side[0].Att, r.Side[1].verdict(), r.Side[1].Att, r.Frames[0], r.Frames[1], r.Received[0], r.Received[1])
		switch rc.Sub {
		case "a":
			w.judgePair("a", *rc.Pair, r, rc)
		case "b":
			w.judgeCorrupted("b", *rc.Pair, r, rc.Note+" "+rc.Pair.Mut.String(), rc)
			if rc.Pair.Mut != nil {
				base := *rc.Pair
				base.Mut = nil
				rec := w.runPair(base, rc)
				w.judgeSplit(rc.Pair.Mut, len(rec.Frames[1])-1, r, rc.Note+" "+rc.Pair.Mut.String(), rc)
			}
		default:
			w.judgeCancel(g, *rc.Pair, r, rc)
		}
	case "c":
		if rc.Solo == nil {
			c.Broken("replay: no solo spec")
			return
		}
		r := w.runSolo(*rc.Solo, false, rc)
		c.Count("executions", 1)
		say("victim: %s %s, received %x", r.Side.verdict(), r.Side.Att, r.Received)
		w.judgeProof("c", rc.Solo.RoleOut, rc.Solo.Real.verifier(), accts[rc.Solo.RemotePeer].peerId, r.Side, r.Received, rc.Note, rc)
		if rc.Solo.Real.Verify && r.Side.OK && len(rc.Note) > 0 && rc.Note[:7] != "control" {
			c.Violation("c:replayed-credentials-accepted:"+roleName(rc.Solo.RoleOut), rc.Note+": accepted, attached "+r.Side.Att.String(), rc)
		}
	case "d":
		var fr []dOutcome
		for i, k := range rc.Seq {
			r := w.runSolo(k.solo(), false, rc)
			say("handshake %d %s on a fresh object: %s %s", i+1, k, r.Side.verdict(), r.Side.Att)
			fr = append(fr, dOutcome{r.Side.OK, r.Side.Err, r.Side.Att})
		}
		freshOf := func(i int) dOutcome { return fr[i] }
		w.runHistory(g, rc.Seq, freshOf, rc)
	case "e2":
		handshake.VerifSetPool(nil)
		res := w.runSchedule(rc.Conc, rc.Sch, rc)
		say("schedule: %v", res.Trace)
		for i := range rc.Conc {
			say("pair %d: outgoing %s %s, incoming %s %s", i, res.Side[i][0].verdict(), res.Side[i][0].Att, res.Side[i][1].verdict(), res.Side[i][1].Att)
		}
		w.judgeConc(g, rc.Conc, res)
	default:
		c.Broken("replay: unknown sub-check %q", rc.Sub)
	}
}
