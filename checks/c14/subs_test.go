package c14

import (
	"fmt"
	"sort"
	"strings"
	"sync"

	"github.com/anyproto/any-sync/net/secureservice/handshake"

	"verif/lib/vk"
)

// rcase is what a replay file holds.
type rcase struct {
	Sub  string     `json:"sub"`
	Pair *pairSpec  `json:"pair,omitempty"`
	Solo *soloSpec  `json:"solo,omitempty"`
	Seq  []hkind    `json:"seq,omitempty"`
	Conc []pairSpec `json:"conc,omitempty"`
	Sch  []int      `json:"choices,omitempty"`
	Note string     `json:"note,omitempty"`

	minimising bool
}

type guards struct {
	okByMode, failByMode map[string]int
	bSplit               int // corrupted runs in which one side succeeded and the other failed
	bCases               int
	cRejected, cControl, cWarm int
	dReuse, dSeqs        int
	eCancelled, eYok     int
	eConcExec            int
	capped               bool
	dKeys                map[string]int
	sampled              map[string]bool
}

func newGuards() *guards {
	return &guards{okByMode: map[string]int{}, failByMode: map[string]int{}, dKeys: map[string]int{}, sampled: map[string]bool{}}
}

// ===================================================================================================
// (a) configurations x chunkings

func sideConfigs(acct int, cv string) (out []sideCfg) {
	for v := uint32(0); v <= 3; v++ {
		for mask := 0; mask < 8; mask++ {
			acc := []uint32{}
			for b := 0; b < 3; b++ {
				if mask&(1<<b) != 0 {
					acc = append(acc, uint32(b+1))
				}
			}
			for _, verify := range []bool{false, true} {
				out = append(out, sideCfg{Acct: acct, Version: v, Accept: acc, Verify: verify, CV: cv})
			}
		}
	}
	return
}

const chunkPositions = 6 // Read calls per side that may deviate (a side issues 3 reads by default, one more per deviation)

func chunkPatterns(budget int) (out []chunkSpec) {
	out = append(out, chunkSpec{}, chunkSpec{One: true})
	var pos [][2]int
	for s := 0; s < 2; s++ {
		for i := 0; i < chunkPositions; i++ {
			pos = append(pos, [2]int{s, i})
		}
	}
	var rec func(from int, cur [][2]int)
	rec = func(from int, cur [][2]int) {
		if len(cur) > 0 {
			out = append(out, chunkSpec{Flips: append([][2]int(nil), cur...)})
		}
		if len(cur) == budget {
			return
		}
		for i := from; i < len(pos); i++ {
			rec(i+1, append(cur, pos[i]))
		}
	}
	rec(0, nil)
	return
}

// withStrict appends the two basic chunkings once more; sub-check (a) runs those with the net.Pipe-like conn
// (writes towards a closed end fail).
func withStrict(p []chunkSpec) []chunkSpec {
	return append(append([]chunkSpec(nil), p...), chunkSpec{}, chunkSpec{One: true})
}

type expectation struct {
	Success bool
	Why     string // class of the rule that forbids success
	Att     [2]attached
}

// refConfig: the verdict the property text prescribes for two configured sides over a reliable stream.
func refConfig(out, in sideCfg) (e expectation) {
	switch {
	case !containsU32(in.Accept, out.Version):
		e.Why = "outgoing-version-not-accepted-by-incoming"
	case in.Verify && !out.Verify:
		e.Why = "incoming-requires-identity-outgoing-presents-none"
	case !containsU32(out.Accept, in.Version):
		e.Why = "incoming-version-not-accepted-by-outgoing"
	case out.Verify && !in.Verify:
		e.Why = "outgoing-requires-identity-incoming-presents-none"
	default:
		e.Success = true
		e.Att[0] = attached{ProtoVersion: in.Version, ClientVersion: in.CV}
		e.Att[1] = attached{ProtoVersion: out.Version, ClientVersion: out.CV}
		if out.Verify {
			e.Att[0].Identity = accts[in.Acct].identity
		}
		if in.Verify {
			e.Att[1].Identity = accts[out.Acct].identity
		}
	}
	return
}

func errClass(s sideOut) string {
	if !s.Returned {
		return "hung"
	}
	if s.OK {
		return "ok"
	}
	return s.Err
}

// judgePair applies the oracles that hold for an undisturbed pair run (sub-checks a and e2).
func (w *world) judgePair(sub string, ps pairSpec, r *pairResult, rc any) {
	c := w.c
	desc := fmt.Sprintf("%s -> %s, chunking %s", ps.Out, ps.In, ps.Chunk)
	if ps.StrictWrite {
		desc += ", writes to a closed end fail"
	}
	if r.Hung || !r.Side[0].Returned || !r.Side[1].Returned {
		c.Violation(sub+":no-return-by-deadline", fmt.Sprintf("%s: outgoing=%s incoming=%s after the fake deadline", desc, r.Side[0].verdict(), r.Side[1].verdict()), rc)
		return
	}
	if r.Leaked > 0 {
		c.Violation(sub+":conn-operation-left-blocked", fmt.Sprintf("%s: %d conn operations still blocked after both sides returned", desc, r.Leaked), rc)
	}
	exp := refConfig(ps.Out, ps.In)
	o, i := r.Side[0], r.Side[1]
	if o.OK != i.OK {
		c.Violation(fmt.Sprintf("%s:verdicts-differ:outgoing=%v,incoming=%v", sub, okStr(o.OK), okStr(i.OK)),
			fmt.Sprintf("%s: outgoing=%s incoming=%s (reference: %s)", desc, o.verdict(), i.verdict(), expStr(exp)), rc)
	}
	for s, so := range r.Side {
		role := []string{"outgoing", "incoming"}[s]
		if so.OK && !exp.Success {
			c.Violation(fmt.Sprintf("%s:accepted-against-rules:%s:%s", sub, role, exp.Why), fmt.Sprintf("%s: the %s side returned success; the rules say reject (%s)", desc, role, exp.Why), rc)
		}
		if !so.OK && exp.Success {
			c.Violation(fmt.Sprintf("%s:rejected-against-rules:%s:%s-%s", sub, role, modeName(ps.Out.Verify), modeName(ps.In.Verify)),
				fmt.Sprintf("%s: the %s side returned %s; the rules say success", desc, role, so.verdict()), rc)
		}
		if so.OK && exp.Success && !so.Att.equal(exp.Att[s]) {
			c.Violation(fmt.Sprintf("%s:attached-wrong:%s:%s", sub, role, diffFields(exp.Att[s], so.Att)),
				fmt.Sprintf("%s: the %s side attached %s, the peer proved %s", desc, role, so.Att, exp.Att[s]), rc)
		}
	}
	w.judgeProof(sub, true, ps.Out.verifier(), accts[ps.In.Acct].peerId, o, r.Received[0], desc, rc)
	w.judgeProof(sub, false, ps.In.verifier(), accts[ps.Out.Acct].peerId, i, r.Received[1], desc, rc)
}

func okStr(b bool) string {
	if b {
		return "ok"
	}
	return "error"
}

func expStr(e expectation) string {
	if e.Success {
		return "success"
	}
	return "reject: " + e.Why
}

func nFrames(r *pairResult) int64 { return int64(len(r.Frames[0]) + len(r.Frames[1])) }

// subF: one side's checker is the one a real secure service builds in its Init when the accepted list arrives through
// the application's "config" component (every version 1..3 x every configured list containing it x both modes); the
// other side is every configuration of sub-check (a); both directions; same reference as (a).
func (w *world) subF(g *guards) {
	c := w.c
	var wired []sideCfg
	for v := uint32(1); v <= 3; v++ {
		for mask := 1; mask < 8; mask++ {
			acc := []uint32{}
			for b := 0; b < 3; b++ {
				if mask&(1<<b) != 0 {
					acc = append(acc, uint32(b+1))
				}
			}
			has := false
			for _, a := range acc {
				has = has || a == v
			}
			if !has {
				continue // the service refuses to start with a configured list that lacks its own version
			}
			for _, verify := range []bool{false, true} {
				wired = append(wired, sideCfg{Version: v, Accept: acc, Verify: verify, ViaService: true})
			}
		}
	}
	c.Bound("f_service_wired_configurations", len(wired))
	idx := -1
	for _, wc := range wired {
		for _, wiredOut := range []bool{true, false} {
			plain := sideConfigs(acB, "in-client/9.8")
			if !wiredOut {
				plain = sideConfigs(acA, "out-client/1.2.3")
			}
			for _, pc := range plain {
				idx++
				if !w.mine(idx) {
					continue
				}
				if c.TimeUp() {
					g.capped = true
					c.NotExhaustive("deadline reached in sub-check (f)")
					return
				}
				ws := wc
				var ps pairSpec
				if wiredOut {
					ws.Acct, ws.CV = acA, "out-client/1.2.3"
					ps = pairSpec{Out: ws, In: pc}
				} else {
					ws.Acct, ws.CV = acB, "in-client/9.8"
					ps = pairSpec{Out: pc, In: ws}
				}
				rc := rcase{Sub: "a", Pair: &ps, Note: "service-wired side"}
				r := w.runPair(ps, rc)
				c.Count("executions", 1)
				c.Count("evaluations", 1)
				c.Count("transitions", nFrames(r))
				c.Count("f_cases", 1)
				w.judgePair("f", ps, r, rc)
				st := fmt.Sprintf("f|%s|%s|%s|%s", ps.Out, ps.In, errClass(r.Side[0]), errClass(r.Side[1]))
				if c.Distinct("states", st) {
					c.Distinct("distinct", fmt.Sprintf("f|%v|%s|%s", wiredOut, errClass(r.Side[0]), errClass(r.Side[1])))
				}
			}
		}
	}
}

func (w *world) subA(g *guards) {
	c := w.c
	outs, ins := sideConfigs(acA, "out-client/1.2.3"), sideConfigs(acB, "in-client/9.8")
	budget := vk.Pick(c, 2, 3)
	full := chunkPatterns(budget)
	c.Bound("a_config_pairs", len(outs)*len(ins))
	c.Bound("a_chunk_patterns", len(full))
	c.Bound("a_chunk_deviation_budget", budget)
	idx := -1
	for _, oc := range outs {
		for _, ic := range ins {
			idx++
			if !w.mine(idx) {
				continue
			}
			if c.TimeUp() {
				g.capped = true
				c.NotExhaustive("deadline reached in sub-check (a)")
				return
			}
			for pi, ch := range withStrict(full) {
				ps := pairSpec{Out: oc, In: ic, Chunk: ch, StrictWrite: pi >= len(full)}
				rc := rcase{Sub: "a", Pair: &ps}
				r := w.runPair(ps, rc)
				c.Count("executions", 1)
				c.Count("evaluations", 1)
				c.Count("transitions", nFrames(r))
				w.judgePair("a", ps, r, rc)
				mp := modeName(oc.Verify) + "-" + modeName(ic.Verify)
				if r.Side[0].OK && r.Side[1].OK {
					g.okByMode[mp]++
				} else {
					g.failByMode[mp]++
				}
				if r.Side[0].At > 0 || r.Side[1].At > 0 {
					c.Count("a_runs_that_needed_the_deadline", 1)
				}
				st := fmt.Sprintf("a|%s|%s|%v|%s|%s", oc, ic, ps.StrictWrite, errClass(r.Side[0]), errClass(r.Side[1]))
				if c.Distinct("states", st) {
					c.Distinct("distinct", fmt.Sprintf("a|%s|%s|%s", mp, errClass(r.Side[0]), errClass(r.Side[1])))
				}
				c.Distinct("read_size_sequences", fmt.Sprint(r.ReadLens))
				if !g.sampled["a"] && len(ch.Flips) == 2 && ch.Flips[0][0] != ch.Flips[1][0] && r.Side[0].OK && oc.Verify {
					g.sampled["a"] = true
					c.Sample(map[string]any{"sub": "a", "out": oc.String(), "in": ic.String(), "chunking": ch.String(), "read_sizes": r.ReadLens,
						"outgoing": r.Side[0].verdict() + " " + r.Side[0].Att.String(), "incoming": r.Side[1].verdict() + " " + r.Side[1].Att.String()})
				}
			}
		}
	}
}

// ===================================================================================================
// (b) frame corruption by a man in the middle

type bBase struct {
	name string
	ps   pairSpec
}

func bBases(c *vk.Ctx) []bBase {
	ok := []uint32{1, 2, 3}
	mk := func(name string, ov, iv bool, overs, ivers uint32, oacc, iacc []uint32) bBase {
		return bBase{name, pairSpec{
			Out: sideCfg{Acct: acA, Version: overs, Accept: oacc, Verify: ov, CV: "out-client/1.2.3"},
			In:  sideCfg{Acct: acB, Version: ivers, Accept: iacc, Verify: iv, CV: "in-client/9.8"}}}
	}
	bs := []bBase{
		mk("signed-signed-ok", true, true, 2, 3, ok, ok),
		mk("skip-skip-ok", false, false, 2, 3, ok, ok),
	}
	if c.Thorough() {
		bs = append(bs,
			mk("signed-signed-incoming-rejects-version", true, true, 2, 3, ok, []uint32{1, 3}),
			mk("signed-signed-outgoing-rejects-version", true, true, 2, 3, []uint32{1, 2}, ok),
			mk("skip-signed", false, true, 2, 3, ok, ok),
			mk("signed-skip", true, false, 2, 3, ok, ok),
		)
	}
	return bs
}

func (w *world) judgeCorrupted(sub string, ps pairSpec, r *pairResult, desc string, rc any) {
	c := w.c
	if r.Hung || !r.Side[0].Returned || !r.Side[1].Returned {
		c.Violation(sub+":no-return-by-deadline", fmt.Sprintf("%s: outgoing=%s incoming=%s after the fake deadline", desc, r.Side[0].verdict(), r.Side[1].verdict()), rc)
		return
	}
	if r.Leaked > 0 {
		c.Violation(sub+":conn-operation-left-blocked", fmt.Sprintf("%s: %d conn operations still blocked after both sides returned", desc, r.Leaked), rc)
	}
	w.judgeProof(sub, true, ps.Out.verifier(), accts[ps.In.Acct].peerId, r.Side[0], r.Received[0], desc, rc)
	w.judgeProof(sub, false, ps.In.verifier(), accts[ps.Out.Acct].peerId, r.Side[1], r.Received[1], desc, rc)
}

// judgeSplit (credential frames only, see below): the very last frame of the exchange (the accepting side's final ack) is the only one whose sender has
// already decided when it is written; a manipulation of any earlier frame must end the same way on both sides ("an
// error or deadline on both sides, never success"). A duplicate of the frame before the final ack is inserted exactly
// where the final ack is expected: same position. last = index of the final frame in direction in->out.
func (w *world) judgeSplit(m *mut, last int, r *pairResult, desc string, rc any) {
	finalFrame := m.Dir == 1 && (m.K == last || m.Kind == "dup" && m.K == last-1)
	if m.K != 0 {
		// acks are not authenticated: whoever can rewrite an ack can turn a refusal into an acceptance for its
		// receiver (or the other way round); only manipulations of the credential frames are judged for agreement
		return
	}
	if r.Side[0].OK != r.Side[1].OK && !finalFrame && r.Side[0].Returned && r.Side[1].Returned {
		w.c.Violation(fmt.Sprintf("b:verdicts-differ-after-manipulated-frame:dir=%d,k=%d,%s:outgoing=%v,incoming=%v", m.Dir, m.K, m.Kind, okStr(r.Side[0].OK), okStr(r.Side[1].OK)),
			fmt.Sprintf("%s: outgoing=%s incoming=%s although the manipulated frame is not the final ack", desc, r.Side[0].verdict(), r.Side[1].verdict()), rc)
	}
}

func (w *world) subB(g *guards) {
	c := w.c
	caseNo := -1
	total := 0
	for _, base := range bBases(c) {
		rec := w.runPair(base.ps, rcase{Sub: "b", Pair: &base.ps, Note: "recording run"})
		c.Count("executions", 1)
		exp := refConfig(base.ps.Out, base.ps.In)
		if rec.Side[0].OK != exp.Success || rec.Side[1].OK != exp.Success {
			// sub-check (a) reports this; nothing to corrupt here
			c.Note("b: recording run %s ended %s/%s, reference %s", base.name, rec.Side[0].verdict(), rec.Side[1].verdict(), expStr(exp))
			continue
		}
		for dir := 0; dir < 2; dir++ {
			for k, frame := range rec.Frames[dir] {
				var next []byte
				if k+1 < len(rec.Frames[dir]) {
					next = rec.Frames[dir][k+1]
				}
				for _, m := range mutations(dir, k, frame, next, true) {
					for _, one := range []bool{false, true} {
						if one && m.Kind == "pad" {
							continue
						}
						caseNo++
						total++
						if !w.mine(caseNo) {
							continue
						}
						if c.TimeUp() {
							g.capped = true
							c.NotExhaustive("deadline reached in sub-check (b)")
							return
						}
						ps := base.ps
						ps.Chunk = chunkSpec{One: one}
						ps.Mut = m
						rc := rcase{Sub: "b", Pair: &ps, Note: base.name}
						r := w.runPair(ps, rc)
						c.Count("executions", 1)
						c.Count("evaluations", 1)
						c.Count("transitions", nFrames(r))
						g.bCases++
						desc := fmt.Sprintf("base %s, %s, chunking %s", base.name, m, ps.Chunk)
						w.judgeCorrupted("b", ps, r, desc, rc)
						w.judgeSplit(m, len(rec.Frames[1])-1, r, desc, rc)
						if r.Side[0].OK != r.Side[1].OK {
							g.bSplit++
							if g.bSplit == 1 {
								c.Sample(map[string]any{"sub": "b", "base": base.name, "mutation": m.String(), "outgoing": r.Side[0].verdict(), "incoming": r.Side[1].verdict()})
							}
						}
						key := fmt.Sprintf("b|%s|%d|%d|%s|%d|%d|%d|%x|%v|%s|%s", base.name, m.Dir, m.K, m.Kind, m.Off, m.Val, m.After, []byte(m.Aux), one, errClass(r.Side[0]), errClass(r.Side[1]))
						if c.Distinct("states", key) {
							c.Distinct("distinct", fmt.Sprintf("b|%s|%d|%d|%s|%s|%s", base.name, m.Dir, m.K, m.Kind, errClass(r.Side[0]), errClass(r.Side[1])))
						}
					}
				}
			}
		}
	}
	c.Bound("b_corruption_cases", total)
}

// ===================================================================================================
// (c) replay of recorded credentials on other connections

type cScenario struct {
	name    string
	roleOut bool // role of the victim (the real side)
	victim  int  // account of the victim
	remote  int  // transport peer id the victim sees
	first   int  // which recorded frame the attacker presents as its credentials: 0 = F1 (A's), 1 = F2 (B's)
	control bool
}

func (w *world) subC(g *guards) {
	c := w.c
	if c.NShards > 1 && c.Shard != 1%c.NShards {
		return
	}
	ok := []uint32{1, 2, 3}
	base := pairSpec{
		Out: sideCfg{Acct: acA, Version: 2, Accept: ok, Verify: true, CV: "out-client/1.2.3"},
		In:  sideCfg{Acct: acB, Version: 3, Accept: ok, Verify: true, CV: "in-client/9.8"}}
	rec := w.runPair(base, rcase{Sub: "c", Pair: &base, Note: "recording run"})
	c.Count("executions", 1)
	if !rec.Side[0].OK || !rec.Side[1].OK || len(rec.Frames[0]) != 2 || len(rec.Frames[1]) != 2 {
		c.Note("c: recording run ended %s/%s", rec.Side[0].verdict(), rec.Side[1].verdict())
		return
	}
	F1, F2, F3, F4 := rec.Frames[0][0], rec.Frames[1][0], rec.Frames[0][1], rec.Frames[1][1]
	// cross-check of the harness' own credential builder against the recorded frame (same bytes expected)
	own := mkFrame(1, buildCred(1, signedPayload(accts[acA], accts[acB].peerId), 2, "out-client/1.2.3"))
	if string(own) != string(F1) {
		c.Note("c: harness-built credentials differ from the recorded ones (harmless, informational): %x vs %x", own, F1)
	}
	scs := []cScenario{
		{"control:A->B", false, acB, acA, 0, true},
		{"A'->B (same account, other device replays A's credentials)", false, acB, acA2, 0, false},
		{"A->B' (A's credentials for B presented to B')", false, acB2, acA, 0, false},
		{"C->B (third party replays A's credentials)", false, acB, acC, 0, false},
		{"B->A (B reflects A's credentials back on a new connection to A)", false, acA, acB, 0, false},
		{"control:A<-B", true, acA, acB, 1, true},
		{"A dials B', answered with B's recorded credentials", true, acA, acB2, 1, false},
		{"A' dials B, answered with B's credentials recorded for A", true, acA2, acB, 1, false},
		{"C dials B, answered with B's credentials recorded for A", true, acC, acB, 1, false},
		{"A dials B, answered with A's own credentials (reflection)", true, acA, acB, 0, false},
		{"A dials C, answered with B's recorded credentials", true, acA, acC, 1, false},
	}
	n := -1
	for _, sc := range scs {
		for _, verify := range []bool{true, false} {
			for _, mode := range []int{0, 1, 2} { // whole reads; 1-byte reads; whole reads on a checker that accepted the genuine connection before
				if mode == 2 && sc.control {
					continue
				}
				one := mode == 1
				n++
				cred := F1
				if sc.first == 1 {
					cred = F2
				}
				ss := soloSpec{RoleOut: sc.roleOut, RemotePeer: sc.remote, Chunk: chunkSpec{One: one},
					Real: sideCfg{Acct: sc.victim, Version: 2, Accept: ok, Verify: verify, CV: "victim/1.0"}}
				if mode == 2 {
					// the endpoint the frame was recorded from: A for F1, B for F2
					ss.Warm, ss.WarmPeer = hexBytes(cred), []int{acA, acB}[sc.first]
				}
				if sc.roleOut {
					ss.Script = []step{{Recv: true}, {Send: cred}, {Recv: true}, {Send: F4}}
				} else {
					ss.Script = []step{{Send: cred}, {Recv: true}, {Send: F3}, {Recv: true}}
				}
				rc := rcase{Sub: "c", Solo: &ss, Note: sc.name}
				r := w.runSolo(ss, false, rc)
				c.Count("executions", 1)
				c.Count("evaluations", 1)
				c.Count("transitions", int64(len(r.Sent)+2))
				desc := fmt.Sprintf("replay %q against a %s victim %s", sc.name, modeName(verify), accts[sc.victim].name)
				if mode == 2 {
					desc += " whose checker has seen the genuine connection before"
					if r.WarmOK && verify {
						g.cWarm++
					}
				}
				if r.Hung || !r.Side.Returned {
					c.Violation("c:no-return-by-deadline", desc+": the victim did not return by the fake deadline", rc)
					continue
				}
				if r.Leaked > 0 {
					c.Violation("c:conn-operation-left-blocked", desc, rc)
				}
				w.judgeProof("c", sc.roleOut, ss.Real.verifier(), accts[sc.remote].peerId, r.Side, r.Received, desc, rc)
				if !sc.control && verify && !g.sampled["c"] {
					g.sampled["c"] = true
					c.Sample(map[string]any{"sub": "c", "scenario": sc.name, "victim": ss.Real.String(), "verdict": r.Side.verdict()})
				}
				switch {
				case sc.control && !r.Side.OK:
					c.Violation("c:genuine-credentials-rejected:"+roleName(sc.roleOut), desc+": the recorded credentials are rejected on the very endpoints they were made for: "+r.Side.verdict(), rc)
				case sc.control:
					g.cControl++
				case verify && r.Side.OK:
					c.Violation("c:replayed-credentials-accepted:"+roleName(sc.roleOut), desc+": accepted, attached "+r.Side.Att.String(), rc)
				case verify:
					g.cRejected++
				}
				st := fmt.Sprintf("c|%s|%v|%v|%s", sc.name, verify, mode, errClass(r.Side))
				if c.Distinct("states", st) {
					c.Distinct("distinct", fmt.Sprintf("c|%s|%v|%s", sc.name, verify, errClass(r.Side)))
				}
			}
		}
	}
	c.Bound("c_replay_cases", n+1)
}

func roleName(out bool) string {
	if out {
		return "outgoing"
	}
	return "incoming"
}

func signedPayload(a *acct, verifierPeer string) []byte {
	return apBytes(apBytes(nil, 1, a.identity), 2, refSign(a, verifierPeer))
}

// buildCred encodes a Credentials message the way a proto3 writer does (zero values omitted).
func buildCred(tp int, payload []byte, version uint32, cv string) []byte {
	var b []byte
	if tp != 0 {
		b = apUint(b, 1, uint64(tp))
	}
	if payload != nil {
		b = apBytes(b, 2, payload)
	}
	if version != 0 {
		b = apUint(b, 3, uint64(version))
	}
	if cv != "" {
		b = apBytes(b, 4, []byte(cv))
	}
	return b
}

// ===================================================================================================
// (d) histories of one pooled handshake object

// hkind is one handshake of a history: the real side (role, mode) and what the remote presents.
type hkind struct {
	RoleOut bool   `json:"real_is_outgoing"`
	Verify  bool   `json:"real_verifies_identity"`
	Ver     uint32 `json:"remote_version"`        // 0 = field absent on the wire
	CV      string `json:"remote_client_version"` // "" = field absent on the wire
	Pay     string `json:"remote_payload"`        // skip (no payload, type SkipVerify) | signed (valid, long) | short (invalid, short) | none (type SignedPeerIds, no payload)
}

func (k hkind) String() string {
	ver, cv := "absent", "absent"
	if k.Ver != 0 {
		ver = fmt.Sprint(k.Ver)
	}
	if k.CV != "" {
		cv = fmt.Sprintf("%q", k.CV)
	}
	return fmt.Sprintf("[real=%s/%s remote: version=%s clientVersion=%s payload=%s]", roleName(k.RoleOut), modeName(k.Verify), ver, cv, k.Pay)
}

var dAccept = []uint32{1, 2}

func (k hkind) solo() soloSpec {
	var cred []byte
	switch k.Pay {
	case "skip":
		cred = buildCred(0, nil, k.Ver, k.CV)
	case "signed":
		cred = buildCred(1, signedPayload(accts[acA], accts[acB].peerId), k.Ver, k.CV)
	case "short":
		cred = buildCred(1, apBytes(nil, 1, []byte{1}), k.Ver, k.CV)
	case "none":
		cred = buildCred(1, nil, k.Ver, k.CV)
	default:
		panic("payload kind " + k.Pay)
	}
	ss := soloSpec{RoleOut: k.RoleOut, RemotePeer: acA,
		Real: sideCfg{Acct: acB, Version: 2, Accept: dAccept, Verify: k.Verify, CV: "real/1.0"}}
	ack := mkFrame(2, nil)
	if k.RoleOut {
		ss.Script = []step{{Recv: true}, {Send: mkFrame(1, cred)}, {Recv: true}, {Send: ack}}
	} else {
		ss.Script = []step{{Send: mkFrame(1, cred)}, {Recv: true}, {Send: ack}, {Recv: true}}
	}
	return ss
}

func dKinds() (out []hkind) {
	for _, roleOut := range []bool{false, true} {
		for _, verify := range []bool{false, true} {
			for _, ver := range []uint32{1, 0, 3} {
				for _, cv := range []string{"remote/7.7", ""} {
					for _, pay := range []string{"skip", "signed", "short", "none"} {
						out = append(out, hkind{roleOut, verify, ver, cv, pay})
					}
				}
			}
		}
	}
	return
}

type dOutcome struct {
	OK  bool
	Err string
	Att attached
}

func (w *world) subD(g *guards) {
	c := w.c
	kinds := dKinds()
	c.Bound("d_handshake_kinds", len(kinds))
	// reference behaviour: every kind on a fresh handshake object
	fresh := make([]dOutcome, len(kinds))
	for i, k := range kinds {
		ss := k.solo()
		r := w.runSolo(ss, false, rcase{Sub: "d", Seq: []hkind{k}, Note: "fresh object"})
		c.Count("executions", 1)
		if r.Hung || !r.Side.Returned {
			c.Violation("d:no-return-by-deadline", fmt.Sprintf("%s on a fresh object: no return by the fake deadline", k), rcase{Sub: "d", Seq: []hkind{k}})
		}
		fresh[i] = dOutcome{r.Side.OK, r.Side.Err, r.Side.Att}
		w.judgeProof("d", k.RoleOut, ss.Real.verifier(), accts[acA].peerId, r.Side, r.Received, k.String()+" on a fresh object", rcase{Sub: "d", Seq: []hkind{k}})
		c.Distinct("distinct", fmt.Sprintf("d|fresh|%s|%v", k, r.Side.OK))
	}
	run := func(seq []int) {
		ks := make([]hkind, len(seq))
		for i, s := range seq {
			ks[i] = kinds[s]
		}
		rc := rcase{Sub: "d", Seq: ks}
		w.runHistory(g, ks, func(i int) dOutcome { return fresh[seq[i]] }, rc)
	}
	n := -1
	// all histories of length 2 (all in shard 0, in enumeration order: its first violation is the smallest case)
	for a := range kinds {
		for b := range kinds {
			n++
			if c.Shard != 0 {
				continue
			}
			if c.TimeUp() {
				g.capped = true
				c.NotExhaustive("deadline reached in sub-check (d)")
				return
			}
			run([]int{a, b})
		}
	}
	// histories of length 3: quick = the real side keeps its role and mode; thorough = all
	sameReal := func(idx ...int) bool {
		for _, i := range idx[1:] {
			if kinds[i].RoleOut != kinds[idx[0]].RoleOut || kinds[i].Verify != kinds[idx[0]].Verify {
				return false
			}
		}
		return true
	}
	for a := range kinds {
		for b := range kinds {
			for d := range kinds {
				if c.Quick() && !sameReal(a, b, d) {
					continue
				}
				n++
				if !w.mine(n) {
					continue
				}
				if c.TimeUp() {
					g.capped = true
					c.NotExhaustive("deadline reached in sub-check (d)")
					return
				}
				run([]int{a, b, d})
			}
		}
	}
	// thorough: histories of length 4 in which the real side keeps its role and mode
	if c.Thorough() {
		for a := range kinds {
			for b := range kinds {
				for d := range kinds {
					for e := range kinds {
						if !sameReal(a, b, d, e) {
							continue
						}
						n++
						if !w.mine(n) {
							continue
						}
						if c.TimeUp() {
							g.capped = true
							c.NotExhaustive("deadline reached in sub-check (d)")
							return
						}
						run([]int{a, b, d, e})
					}
				}
			}
		}
	}
	c.Bound("d_histories", n+1)
}

// runHistory runs the handshakes ks one after the other over a pool that holds exactly one handshake object and
// compares each with the behaviour of the same handshake on a fresh object.
func (w *world) runHistory(g *guards, ks []hkind, freshOf func(i int) dOutcome, rc rcase) {
	c := w.c
	obj := handshake.VerifNewPoolObject()
	pool := &sync.Pool{New: func() any { return obj }}
	handshake.VerifSetPool(pool)
	defer freshPool()
	pooledCred := handshake.VerifPoolObjectRemoteCred(obj)
	g.dSeqs++
	var names []string
	for _, k := range ks {
		names = append(names, k.String())
	}
	hist := strings.Join(names, " ; ")
	var trace []string
	for i, k := range ks {
		ss := k.solo()
		left := fmt.Sprintf("type=%d payload=%dB version=%d clientVersion=%q", pooledCred.Type, len(pooledCred.Payload), pooledCred.Version, pooledCred.ClientVersion)
		r := w.runSolo(ss, true, rc)
		c.Count("executions", 1)
		c.Count("evaluations", 1)
		c.Count("transitions", int64(len(r.Sent)+2))
		if r.Hung || !r.Side.Returned {
			c.Violation("d:no-return-by-deadline", fmt.Sprintf("history %s: handshake %d did not return by the fake deadline", hist, i+1), rc)
			return
		}
		if r.Checks > 0 {
			if r.CredPtr != pooledCred {
				c.Broken("d: handshake %d of history %s did not run on the single pooled object", i+1, hist)
				return
			}
			if i > 0 {
				g.dReuse++
			}
		}
		f := freshOf(i)
		trace = append(trace, errClassD(r.Side))
		if !rc.minimising {
			c.Distinct("distinct", fmt.Sprintf("d|%s|%s|%s", k, left, r.Side.verdict()))
		}
		desc := fmt.Sprintf("history %s: handshake %d on the reused object (left over from before: %s)", hist, i+1, left)
		key, what := "", ""
		stale := staleFields(ss, r)
		switch {
		case f.OK != r.Side.OK:
			key = fmt.Sprintf("d:pooled-state-leaks-into-next-handshake:stale-%s:verdict(fresh=%s,reused=%s)", stale, okStr(f.OK), okStr(r.Side.OK))
			what = fmt.Sprintf("%s ends %s (attached %s), the same handshake on a fresh object ends %s", desc, r.Side.verdict(), r.Side.Att, dVerdict(f))
		case f.OK && !f.Att.equal(r.Side.Att):
			key = "d:pooled-state-leaks-into-next-handshake:stale-" + stale + ":attached-" + diffFields(f.Att, r.Side.Att)
			what = fmt.Sprintf("%s attaches %s, the same handshake on a fresh object attaches %s", desc, r.Side.Att, f.Att)
		case !f.OK && f.Err != r.Side.Err:
			c.Count("d_same_verdict_other_error", 1)
		}
		if key == "" {
			// (the differential oracle subsumes this one whenever it fires)
			w.judgeProof("d", k.RoleOut, ss.Real.verifier(), accts[acA].peerId, r.Side, r.Received, desc, rc)
			continue
		}
		g.dKeys[key]++
		if len(ks) > 2 && i > 0 && g.dKeys[key] <= 3 && !rc.minimising {
			// report the shortest history that shows the same thing: the predecessor and this handshake alone
			sub := rcase{Sub: "d", Seq: []hkind{ks[i-1], ks[i]}, minimising: true}
			before := g.dKeys[key]
			w.runHistory(g, sub.Seq, func(j int) dOutcome {
				if j == 1 {
					return f
				}
				return freshOf(i - 1)
			}, sub)
			handshake.VerifSetPool(pool)
			if g.dKeys[key] > before {
				continue // reported through the shorter history
			}
		}
		if rc.minimising {
			rc.minimising = false
		}
		c.Violation(key, what, rc)
	}
	if rc.minimising {
		return
	}
	c.Distinct("states", "d|"+hist+"|"+strings.Join(trace, ","))
	if !g.sampled["d"] && len(ks) == 3 && ks[0].Pay == "signed" && ks[1].Pay == "none" && ks[1].Verify {
		g.sampled["d"] = true
		c.Sample(map[string]any{"sub": "d", "history": names, "outcomes_on_the_single_pooled_object": trace})
	}
}

// staleFields names the fields of the remote credentials that the checker saw with a value that is not the one
// on the wire of this handshake.
func staleFields(ss soloSpec, r *soloResult) string {
	if r.Checks == 0 {
		return "none-checked"
	}
	var wire refCred
	for _, st := range ss.Script {
		if len(st.Send) >= 5 && st.Send[0] == 1 {
			wire, _ = refDecodeCred(st.Send[5:])
		}
	}
	var f []string
	if wire.Type != r.Seen.Type {
		f = append(f, "type")
	}
	if string(wire.Payload) != string(r.Seen.Payload) {
		f = append(f, "payload")
	}
	if wire.Version != r.Seen.Version {
		f = append(f, "version")
	}
	if wire.CV != r.Seen.CV {
		f = append(f, "clientVersion")
	}
	if len(f) == 0 {
		return "nothing"
	}
	return strings.Join(f, "+")
}

func errClassD(s sideOut) string {
	if s.OK {
		return "ok" + s.Att.String()
	}
	return s.Err
}

func dVerdict(o dOutcome) string {
	if o.OK {
		return "ok (attached " + o.Att.String() + ")"
	}
	return "err(" + o.Err + ")"
}

// ===================================================================================================
// (e1) cancellation of one side at each of its conn operations

func (w *world) subE1(g *guards) {
	c := w.c
	if c.NShards > 1 && c.Shard != 2%c.NShards {
		return
	}
	ok := []uint32{1, 2, 3}
	n := -1
	for _, verify := range []bool{true, false} {
		base := pairSpec{
			Out: sideCfg{Acct: acA, Version: 2, Accept: ok, Verify: verify, CV: "out-client/1.2.3"},
			In:  sideCfg{Acct: acB, Version: 3, Accept: ok, Verify: verify, CV: "in-client/9.8"}}
		for _, one := range []bool{false, true} {
			base.Chunk = chunkSpec{One: one}
			probe := w.runPair(base, rcase{Sub: "e1", Pair: &base, Note: "probe run"})
			c.Count("executions", 1)
			for side := 0; side < 2; side++ {
				for k := 0; k < probe.NOps[side]; k++ {
					for _, silent := range []bool{false, true} {
						n++
						ps := base
						ps.Cancel = &cancelSpec{Side: side, K: k}
						ps.SilentClose = silent
						rc := rcase{Sub: "e1", Pair: &ps}
						r := w.runPair(ps, rc)
						c.Count("executions", 1)
						c.Count("evaluations", 1)
						c.Count("transitions", nFrames(r))
						w.judgeCancel(g, ps, r, rc)
					}
				}
			}
		}
	}
	c.Bound("e_cancellation_cases", n+1)
}

func (w *world) judgeCancel(g *guards, ps pairSpec, r *pairResult, rc any) {
	c := w.c
	x, y := ps.Cancel.Side, 1-ps.Cancel.Side
	desc := fmt.Sprintf("%s -> %s, chunking %s, context of the %s side cancelled before its conn operation #%d, close %s", ps.Out, ps.In, ps.Chunk,
		roleName(x == 0), ps.Cancel.K, map[bool]string{false: "propagates", true: "is lost"}[ps.SilentClose])
	if r.CancelAt < 0 {
		c.Broken("e1: cancellation point never reached: %s", desc)
		return
	}
	g.eCancelled++
	if r.Hung || !r.Side[0].Returned || !r.Side[1].Returned {
		c.Violation("e:no-return-by-deadline", fmt.Sprintf("%s: outgoing=%s incoming=%s after the fake deadline", desc, r.Side[0].verdict(), r.Side[1].verdict()), rc)
		return
	}
	if r.Leaked > 0 {
		c.Violation("e:conn-operation-left-blocked", fmt.Sprintf("%s: %d conn operations still blocked after both sides returned", desc, r.Leaked), rc)
	}
	if r.Side[x].OK {
		c.Violation("e:cancelled-side-reports-success:"+roleName(x == 0), desc+": the cancelled side returned success", rc)
	}
	// reference "process network with a crash": the other side can have everything it needs only if the cancelled
	// side had written both of its frames before the abort
	if r.Side[y].OK && !g.sampled["e1"] {
		g.sampled["e1"] = true
		c.Sample(map[string]any{"sub": "e1", "case": desc, "outgoing": r.Side[0].verdict(), "incoming": r.Side[1].verdict(), "frames_written_by_cancelled_side": r.CancelAt})
	}
	if r.Side[y].OK {
		g.eYok++
		if r.CancelAt < 2 {
			c.Violation("e:success-although-peer-aborted-before-sending:"+roleName(y == 0),
				fmt.Sprintf("%s: the other side returned success although the cancelled side had written only %d of its 2 frames", desc, r.CancelAt), rc)
		}
	}
	w.judgeProof("e", true, ps.Out.verifier(), accts[ps.In.Acct].peerId, r.Side[0], r.Received[0], desc, rc)
	w.judgeProof("e", false, ps.In.verifier(), accts[ps.Out.Acct].peerId, r.Side[1], r.Received[1], desc, rc)
	st := fmt.Sprintf("e1|%v|%v|%d|%d|%v|%s|%s", ps.Out.Verify, ps.Chunk.One, x, ps.Cancel.K, ps.SilentClose, errClass(r.Side[0]), errClass(r.Side[1]))
	if c.Distinct("states", st) {
		c.Distinct("distinct", fmt.Sprintf("e1|%v|%d|%d|%s|%s", ps.Out.Verify, x, r.CancelAt, errClass(r.Side[0]), errClass(r.Side[1])))
	}
}

// ===================================================================================================
// (e2) several handshakes at once on the shared (real) pool, all schedules of their conn operations

func concScenarios(c *vk.Ctx) [][]pairSpec {
	ok := []uint32{1, 2, 3}
	mk := func(oa, ia int, verify bool, ov, iv uint32, oacc, iacc []uint32, tag string) pairSpec {
		return pairSpec{
			Out: sideCfg{Acct: oa, Version: ov, Accept: oacc, Verify: verify, CV: "out-" + tag},
			In:  sideCfg{Acct: ia, Version: iv, Accept: iacc, Verify: verify, CV: "in-" + tag}}
	}
	p0 := mk(acA, acB, true, 1, 2, ok, ok, "p0/1.0")
	p1 := mk(acC, acD, true, 3, 1, ok, ok, "p1/2.0.0")
	p1bad := mk(acC, acD, true, 3, 1, ok, []uint32{1, 2}, "p1/2.0.0")
	p2 := mk(acE, acF, false, 2, 3, ok, ok, "p2/3")
	return [][]pairSpec{{p0, p1}, {p0, p1bad}, {p0, p2}, {p0, p1, p2}, {p0, p1bad, p2}}
}

func (w *world) judgeConc(g *guards, pairs []pairSpec, r *xresult) {
	c := w.c
	rc := rcase{Sub: "e2", Conc: pairs, Sch: r.Choices}
	c.Count("executions", int64(len(pairs)))
	c.Count("evaluations", 1)
	c.Count("transitions", int64(len(r.Steps)))
	g.eConcExec++
	for _, p := range r.Panics {
		c.Violation("e2:panic", p, rc)
	}
	if r.Deadlock {
		c.Violation("e2:unbounded-wait", fmt.Sprintf("no conn operation is enabled but handshakes are unfinished: blocked at %v (schedule %v)", r.Blocked, r.Trace), rc)
		return
	}
	var vs []string
	for i, ps := range pairs {
		p := r.Pipes[i]
		pr := &pairResult{Side: r.Side[i]}
		for s := 0; s < 2; s++ {
			pr.Frames[s] = p.dirs[s].frames
			pr.Received[s] = p.dirs[1-s].consumed
		}
		w.judgePair(fmt.Sprintf("e2:pair%d-of-%d", i, len(pairs)), ps, pr, rc)
		vs = append(vs, errClass(pr.Side[0])+"/"+errClass(pr.Side[1]))
	}
	key := fmt.Sprintf("e2|%d|%v|%s", len(pairs), pairs[1].In.Accept, strings.Join(r.Trace, ","))
	if c.Distinct("states", key) {
		c.Distinct("distinct", fmt.Sprintf("e2|%d|%s|%s", len(pairs), strings.Join(vs, ","), orderClass(r.Trace)))
	}
}

// orderClass abstracts a schedule to the order in which the handshakes' sides finished their last conn operation.
func orderClass(trace []string) string {
	last := map[string]int{}
	for i, l := range trace {
		last[l[:strings.IndexByte(l, ':')]] = i
	}
	type kv struct {
		k string
		v int
	}
	var l []kv
	for k, v := range last {
		l = append(l, kv{k, v})
	}
	sort.Slice(l, func(i, j int) bool { return l[i].v < l[j].v })
	var s []string
	for _, e := range l {
		s = append(s, e.k)
	}
	return strings.Join(s, "<")
}

func (w *world) subE2(g *guards) {
	c := w.c
	db := vk.Pick(c, 3, 4)
	c.Bound("e_concurrent_deviation_bound", db)
	handshake.VerifSetPool(nil) // the real, shared pool
	defer freshPool()
	for i, pairs := range concScenarios(c) {
		if c.NShards > 1 && (3+i)%c.NShards != c.Shard {
			continue
		}
		pairs := pairs
		bound := db
		if len(pairs) > 2 {
			bound = db - 1
		}
		ex := &xplorer{w: w, pairs: pairs, bound: bound, stop: c.TimeUp}
		ex.onExec = func(r *xresult) { w.judgeConc(g, pairs, r) }
		ex.explore()
		if ex.diverged != "" {
			c.Broken("e2: scenario %d is not replayable: %s", i, ex.diverged)
		}
		if ex.capped {
			g.capped = true
			c.NotExhaustive(fmt.Sprintf("deadline reached inside concurrent scenario %d", i))
		}
		c.Count("e2_schedules", ex.execs)
		if i == 0 {
			c.Sample(map[string]any{"sub": "e2", "pairs": fmt.Sprintf("%s->%s || %s->%s", pairs[0].Out, pairs[0].In, pairs[1].Out, pairs[1].In), "schedules": ex.execs, "max_steps": ex.maxSteps})
		}
	}
}
