package c14

import (
	"bytes"
	"crypto/ed25519"
	"encoding/binary"
	"fmt"
)

// Reference model. Independent of the code under test: its own (lenient) protobuf wire reader, crypto/ed25519 from
// the standard library, and the acceptance rules of the property text.
//
// Leniency is deliberate: the reference is only ever used in the direction "the implementation returned success
// => the reference must accept", so wherever protobuf decoders legitimately differ (known field with an
// unexpected wire type, invalid UTF-8, over-long varints) the reference takes the more permissive reading.

const (
	refHeader    = 5
	refTypeCred  = 1
	refTypeAck   = 2
	refSizeLimit = 200 * 1024
)

type wireField struct {
	num  uint64
	wt   int
	v    uint64 // varint / fixed
	data []byte // length-delimited
}

func rdVarint(b []byte) (v uint64, n int, ok bool) {
	for i := 0; i < len(b) && i < 10; i++ {
		v |= uint64(b[i]&0x7f) << (7 * uint(i))
		if b[i] < 0x80 {
			return v, i + 1, true
		}
	}
	return 0, 0, false
}

// wireFields splits a message into its top-level fields; groups are skipped as a whole.
func wireFields(b []byte) (out []wireField, ok bool) {
	for len(b) > 0 {
		tag, n, k := rdVarint(b)
		if !k {
			return nil, false
		}
		b = b[n:]
		f := wireField{num: tag >> 3, wt: int(tag & 7)}
		if f.num == 0 { // field number 0 is illegal everywhere
			return nil, false
		}
		switch f.wt {
		case 0:
			v, n, k := rdVarint(b)
			if !k {
				return nil, false
			}
			f.v = v
			b = b[n:]
		case 1:
			if len(b) < 8 {
				return nil, false
			}
			f.v = binary.LittleEndian.Uint64(b)
			b = b[8:]
		case 5:
			if len(b) < 4 {
				return nil, false
			}
			f.v = uint64(binary.LittleEndian.Uint32(b))
			b = b[4:]
		case 2:
			l, n, k := rdVarint(b)
			if !k {
				return nil, false
			}
			b = b[n:]
			if l > uint64(len(b)) {
				return nil, false
			}
			f.data = b[:l]
			b = b[l:]
		case 3:
			// skip to the matching end-group
			depth := 1
			for depth > 0 {
				t, n, k := rdVarint(b)
				if !k {
					return nil, false
				}
				b = b[n:]
				switch t & 7 {
				case 0:
					_, n, k := rdVarint(b)
					if !k {
						return nil, false
					}
					b = b[n:]
				case 1:
					if len(b) < 8 {
						return nil, false
					}
					b = b[8:]
				case 5:
					if len(b) < 4 {
						return nil, false
					}
					b = b[4:]
				case 2:
					l, n, k := rdVarint(b)
					if !k || l > uint64(len(b)-n) {
						return nil, false
					}
					b = b[n+int(l):]
				case 3:
					depth++
				case 4:
					depth--
				default:
					return nil, false
				}
			}
			continue // a group is never one of our fields
		default:
			return nil, false
		}
		out = append(out, f)
	}
	return out, true
}

type refCred struct {
	Type    int32
	Payload []byte
	Version uint32
	CV      string
}

func refDecodeCred(b []byte) (c refCred, ok bool) {
	fs, ok := wireFields(b)
	if !ok {
		return c, false
	}
	for _, f := range fs {
		switch {
		case f.num == 1 && f.wt == 0:
			c.Type = int32(f.v)
		case f.num == 2 && f.wt == 2:
			c.Payload = f.data
		case f.num == 3 && f.wt == 0:
			c.Version = uint32(f.v)
		case f.num == 4 && f.wt == 2:
			c.CV = string(f.data)
		}
	}
	return c, true
}

func refDecodeAck(b []byte) (code int32, ok bool) {
	fs, ok := wireFields(b)
	if !ok {
		return 0, false
	}
	for _, f := range fs {
		if f.num == 1 && f.wt == 0 {
			code = int32(f.v)
		}
	}
	return code, true
}

// refDecodeTwoBytes decodes a message with `bytes a = 1; bytes b = 2` (PayloadSignedPeerIds) or
// `enum a = 1; bytes b = 2` (crypto Key).
func refDecodeSigned(b []byte) (identity, sign []byte, ok bool) {
	fs, ok := wireFields(b)
	if !ok {
		return nil, nil, false
	}
	for _, f := range fs {
		switch {
		case f.num == 1 && f.wt == 2:
			identity = f.data
		case f.num == 2 && f.wt == 2:
			sign = f.data
		}
	}
	return identity, sign, true
}

func refDecodeKey(b []byte) (tp int32, data []byte, ok bool) {
	fs, ok := wireFields(b)
	if !ok {
		return 0, nil, false
	}
	for _, f := range fs {
		switch {
		case f.num == 1 && f.wt == 0:
			tp = int32(f.v)
		case f.num == 2 && f.wt == 2:
			data = f.data
		}
	}
	return tp, data, true
}

// verifier is what the reference knows about the checking side.
type verifier struct {
	Accept    []uint32
	Verify    bool
	LocalPeer string // the checking side's own transport peer id (account.PeerId)
}

// attached is what a side attaches to the connection on success.
type attached struct {
	Identity      []byte
	ProtoVersion  uint32
	ClientVersion string
}

func (a attached) String() string {
	return fmt.Sprintf("{identity=%x version=%d clientVersion=%q}", a.Identity, a.ProtoVersion, a.ClientVersion)
}

func (a attached) equal(b attached) bool {
	return bytes.Equal(a.Identity, b.Identity) && a.ProtoVersion == b.ProtoVersion && a.ClientVersion == b.ClientVersion
}

func containsU32(l []uint32, v uint32) bool {
	for _, x := range l {
		if x == v {
			return true
		}
	}
	return false
}

// refCheck: are these credentials, presented by the peer whose transport peer id is remotePeer, acceptable to v?
func refCheck(v verifier, remotePeer string, c refCred) (bool, attached, string) {
	if !containsU32(v.Accept, c.Version) {
		return false, attached{}, fmt.Sprintf("version %d not accepted", c.Version)
	}
	if !v.Verify {
		return true, attached{ProtoVersion: c.Version, ClientVersion: c.CV}, ""
	}
	if c.Type != 1 {
		return false, attached{}, "identity required but credentials are not signed peer ids"
	}
	identity, sign, ok := refDecodeSigned(c.Payload)
	if !ok {
		return false, attached{}, "undecodable payload"
	}
	tp, key, ok := refDecodeKey(identity)
	if !ok || tp != 0 || len(key) != ed25519.PublicKeySize {
		return false, attached{}, "identity is not an ed25519 public key"
	}
	if !ed25519.Verify(ed25519.PublicKey(key), []byte(remotePeer+v.LocalPeer), sign) {
		return false, attached{}, "signature does not cover (remote peer id ++ local peer id)"
	}
	return true, attached{Identity: identity, ProtoVersion: c.Version, ClientVersion: c.CV}, ""
}

type refFrame struct {
	tp      byte
	payload []byte
}

// refNextFrame cuts one frame off the stream a side received. allowed = frame types admissible at this step.
func refNextFrame(s []byte, allowed ...byte) (f refFrame, rest []byte, why string) {
	if len(s) < refHeader {
		return f, nil, "truncated header"
	}
	f.tp = s[0]
	if bytes.IndexByte(allowed, f.tp) < 0 {
		return f, nil, fmt.Sprintf("frame type %d not allowed here", f.tp)
	}
	size := binary.LittleEndian.Uint32(s[1:5])
	if size > refSizeLimit {
		return f, nil, "oversized frame"
	}
	if uint64(len(s)-refHeader) < uint64(size) {
		return f, nil, "truncated frame"
	}
	f.payload = s[refHeader : refHeader+int(size)]
	return f, s[refHeader+int(size):], ""
}

// refStream decides, from the bytes a side actually received, whether that side may report success, and what it must
// attach then. roleOut: the side is the dialing (outgoing) one.
func refStream(roleOut bool, v verifier, remotePeer string, received []byte) (accept bool, att attached, why string) {
	var f refFrame
	rest := received
	if roleOut {
		f, rest, why = refNextFrame(rest, refTypeAck, refTypeCred)
	} else {
		f, rest, why = refNextFrame(rest, refTypeCred)
	}
	if why != "" {
		return false, att, "frame 1: " + why
	}
	if f.tp == refTypeAck {
		return false, att, "frame 1: peer answered with an ack instead of credentials"
	}
	c, ok := refDecodeCred(f.payload)
	if !ok {
		return false, att, "frame 1: undecodable credentials"
	}
	ok, att, why = refCheck(v, remotePeer, c)
	if !ok {
		return false, attached{}, "frame 1: " + why
	}
	f, _, why = refNextFrame(rest, refTypeAck)
	if why != "" {
		return false, attached{}, "frame 2: " + why
	}
	code, ok := refDecodeAck(f.payload)
	if !ok {
		return false, attached{}, "frame 2: undecodable ack"
	}
	if code != 0 {
		return false, attached{}, fmt.Sprintf("frame 2: ack carries error %d", code)
	}
	return true, att, ""
}
