package c14

import (
	"io"
	"sync"
)

// The connection model: an in-memory, reliable, duplex byte pipe owned by the harness.
//
//   - Write appends the whole buffer to the direction's queue and returns (TCP-like buffering; the handshake code
//     issues exactly one Write per frame, so a Write call == one frame).
//   - Read blocks (sync.Cond: a durable block for testing/synctest) until a byte is available, the writer closed
//     (EOF after the queue drained) or the own end was closed; it returns at most k bytes, k chosen per Read call
//     by the harness (chunking).
//   - Close of an end: own Read/Write fail from now on, the peer reads the queued bytes and then EOF; the peer's
//     later Writes succeed and vanish (TCP-like: the first writes after the peer's FIN are accepted locally) or,
//     with strictWrite, fail with io.ErrClosedPipe (net.Pipe-like). With silentClose the peer never learns about
//     the Close (lost FIN).
//   - an optional man in the middle rewrites the k-th frame of a direction.
//   - in gated mode (schedule exploration) every Read/Write first parks at a controller point.
//
// Everything that crosses the pipe is recorded: frames written per direction, bytes delivered per direction,
// bytes consumed by each end, the order of completed operations.

const (
	dirOutToIn = 0 // written by the outgoing side (end 0), read by the incoming side (end 1)
	dirInToOut = 1
)

const (
	afterCont   = 0 // later frames of the direction pass through
	afterSilent = 1 // nothing more is ever delivered in this direction (no EOF either)
	afterEOF    = 2 // the reader sees EOF after the rewritten bytes
)

type direction struct {
	buf      []byte
	eof      bool // writer closed (visible to the reader)
	rclosed  bool // reader closed (writes fail)
	silent   bool // MITM swallowed the rest
	frames   [][]byte
	deliv    []byte
	consumed []byte
}

type opRec struct {
	End  int
	Kind byte // 'R' 'W' 'C'
	N    int
}

type pipe struct {
	mu      sync.Mutex
	cond    *sync.Cond
	dirs    [2]*direction
	ends    [2]*end
	ops     []opRec
	blocked int // Read calls currently waiting
	// rewrite, if set, is the man in the middle: called for the k-th Write of a direction.
	rewrite func(dir, k int, data []byte) (deliver []byte, after int)
	// silentClose: a Close is not propagated to the other end.
	silentClose bool
	// strictWrite: a Write towards an end that was closed fails (default: it succeeds, the bytes vanish).
	strictWrite bool
	// gate, if set, parks the caller at a scheduling point of the controller (engine C).
	gate func(label string, guard func() bool)
	name string
}

type end struct {
	p      *pipe
	idx    int
	closed bool
	nRead  int // Read calls so far
	nOps   int // Read+Write calls so far
	// chunk returns the maximum number of bytes the i-th Read call may return (<=0: whatever is available).
	chunk func(i int) int
	// beforeOp, if set, is called (without the pipe lock) before the i-th Read/Write of this end.
	beforeOp func(i int, kind byte)
	readLens []int
}

func newPipe() *pipe {
	p := &pipe{}
	p.cond = sync.NewCond(&p.mu)
	p.dirs[0], p.dirs[1] = &direction{}, &direction{}
	p.ends[0] = &end{p: p, idx: 0}
	p.ends[1] = &end{p: p, idx: 1}
	return p
}

// end 0 writes direction 0 and reads direction 1; end 1 the other way round.
func (e *end) wdir() *direction { return e.p.dirs[e.idx] }
func (e *end) rdir() *direction { return e.p.dirs[1-e.idx] }

func (e *end) label(k string) string {
	side := "out"
	if e.idx == 1 {
		side = "in"
	}
	return e.p.name + side + ":" + k
}

func (e *end) Read(b []byte) (int, error) {
	p := e.p
	p.mu.Lock()
	i, io_ := e.nRead, e.nOps
	e.nRead++
	e.nOps++
	hook := e.beforeOp
	p.mu.Unlock()
	if hook != nil {
		hook(io_, 'R')
	}
	if p.gate != nil {
		p.gate(e.label("R"), func() bool {
			p.mu.Lock()
			defer p.mu.Unlock()
			d := e.rdir()
			return e.closed || len(d.buf) > 0 || d.eof
		})
	}
	p.mu.Lock()
	defer p.mu.Unlock()
	d := e.rdir()
	for !e.closed && len(d.buf) == 0 && !d.eof {
		p.blocked++
		p.cond.Wait()
		p.blocked--
	}
	if e.closed {
		p.ops = append(p.ops, opRec{e.idx, 'R', -1})
		return 0, io.ErrClosedPipe
	}
	if len(d.buf) == 0 {
		p.ops = append(p.ops, opRec{e.idx, 'R', -2})
		return 0, io.EOF
	}
	if len(b) == 0 {
		return 0, nil
	}
	n := len(b)
	if n > len(d.buf) {
		n = len(d.buf)
	}
	if e.chunk != nil {
		if k := e.chunk(i); k > 0 && k < n {
			n = k
		}
	}
	copy(b, d.buf[:n])
	d.consumed = append(d.consumed, d.buf[:n]...)
	d.buf = d.buf[n:]
	e.readLens = append(e.readLens, n)
	p.ops = append(p.ops, opRec{e.idx, 'R', n})
	return n, nil
}

func (e *end) Write(b []byte) (int, error) {
	p := e.p
	p.mu.Lock()
	io_ := e.nOps
	e.nOps++
	hook := e.beforeOp
	p.mu.Unlock()
	if hook != nil {
		hook(io_, 'W')
	}
	if p.gate != nil {
		p.gate(e.label("W"), nil)
	}
	p.mu.Lock()
	defer p.mu.Unlock()
	d := e.wdir()
	if e.closed || (d.rclosed && p.strictWrite) {
		p.ops = append(p.ops, opRec{e.idx, 'W', -1})
		return 0, io.ErrClosedPipe
	}
	k := len(d.frames)
	d.frames = append(d.frames, append([]byte(nil), b...))
	p.ops = append(p.ops, opRec{e.idx, 'W', len(b)})
	if d.silent || d.rclosed {
		return len(b), nil
	}
	deliver, after := b, afterCont
	if p.rewrite != nil {
		deliver, after = p.rewrite(e.idx, k, b)
	}
	d.buf = append(d.buf, deliver...)
	d.deliv = append(d.deliv, deliver...)
	switch after {
	case afterSilent:
		d.silent = true
	case afterEOF:
		d.silent = true
		d.eof = true
	}
	p.cond.Broadcast()
	return len(b), nil
}

func (e *end) Close() error {
	p := e.p
	p.mu.Lock()
	defer p.mu.Unlock()
	if e.closed {
		return nil
	}
	e.closed = true
	p.ops = append(p.ops, opRec{e.idx, 'C', 0})
	if !p.silentClose {
		e.wdir().eof = true
		e.rdir().rclosed = true
	}
	p.cond.Broadcast()
	return nil
}

// forceCloseBoth is the harness' last resort to release everything that still hangs on the pipe.
func (p *pipe) forceCloseBoth() {
	p.mu.Lock()
	p.ends[0].closed, p.ends[1].closed = true, true
	p.dirs[0].eof, p.dirs[1].eof = true, true
	p.cond.Broadcast()
	p.mu.Unlock()
}

func (p *pipe) isClosed(idx int) bool {
	p.mu.Lock()
	defer p.mu.Unlock()
	return p.ends[idx].closed
}

// waitClosed blocks (durably) until end idx has been closed.
func (p *pipe) waitClosed(idx int) {
	p.mu.Lock()
	for !p.ends[idx].closed {
		p.cond.Wait()
	}
	p.mu.Unlock()
}

func (p *pipe) blockedReaders() int {
	p.mu.Lock()
	defer p.mu.Unlock()
	return p.blocked
}

// writesDone returns the number of frames end idx has written so far.
func (p *pipe) writesDone(idx int) int {
	p.mu.Lock()
	defer p.mu.Unlock()
	return len(p.dirs[idx].frames)
}
