package c14

import (
	"context"
	"fmt"
	"sort"
	"strings"
	"sync"
	"testing"
	"testing/synctest"
	"time"

	"github.com/anyproto/any-sync/net/secureservice/handshake"
)

// A small stateless schedule explorer for sub-check (e2) (engine C, specialised): the only blocking points of
// the handshake code are its conn operations, so every Read/Write of every pipe end (and the start of every
// handshake function) parks at a gate; the controller waits for quiescence (synctest.Wait), lists the enabled
// gates in canonical order (the thread that moved last first, then by name) and releases one. Option 0 is the
// default (run-to-completion, handshake after handshake: the pooled objects get reused); every other choice costs
// one deviation; all choice sequences within the deviation bound are enumerated depth-first.

type gateReq struct {
	thread string
	label  string
	guard  func() bool
	ch     chan struct{}
}

type xctl struct {
	mu     sync.Mutex
	parked []*gateReq
	free   bool // gates open (tear-down)
}

func (x *xctl) gate(thread, label string, guard func() bool) {
	x.mu.Lock()
	if x.free {
		x.mu.Unlock()
		return
	}
	r := &gateReq{thread: thread, label: label, guard: guard, ch: make(chan struct{})}
	x.parked = append(x.parked, r)
	x.mu.Unlock()
	<-r.ch
}

type xstep struct {
	Labels []string
	Chosen int
}

type xresult struct {
	Choices  []int
	Steps    []xstep
	Trace    []string
	Deadlock bool
	Blocked  []string
	Side     [][2]sideOut
	Pipes    []*pipe
	Panics   []string
}

func (w *world) runSchedule(pairs []pairSpec, prefix []int, rc any) *xresult {
	res := &xresult{Side: make([][2]sideOut, len(pairs))}
	synctest.Test(w.t, func(t *testing.T) {
		x := &xctl{}
		start := time.Now()
		finished := 0
		total := 2 * len(pairs)
		var fmu sync.Mutex
		for i := range pairs {
			i := i
			ps := pairs[i]
			p := newPipe()
			p.name = fmt.Sprintf("p%d.", i)
			p.gate = func(label string, guard func() bool) {
				// label = "<pipe><side>:<R|W>"
				x.gate(label[:strings.LastIndexByte(label, ':')], label, guard)
			}
			res.Pipes = append(res.Pipes, p)
			ccO, ccI := ps.Out.checker(), ps.In.checker()
			run := func(side int, name string, f func() (handshake.Result, error)) {
				go func() {
					defer func() {
						if r := recover(); r != nil {
							fmu.Lock()
							res.Panics = append(res.Panics, fmt.Sprintf("%s: panic: %v", name, r))
							fmu.Unlock()
						}
						fmu.Lock()
						finished++
						fmu.Unlock()
					}()
					x.gate(name, name+":start", nil)
					r, err := f()
					res.Side[i][side] = mkSideOut(r, err, start)
				}()
			}
			run(0, p.name+"out", func() (handshake.Result, error) {
				return handshake.OutgoingHandshake(context.Background(), p.ends[0], accts[ps.In.Acct].peerId, ccO)
			})
			run(1, p.name+"in", func() (handshake.Result, error) {
				return handshake.IncomingHandshake(context.Background(), p.ends[1], accts[ps.Out.Acct].peerId, ccI)
			})
		}
		last := ""
		for step := 0; ; step++ {
			synctest.Wait()
			x.mu.Lock()
			var en []*gateReq
			for _, r := range x.parked {
				if r.guard == nil || r.guard() {
					en = append(en, r)
				}
			}
			sort.SliceStable(en, func(a, b int) bool {
				la, lb := en[a].thread == last, en[b].thread == last
				if la != lb {
					return la
				}
				return en[a].thread < en[b].thread
			})
			if len(en) == 0 {
				fmu.Lock()
				fin := finished
				fmu.Unlock()
				if fin < total || len(x.parked) > 0 {
					res.Deadlock = true
					for _, r := range x.parked {
						res.Blocked = append(res.Blocked, r.label)
					}
				}
				x.mu.Unlock()
				break
			}
			st := xstep{}
			for _, r := range en {
				st.Labels = append(st.Labels, r.label)
			}
			choice := 0
			if step < len(prefix) && prefix[step] < len(en) {
				choice = prefix[step]
			}
			st.Chosen = choice
			res.Steps = append(res.Steps, st)
			res.Choices = append(res.Choices, choice)
			res.Trace = append(res.Trace, en[choice].label)
			r := en[choice]
			for k, q := range x.parked {
				if q == r {
					x.parked = append(x.parked[:k], x.parked[k+1:]...)
					break
				}
			}
			last = r.thread
			x.mu.Unlock()
			close(r.ch)
		}
		if res.Deadlock {
			// tear down: open all gates, close all conns; whatever stays blocked now can never be released
			x.mu.Lock()
			x.free = true
			for _, r := range x.parked {
				close(r.ch)
			}
			x.parked = nil
			x.mu.Unlock()
			for _, p := range res.Pipes {
				p.forceCloseBoth()
			}
			synctest.Wait()
			fmu.Lock()
			fin := finished
			fmu.Unlock()
			if fin < total {
				w.stuck("e2:unbounded-wait:never-returns", fmt.Sprintf("schedule %v: %d of %d handshake functions do not return even after every conn was closed", res.Trace, total-fin, total), rc)
			}
		}
	})
	return res
}

type xplorer struct {
	w        *world
	pairs    []pairSpec
	bound    int
	onExec   func(*xresult)
	stop     func() bool
	capped   bool
	diverged string
	execs    int64
	maxSteps int
}

func (e *xplorer) explore() {
	var rec func(prefix []int, expect []xstep, used int)
	rec = func(prefix []int, expect []xstep, used int) {
		if e.capped || e.diverged != "" {
			return
		}
		if e.stop != nil && e.stop() {
			e.capped = true
			return
		}
		r := e.w.runSchedule(e.pairs, prefix, rcase{Sub: "e2", Conc: e.pairs, Sch: prefix})
		for i := range expect {
			if i >= len(r.Steps) || strings.Join(expect[i].Labels, "|") != strings.Join(r.Steps[i].Labels, "|") {
				e.diverged = fmt.Sprintf("replaying prefix %v: step %d offers other options than when it was recorded", prefix, i)
				return
			}
		}
		e.execs++
		if len(r.Steps) > e.maxSteps {
			e.maxSteps = len(r.Steps)
		}
		e.onExec(r)
		if used >= e.bound {
			return
		}
		for i := len(prefix); i < len(r.Steps); i++ {
			for alt := 1; alt < len(r.Steps[i].Labels); alt++ {
				np := make([]int, i+1)
				copy(np, r.Choices[:i])
				np[i] = alt
				rec(np, r.Steps[:i+1], used+1)
			}
		}
	}
	rec(nil, nil, 0)
}
