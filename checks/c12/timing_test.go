package c12

// Per-operation wall-time accounting, printed per part under VERIF_VERBOSE=1 (diagnostics only, never an oracle).

import (
	"fmt"
	"os"
	"sort"
	"time"
)

var (
	tim  = map[string]time.Duration{}
	timN = map[string]int{}
)

func lap(name string, t0 time.Time) { tim[name] += time.Since(t0); timN[name]++ }

func dumpTim() {
	var ks []string
	for k := range tim {
		ks = append(ks, k)
	}
	sort.Strings(ks)
	for _, k := range ks {
		fmt.Fprintf(os.Stderr, "  %-10s n=%d avg=%.2fms\n", k, timN[k], tim[k].Seconds()*1000/float64(timN[k]))
	}
}
