// C12 — key-value store: last-writer-wins convergence and authentic entries only.
//
// Everything runs on the real code: keyvaluestorage.Storage (SetRaw / Set / Iterate / GetAll) over the real
// innerstorage (any-store collection + ldiff index + head storage), the real keyValueService.syncWithPeer and
// HandleStoreDiffRequest / HandleStoreElementsRequest joined by an in-memory wire (wire_test.go), a real
// shareable-space ACL (world_test.go). Values are built and signed by hand so that timestamps are data.
//
// Parts (each is a bounded exhaustive enumeration):
//
//	arrival   every multiset of <= N values (one value may occur twice) of an alphabet slots x {t1<t2<t3}, every
//	          distinct permutation, every composition into SetRaw batches; oracle = reference contents
//	          (max timestamp per slot) for Iterate, GetAll, Diff().Elements(), Diff().Hash(), head entry, and
//	          a store re-opened on the same collection advertises the same index;
//	local     the same with one local Storage.Set (real clock, later than every fixture timestamp) at every
//	          position, remote values for the very slot the local device writes included;
//	exchange  every ordered pair of distinct reachable contents: one real syncWithPeer makes both stores equal
//	          to the slot-wise maximum;
//	auth      bounded exhaustive mutations of valid values (relabelled KeyPeerId, every byte of the signed bytes
//	          x 5 patterns, every signature byte, swapped signatures, foreign peer key, replaced identity,
//	          unknown ACL record, signers without write permission at the cited record) inside a batch
//	          [valid, mutant, valid]: exactly the two valid values are stored;
//	faults    an injected error at every storage-call boundary of a write (before / after the call): the
//	          advertised index equals what is stored, the head entry equals the hash, the retry succeeds.
package c12

import (
	"fmt"
	"os"
	"runtime/pprof"
	"sort"
	"strings"
	"testing"
	"time"

	"go.uber.org/zap"

	"github.com/anyproto/any-sync/app/ldiff"
	"github.com/anyproto/any-sync/app/logger"
	"github.com/anyproto/any-sync/commonspace/headsync/headstorage"
	"github.com/anyproto/any-sync/commonspace/object/acl/recordverifier"
	"github.com/anyproto/any-sync/commonspace/object/keyvalue"
	"github.com/anyproto/any-sync/commonspace/object/keyvalue/keyvaluestorage/innerstorage"
	"github.com/anyproto/any-sync/commonspace/spacesyncproto"
	"github.com/anyproto/any-sync/commonspace/sync/objectsync/objectmessages"
	"github.com/anyproto/any-sync/util/crypto"
	"storj.io/drpc"

	"verif/lib/vk"
)

func TestCheck(t *testing.T) {
	vk.Main(t, vk.Spec{
		Prop:  "C12",
		Level: "model_checking",
		Rule: "explicit enumeration on the real store, every case replayed on an emptied store: (arrival) all multisets with at most one repeated " +
			"value of <=3 (quick) / <=4 (thorough) values over 4 slots x 3 timestamps and of 4 values (quick: distinct) over the 2 devices of one key (thorough also: " +
			"5 distinct values over those, <=3 values over 6 slots involving the second account), all distinct permutations, all compositions into " +
			"batches, delivered by Storage.SetRaw or as a pushed batch through keyValueService.HandleMessage; (local) one real Storage.Set at every " +
			"position of such sequences of <=3/4 remote values; (exchange) all ordered pairs of distinct contents with <=2 values over 3 slots (quick) / " +
			"<=3 values over 4 slots (thorough), one real syncWithPeer <-> HandleStoreDiffRequest/HandleStoreElementsRequest each, plus 5 fixed scenarios with " +
			"300-slot stores; (auth) every relabelling / byte x 5 patterns / signature / signer mutation of valid values inside [valid, mutant, " +
			"valid]; (faults) an error before/after every storage call of a write for 7 fixed batches and all batches of <=2/3 values x 3 pre-states. " +
			"states = distinct canonical store contents (symbolic slot=timestamp maps); distinct = outcome classes (per-arrival " +
			"insert/replace/lose/duplicate patterns with batch shape and delivery path, exchange directions, mutation class x verdict, fault " +
			"boundary x mode x batch kind).",
		Assumptions: []string{
			"timestamps are distinct within a slot (the property's quantifier); equal-timestamp conflicts are not judged",
			"the element stream of an exchange is run in the schedule 'client sends everything, then the server runs, then the client reads' — the only one syncWithPeer's code allows up to buffering",
			"a failed Commit commits nothing (fault model of the wrapper)",
			"reference hash = hash of a fresh ldiff index (32,256) filled with the reference elements (C08 covers history independence of ldiff itself)",
		},
		Budget: func(tier string) time.Duration {
			if tier == "quick" {
				return 80 * time.Second
			}
			return 17 * time.Minute
		},
		Shards:   func(string) int { return 16 },
		MaxProcs: 2,
	}, body)
}

type guards struct {
	olderLost     int
	inBatchOlder  int
	coexist       int
	duplicates    int
	reopened      int
	localWon      int
	localAfter    int
	bothWays      int
	oneWay        int
	rejected      map[string]int // mutants judged "not stored, neighbours stored", per class
	flagged       map[string]int // mutants whose case was reported as a violation, per class
	faultNames    map[string]int
	faultCases    int
	faultBatches  int
	faultComplete int
}

type checker struct {
	c          *vk.Ctx
	w          *world
	g          *guards
	reopenSeen map[uint64]bool
	fdb        *fDB
	fhs        headstorage.HeadStorage
	ctl        *faultCtl
	lastStats  wireStats
}

func body(c *vk.Ctx) {
	logger.SetDefault(zap.NewNop())
	logger.SetNamedLevels(logger.LevelsFromStr("*=fatal"))
	if pf := os.Getenv("C12_PROF"); pf != "" { // debugging aid: CPU profile of shard 0
		if f, err := os.Create(fmt.Sprintf("%s.%d", pf, c.Shard)); err == nil {
			_ = pprof.StartCPUProfile(f)
			defer pprof.StopCPUProfile()
		}
	}
	w := newWorld(c)
	defer w.close()
	k := &checker{c: c, w: w, g: &guards{rejected: map[string]int{}, flagged: map[string]int{}, faultNames: map[string]int{}}, reopenSeen: map[uint64]bool{}}
	k.ctl = &faultCtl{}
	k.fdb = &fDB{DB: w.db, ctl: k.ctl}
	var err error
	if k.fhs, err = headstorage.New(ctx, k.fdb); err != nil {
		panic(err)
	}
	if c.Replay != "" {
		k.replay()
		return
	}
	c.Bound("slots_quick", "2 keys x devices {W1,W2} (writer account W, two devices)")
	c.Bound("slots_thorough_extra", "arrival: 2 keys x devices {W1,W2,O1} (second account: owner O)")
	c.Bound("timestamps_per_slot", 3)

	// order: small decisive parts first, the large enumerations afterwards (they honour the deadline)
	for _, p := range []struct {
		name string
		f    func()
	}{{"bigts", k.partBigTimestamps}, {"localwho", k.partLocalWriters}, {"auth", k.partAuth}, {"faults", k.partFaults}, {"local", k.partLocal}, {"exchange", k.partExchange}, {"arrival", k.partArrival}} {
		// C12_PARTS=auth,faults restricts a (debugging) run to some parts
		if sel := os.Getenv("C12_PARTS"); sel != "" && !strings.Contains(","+sel+",", ","+p.name+",") {
			continue
		}
		t0 := time.Now()
		p.f()
		if os.Getenv("VERIF_VERBOSE") != "" {
			dumpTim()
			fmt.Fprintf(os.Stderr, "shard %d: part %s took %.1fs (executions so far %d)\n", c.Shard, p.name, time.Since(t0).Seconds(), c.Counter("executions").Load())
		}
	}
}

func slotsOf(devs ...string) (out []Val) {
	for _, key := range keyNames {
		for _, d := range devs {
			out = append(out, Val{Key: key, Dev: d})
		}
	}
	return
}

func alphabetOf(slots []Val) (out []Val) {
	for _, s := range slots {
		for t := 1; t <= 3; t++ {
			out = append(out, Val{Key: s.Key, Dev: s.Dev, T: t})
		}
	}
	return
}

func valsStr(vs []Val) string {
	var p []string
	for _, v := range vs {
		p = append(p, v.String())
	}
	return "[" + strings.Join(p, " ") + "]"
}

func batchesStr(bs [][]Val) string {
	var p []string
	for _, b := range bs {
		p = append(p, "SetRaw"+valsStr(b))
	}
	return strings.Join(p, "; ")
}

// setRaw calls the real SetRaw, converting a panic of the code under test into an error string.
func (k *checker) setRaw(s *kvstore, ps []*spacesyncproto.StoreKeyValue) (err error, panicked string) {
	defer lap("setraw", time.Now())
	k.c.Count("transitions", 1)
	if p, what := vk.Recover(func() { err = s.st.SetRaw(ctx, ps...) }); p {
		return nil, what
	}
	return err, ""
}

// push delivers a batch the way a peer's broadcast arrives: the sender's StoreKeyValues message (syncstorage
// innerUpdate.Prepare) marshalled, wrapped into a HeadUpdate and handed to the real keyValueService.HandleMessage.
func (k *checker) push(s *kvstore, ps []*spacesyncproto.StoreKeyValue) (err error, panicked string) {
	k.c.Count("transitions", 1)
	b, merr := (&spacesyncproto.StoreKeyValues{KeyValues: ps}).MarshalVT()
	if merr != nil {
		panic(merr)
	}
	svc := keyvalue.VerifNewService("space", s.id, s.st, nil)
	if p, what := vk.Recover(func() { err = svc.HandleMessage(ctx, &objectmessages.HeadUpdate{Bytes: b}) }); p {
		return nil, what
	}
	return err, ""
}

// ---- arrival ------------------------------------------------------------------------------------------

type arrivalCase struct {
	Part    string  `json:"part"`
	Via     string  `json:"via,omitempty"` // "": Storage.SetRaw; "push": keyValueService.HandleMessage (pushed batch)
	Batches [][]Val `json:"batches"`
}

// runArrival returns ("","") or (stable key, description).
func (k *checker) runArrival(cs arrivalCase) (key, what string) {
	w, g := k.w, k.g
	st := w.fresh("kv")
	m := model{}
	var pat []string
	lost, inBatch, dup := false, false, false
	for _, b := range cs.Batches {
		deliver := k.setRaw
		if cs.Via == "push" {
			deliver = k.push
		}
		err, pn := deliver(st, w.protosOf(b))
		if pn != "" {
			return "arrival/panic", fmt.Sprintf("%s%s: SetRaw panicked: %s", cs.Via, batchesStr(cs.Batches), pn)
		}
		if err != nil {
			return "arrival/setraw-error", fmt.Sprintf("%s%s: SetRaw of valid values returned %v", cs.Via, batchesStr(cs.Batches), err)
		}
		p := ""
		inThis := map[string]bool{}
		for _, v := range b {
			cur, ok := m[v.slot()]
			switch {
			case !ok:
				p += "I"
			case v == cur:
				p += "D"
				dup = true
			case v.ts() > cur.ts():
				p += "R"
			default:
				p += "L"
				lost = true
				if inThis[v.slot()] {
					inBatch = true
				}
			}
			inThis[v.slot()] = true
			m.add(v)
		}
		pat = append(pat, p)
	}
	// vacuity counters describe the input that was exercised, whatever the verdict
	if lost {
		g.olderLost++
	}
	if inBatch {
		g.inBatchOlder++
	}
	if dup {
		g.duplicates++
	}
	byKey := map[string]int{}
	for _, v := range m {
		byKey[v.Key]++
	}
	for _, n := range byKey {
		if n >= 2 {
			g.coexist++
			break
		}
	}
	k.c.Distinct("states", m.canon())
	k.c.Distinct("distinct", "arrival "+cs.Via+" "+strings.Join(pat, "|"))
	k.c.Count("evaluations", 1)
	o, err := st.observe(keyNames)
	if err != nil {
		return "arrival/observe-error", fmt.Sprintf("%s: %v", batchesStr(cs.Batches), err)
	}
	if wh, detail := w.judge(o, w.refDocs(m), keyNames); wh != "" {
		return "arrival/" + wh, fmt.Sprintf("after %s the store must hold %s: %s", batchesStr(cs.Batches), m.canon(), detail)
	}
	if h := vk.HashStr(fmt.Sprint(o.Iter)); !k.reopenSeen[h] {
		k.reopenSeen[h] = true
		els, hash, headAfter, err := st.reopened(w)
		k.c.Count("evaluations", 1)
		g.reopened++
		switch {
		case err != nil:
			return "reopen/error", fmt.Sprintf("contents %s: re-opening the collection failed: %v", m.canon(), err)
		case !elsEqual(els, o.Els):
			return "reopen/index-elements", fmt.Sprintf("contents %s: a store re-opened on the collection advertises %s, the running one %s", m.canon(), w.elsStr(els), w.elsStr(o.Els))
		case hash != o.Hash:
			return "reopen/index-hash", fmt.Sprintf("contents %s: a store re-opened on the collection advertises hash %s, the running one %s", m.canon(), hash, o.Hash)
		case len(headAfter) != 1 || headAfter[0] != hash:
			return "reopen/head-entry", fmt.Sprintf("contents %s: after re-opening the head entry is %v, the index hash %s", m.canon(), headAfter, hash)
		}
	}
	return "", ""
}

// multisets calls f with every non-decreasing index tuple of length n over [0,alpha) with at most one repeat.
func multisets(alpha, n int, f func(idx []int)) { multisetsDup(alpha, n, true, f) }

func multisetsDup(alpha, n int, allowDup bool, f func(idx []int)) {
	idx := make([]int, n)
	var rec func(pos, from int, dupUsed bool)
	rec = func(pos, from int, dupUsed bool) {
		if pos == n {
			f(idx)
			return
		}
		for i := from; i < alpha; i++ {
			isDup := pos > 0 && idx[pos-1] == i
			if isDup && dupUsed {
				continue
			}
			idx[pos] = i
			rec(pos+1, i, dupUsed || isDup)
		}
	}
	rec(0, 0, !allowDup)
}

// nextPerm advances a to the next distinct permutation in lexicographic order.
func nextPerm(a []int) bool {
	i := len(a) - 2
	for i >= 0 && a[i] >= a[i+1] {
		i--
	}
	if i < 0 {
		return false
	}
	j := len(a) - 1
	for a[j] <= a[i] {
		j--
	}
	a[i], a[j] = a[j], a[i]
	for l, r := i+1, len(a)-1; l < r; l, r = l+1, r-1 {
		a[l], a[r] = a[r], a[l]
	}
	return true
}

// compose splits seq into batches according to mask (bit i set = cut after element i).
func compose(seq []Val, mask int) (out [][]Val) {
	cur := []Val{}
	for i, v := range seq {
		cur = append(cur, v)
		if i == len(seq)-1 || mask&(1<<i) != 0 {
			out = append(out, cur)
			cur = []Val{}
		}
	}
	return
}

// enumArrival: allowDup = one value may occur twice; need != "" keeps only multisets with a value of that device.
func (k *checker) enumArrival(tag string, alpha []Val, minN, maxN int, allowDup bool, need string, ci *int) (complete bool) {
	c := k.c
	for n := minN; n <= maxN; n++ {
		stop := false
		multisetsDup(len(alpha), n, allowDup, func(idx []int) {
			if stop {
				return
			}
			if need != "" {
				has := false
				for _, x := range idx {
					has = has || alpha[x].Dev == need
				}
				if !has {
					return
				}
			}
			perm := append([]int(nil), idx...)
			for ok := true; ok; ok = nextPerm(perm) {
				*ci++
				if !c.Mine(*ci) {
					continue
				}
				if c.TimeUp() {
					stop = true
					return
				}
				seq := make([]Val, n)
				for i, x := range perm {
					seq[i] = alpha[x]
				}
				for mask := 0; mask < 1<<(n-1); mask++ {
					cs := arrivalCase{Part: "arrival", Batches: compose(seq, mask)}
					if (*ci/max(c.NShards, 1)+mask)%2 == 1 { // half of the cases arrive as pushed batches
						cs.Via = "push"
					}
					if key, what := k.runArrival(cs); key != "" {
						c.Violation(key, what, cs)
					} else if n == maxN && mask == 5%(1<<(n-1)) {
						c.Sample(map[string]any{"part": "arrival", "arrivals": batchesStr(cs.Batches)})
					}
				}
			}
		})
		if stop {
			c.NotExhaustive(fmt.Sprintf("arrival[%s]: deadline while enumerating multisets of size %d", tag, n))
			return false
		}
		c.Bound("arrival_"+tag+"_multiset_size_completed", n)
	}
	return true
}

func (k *checker) partArrival() {
	c, g := k.c, k.g
	ci := 0
	// Every write statement of the store costs ~1 ms in the pure-Go SQLite (a 64 KiB statement journal is mapped and
	// unmapped per nested transaction), so the bounds are chosen to complete: the full 4-slot alphabet up to 3 (quick) /
	// 4 (thorough) arrivals, and the longest sequences over the two devices of one key.
	two := alphabetOf([]Val{{Key: "alpha", Dev: "W1"}, {Key: "alpha", Dev: "W2"}})
	four := alphabetOf(slotsOf("W1", "W2"))
	ok := k.enumArrival("4slots", four, 1, vk.Pick(c, 3, 4), true, "", &ci)
	ok = ok && k.enumArrival("2slots", two, 4, 4, c.Thorough(), "", &ci) // quick: 4 distinct values; thorough: one may repeat
	if ok && c.Thorough() {
		ok = k.enumArrival("2slots_nodup", two, 5, 5, false, "", &ci)
		// the second account (owner O, device O1): only the multisets the 4-slot alphabet does not contain
		ok = ok && k.enumArrival("6slots_withO1", alphabetOf(slotsOf("W1", "W2", "O1")), 1, 3, true, "O1", &ci)
	}
	c.Require(g.olderLost > 0, "vacuity: no arrival sequence in this shard where an older value arrived after a newer one and lost")
	c.Require(g.inBatchOlder > 0, "vacuity: no batch in this shard carrying an older value behind a newer one of the same slot")
	c.Require(g.coexist > 0, "vacuity: no final contents in this shard where two devices hold values under the same key")
	c.Require(g.duplicates > 0, "vacuity: no arrival sequence in this shard delivering a value twice")
	c.Require(g.reopened > 0 || c.NViolations() > 0, "vacuity: no store was re-opened in this shard")
}

// ---- local Set ----------------------------------------------------------------------------------------

type lstep struct {
	Raw []Val  `json:"raw,omitempty"`
	Set string `json:"set,omitempty"`
}

type localCase struct {
	Part  string  `json:"part"`
	Steps []lstep `json:"steps"`
}

func stepsStr(steps []lstep) string {
	var p []string
	for _, s := range steps {
		if s.Set != "" {
			p = append(p, "Set("+s.Set+")")
		} else {
			p = append(p, "SetRaw"+valsStr(s.Raw))
		}
	}
	return strings.Join(p, "; ")
}

func (k *checker) runLocal(cs localCase) (key, what string) {
	w, g, c := k.w, k.g, k.c
	st := w.fresh("kv")
	m := model{}
	var local *doc
	localSlot := ""
	replaced, laterLost := false, false
	pat := ""
	for _, s := range cs.Steps {
		if s.Set == "" {
			err, pn := k.setRaw(st, w.protosOf(s.Raw))
			if pn != "" {
				return "local/panic", fmt.Sprintf("%s: SetRaw panicked: %s", stepsStr(cs.Steps), pn)
			}
			if err != nil {
				return "local/setraw-error", fmt.Sprintf("%s: SetRaw of valid values returned %v", stepsStr(cs.Steps), err)
			}
			for _, v := range s.Raw {
				if local != nil && v.slot() == localSlot {
					laterLost = true
					pat += "l"
				} else {
					pat += "r"
				}
				m.add(v)
			}
			pat += "|"
			continue
		}
		before := len(st.sc.calls)
		var err error
		c.Count("transitions", 1)
		if p, pw := vk.Recover(func() { err = st.st.Set(ctx, s.Set, []byte("local plaintext")) }); p {
			return "local/panic", fmt.Sprintf("%s: Set panicked: %s", stepsStr(cs.Steps), pw)
		}
		if err != nil {
			return "local/set-error", fmt.Sprintf("%s: Set by the space owner returned %v", stepsStr(cs.Steps), err)
		}
		if len(st.sc.calls) != before+1 || len(st.sc.calls[before]) != 1 {
			return "local/broadcast", fmt.Sprintf("%s: Set did not broadcast exactly its one value", stepsStr(cs.Steps))
		}
		kv := st.sc.calls[before][0]
		localSlot = s.Set + "/O1"
		if _, ok := m[localSlot]; ok {
			replaced = true
		}
		if kv.KeyPeerId != w.slotId(s.Set, "O1") {
			return "local/wrong-slot", fmt.Sprintf("%s: Set filed its value under %q, not under key-peerId of the writing device", stepsStr(cs.Steps), kv.KeyPeerId)
		}
		okI, _ := w.sim.Acc("O").Pub().Verify(kv.Value.Value, kv.Value.IdentitySignature)
		okP, _ := w.devKey["O1"].GetPublic().Verify(kv.Value.Value, kv.Value.PeerSignature)
		if !okI || !okP {
			return "local/bad-signature", fmt.Sprintf("%s: the locally written value does not verify (identity %v, device %v)", stepsStr(cs.Steps), okI, okP)
		}
		in := &spacesyncproto.StoreKeyInner{}
		if err := in.UnmarshalVT(kv.Value.Value); err != nil || in.Key != s.Set || in.TimestampMicro != kv.TimestampMicro {
			return "local/inner-mismatch", fmt.Sprintf("%s: the signed bytes of the local value do not name key %q / its timestamp", stepsStr(cs.Steps), s.Set)
		}
		c.Require(kv.TimestampMicro > baseTs+4_000_000, "the real clock is not later than the fixture timestamps")
		d := docOf(kv)
		local = &d
		pat += "S|"
	}
	want := model{}
	for s, v := range m {
		if local == nil || s != localSlot {
			want[s] = v
		}
	}
	docs := w.refDocs(want)
	canon := want.canon()
	if local != nil {
		docs = sortedDocs(append(docs, *local))
		canon += "+local(" + localSlot + ")"
	}
	if replaced {
		g.localWon++
	}
	if laterLost {
		g.localAfter++
	}
	c.Distinct("states", canon)
	c.Distinct("distinct", "local "+pat)
	c.Count("evaluations", 1)
	o, err := st.observe(keyNames)
	if err != nil {
		return "local/observe-error", fmt.Sprintf("%s: %v", stepsStr(cs.Steps), err)
	}
	if wh, detail := w.judge(o, docs, keyNames); wh != "" {
		return "local/" + wh, fmt.Sprintf("after %s the store must hold %s: %s", stepsStr(cs.Steps), canon, detail)
	}
	return "", ""
}

// partBigTimestamps: timestamps are data chosen by the writer. Values stamped beyond 2^53 (a writer counting
// nanoseconds, or simply a large number) cannot be held exactly by a float64: whatever the store does with them, the
// index it maintains while running and the index a store re-opened on the same collection builds must advertise the
// same elements and hash, and the head entry must be that hash.
func (k *checker) partBigTimestamps() {
	w, c := k.w, k.c
	if c.Shard != 0 {
		return
	}
	big := []int64{1<<53 + 1, 1<<53 + 3, 1_700_000_000_000_000_017, 1_700_000_000_000_000_529, 1<<62 + 5}
	slots := slotsOf("W1", "W2")
	for n := 1; n <= 2; n++ {
		for i := 0; i+n <= len(big); i++ {
			st := w.fresh("kvT")
			var batch []*spacesyncproto.StoreKeyValue
			var desc []string
			for j := 0; j < n; j++ {
				v := slots[j%len(slots)]
				v.T = 1
				in := w.inner(v)
				in.TimestampMicro = big[i+j]
				batch = append(batch, w.seal(in, w.slotId(v.Key, v.Dev), w.devKey[v.Dev], w.sim.Acc(v.acc()).Keys.SignKey))
				desc = append(desc, fmt.Sprintf("%s/%s@%d", v.Key, v.Dev, big[i+j]))
			}
			err, pn := k.setRaw(st, batch)
			c.Count("evaluations", 1)
			c.Distinct("distinct", fmt.Sprint("bigts ", n, i))
			rep := map[string]any{"part": "bigts", "values": desc}
			if pn != "" || err != nil {
				c.Violation("bigts/setraw", fmt.Sprintf("SetRaw of %v: %v %s", desc, err, pn), rep)
				continue
			}
			o, err := st.observe(keyNames)
			if err != nil {
				c.Violation("bigts/observe-error", fmt.Sprintf("%v: %v", desc, err), rep)
				continue
			}
			els, hash, headAfter, err := st.reopened(w)
			switch {
			case err != nil:
				c.Violation("bigts/reopen-error", fmt.Sprintf("%v: %v", desc, err), rep)
			case !elsEqual(els, o.Els):
				c.Violation("reopen/index-elements:big-timestamp", fmt.Sprintf("values %v: a store re-opened on the collection advertises %s, the running one %s", desc, w.elsStr(els), w.elsStr(o.Els)), rep)
			case hash != o.Hash:
				c.Violation("reopen/index-hash:big-timestamp", fmt.Sprintf("values %v: a store re-opened on the collection advertises hash %s, the running one %s", desc, hash, o.Hash), rep)
			case len(headAfter) != 1 || headAfter[0] != hash:
				c.Violation("reopen/head-entry:big-timestamp", fmt.Sprintf("values %v: after re-opening the head entry is %v, the index hash %s", desc, headAfter, hash), rep)
			}
		}
	}
	k.roundTimestamps()
}

// partLocalWriters: the local write path (Storage.Set) for every kind of local account. A value is stored only if the
// signing account holds write permission at the ACL record it cites, and Set cites the head of the local account's
// own ACL view: Set by the writer W stores (and the owner's store accepts that very value), Set by R while it is a
// Reader (view cut after "addR"), by R after its removal, and by N who was never admitted must be refused and leave
// store, index, head entry and broadcasts exactly as they were. Run on an empty store and on one that already holds
// a value of W.
func (k *checker) partLocalWriters() {
	w, c := k.w, k.c
	if c.Shard != 0 {
		return
	}
	s := w.sim
	cut := func(rec string) int {
		for i, r := range s.Log {
			if r.Id == w.rec[rec] {
				return i + 1
			}
		}
		panic("no record " + rec)
	}
	type actor struct {
		name  string
		acc   string
		n     int
		write bool
	}
	actors := []actor{
		{"writer W", "W", len(s.Log), true},
		{"owner O", "O", len(s.Log), true},
		{"R while it is a Reader (log cut after addR)", "R", cut("addR"), false},
		{"R after its removal", "R", len(s.Log), false},
		{"N, never admitted", "N", len(s.Log), false},
		{"W before it was added (log cut at the root)", "W", 1, false},
	}
	pre := Val{Key: "alpha", Dev: "W2", T: 1}
	for _, a := range actors {
		for _, preload := range []bool{false, true} {
			for _, key := range keyNames[:2] {
				rep := map[string]any{"part": "localwho", "actor": a.name, "key": key, "preloaded": preload}
				c.Count("evaluations", 1)
				acl, err := s.View(s.Acc(a.acc), a.n, recordverifier.NewValidateFull())
				if err != nil {
					// an account that cannot even build its view cannot write: counted, not judged
					c.Count("localwho_no_view", 1)
					continue
				}
				keys := s.Acc(a.acc).Keys
				st := w.openAs("kvW", keys, acl)
				if preload {
					if err, pn := k.setRaw(st, w.protosOf([]Val{pre})); err != nil || pn != "" {
						if a.n == len(s.Log) {
							c.Violation("localwho/preload", fmt.Sprintf("%s: SetRaw of a valid value of W: %v %s", a.name, err, pn), rep)
						}
						continue
					}
				}
				before, err := st.observe(keyNames)
				if err != nil {
					c.Violation("localwho/observe-error", fmt.Sprintf("%s: %v", a.name, err), rep)
					continue
				}
				calls := len(st.sc.calls)
				var serr error
				c.Count("transitions", 1)
				if p, pw := vk.Recover(func() { serr = st.st.Set(ctx, key, []byte("local plaintext")) }); p {
					c.Violation("localwho/panic", fmt.Sprintf("%s: Set panicked: %s", a.name, pw), rep)
					continue
				}
				after, err := st.observe(keyNames)
				if err != nil {
					c.Violation("localwho/observe-error", fmt.Sprintf("%s: %v", a.name, err), rep)
					continue
				}
				c.Distinct("distinct", fmt.Sprint("localwho ", a.name, preload, serr == nil))
				if !a.write {
					switch {
					case serr == nil:
						c.Violation("localwho/non-writer-set-accepted", fmt.Sprintf("Set(%q) by %s returned no error; the store now holds %d values", key, a.name, len(after.Iter)), rep)
					case len(after.Iter) != len(before.Iter) || !elsEqual(after.Els, before.Els) || after.Hash != before.Hash || fmt.Sprint(after.Head) != fmt.Sprint(before.Head):
						c.Violation("localwho/refused-set-left-traces", fmt.Sprintf("Set(%q) by %s was refused (%v) but the store went from %d values / index %s to %d values / index %s", key, a.name, serr, len(before.Iter), w.elsStr(before.Els), len(after.Iter), w.elsStr(after.Els)), rep)
					case len(st.sc.calls) != calls:
						c.Violation("localwho/refused-set-broadcast", fmt.Sprintf("Set(%q) by %s was refused (%v) but a value was broadcast", key, a.name, serr), rep)
					}
					continue
				}
				if serr != nil {
					c.Violation("localwho/writer-set-refused", fmt.Sprintf("Set(%q) by %s returned %v", key, a.name, serr), rep)
					continue
				}
				if len(st.sc.calls) != calls+1 || len(st.sc.calls[calls]) != 1 {
					c.Violation("localwho/broadcast", fmt.Sprintf("Set(%q) by %s did not broadcast exactly its one value", key, a.name), rep)
					continue
				}
				kv := st.sc.calls[calls][0]
				okI, _ := keys.SignKey.GetPublic().Verify(kv.Value.Value, kv.Value.IdentitySignature)
				okP, _ := keys.PeerKey.GetPublic().Verify(kv.Value.Value, kv.Value.PeerSignature)
				if !okI || !okP || kv.KeyPeerId != key+"-"+keys.PeerKey.GetPublic().PeerId() {
					c.Violation("localwho/bad-local-value", fmt.Sprintf("Set(%q) by %s: identity signature ok=%v, device signature ok=%v, filed under %q", key, a.name, okI, okP, kv.KeyPeerId), rep)
					continue
				}
				// the owner's store must accept exactly that value
				other := w.fresh("kvX")
				if err, pn := k.setRaw(other, []*spacesyncproto.StoreKeyValue{kv.Proto()}); err != nil || pn != "" {
					c.Violation("localwho/peer-refuses-local-value", fmt.Sprintf("the value written by Set(%q) of %s is refused by the owner's store: %v %s", key, a.name, err, pn), rep)
					continue
				}
				oo, err := other.observe(keyNames)
				if err != nil || len(oo.Iter) != 1 || oo.Iter[0] != docOf(kv) {
					c.Violation("localwho/peer-stores-other", fmt.Sprintf("the value written by Set(%q) of %s is not what the owner's store holds after receiving it (%v)", key, a.name, err), rep)
				}
			}
		}
	}
}

// roundTimestamps (run with partBigTimestamps): one slot, an older value then a newer one, in every arrival order and
// split, for timestamp pairs whose 8-byte forms have zero low bytes or differ only in their high bytes (multiples of
// 2^16, 2^32, 2^48 next to ordinary neighbours): the newer value wins whatever its digits look like.
func (k *checker) roundTimestamps() {
	w, c := k.w, k.c
	base := int64(1_700_000_000_000_000)
	up := func(t int64, bits uint) int64 { return (t>>bits + 1) << bits }
	pairs := [][2]int64{
		{base + 1, up(base, 16)}, {base + 1, up(base, 32)}, {base + 1, up(base, 48)},
		{up(base, 16), up(base, 16) + 1}, {up(base, 32), up(base, 32) + 65536}, {up(base, 16), up(base, 32)},
		{up(base, 32) - 1, up(base, 32)}, {up(base, 48) - 1, up(base, 48)}, {255, 256}, {65535, 65536},
	}
	v := Val{Key: "alpha", Dev: "W1", T: 1}
	mk := func(ts int64) *spacesyncproto.StoreKeyValue {
		in := w.inner(v)
		in.TimestampMicro = ts
		in.Value = []byte(fmt.Sprint("payload@", ts))
		return w.seal(in, w.slotId(v.Key, v.Dev), w.devKey[v.Dev], w.sim.Acc(v.acc()).Keys.SignKey)
	}
	for _, pr := range pairs {
		older, newer := mk(pr[0]), mk(pr[1])
		for oi, order := range [][][]*spacesyncproto.StoreKeyValue{{{older}, {newer}}, {{newer}, {older}}, {{older, newer}}, {{newer, older}}, {{older}, {newer}, {older}}} {
			st := w.fresh("kvT")
			rep := map[string]any{"part": "bigts", "round_timestamps": pr, "order": oi}
			c.Count("evaluations", 1)
			c.Distinct("distinct", fmt.Sprint("roundts ", pr, oi))
			bad := false
			for _, batch := range order {
				if err, pn := k.setRaw(st, batch); err != nil || pn != "" {
					c.Violation("roundts/setraw", fmt.Sprintf("timestamps %v, arrival pattern %d: SetRaw: %v %s", pr, oi, err, pn), rep)
					bad = true
					break
				}
			}
			if bad {
				continue
			}
			o, err := st.observe(keyNames)
			if err != nil {
				c.Violation("roundts/observe-error", fmt.Sprintf("%v: %v", pr, err), rep)
				continue
			}
			if len(o.Iter) != 1 || o.Iter[0].Ts != pr[1] || o.Iter[0].Value != string(newer.Value) {
				got := "nothing"
				if len(o.Iter) > 0 {
					got = fmt.Sprint("timestamp ", o.Iter[0].Ts)
				}
				c.Violation("roundts/newer-value-lost", fmt.Sprintf("one slot received values stamped %d and %d (arrival pattern %d): the store holds %s (%d values)", pr[0], pr[1], oi, got, len(o.Iter)), rep)
				continue
			}
			els, hash, headAfter, err := st.reopened(w)
			switch {
			case err != nil:
				c.Violation("roundts/reopen-error", fmt.Sprintf("%v: %v", pr, err), rep)
			case !elsEqual(els, o.Els) || hash != o.Hash || len(headAfter) != 1 || headAfter[0] != hash:
				c.Violation("reopen/index:round-timestamp", fmt.Sprintf("timestamps %v (arrival pattern %d): re-opened index %s / hash %s / head %v, running index %s / hash %s", pr, oi, w.elsStr(els), hash, headAfter, w.elsStr(o.Els), o.Hash), rep)
			}
		}
	}
}

func (k *checker) partLocal() {
	c, g := k.c, k.g
	li := 0
	alpha := []Val{{Key: "alpha", Dev: "O1", T: 1}, {Key: "alpha", Dev: "O1", T: 2}, {Key: "alpha", Dev: "O1", T: 3},
		{Key: "alpha", Dev: "W1", T: 1}, {Key: "bravo", Dev: "O1", T: 2}}
	maxN := vk.Pick(c, 3, 4)
	sampled := 0
	for n := 0; n <= maxN; n++ {
		multisets(len(alpha), n, func(idx []int) {
			perm := append([]int(nil), idx...)
			for ok := true; ok; ok = nextPerm(perm) {
				seq := make([]Val, n)
				for i, x := range perm {
					seq[i] = alpha[x]
				}
				masks := 1
				if n > 1 {
					masks = 1 << (n - 1)
				}
				for mask := 0; mask < masks; mask++ {
					var batches [][]Val
					if n > 0 {
						batches = compose(seq, mask)
					}
					for pos := 0; pos <= len(batches); pos++ {
						var steps []lstep
						for i, b := range batches {
							if i == pos {
								steps = append(steps, lstep{Set: "alpha"})
							}
							steps = append(steps, lstep{Raw: b})
						}
						if pos == len(batches) {
							steps = append(steps, lstep{Set: "alpha"})
						}
						li++
						if !c.Mine(li) {
							continue
						}
						cs := localCase{Part: "local", Steps: steps}
						if key, what := k.runLocal(cs); key != "" {
							c.Violation(key, what, cs)
						} else if n == maxN && sampled < 2 && pos == 1 {
							sampled++
							c.Sample(map[string]any{"part": "local", "steps": stepsStr(steps)})
						}
					}
				}
				if n == 0 {
					break
				}
			}
		})
	}
	c.Bound("local_remote_values_max", maxN)
	c.Require(g.localWon > 0, "vacuity: no case where the local Set replaced an older remote value of its own slot")
	c.Require(g.localAfter > 0, "vacuity: no case where an older remote value for the local slot arrived after the local Set")
}

// ---- exchange -----------------------------------------------------------------------------------------

type xCase struct {
	Part string `json:"part"`
	A    []Val  `json:"a"` // contents of the store that calls syncWithPeer
	B    []Val  `json:"b"` // contents of the store that answers
}

type factory struct{ cl *wireClient }

func (f factory) Client(drpc.Conn) spacesyncproto.DRPCSpaceSyncClient { return f.cl }

func (k *checker) runExchange(cs xCase) (key, what string) {
	w, g, c := k.w, k.g, k.c
	w.wipe("kvA", "kvB")
	a, b := w.open("kvA", nil, nil), w.open("kvB", nil, nil)
	ma, mb, mu := model{}, model{}, model{}
	for _, v := range cs.A {
		ma.add(v)
		mu.add(v)
	}
	for _, v := range cs.B {
		mb.add(v)
		mu.add(v)
	}
	desc := fmt.Sprintf("client %s <-> server %s", ma.canon(), mb.canon())
	if len(cs.A)+len(cs.B) > 12 {
		desc = fmt.Sprintf("client with %d values <-> server with %d values", len(ma), len(mb))
	}
	for _, f := range []struct {
		s  *kvstore
		vs []Val
	}{{a, cs.A}, {b, cs.B}} {
		if len(f.vs) == 0 {
			continue
		}
		if err, pn := k.setRaw(f.s, w.protosOf(f.vs)); err != nil || pn != "" {
			return "exchange/fill-error", fmt.Sprintf("%s: filling a store failed: %v %s", desc, err, pn)
		}
	}
	stats := &wireStats{}
	svcB := keyvalue.VerifNewService("space", "kvB", b.st, nil)
	svcA := keyvalue.VerifNewService("space", "kvA", a.st, factory{&wireClient{server: svcB, stats: stats}})
	var err error
	c.Count("transitions", 1)
	if p, pw := vk.Recover(func() { err = keyvalue.VerifSyncWithPeer(ctx, svcA, &fakePeer{id: "peerB"}) }); p {
		return "exchange/panic", fmt.Sprintf("%s: the exchange panicked: %s", desc, pw)
	}
	if err != nil {
		return "exchange/error", fmt.Sprintf("%s: syncWithPeer returned %v", desc, err)
	}
	k.lastStats = *stats
	if stats.pushed > 0 && stats.pulled > 0 {
		g.bothWays++
	} else if stats.pushed > 0 || stats.pulled > 0 {
		g.oneWay++
	}
	c.Distinct("states", ma.canon())
	c.Distinct("states", mb.canon())
	c.Distinct("states", mu.canon())
	cl := func(n int) int { return min(n, 2) }
	c.Distinct("distinct", fmt.Sprintf("exchange pushed%d requested%d pulled%d rounds%d", cl(stats.pushed), cl(stats.requested), cl(stats.pulled), cl(stats.diffRounds)))
	c.Count("evaluations", 2)
	want := w.refDocs(mu)
	for _, side := range []struct {
		name string
		s    *kvstore
	}{{"client", a}, {"server", b}} {
		o, err := side.s.observe(keyNames)
		if err != nil {
			return "exchange/observe-error", fmt.Sprintf("%s: %v", desc, err)
		}
		if wh, detail := w.judge(o, want, keyNames); wh != "" {
			return "exchange/" + side.name + "-" + wh, fmt.Sprintf("%s: after one exchange both stores must hold %s; %s side: %s", desc, mu.canon(), side.name, detail)
		}
	}
	return "", ""
}

// contents enumerates every store contents with at most maxVals values over the slots.
func contents(slots []Val, maxVals int) (out [][]Val) {
	var rec func(i int, cur []Val)
	rec = func(i int, cur []Val) {
		if i == len(slots) {
			out = append(out, append([]Val(nil), cur...))
			return
		}
		rec(i+1, cur)
		if len(cur) < maxVals {
			for t := 1; t <= 3; t++ {
				rec(i+1, append(cur, Val{Key: slots[i].Key, Dev: slots[i].Dev, T: t}))
			}
		}
	}
	rec(0, nil)
	return
}

func (k *checker) enumExchange(tag string, states [][]Val, pi *int) bool {
	c := k.c
	for i := range states {
		for j := range states {
			if i == j {
				continue
			}
			*pi++
			if !c.Mine(*pi) {
				continue
			}
			if c.TimeUp() {
				c.NotExhaustive(fmt.Sprintf("exchange[%s]: deadline after pair %d of %d", tag, *pi, len(states)*(len(states)-1)))
				return false
			}
			cs := xCase{Part: "exchange", A: states[i], B: states[j]}
			if key, what := k.runExchange(cs); key != "" {
				c.Violation(key, what, cs)
			} else if *pi%5003 == 0 {
				c.Sample(map[string]any{"part": "exchange", "client": valsStr(cs.A), "server": valsStr(cs.B)})
			}
		}
	}
	c.Bound("exchange_"+tag+"_contents", len(states))
	return true
}

func (k *checker) partExchange() {
	c, g := k.c, k.g
	pi := 0
	if c.Quick() {
		k.enumExchange("3slots", contents(slotsOf("W1", "W2")[:3], 2), &pi)
	} else {
		k.enumExchange("4slots", contents(slotsOf("W1", "W2"), 3), &pi)
	}
	// a few large stores (several hundred slots: the index is subdivided, the comparison takes several rounds of
	// range requests over the wire) — fixed scenarios, not an enumeration
	if c.NShards <= 1 || c.Shard == 4%c.NShards {
		mk := func(from, to int, t func(i int) int) (out []Val) {
			for i := from; i < to; i++ {
				out = append(out, Val{Key: fmt.Sprintf("key%03d", i), Dev: []string{"W1", "W2"}[i%2], T: t(i)})
			}
			return
		}
		a := mk(0, 300, func(i int) int {
			if i%5 == 0 {
				return 3
			}
			return 1
		})
		b := mk(100, 400, func(i int) int {
			if i%3 == 0 {
				return 2
			}
			return 1
		})
		rounds := 0
		for _, p := range [][2][]Val{{a, b}, {b, a}, {a, nil}, {nil, b}, {a, a[:299]}} {
			cs := xCase{Part: "exchange", A: p[0], B: p[1]}
			if key, what := k.runExchange(cs); key != "" {
				if len(what) > 1500 {
					what = what[:1500] + "…"
				}
				c.Violation(key+" (large stores)", what, cs)
			}
			rounds = max(rounds, k.lastStats.diffRounds)
		}
		c.Require(rounds > 1, "vacuity: no large exchange needed more than one round of range requests (max %d)", rounds)
		c.Bound("exchange_large_stores_slots", 300)
	}
	c.Require(g.bothWays > 0, "vacuity: no exchange in this shard that moved values both ways")
	c.Require(g.oneWay > 0, "vacuity: no exchange in this shard that moved values one way only")
}

// ---- authenticity -------------------------------------------------------------------------------------

type Mut struct {
	Class string `json:"class"`
	Arg   string `json:"arg,omitempty"`
	Off   int    `json:"off,omitempty"`
	Pat   int    `json:"pat,omitempty"`
}

func (m Mut) String() string {
	s := m.Class
	if m.Arg != "" {
		s += "(" + m.Arg + ")"
	}
	if strings.HasSuffix(m.Class, "-byte") {
		s += fmt.Sprintf("[off=%d,pat=%d]", m.Off, m.Pat)
	}
	return s
}

type authCase struct {
	Part string `json:"part"`
	Pre  []Val  `json:"pre,omitempty"`
	Base Val    `json:"base"` // the value the mutant is made from (for signer classes: the mutant itself)
	Mut  Mut    `json:"mut"`
	X    Val    `json:"x"`
	Y    Val    `json:"y"`
}

func flip(b []byte, off, pat int) bool {
	old := b[off]
	switch pat {
	case 0:
		b[off] ^= 0x01
	case 1:
		b[off] ^= 0x80
	case 2:
		b[off] ^= 0xff
	case 3:
		b[off] = 0x00
	case 4:
		b[off] = 0x7f
	}
	return b[off] != old
}

// mutant builds the mutated wire value (nil: the mutation does not change anything for this input).
func (k *checker) mutant(base Val, m Mut) *spacesyncproto.StoreKeyValue {
	w := k.w
	p := cloneProto(w.proto(base))
	accKey := w.sim.Acc(base.acc()).Keys.SignKey
	switch m.Class {
	case "signer": // base already is the (correctly signed) value of a signer without write permission / unknown record
		return p
	case "relabel":
		switch {
		case m.Arg == "empty":
			p.KeyPeerId = ""
		case m.Arg == "fresh":
			p.KeyPeerId = "charlie-" + w.peerId("N1")
		case m.Arg == "other-key":
			p.KeyPeerId = "charlie-" + w.peerId(base.Dev)
		default: // "slot:<key>/<dev>"
			kd := strings.SplitN(strings.TrimPrefix(m.Arg, "slot:"), "/", 2)
			p.KeyPeerId = w.slotId(kd[0], kd[1])
		}
		return p
	case "value-byte":
		if m.Off >= len(p.Value) || !flip(p.Value, m.Off, m.Pat) {
			return nil
		}
		return p
	case "idsig-byte":
		if m.Off >= len(p.IdentitySignature) || !flip(p.IdentitySignature, m.Off, m.Pat) {
			return nil
		}
		return p
	case "peersig-byte":
		if m.Off >= len(p.PeerSignature) || !flip(p.PeerSignature, m.Off, m.Pat) {
			return nil
		}
		return p
	case "value-truncated":
		p.Value = p.Value[:len(p.Value)-1]
		return p
	case "value-extended":
		p.Value = append(p.Value, 0x38, 0x01) // one more (unknown) varint field behind the signed bytes
		return p
	case "sig-missing":
		if m.Arg == "identity" {
			p.IdentitySignature = nil
		} else {
			p.PeerSignature = nil
		}
		return p
	case "sigs-swapped":
		p.IdentitySignature, p.PeerSignature = p.PeerSignature, p.IdentitySignature
		return p
	case "sigs-both-by-one-key": // both signatures made by the same key
		if m.Arg == "account" {
			p.PeerSignature = append([]byte(nil), p.IdentitySignature...)
		} else {
			p.IdentitySignature = append([]byte(nil), p.PeerSignature...)
		}
		return p
	case "peer-not-signer": // the signed bytes name device Arg, the device signature is made by base.Dev
		in := w.inner(base)
		in.Peer = mustMarshalPub(w.devKey[m.Arg].GetPublic())
		return w.seal(in, w.slotId(base.Key, m.Arg), w.devKey[base.Dev], accKey)
	case "identity-replaced": // the signed bytes name account Arg; nobody re-signs
		if m.Arg == base.acc() {
			return nil
		}
		in := w.inner(base)
		in.Identity = w.sim.Acc(m.Arg).Proto
		b, err := in.MarshalVT()
		if err != nil {
			panic(err)
		}
		p.Value = b
		return p
	case "identity-replaced-device-resigned": // ... the device re-signs, the named account never signed
		if m.Arg == base.acc() {
			return nil
		}
		in := w.inner(base)
		in.Identity = w.sim.Acc(m.Arg).Proto
		return w.seal(in, p.KeyPeerId, w.devKey[base.Dev], accKey)
	}
	panic("unknown mutation class " + m.Class)
}

func (k *checker) runAuth(cs authCase) (key, what string, skipped bool) {
	w, g, c := k.w, k.g, k.c
	mp := k.mutant(cs.Base, cs.Mut)
	if mp == nil {
		return "", "", true
	}
	st := w.fresh("kv")
	m := model{}
	if len(cs.Pre) > 0 {
		if err, pn := k.setRaw(st, w.protosOf(cs.Pre)); err != nil || pn != "" {
			return "auth/fill-error", fmt.Sprintf("filling the store with %s failed: %v %s", valsStr(cs.Pre), err, pn), false
		}
		for _, v := range cs.Pre {
			m.add(v)
		}
	}
	m.add(cs.X)
	m.add(cs.Y)
	class := cs.Mut.Class
	if class == "relabel" {
		class += "/" + strings.SplitN(cs.Mut.Arg, ":", 2)[0]
	} else if class == "signer" {
		class += "/" + cs.Mut.Arg
	}
	desc := fmt.Sprintf("store %s; SetRaw[%s, %s of %s, %s]", valsStr(cs.Pre), cs.X, cs.Mut, cs.Base, cs.Y)
	err, pn := k.setRaw(st, []*spacesyncproto.StoreKeyValue{w.proto(cs.X), mp, w.proto(cs.Y)})
	c.Count("evaluations", 1)
	if pn != "" {
		return "auth/" + class + ": panic", fmt.Sprintf("%s: SetRaw panicked: %s", desc, pn), false
	}
	if err != nil {
		return "auth/" + class + ": batch-refused", fmt.Sprintf("%s: SetRaw returned %v — a bad element must not block the valid elements of its batch", desc, err), false
	}
	o, oerr := st.observe(append(append([]string(nil), keyNames...), "charlie"))
	if oerr != nil {
		return "auth/observe-error", fmt.Sprintf("%s: %v", desc, oerr), false
	}
	want := w.refDocs(m)
	// what exactly is stored that must not be?
	wantById := map[string]doc{}
	for _, d := range want {
		wantById[d.Id] = d
	}
	for _, d := range o.Iter {
		if wd, ok := wantById[d.Id]; ok && wd == d {
			continue
		}
		if d.Value == string(mp.Value) && d.PeerSig == string(mp.PeerSignature) && d.IdSig == string(mp.IdentitySignature) {
			c.Distinct("distinct", "auth "+class+" STORED")
			named := d.Key + "-" + d.PeerId
			extra := ""
			if named != d.Id {
				extra = fmt.Sprintf(" (its signed bytes name slot %s, it is filed under %s)", w.slotName(named), w.slotName(d.Id))
			}
			return "auth/" + class + ": stored", fmt.Sprintf("%s: the mutant is stored under id %s%s; the store must hold exactly %s", desc, w.slotName(d.Id), extra, m.canon()), false
		}
	}
	if wh, detail := w.judge(o, want, append(append([]string(nil), keyNames...), "charlie")); wh != "" {
		return "auth/" + class + ": " + wh, fmt.Sprintf("%s: the store must hold exactly %s: %s", desc, m.canon(), detail), false
	}
	c.Distinct("states", m.canon())
	c.Distinct("distinct", "auth "+class+" rejected, neighbours stored")
	g.rejected[class]++
	return "", "", false
}

func other(l []string, not string) string {
	for _, x := range l {
		if x != not {
			return x
		}
	}
	panic("no other")
}

// authFrame picks the valid neighbours of a mutant of base: X in another key of the same device, Y in the same
// key of another device, and the optional pre-state holding the older value of base's own slot.
func authFrame(base Val) (x, y Val, pres [][]Val) {
	x = Val{Key: other(keyNames, base.Key), Dev: "W1", T: 1}
	y = Val{Key: base.Key, Dev: other([]string{"W2", "W1"}, base.Dev), T: 1}
	pres = [][]Val{nil}
	if base.T > 1 && base.Acc == "" && base.Cite == "" {
		pres = append(pres, []Val{{Key: base.Key, Dev: base.Dev, T: 1}})
	}
	return
}

func (k *checker) partAuth() {
	c, g := k.c, k.g
	bases := []Val{{Key: "alpha", Dev: "W1", T: 2}}
	if c.Thorough() {
		bases = append(bases, Val{Key: "bravo", Dev: "W2", T: 3}, Val{Key: "alpha", Dev: "O1", T: 1})
	}
	run := func(cs authCase) {
		key, what, skipped := k.runAuth(cs)
		if skipped {
			return
		}
		if key != "" {
			c.Violation(key, what, cs)
			cl := cs.Mut.Class
			if cl == "signer" {
				cl += "/" + cs.Mut.Arg
			} else if cl == "relabel" {
				cl += "/" + strings.SplitN(cs.Mut.Arg, ":", 2)[0]
			}
			g.flagged[cl]++
		}
	}
	small := c.NShards <= 1 || c.Shard == 3%c.NShards
	ci := 0
	for _, base := range bases {
		x, y, pres := authFrame(base)
		n := len(k.w.proto(base).Value)
		c.Bound("auth_signed_bytes_"+base.String(), n)
		// large families, dealt to all shards
		for _, fam := range []struct {
			class string
			n     int
		}{{"value-byte", n}, {"idsig-byte", 64}, {"peersig-byte", 64}} {
			for off := 0; off < fam.n; off++ {
				for pat := 0; pat < 5; pat++ {
					ci++
					if !c.Mine(ci) {
						continue
					}
					run(authCase{Part: "auth", Pre: pres[len(pres)-1], Base: base, Mut: Mut{Class: fam.class, Off: off, Pat: pat}, X: x, Y: y})
				}
			}
		}
		if !small {
			continue
		}
		// small families: one shard runs them all, with every pre-state
		var muts []Mut
		muts = append(muts,
			Mut{Class: "relabel", Arg: "slot:" + x.slot()}, // a slot that another value of the batch fills
			Mut{Class: "relabel", Arg: "slot:" + base.Key + "/N1"},
			Mut{Class: "relabel", Arg: "fresh"}, Mut{Class: "relabel", Arg: "other-key"}, Mut{Class: "relabel", Arg: "empty"},
			Mut{Class: "value-truncated"}, Mut{Class: "value-extended"},
			Mut{Class: "sig-missing", Arg: "identity"}, Mut{Class: "sig-missing", Arg: "device"},
			Mut{Class: "sigs-swapped"},
			Mut{Class: "sigs-both-by-one-key", Arg: "account"}, Mut{Class: "sigs-both-by-one-key", Arg: "device"},
			Mut{Class: "peer-not-signer", Arg: other([]string{"W2", "W1"}, base.Dev)}, Mut{Class: "peer-not-signer", Arg: "N1"},
			Mut{Class: "identity-replaced", Arg: "O"}, Mut{Class: "identity-replaced", Arg: "N"},
			Mut{Class: "identity-replaced-device-resigned", Arg: other([]string{"O", "W"}, base.acc())},
		)
		for _, pre := range pres {
			for _, m := range muts {
				run(authCase{Part: "auth", Pre: pre, Base: base, Mut: m, X: x, Y: y})
			}
			// relabel onto a slot the store already fills with an older value
			if len(pre) > 0 {
				b2 := Val{Key: base.Key, Dev: y.Dev, T: 3}
				run(authCase{Part: "auth", Pre: pre, Base: b2, Mut: Mut{Class: "relabel", Arg: "slot:" + base.slot()}, X: x, Y: y})
			}
		}
	}
	if small {
		// correctly signed values whose signer held no write permission at the cited record / unknown record
		signers := []struct {
			arg string
			v   Val
		}{
			{"unknown-acl-record", Val{Key: "alpha", Dev: "W1", T: 2, Cite: "unknown"}},
			{"unknown-acl-record", Val{Key: "alpha", Dev: "O1", T: 2, Cite: "unknown"}},
			{"reader", Val{Key: "alpha", Dev: "R1", T: 2, Cite: "addR"}},
			{"removed", Val{Key: "alpha", Dev: "R1", T: 2, Cite: "rmR"}},
			{"never-member", Val{Key: "alpha", Dev: "N1", T: 2, Cite: "rmR"}},
			{"never-member", Val{Key: "alpha", Dev: "N1", T: 2, Cite: "root"}},
			{"not-yet-member", Val{Key: "alpha", Dev: "W1", T: 2, Cite: "root"}},
			{"not-yet-member", Val{Key: "alpha", Dev: "R1", T: 2, Cite: "addW"}},
			{"reader-on-writers-device", Val{Key: "alpha", Dev: "W1", T: 3, Acc: "R", Cite: "addR"}},
		}
		for _, s := range signers {
			x, y, _ := authFrame(Val{Key: s.v.Key, Dev: "W2", T: 2})
			y.Dev = "W2"
			pres := [][]Val{nil}
			if s.v.Dev == "W1" {
				pres = append(pres, []Val{{Key: s.v.Key, Dev: "W1", T: 1}})
			}
			for _, pre := range pres {
				run(authCase{Part: "auth", Pre: pre, Base: s.v, Mut: Mut{Class: "signer", Arg: s.arg}, X: x, Y: y})
			}
		}
		// positive controls: the same frame with the unmutated value / a writer citing the newest record stores it
		for _, v := range []Val{{Key: "alpha", Dev: "W1", T: 2}, {Key: "alpha", Dev: "W1", T: 2, Cite: "rmR"}, {Key: "alpha", Dev: "W1", T: 2, Cite: "addW"}, {Key: "alpha", Dev: "O1", T: 2, Cite: "root"}} {
			x, y, _ := authFrame(Val{Key: "alpha", Dev: "W1", T: 2})
			cs := arrivalCase{Part: "arrival", Batches: [][]Val{{x, v, y}}}
			if key, what := k.runArrival(cs); key != "" {
				c.Violation("auth/control: "+key, "positive control: "+what, cs)
			}
		}
		for _, cl := range []string{"relabel/empty", "value-truncated", "value-extended", "sig-missing", "sigs-swapped", "sigs-both-by-one-key", "peer-not-signer",
			"identity-replaced", "identity-replaced-device-resigned", "signer/unknown-acl-record"} {
			c.Require(g.rejected[cl]+g.flagged[cl] > 0, "vacuity: no mutant of class %s was judged", cl)
		}
		// the classes below are rejected only by a store that checks the slot name / the signer's permission;
		// when they are stored a violation is reported above, so they need no vacuity guard
		var cls []string
		for cl, n := range g.rejected {
			cls = append(cls, fmt.Sprintf("%s:%d", cl, n))
		}
		sort.Strings(cls)
		c.Note("auth (shard %d): mutants rejected per class: %s", c.Shard, strings.Join(cls, " "))
	}
	for _, cl := range []string{"value-byte", "idsig-byte", "peersig-byte"} {
		c.Require(g.rejected[cl]+g.flagged[cl] > 0, "vacuity: this shard judged no %s mutant", cl)
	}
}

// ---- faults -------------------------------------------------------------------------------------------

type faultCase struct {
	Part  string `json:"part"`
	Pre   []Val  `json:"pre,omitempty"`
	Batch []Val  `json:"batch"`
	At    int    `json:"at"`
	After bool   `json:"after,omitempty"`
}

func batchKind(pre, batch []Val) string {
	m := model{}
	for _, v := range pre {
		m.add(v)
	}
	kind := map[string]bool{}
	seen := map[string]bool{}
	for _, v := range batch {
		cur, ok := m[v.slot()]
		switch {
		case !ok:
			kind["insert"] = true
		case v.ts() > cur.ts():
			kind["replace"] = true
		default:
			kind["lose"] = true
		}
		if seen[v.slot()] {
			kind["dup-id"] = true
		}
		seen[v.slot()] = true
		m.add(v)
	}
	var ks []string
	for x := range kind {
		ks = append(ks, x)
	}
	sort.Strings(ks)
	return strings.Join(ks, "+")
}

// runFault returns fired=false when the batch has fewer than At+1 boundaries (nothing was injected).
func (k *checker) runFault(cs faultCase) (key, what string, fired bool, boundary string) {
	w, c := k.w, k.c
	w.wipe("kvF")
	st := w.open("kvF", k.fdb, k.fhs)
	m := model{}
	if len(cs.Pre) > 0 {
		if err, pn := k.setRaw(st, w.protosOf(cs.Pre)); err != nil || pn != "" {
			return "faults/fill-error", fmt.Sprintf("filling the store with %s failed: %v %s", valsStr(cs.Pre), err, pn), true, ""
		}
		for _, v := range cs.Pre {
			m.add(v)
		}
	}
	k.ctl.arm(cs.At, cs.After)
	err, pn := k.setRaw(st, w.protosOf(cs.Batch))
	k.ctl.disarm()
	boundary = k.ctl.fired
	mode := "before"
	if cs.After {
		mode = "after"
	}
	desc := fmt.Sprintf("store %s; SetRaw%s with an error injected %s storage call #%d (%s)", valsStr(cs.Pre), valsStr(cs.Batch), mode, cs.At, boundary)
	if pn != "" {
		return "faults/panic", fmt.Sprintf("%s: SetRaw panicked: %s", desc, pn), true, boundary
	}
	if boundary == "" {
		if err != nil {
			return "faults/setraw-error", fmt.Sprintf("%s: SetRaw failed without an injected fault: %v", desc, err), true, ""
		}
		return "", "", false, ""
	}
	c.Count("evaluations", 1)
	c.Distinct("distinct", "fault "+mode+" "+boundary+" on "+batchKind(cs.Pre, cs.Batch))
	if err == nil {
		return "faults/error-swallowed", fmt.Sprintf("%s: SetRaw reported success", desc), true, boundary
	}
	o, oerr := st.observe(keyNames)
	if oerr != nil {
		return "faults/observe-error", fmt.Sprintf("%s: %v", desc, oerr), true, boundary
	}
	stored := sortedDocs(o.Iter)
	c.Distinct("states", "after-fault "+w.docsStr(stored))
	if want := elsOfDocs(stored); !elsEqual(o.Els, want) {
		return "faults/index-differs-from-stored", fmt.Sprintf("%s: the collection holds %s but Diff().Elements() = %s", desc, w.elsStr(want), w.elsStr(o.Els)), true, boundary
	}
	if fh := freshHash(o.Els); o.Hash != fh {
		return "faults/index-hash", fmt.Sprintf("%s: Diff().Hash() = %s, a fresh index with the same elements has %s", desc, o.Hash, fh), true, boundary
	}
	if !o.HeadOk || len(o.Head) != 1 || o.Head[0] != o.Hash {
		return "faults/head-entry", fmt.Sprintf("%s: head-storage entry %v (present %v) but Diff().Hash() = %s", desc, o.Head, o.HeadOk, o.Hash), true, boundary
	}
	// the retry without faults succeeds and yields the reference
	err, pn = k.setRaw(st, w.protosOf(cs.Batch))
	if err != nil || pn != "" {
		return "faults/retry-error", fmt.Sprintf("%s: re-applying the batch without faults failed: %v %s", desc, err, pn), true, boundary
	}
	for _, v := range cs.Batch {
		m.add(v)
	}
	c.Count("evaluations", 1)
	if o, oerr = st.observe(keyNames); oerr != nil {
		return "faults/observe-error", fmt.Sprintf("%s: %v", desc, oerr), true, boundary
	}
	if wh, detail := w.judge(o, w.refDocs(m), keyNames); wh != "" {
		return "faults/retry-" + wh, fmt.Sprintf("%s: after re-applying the batch without faults the store must hold %s: %s", desc, m.canon(), detail), true, boundary
	}
	c.Distinct("states", m.canon())
	return "", "", true, boundary
}

func (k *checker) faultBatch(pre, batch []Val) {
	c, g := k.c, k.g
	g.faultBatches++
	complete := true
	for _, after := range []bool{false, true} {
		for at := 0; ; at++ {
			cs := faultCase{Part: "faults", Pre: pre, Batch: batch, At: at, After: after}
			key, what, fired, boundary := k.runFault(cs)
			if key != "" {
				c.Violation(key, what, cs)
			}
			if !fired {
				break
			}
			if boundary != "" {
				g.faultCases++
				g.faultNames[boundary]++
			}
			if at > 200 {
				complete = false
				break
			}
		}
	}
	if complete {
		g.faultComplete++
	}
}

func (k *checker) partFaults() {
	c, g := k.c, k.g
	a1, a2, a3 := Val{Key: "alpha", Dev: "W1", T: 1}, Val{Key: "alpha", Dev: "W1", T: 2}, Val{Key: "alpha", Dev: "W1", T: 3}
	b1, b2, b3 := Val{Key: "bravo", Dev: "W1", T: 1}, Val{Key: "bravo", Dev: "W1", T: 2}, Val{Key: "bravo", Dev: "W1", T: 3}
	d1, d2 := Val{Key: "alpha", Dev: "W2", T: 1}, Val{Key: "alpha", Dev: "W2", T: 2}
	if c.NShards <= 1 || c.Shard == 2%c.NShards {
		fixed := []struct{ pre, batch []Val }{
			{nil, []Val{a1, b1}},                           // inserts
			{[]Val{a1, b1}, []Val{a2, b3}},                 // replacements
			{[]Val{a1}, []Val{a2, a3}},                     // one id twice, ascending (two replacements)
			{[]Val{a1}, []Val{a3, a2}},                     // one id twice, descending (the second loses inside the batch)
			{nil, []Val{d1, d2}},                           // one id twice, first an insert
			{[]Val{a1, b2}, []Val{a2, d1, a3, b1, d2, d1}}, // everything at once
			{[]Val{a1, b1}, []Val{a2, w12bad(k), b2}},      // an invalid element in the middle
		}
		for _, f := range fixed {
			k.faultBatch(f.pre, f.batch)
		}
		for _, n := range []string{"coll.WriteTx", "coll.FindIdWithParser", "coll.UpsertOne", "heads.UpsertId", "tx.Commit"} {
			c.Require(g.faultNames[n] > 0, "vacuity: no fault was injected at a %s boundary (boundaries seen: %v)", n, g.faultNames)
		}
		c.Require(g.faultComplete == len(fixed), "vacuity: %d of %d fixed batches had a fault injected at every boundary index", g.faultComplete, len(fixed))
		c.Note("faults (shard %d): boundaries hit: %v", c.Shard, g.faultNames)
	}
	// every ordered batch of <= L values over two slots x pre-states, dealt to the shards
	alpha := []Val{a1, a2, a3, b1, b3}
	pres := [][]Val{nil, {a1}, {a2, b1}}
	maxL := vk.Pick(c, 2, 3)
	bi := 0
	var seq []Val
	var rec func()
	rec = func() {
		if len(seq) > 0 {
			for _, pre := range pres {
				bi++
				if c.Mine(bi) && !c.TimeUp() {
					k.faultBatch(pre, append([]Val(nil), seq...))
				}
			}
		}
		if len(seq) == maxL {
			return
		}
		for _, v := range alpha {
			seq = append(seq, v)
			rec()
			seq = seq[:len(seq)-1]
		}
	}
	rec()
	if c.TimeUp() {
		c.NotExhaustive("faults: deadline")
	}
	c.Bound("faults_enumerated_batch_len", maxL)
	c.Require(g.faultCases > 0, "vacuity: no fault injected in this shard")
	_ = b2
	_ = b3
}

// w12bad is a placeholder slot value that is replaced by an invalid element: a value citing an unknown ACL record
// (dropped by SetRaw before the write).
func w12bad(k *checker) Val { return Val{Key: "bravo", Dev: "W2", T: 2, Cite: "unknown"} }

// ---- replay -------------------------------------------------------------------------------------------

func (k *checker) replay() {
	c := k.c
	var part struct {
		Case struct {
			Part string `json:"part"`
		} `json:"case"`
	}
	if err := vk.ReadJSON(c.Replay, &part); err != nil {
		c.Broken("replay file: %v", err)
		return
	}
	key, what := "", ""
	var rc any
	switch part.Case.Part {
	case "bigts":
		// the part is a handful of cases: it is run again as a whole
		c.Shard = 0
		k.partBigTimestamps()
		return
	case "localwho":
		c.Shard = 0
		k.partLocalWriters()
		return
	case "arrival":
		var f struct{ Case arrivalCase }
		_ = vk.ReadJSON(c.Replay, &f)
		key, what = k.runArrival(f.Case)
		rc = f.Case
	case "local":
		var f struct{ Case localCase }
		_ = vk.ReadJSON(c.Replay, &f)
		key, what = k.runLocal(f.Case)
		rc = f.Case
	case "exchange":
		var f struct{ Case xCase }
		_ = vk.ReadJSON(c.Replay, &f)
		key, what = k.runExchange(f.Case)
		rc = f.Case
	case "auth":
		var f struct{ Case authCase }
		_ = vk.ReadJSON(c.Replay, &f)
		key, what, _ = k.runAuth(f.Case)
		rc = f.Case
	case "faults":
		var f struct{ Case faultCase }
		_ = vk.ReadJSON(c.Replay, &f)
		key, what, _, _ = k.runFault(f.Case)
		rc = f.Case
	default:
		c.Broken("replay file: unknown part %q", part.Case.Part)
		return
	}
	if key != "" {
		c.Violation(key, "replayed: "+what, rc)
		return
	}
	fmt.Println("replay: the stored case no longer violates the property")
}

var _ = innerstorage.ErrInvalidSignature
var _ = ldiff.New
var _ crypto.PubKey
