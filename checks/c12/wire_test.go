package c12

// In-memory transport between two real keyValueService instances, and the fault-injecting any-store wrapper.
//
// Transport: every request/response/stream message is marshalled and unmarshalled (wire fidelity). The element
// stream is run without goroutines: the client half buffers what syncWithPeer sends; the first client Recv runs
// the server side (first message consumed by the rpc layer, like the repo's own test server, then the real
// HandleStoreElementsRequest) to completion on the buffered input; the client then drains the buffered answers.
// This is exactly one of the schedules of the real exchange (syncWithPeer sends everything before it reads).

import (
	"context"
	"errors"
	"fmt"
	"io"

	anystore "github.com/anyproto/any-store"
	"github.com/anyproto/any-store/anyenc"
	"github.com/anyproto/any-store/query"
	"storj.io/drpc"

	"github.com/anyproto/any-sync/commonspace/object/keyvalue/kvinterfaces"
	"github.com/anyproto/any-sync/commonspace/spacesyncproto"
	"github.com/anyproto/any-sync/net/peer"
)

type fakePeer struct {
	peer.Peer
	id string
}

func (p *fakePeer) Id() string                                                 { return p.id }
func (p *fakePeer) AcquireDrpcConn(ctx context.Context) (drpc.Conn, error)     { return nil, nil }
func (p *fakePeer) ReleaseDrpcConn(ctx context.Context, conn drpc.Conn)        {}
func (p *fakePeer) DoDrpc(ctx context.Context, do func(drpc.Conn) error) error { return do(nil) }

type wireStats struct {
	diffRounds int
	pushed     int // values client -> server
	requested  int // ids the client asked for
	pulled     int // values server -> client
}

type wireClient struct {
	spacesyncproto.DRPCSpaceSyncClient
	server kvinterfaces.KeyValueService
	stats  *wireStats
}

func (c *wireClient) DRPCConn() drpc.Conn { return nil }

func (c *wireClient) StoreDiff(ctx context.Context, in *spacesyncproto.StoreDiffRequest) (*spacesyncproto.StoreDiffResponse, error) {
	c.stats.diffRounds++
	b, err := in.MarshalVT()
	if err != nil {
		return nil, err
	}
	req := &spacesyncproto.StoreDiffRequest{}
	if err = req.UnmarshalVT(b); err != nil {
		return nil, err
	}
	resp, err := c.server.HandleStoreDiffRequest(ctx, req)
	if err != nil {
		return nil, err
	}
	if b, err = resp.MarshalVT(); err != nil {
		return nil, err
	}
	out := &spacesyncproto.StoreDiffResponse{}
	return out, out.UnmarshalVT(b)
}

func (c *wireClient) StoreElements(ctx context.Context) (spacesyncproto.DRPCSpaceSync_StoreElementsClient, error) {
	return &clientStream{pipe: &pipe{ctx: ctx, server: c.server, stats: c.stats}}, nil
}

type pipe struct {
	ctx       context.Context
	server    kvinterfaces.KeyValueService
	stats     *wireStats
	toServer  [][]byte
	toClient  [][]byte
	served    bool
	serverErr error
}

func enc(m *spacesyncproto.StoreKeyValue) []byte {
	b, err := m.MarshalVT()
	if err != nil {
		panic(err)
	}
	return b
}

func dec(b []byte) (*spacesyncproto.StoreKeyValue, error) {
	m := &spacesyncproto.StoreKeyValue{}
	return m, m.UnmarshalVT(b)
}

type clientStream struct {
	drpc.Stream
	pipe *pipe
}

func (s *clientStream) Context() context.Context { return s.pipe.ctx }
func (s *clientStream) CloseSend() error         { return nil }
func (s *clientStream) Close() error             { return nil }

func (s *clientStream) Send(m *spacesyncproto.StoreKeyValue) error {
	if s.pipe.served {
		return errors.New("send after the server side finished")
	}
	if m.KeyPeerId != "" {
		if m.Value != nil {
			s.pipe.stats.pushed++
		} else {
			s.pipe.stats.requested++
		}
	}
	s.pipe.toServer = append(s.pipe.toServer, enc(m))
	return nil
}

func (s *clientStream) Recv() (*spacesyncproto.StoreKeyValue, error) {
	p := s.pipe
	if !p.served {
		p.served = true
		ss := &serverStream{pipe: p}
		first, err := ss.Recv()
		if err != nil {
			p.serverErr = err
		} else if first.SpaceId == "" {
			p.serverErr = errors.New("first stream message carries no space id")
		} else {
			p.serverErr = p.server.HandleStoreElementsRequest(p.ctx, ss)
		}
	}
	if len(p.toClient) == 0 {
		if p.serverErr != nil {
			return nil, fmt.Errorf("server: %w", p.serverErr)
		}
		return nil, io.EOF
	}
	b := p.toClient[0]
	p.toClient = p.toClient[1:]
	return dec(b)
}

type serverStream struct {
	drpc.Stream
	pipe *pipe
}

func (s *serverStream) Context() context.Context { return s.pipe.ctx }
func (s *serverStream) CloseSend() error         { return nil }
func (s *serverStream) Close() error             { return nil }

func (s *serverStream) Send(m *spacesyncproto.StoreKeyValue) error {
	if m.KeyPeerId != "" {
		s.pipe.stats.pulled++
	}
	s.pipe.toClient = append(s.pipe.toClient, enc(m))
	return nil
}

func (s *serverStream) Recv() (*spacesyncproto.StoreKeyValue, error) {
	p := s.pipe
	if len(p.toServer) == 0 {
		return nil, io.EOF
	}
	b := p.toServer[0]
	p.toServer = p.toServer[1:]
	return dec(b)
}

// ---- engine F: storage-call boundaries ----------------------------------------------------------------

var errInjected = errors.New("verif: injected storage fault")

// faultCtl numbers the storage calls made while armed and fails the failAt-th one (mode "before": the call is
// not performed; mode "after": a mutating call is performed inside the transaction and then reported as failed).
type faultCtl struct {
	armed  bool
	n      int
	failAt int
	after  bool
	fired  string
	log    []string
}

func (f *faultCtl) arm(failAt int, after bool) {
	f.armed, f.n, f.failAt, f.after, f.fired, f.log = true, 0, failAt, after, "", nil
}

func (f *faultCtl) disarm() { f.armed = false }

// hit reports whether the current boundary is the one to fail.
func (f *faultCtl) hit(name string) bool {
	if !f.armed {
		return false
	}
	i := f.n
	f.n++
	f.log = append(f.log, name)
	if i == f.failAt {
		f.fired = name
		return true
	}
	return false
}

type fDB struct {
	anystore.DB
	ctl *faultCtl
}

func (d *fDB) Collection(ctx context.Context, name string) (anystore.Collection, error) {
	c, err := d.DB.Collection(ctx, name)
	if err != nil {
		return nil, err
	}
	return &fColl{Collection: c, ctl: d.ctl, name: name}, nil
}

func (d *fDB) OpenCollection(ctx context.Context, name string) (anystore.Collection, error) {
	c, err := d.DB.OpenCollection(ctx, name)
	if err != nil {
		return nil, err
	}
	return &fColl{Collection: c, ctl: d.ctl, name: name}, nil
}

func (d *fDB) WriteTx(ctx context.Context) (anystore.WriteTx, error) {
	if d.ctl.hit("db.WriteTx") {
		return nil, errInjected
	}
	tx, err := d.DB.WriteTx(ctx)
	if err != nil {
		return nil, err
	}
	return &fTx{WriteTx: tx, ctl: d.ctl}, nil
}

type fColl struct {
	anystore.Collection
	ctl  *faultCtl
	name string
}

func (c *fColl) label(op string) string {
	if c.name == "heads" {
		return "heads." + op
	}
	return "coll." + op
}

func (c *fColl) WriteTx(ctx context.Context) (anystore.WriteTx, error) {
	if c.ctl.hit(c.label("WriteTx")) {
		return nil, errInjected
	}
	tx, err := c.Collection.WriteTx(ctx)
	if err != nil {
		return nil, err
	}
	return &fTx{WriteTx: tx, ctl: c.ctl}, nil
}

func (c *fColl) FindId(ctx context.Context, id any) (anystore.Doc, error) {
	if c.ctl.hit(c.label("FindId")) {
		return nil, errInjected
	}
	return c.Collection.FindId(ctx, id)
}

func (c *fColl) FindIdWithParser(ctx context.Context, p *anyenc.Parser, id any) (anystore.Doc, error) {
	if c.ctl.hit(c.label("FindIdWithParser")) {
		return nil, errInjected
	}
	return c.Collection.FindIdWithParser(ctx, p, id)
}

func (c *fColl) UpsertOne(ctx context.Context, doc *anyenc.Value) error {
	if c.ctl.hit(c.label("UpsertOne")) {
		if c.ctl.after {
			_ = c.Collection.UpsertOne(ctx, doc)
		}
		return errInjected
	}
	return c.Collection.UpsertOne(ctx, doc)
}

func (c *fColl) UpsertId(ctx context.Context, id any, mod query.Modifier) (anystore.ModifyResult, error) {
	if c.ctl.hit(c.label("UpsertId")) {
		if c.ctl.after {
			_, _ = c.Collection.UpsertId(ctx, id, mod)
		}
		return anystore.ModifyResult{}, errInjected
	}
	return c.Collection.UpsertId(ctx, id, mod)
}

type fTx struct {
	anystore.WriteTx
	ctl *faultCtl
}

func (t *fTx) Commit() error {
	if t.ctl.hit("tx.Commit") {
		// a commit that fails leaves nothing committed
		_ = t.WriteTx.Rollback()
		return errInjected
	}
	return t.WriteTx.Commit()
}
