package c12

// kvsim: the smallest real environment of a key-value store.
//
//   * ACL: a real shareable space built with the real record builders (so the owner's view can decrypt every
//     read key): root by O; O adds W as Writer ("addW"); O adds R as Reader ("addR"); O removes R with a read
//     key rotation ("rmR"). N is never a member.
//   * Values: spacesyncproto.StoreKeyValue assembled and signed by hand; the timestamp is DATA.
//   * Store: keyvaluestorage.New over one any-store database per process (the store is wiped between cases),
//     the real head storage, a capturing sync client and the no-op indexer.

import (
	"context"
	"encoding/binary"
	"fmt"
	"path/filepath"
	"sort"
	"strings"
	"time"

	anystore "github.com/anyproto/any-store"

	"github.com/anyproto/any-sync/app/ldiff"
	"github.com/anyproto/any-sync/commonspace/headsync/headstorage"
	"github.com/anyproto/any-sync/commonspace/object/accountdata"
	"github.com/anyproto/any-sync/commonspace/object/acl/list"
	"github.com/anyproto/any-sync/commonspace/object/acl/recordverifier"
	"github.com/anyproto/any-sync/commonspace/object/keyvalue/keyvaluestorage"
	"github.com/anyproto/any-sync/commonspace/object/keyvalue/keyvaluestorage/innerstorage"
	"github.com/anyproto/any-sync/commonspace/spacesyncproto"
	"github.com/anyproto/any-sync/consensus/consensusproto"
	"github.com/anyproto/any-sync/util/crypto"

	"verif/lib/aclsim"
	"verif/lib/vk"
)

var ctx = context.Background()

const baseTs = int64(1_700_000_000_000_000) // µs; Nov 2023: strictly earlier than any real clock read of a run

var (
	keyNames = []string{"alpha", "bravo"}
	devNames = []string{"W1", "W2", "O1", "R1", "N1"}
	devAcc   = map[string]string{"W1": "W", "W2": "W", "O1": "O", "R1": "R", "N1": "N"}
)

// Val names one value symbolically (replayable, independent of the random read keys of a run).
type Val struct {
	Key  string `json:"key"`
	Dev  string `json:"dev"`            // signing device (peer key)
	T    int    `json:"t"`              // 1..3: position of the timestamp within its slot
	Acc  string `json:"acc,omitempty"`  // signing account, default: the device's account
	Cite string `json:"cite,omitempty"` // cited ACL record: root|addW|addR|rmR|unknown, default addR
}

func (v Val) acc() string {
	if v.Acc != "" {
		return v.Acc
	}
	return devAcc[v.Dev]
}

func (v Val) cite() string {
	if v.Cite != "" {
		return v.Cite
	}
	return "addR"
}

func (v Val) slot() string { return v.Key + "/" + v.Dev }

// valid is the reference notion of an acceptable value: correctly signed by construction, and the signing
// account held write permission at the (known) ACL record it cites. O owns the space from the root on, W is a
// writer from addW on, R is a reader between addR and rmR, N is never a member.
func (v Val) valid() bool {
	switch v.acc() {
	case "O":
		return v.cite() != "unknown"
	case "W":
		c := v.cite()
		return c == "addW" || c == "addR" || c == "rmR"
	}
	return false
}

func (v Val) String() string {
	s := fmt.Sprintf("%s/%s@t%d", v.Key, v.Dev, v.T)
	if v.Acc != "" || v.Cite != "" {
		s += fmt.Sprintf("[%s,%s]", v.acc(), v.cite())
	}
	return s
}

func indexOf(l []string, s string) int {
	for i, x := range l {
		if x == s {
			return i
		}
	}
	return len(l)
}

// tsStep: t1 < t2 < t3 about a second apart, with low-order bytes that are NOT ordered like the timestamps (58, 228,
// 209), so that only a comparison of the whole number orders them correctly.
var tsStep = []int64{0, 1_000_250, 2_000_100, 3_000_017}

func (v Val) ts() int64 {
	return baseTs + tsStep[v.T] + int64(indexOf(devNames, v.Dev)*10+indexOf(keyNames, v.Key))
}

type world struct {
	c      *vk.Ctx
	sim    *aclsim.Sim
	rec    map[string]string // record name -> id
	devKey map[string]crypto.PrivKey
	acl    list.AclList // O's fully validating view of the whole log
	db     anystore.DB
	hs     headstorage.HeadStorage
	protos map[Val]*spacesyncproto.StoreKeyValue
	opened map[string]bool
}

func newKeys() list.ReadKeyChangePayload {
	mk, _, err := crypto.GenerateRandomEd25519KeyPair()
	if err != nil {
		panic(err)
	}
	return list.ReadKeyChangePayload{MetadataKey: mk, ReadKey: crypto.NewAES()}
}

func storeCfg() *anystore.Config {
	return &anystore.Config{
		ReadConnections:                           1,
		SQLiteConnectionOptions:                   map[string]string{"synchronous": "off"},
		SQLiteGlobalPageCachePreallocateSizeBytes: -1,
	}
}

func newWorld(c *vk.Ctx) *world {
	w := &world{c: c, rec: map[string]string{}, devKey: map[string]crypto.PrivKey{}, protos: map[Val]*spacesyncproto.StoreKeyValue{}, opened: map[string]bool{}}
	w.sim = aclsim.New(c.Seed, "O", "W", "R", "N")
	s := w.sim
	w.rec["root"] = s.RootId()
	submit := func(name string, build func(rb list.AclRecordBuilder) (*consensusproto.RawRecord, error)) {
		view, err := s.View(s.Acc("O"), len(s.Log), recordverifier.NewValidateFull())
		if err != nil {
			panic(err)
		}
		raw, err := build(view.RecordBuilder())
		if err != nil {
			panic(fmt.Sprintf("build %s: %v", name, err))
		}
		rec, err := s.Submit(raw)
		if err != nil {
			panic(fmt.Sprintf("submit %s: %v", name, err))
		}
		w.rec[name] = rec.Id
	}
	add := func(who string, p aclsim.Perm) func(rb list.AclRecordBuilder) (*consensusproto.RawRecord, error) {
		return func(rb list.AclRecordBuilder) (*consensusproto.RawRecord, error) {
			return rb.BuildAccountsAdd(list.AccountsAddPayload{Additions: []list.AccountAdd{{Identity: s.Acc(who).Pub(), Permissions: list.AclPermissions(p), Metadata: []byte("meta-" + who)}}})
		}
	}
	submit("addW", add("W", aclsim.Writer))
	submit("addR", add("R", aclsim.Reader))
	submit("rmR", func(rb list.AclRecordBuilder) (*consensusproto.RawRecord, error) {
		return rb.BuildAccountRemove(list.AccountRemovePayload{Identities: []crypto.PubKey{s.Acc("R").Pub()}, Change: newKeys()})
	})
	w.rec["unknown"] = "bafyreib" + strings.Repeat("x", 51) // shaped like a record id, never part of the log
	w.acl = s.Full(s.Acc("O"))
	for _, d := range devNames {
		if strings.HasSuffix(d, "1") {
			w.devKey[d] = s.Acc(devAcc[d]).Keys.PeerKey
		} else {
			w.devKey[d] = aclsim.NewAccount(c.Seed, "device-"+d).Keys.PeerKey
		}
	}
	var err error
	w.db, err = anystore.Open(ctx, filepath.Join(c.Scratch, "kv.db"), storeCfg())
	if err != nil {
		panic(err)
	}
	w.hs, err = headstorage.New(ctx, w.db)
	if err != nil {
		panic(err)
	}
	return w
}

func (w *world) close() { _ = w.db.Close() }

func (w *world) ownerKeys() *accountdata.AccountKeys { return w.sim.Acc("O").Keys }

func mustMarshalPub(k crypto.PubKey) []byte {
	b, err := k.Marshall()
	if err != nil {
		panic(err)
	}
	return b
}

func (w *world) peerId(dev string) string { return w.devKey[dev].GetPublic().PeerId() }

// slotId is the id a value of (key, device) must be filed under: key + "-" + peer id (storage.go Set).
func (w *world) slotId(key, dev string) string { return key + "-" + w.peerId(dev) }

// slotName maps a stored id back to the symbolic slot name ("?"+id for ids that belong to no slot).
func (w *world) slotName(id string) string {
	for _, k := range keyNames {
		for _, d := range devNames {
			if w.slotId(k, d) == id {
				return k + "/" + d
			}
		}
	}
	return "?" + id
}

func sign(k crypto.PrivKey, b []byte) []byte {
	s, err := k.Sign(b)
	if err != nil {
		panic(err)
	}
	return s
}

// inner returns the signed message of v (StoreKeyInner), before marshalling.
func (w *world) inner(v Val) *spacesyncproto.StoreKeyInner {
	return &spacesyncproto.StoreKeyInner{
		Peer:           mustMarshalPub(w.devKey[v.Dev].GetPublic()),
		Identity:       w.sim.Acc(v.acc()).Proto,
		Value:          []byte("payload of " + v.String()),
		TimestampMicro: v.ts(),
		AclHeadId:      w.rec[v.cite()],
		Key:            v.Key,
	}
}

// seal marshals an inner message and signs exactly those bytes with the given device and account keys.
func (w *world) seal(in *spacesyncproto.StoreKeyInner, keyPeerId string, dev crypto.PrivKey, acc crypto.PrivKey) *spacesyncproto.StoreKeyValue {
	b, err := in.MarshalVT()
	if err != nil {
		panic(err)
	}
	return &spacesyncproto.StoreKeyValue{KeyPeerId: keyPeerId, Value: b, IdentitySignature: sign(acc, b), PeerSignature: sign(dev, b)}
}

// proto returns the (cached, never to be modified) wire form of v.
func (w *world) proto(v Val) *spacesyncproto.StoreKeyValue {
	if p, ok := w.protos[v]; ok {
		return p
	}
	p := w.seal(w.inner(v), w.slotId(v.Key, v.Dev), w.devKey[v.Dev], w.sim.Acc(v.acc()).Keys.SignKey)
	w.protos[v] = p
	return p
}

func cloneProto(p *spacesyncproto.StoreKeyValue) *spacesyncproto.StoreKeyValue {
	return &spacesyncproto.StoreKeyValue{
		KeyPeerId:         p.KeyPeerId,
		Value:             append([]byte(nil), p.Value...),
		IdentitySignature: append([]byte(nil), p.IdentitySignature...),
		PeerSignature:     append([]byte(nil), p.PeerSignature...),
		SpaceId:           p.SpaceId,
	}
}

func (w *world) protosOf(vs []Val) []*spacesyncproto.StoreKeyValue {
	out := make([]*spacesyncproto.StoreKeyValue, len(vs))
	for i, v := range vs {
		out[i] = w.proto(v)
	}
	return out
}

// ---- store ------------------------------------------------------------------------------------------

type capClient struct {
	calls [][]innerstorage.KeyValue
}

func (cc *capClient) Broadcast(_ context.Context, _ string, kvs ...innerstorage.KeyValue) error {
	cc.calls = append(cc.calls, append([]innerstorage.KeyValue(nil), kvs...))
	return nil
}

type kvstore struct {
	id string
	st keyvaluestorage.Storage
	sc *capClient
	db anystore.DB
	hs headstorage.HeadStorage
}

// wipe empties the collections of the given store ids (one open database is reused by all cases of a process; the
// head entry of the id is rewritten by keyvaluestorage.New).
func (w *world) wipe(ids ...string) {
	defer lap("wipe", time.Now())
	tx, err := w.db.WriteTx(ctx)
	if err != nil {
		panic(err)
	}
	for _, id := range ids {
		if !w.opened[id] {
			continue
		}
		coll, err := w.db.Collection(tx.Context(), id)
		if err != nil {
			panic(err)
		}
		if _, err = coll.Find(nil).Delete(tx.Context()); err != nil {
			panic(err)
		}
	}
	if err = tx.Commit(); err != nil {
		panic(err)
	}
}

// open builds a store the way keyValueService.Init does (Prepare included), on db/hs (default: the world's).
func (w *world) open(id string, db anystore.DB, hs headstorage.HeadStorage) *kvstore {
	defer lap("open", time.Now())
	if db == nil {
		db, hs = w.db, w.hs
	}
	sc := &capClient{}
	st, err := keyvaluestorage.New(ctx, id, db, hs, w.ownerKeys(), sc, w.acl, keyvaluestorage.NoOpIndexer{})
	if err != nil {
		panic(fmt.Sprintf("keyvaluestorage.New: %v", err))
	}
	if err = st.Prepare(); err != nil {
		panic(fmt.Sprintf("Prepare: %v", err))
	}
	w.opened[id] = true
	w.c.Count("executions", 1)
	return &kvstore{id: id, st: st, sc: sc, db: db, hs: hs}
}

// openAs opens store id for another local account: its keys, its own view of the ACL log.
func (w *world) openAs(id string, keys *accountdata.AccountKeys, acl list.AclList) *kvstore {
	w.wipe(id)
	sc := &capClient{}
	st, err := keyvaluestorage.New(ctx, id, w.db, w.hs, keys, sc, acl, keyvaluestorage.NoOpIndexer{})
	if err != nil {
		panic(fmt.Sprintf("keyvaluestorage.New: %v", err))
	}
	if err = st.Prepare(); err != nil {
		panic(fmt.Sprintf("Prepare: %v", err))
	}
	w.opened[id] = true
	w.c.Count("executions", 1)
	return &kvstore{id: id, st: st, sc: sc, db: w.db, hs: w.hs}
}

// fresh = wipe + open.
func (w *world) fresh(id string) *kvstore {
	w.wipe(id)
	return w.open(id, nil, nil)
}

// doc is what the store holds for one id.
type doc struct {
	Id       string
	Key      string
	PeerId   string
	Identity string
	Ts       int64
	Value    string
	PeerSig  string
	IdSig    string
}

func docOf(kv innerstorage.KeyValue) doc {
	return doc{Id: kv.KeyPeerId, Key: kv.Key, PeerId: kv.PeerId, Identity: kv.Identity, Ts: kv.TimestampMicro,
		Value: string(kv.Value.Value), PeerSig: string(kv.Value.PeerSignature), IdSig: string(kv.Value.IdentitySignature)}
}

type obs struct {
	Iter   []doc // Storage.Iterate, in delivery order
	Groups []string
	GetAll map[string][]doc // Storage.GetAll per key name
	Els    []ldiff.Element  // InnerStorage().Diff().Elements(), sorted by id
	Hash   string
	Head   []string // head-storage entry of the store id
	HeadOk bool
}

func sortEls(e []ldiff.Element) []ldiff.Element {
	sort.Slice(e, func(i, j int) bool { return e[i].Id < e[j].Id })
	return e
}

func (s *kvstore) observe(keys []string) (o obs, err error) {
	defer lap("observe", time.Now())
	err = s.st.Iterate(ctx, func(_ keyvaluestorage.Decryptor, key string, values []innerstorage.KeyValue) (bool, error) {
		o.Groups = append(o.Groups, key)
		for _, kv := range values {
			o.Iter = append(o.Iter, docOf(kv))
		}
		return true, nil
	})
	if err != nil {
		return o, fmt.Errorf("Iterate: %w", err)
	}
	o.GetAll = map[string][]doc{}
	for _, k := range keys {
		err = s.st.GetAll(ctx, k, func(_ keyvaluestorage.Decryptor, values []innerstorage.KeyValue) error {
			for _, kv := range values {
				o.GetAll[k] = append(o.GetAll[k], docOf(kv))
			}
			return nil
		})
		if err != nil {
			return o, fmt.Errorf("GetAll(%s): %w", k, err)
		}
	}
	o.Els = sortEls(s.st.InnerStorage().Diff().Elements())
	o.Hash = s.st.InnerStorage().Diff().Hash()
	e, herr := s.hs.GetEntry(ctx, s.id)
	if herr == nil {
		o.Head, o.HeadOk = e.Heads, true
	}
	return o, nil
}

// ---- reference --------------------------------------------------------------------------------------

// model is the reference store: slot name -> winning value.
type model map[string]Val

func (m model) add(v Val) {
	if !v.valid() {
		return
	}
	if cur, ok := m[v.slot()]; !ok || v.ts() > cur.ts() {
		m[v.slot()] = v
	}
}

func (m model) clone() model {
	n := model{}
	for k, v := range m {
		n[k] = v
	}
	return n
}

func (m model) vals() []Val {
	var names []string
	for k := range m {
		names = append(names, k)
	}
	sort.Strings(names)
	out := make([]Val, 0, len(m))
	for _, n := range names {
		out = append(out, m[n])
	}
	return out
}

// canon renders the contents symbolically: independent of key material.
func (m model) canon() string {
	var p []string
	for _, v := range m.vals() {
		p = append(p, v.String())
	}
	return "{" + strings.Join(p, " ") + "}"
}

func head(ts int64) string {
	b := make([]byte, 8)
	binary.BigEndian.PutUint64(b, uint64(ts))
	return string(b)
}

func (w *world) refDoc(v Val) doc {
	p := w.proto(v)
	return doc{Id: w.slotId(v.Key, v.Dev), Key: v.Key, PeerId: w.peerId(v.Dev), Identity: w.sim.Acc(v.acc()).Pub().Account(), Ts: v.ts(),
		Value: string(p.Value), PeerSig: string(p.PeerSignature), IdSig: string(p.IdentitySignature)}
}

// refDocs returns the documents a store with contents m must hold, sorted by id.
func (w *world) refDocs(m model) []doc {
	var out []doc
	for _, v := range m {
		out = append(out, w.refDoc(v))
	}
	sort.Slice(out, func(i, j int) bool { return out[i].Id < out[j].Id })
	return out
}

func sortedDocs(d []doc) []doc {
	out := append([]doc(nil), d...)
	sort.Slice(out, func(i, j int) bool { return out[i].Id < out[j].Id })
	return out
}

func (w *world) docStr(d doc) string {
	return fmt.Sprintf("%s(key=%s,ts=%d,val=%x)", w.slotName(d.Id), d.Key, d.Ts-baseTs, vk.HashStr(d.Value+d.PeerSig+d.IdSig)&0xffff)
}

func (w *world) docsStr(ds []doc) string {
	var p []string
	for _, d := range ds {
		p = append(p, w.docStr(d))
	}
	return "[" + strings.Join(p, " ") + "]"
}

func docsEqual(a, b []doc) bool {
	if len(a) != len(b) {
		return false
	}
	for i := range a {
		if a[i] != b[i] {
			return false
		}
	}
	return true
}

func elsEqual(a, b []ldiff.Element) bool {
	if len(a) != len(b) {
		return false
	}
	for i := range a {
		if a[i] != b[i] {
			return false
		}
	}
	return true
}

func elsOfDocs(ds []doc) []ldiff.Element {
	out := make([]ldiff.Element, 0, len(ds))
	for _, d := range ds {
		out = append(out, ldiff.Element{Id: d.Id, Head: head(d.Ts)})
	}
	return sortEls(out)
}

// freshHash is the hash a freshly filled index (same parameters as innerstorage) advertises for the elements.
func freshHash(els []ldiff.Element) string {
	d := ldiff.New(32, 256)
	d.Set(els...)
	return d.Hash()
}

func (w *world) elsStr(els []ldiff.Element) string {
	var p []string
	for _, e := range els {
		ts := int64(-1)
		if len(e.Head) == 8 {
			ts = int64(binary.BigEndian.Uint64([]byte(e.Head))) - baseTs
		}
		p = append(p, fmt.Sprintf("%s=%d", w.slotName(e.Id), ts))
	}
	return "[" + strings.Join(p, " ") + "]"
}

// judge compares an observation with the documents the store must hold. It returns "" or (what, detail) where
// what is a stable name of the observable that differs.
func (w *world) judge(o obs, want []doc, keys []string) (what, detail string) {
	if got := sortedDocs(o.Iter); !docsEqual(got, want) {
		return "iterate-contents", fmt.Sprintf("Iterate delivers %s, reference %s", w.docsStr(got), w.docsStr(want))
	}
	for _, k := range keys {
		var wk []doc
		for _, d := range want {
			if d.Key == k {
				wk = append(wk, d)
			}
		}
		if got := sortedDocs(o.GetAll[k]); !docsEqual(got, wk) {
			return "getall-contents", fmt.Sprintf("GetAll(%s) delivers %s, reference %s", k, w.docsStr(got), w.docsStr(wk))
		}
	}
	wantEls := elsOfDocs(want)
	if !elsEqual(o.Els, wantEls) {
		return "index-elements", fmt.Sprintf("Diff().Elements() = %s, reference %s", w.elsStr(o.Els), w.elsStr(wantEls))
	}
	if wh := freshHash(wantEls); o.Hash != wh {
		return "index-hash", fmt.Sprintf("Diff().Hash() = %s, a fresh index with the reference contents has %s", o.Hash, wh)
	}
	if !o.HeadOk || len(o.Head) != 1 || o.Head[0] != o.Hash {
		return "head-entry", fmt.Sprintf("head-storage entry = %v (present %v), Diff().Hash() = %s", o.Head, o.HeadOk, o.Hash)
	}
	return "", ""
}

// reopened builds a second inner storage over the same collection (what a restart does) and returns its index.
func (s *kvstore) reopened(w *world) (els []ldiff.Element, hash string, headAfter []string, err error) {
	defer lap("reopen", time.Now())
	in, err := innerstorage.New(ctx, s.id, s.hs, s.db)
	if err != nil {
		return nil, "", nil, err
	}
	w.c.Count("executions", 1)
	e, err := s.hs.GetEntry(ctx, s.id)
	if err != nil {
		return nil, "", nil, err
	}
	return sortEls(in.Diff().Elements()), in.Diff().Hash(), e.Heads, nil
}
