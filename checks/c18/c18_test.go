// C18 — all participants agree on which nodes are responsible for a space.
//
// Exhaustive configuration enumeration on the real nodeconf service (driven purely through its exported API:
// nodeconf.New() + app container with fake config / account / source / store components, so the real
// Init -> setLastConfiguration -> configuration-to-ring conversion, the real go-chash ring and the real
// NodeIds / IsResponsible / ReplKey run for every case).
//
// Subject: for every configuration (1..N nodes, each with one of 4 type sets), every order of the node list,
// every asking identity (each node of the configuration and one client that is no node) and every space id
// of a fixed list of id forms, a fresh service instance is built and asked NodeIds(id) and IsResponsible(id).
//
// Reference (plain Go + one real ring per sync-node set): the responsible set of (sync-node set, replication
// key) is what a client computes from the configuration that contains only the sync nodes, asked with the
// dot-free replication key itself. The replication key is computed by the reference as "text after the last
// dot, the whole id if there is no dot". Sync node = node whose type list contains "tree".
//
// Oracle, per evaluation (only what the property states):
//   - reference set: min(ReplicationFactor, #sync nodes) distinct members, all of them sync nodes;
//   - IsResponsible(id) <=> self is in the reference set;
//   - NodeIds(id) == reference set minus self (as a set without duplicates), never containing self.
//
// and the sync-only configuration listed in descending order gives the same sets as listed ascending.
//
// Together these imply that S(id) = NodeIds ∪ ({self} if IsResponsible) is identical from every viewpoint, for
// every order of the node list, for ids with equal replication key, and with non-sync nodes added, removed or
// retyped.
package c18

import (
	"context"
	"crypto/ed25519"
	"crypto/sha256"
	"fmt"
	"runtime"
	"runtime/debug"
	"sort"
	"strings"
	"sync"
	"sync/atomic"
	"testing"
	"time"

	"go.uber.org/zap"

	"github.com/anyproto/any-sync/accountservice"
	"github.com/anyproto/any-sync/app"
	"github.com/anyproto/any-sync/app/logger"
	"github.com/anyproto/any-sync/commonspace/object/accountdata"
	"github.com/anyproto/any-sync/nodeconf"
	"github.com/anyproto/any-sync/util/crypto"

	"verif/lib/vk"
)

// ---------------------------------------------------------------------------------------------------
// universe

// the 5 representative type lists; list 1 names "tree" second on purpose, list 4 names it twice (a type list is a
// list on the wire and in the configuration file, nothing removes duplicates): it is still ONE sync node
var typeSets = [][]nodeconf.NodeType{
	{"tree"},
	{"file", "tree"},
	{"file"},
	{"coordinator", "consensus"},
	{"tree", "coordinator", "tree"},
}

var typeSetNames = []string{"tree", "file+tree", "file", "coordinator+consensus", "tree+coordinator+tree"}

// reference: is a node with these types a sync node?
func refIsSync(types []string) bool {
	for _, t := range types {
		if t == "tree" {
			return true
		}
	}
	return false
}

// reference: replication key = text after the last dot; the whole id if there is no dot
func refReplKey(id string) string {
	for i := len(id) - 1; i >= 0; i-- {
		if id[i] == '.' {
			return id[i+1:]
		}
	}
	return id
}

func makePeerId(label string) string {
	seed := sha256.Sum256([]byte("verif-c18-" + label))
	priv := ed25519.NewKeyFromSeed(seed[:])
	id, err := crypto.IdFromSigningPubKey(crypto.NewEd25519PrivKey(priv).GetPublic())
	if err != nil {
		panic(err)
	}
	return id.String()
}

const maxPeers = 6

var (
	peers    []string // node peer ids
	clientId string   // asking identity that is no node
)

func init() {
	for i := 0; i < maxPeers; i++ {
		peers = append(peers, makePeerId(fmt.Sprintf("node-%d", i)))
	}
	clientId = makePeerId("client")
}

type nodeSpec struct {
	PeerId string   `json:"peerId"`
	Types  []string `json:"types"`
}

type caseT struct {
	Nodes   []nodeSpec `json:"nodes"` // in configuration order
	Self    string     `json:"self"`
	Path    string     `json:"path"` // how the participant obtained the configuration: init | store | update
	SpaceId string     `json:"spaceId"`
}

func typesOf(ts int) []string {
	out := make([]string, len(typeSets[ts]))
	for i, t := range typeSets[ts] {
		out[i] = string(t)
	}
	return out
}

func toConfiguration(id string, nodes []nodeSpec) nodeconf.Configuration {
	c := nodeconf.Configuration{Id: id, NetworkId: "N-verif-c18", CreationTime: time.Unix(1700000000, 0)}
	for _, n := range nodes {
		types := make([]nodeconf.NodeType, len(n.Types))
		for i, t := range n.Types {
			types[i] = nodeconf.NodeType(t)
		}
		tail := n.PeerId[len(n.PeerId)-4:]
		c.Nodes = append(c.Nodes, nodeconf.Node{
			PeerId:    n.PeerId,
			Addresses: []string{"10.0.0." + tail + ":4430", "quic://10.0.0." + tail + ":5430"},
			Types:     types,
		})
	}
	return c
}

// ---------------------------------------------------------------------------------------------------
// driving the real service

type cfgComp struct{ c nodeconf.Configuration }

func (c *cfgComp) Init(*app.App) error                 { return nil }
func (c *cfgComp) Name() string                        { return "config" }
func (c *cfgComp) GetNodeConf() nodeconf.Configuration { return c.c }
func (c *cfgComp) GetNodeConfUpdateInterval() int      { return 3600 }

type accComp struct{ keys *accountdata.AccountKeys }

func (a *accComp) Init(*app.App) error               { return nil }
func (a *accComp) Name() string                      { return accountservice.CName }
func (a *accComp) Account() *accountdata.AccountKeys { return a.keys }

type srcComp struct {
	have bool
	c    nodeconf.Configuration
}

func (s *srcComp) Init(*app.App) error { return nil }
func (s *srcComp) Name() string        { return nodeconf.CNameSource }
func (s *srcComp) GetLast(_ context.Context, currentId string) (nodeconf.Configuration, error) {
	if !s.have || currentId == s.c.Id {
		return nodeconf.Configuration{}, nodeconf.ErrConfigurationNotChanged
	}
	return s.c, nil
}

type storeComp struct {
	mu   sync.Mutex
	have bool
	c    nodeconf.Configuration
}

func (s *storeComp) Init(*app.App) error { return nil }
func (s *storeComp) Name() string        { return nodeconf.CNameStore }
func (s *storeComp) GetLast(_ context.Context, _ string) (nodeconf.Configuration, error) {
	s.mu.Lock()
	defer s.mu.Unlock()
	if !s.have {
		return nodeconf.Configuration{}, nodeconf.ErrConfigurationNotFound
	}
	return s.c, nil
}
func (s *storeComp) SaveLast(_ context.Context, c nodeconf.Configuration) error {
	s.mu.Lock()
	defer s.mu.Unlock()
	s.have, s.c = true, c
	return nil
}

type checkerComp struct{}

func (checkerComp) Init(*app.App) error                                { return nil }
func (checkerComp) Name() string                                       { return "verif.protochecker" }
func (checkerComp) IsNetworkNeedsUpdate(context.Context) (bool, error) { return false, nil }

var paths = []string{"init", "store", "update", "store-merge"}

// buildReal makes one participant: a fresh real nodeconf service whose account is self and whose current
// configuration is `nodes` (in that order), obtained by the given path:
//
//	init   — it is the application's configured network configuration (nothing stored);
//	store  — it was stored earlier (the application config is an older one listing only the coordinators);
//	store-merge — as store, but the application config knows one more address of a coordinator (or, when the
//	         configuration lists no coordinator, one more coordinator-only node) than the stored configuration: the
//	         restart merges it into the stored configuration and rewrites it (id "-1" until re-pulled);
//	update — the participant started with an older configuration (same peers, all typed "tree") and received
//	         this one from the configuration source while running.
//
// Returns the service, the number of real ring builds, and a closer.
func buildReal(nodes []nodeSpec, self, path string) (svc nodeconf.Service, builds int, closeFn func(), err error) {
	svc, builds, closeFn, _, err = buildRealEff(nodes, self, path)
	return
}

// buildRealEff also returns the node list the participant's reported configuration id stands for (see store-merge).
func buildRealEff(nodes []nodeSpec, self, path string) (svc nodeconf.Service, builds int, closeFn func(), eff []nodeSpec, err error) {
	eff = nodes
	conf := toConfiguration("cfg-current", nodes)
	wantId := "cfg-current"
	var extra *nodeSpec // store-merge: a node only the application config knows
	cfg := &cfgComp{c: conf}
	src := &srcComp{}
	st := &storeComp{}
	switch path {
	case "init":
	case "store":
		var boot []nodeSpec
		for _, n := range nodes {
			for _, t := range n.Types {
				if t == "coordinator" {
					boot = append(boot, n)
				}
			}
		}
		cfg.c = toConfiguration("cfg-boot", boot)
		st.have, st.c = true, toConfiguration("cfg-current", nodes)
	case "store-merge":
		var boot []nodeSpec
		for _, n := range nodes {
			for _, t := range n.Types {
				if t == "coordinator" {
					boot = append(boot, n)
				}
			}
		}
		cfg.c = toConfiguration("cfg-boot", boot)
		if len(cfg.c.Nodes) > 0 {
			cfg.c.Nodes[0].Addresses = append(append([]string{}, cfg.c.Nodes[0].Addresses...), "verif-extra-address:1")
		} else {
			// an all-in-one node of the bootstrap configuration: coordinator and sync node
			extra = &nodeSpec{PeerId: makePeerId("extra-coordinator"), Types: []string{"coordinator", "tree"}}
			cfg.c.Nodes = append(cfg.c.Nodes, nodeconf.Node{PeerId: extra.PeerId, Addresses: []string{"verif-extra-address:2"}, Types: []nodeconf.NodeType{nodeconf.NodeTypeCoordinator, nodeconf.NodeTypeTree}})
		}
		st.have, st.c = true, toConfiguration("cfg-current", nodes)
		wantId = "-1"
	case "update":
		boot := make([]nodeSpec, len(nodes))
		for i, n := range nodes {
			boot[len(nodes)-1-i] = nodeSpec{PeerId: n.PeerId, Types: []string{"tree"}}
		}
		cfg.c = toConfiguration("cfg-boot", boot)
		src.have, src.c = true, conf
	default:
		return nil, 0, nil, nil, fmt.Errorf("unknown path %q", path)
	}
	a := new(app.App)
	svc = nodeconf.New()
	a.Register(cfg).Register(&accComp{keys: &accountdata.AccountKeys{PeerId: self}}).
		Register(src).Register(st).Register(checkerComp{}).Register(svc)
	if err = svc.Init(a); err != nil {
		return nil, 0, nil, nil, fmt.Errorf("Init: %w", err)
	}
	builds = 1
	closeFn = func() {}
	if path == "update" {
		changed := make(chan struct{}, 4)
		svc.ObserveChanges(func(prev, cur nodeconf.NodeConf) { changed <- struct{}{} })
		if err = svc.Run(context.Background()); err != nil {
			return nil, 0, nil, nil, fmt.Errorf("Run: %w", err)
		}
		closeFn = func() { _ = svc.Close(context.Background()) }
		select {
		case <-changed:
		case <-time.After(2 * time.Minute): // harness guard only, never an oracle
			closeFn()
			return nil, 0, nil, nil, fmt.Errorf("harness: the configuration delivered by the source was never applied")
		}
		builds = 2
	}
	if got := svc.Configuration().Id; path == "store-merge" && (got == "-1" || got == "cfg-current") {
		// "-1": the merged configuration (stored nodes plus what the application config added), to be re-pulled;
		// "cfg-current": the participant claims to hold exactly the enumerated configuration and is judged as such
		if got == "-1" && extra != nil {
			eff = append(append([]nodeSpec{}, nodes...), *extra)
		}
	} else if got != wantId {
		closeFn()
		return nil, 0, nil, nil, fmt.Errorf("harness: participant holds configuration %q, not the enumerated one", got)
	}
	return svc, builds, closeFn, eff, nil
}

// ---------------------------------------------------------------------------------------------------
// reference: responsible set per (sync-node set, replication key)

type refRing struct {
	sync []string            // sorted sync peer ids
	nc   nodeconf.NodeConf   // real ring of the sync-only configuration, client viewpoint
	memo map[string][]string // replication key -> sorted responsible set
	// filled: memo holds every key of the run (set by fillMemo for rings built on demand)
	filled bool
}

type refStore struct {
	mu    sync.Mutex
	rings map[string]*refRing
	c     *vk.Ctx
}

func syncOf(nodes []nodeSpec) []string {
	var s []string
	for _, n := range nodes {
		if refIsSync(n.Types) {
			s = append(s, n.PeerId)
		}
	}
	sort.Strings(s)
	return s
}

func (r *refStore) get(syncIds []string) (*refRing, error) {
	k := strings.Join(syncIds, ",")
	r.mu.Lock()
	defer r.mu.Unlock()
	if rr, ok := r.rings[k]; ok {
		return rr, nil
	}
	var nodes []nodeSpec
	for _, p := range syncIds {
		nodes = append(nodes, nodeSpec{PeerId: p, Types: []string{"tree"}})
	}
	svc, builds, _, err := buildReal(nodes, clientId, "init")
	if err != nil {
		return nil, err
	}
	r.c.Count("executions", int64(builds))
	rr := &refRing{sync: syncIds, nc: svc, memo: map[string][]string{}}
	r.rings[k] = rr
	return rr, nil
}

// fillMemo computes the reference sets of a ring that was not prebuilt (merged configurations) for every replication
// key of the run; under the store's lock, once per ring.
func (e *evaluator) fillMemo(rr *refRing) {
	e.refs.mu.Lock()
	defer e.refs.mu.Unlock()
	if rr.filled {
		return
	}
	for _, k := range e.keys {
		rr.set(e.c, k)
	}
	rr.filled = true
}

// set returns the reference responsible set for a dot-free replication key and validates what the property
// says about it (size, distinctness, membership).
func (rr *refRing) set(c *vk.Ctx, key string) []string {
	if s, ok := rr.memo[key]; ok {
		return s
	}
	s := append([]string{}, rr.nc.NodeIds(key)...)
	if rr.nc.IsResponsible(key) {
		s = append(s, clientId)
	}
	sort.Strings(s)
	c.Count("evaluations", 1)
	want := nodeconf.ReplicationFactor
	if len(rr.sync) < want {
		want = len(rr.sync)
	}
	replay := func() caseT {
		var nodes []nodeSpec
		for _, p := range rr.sync {
			nodes = append(nodes, nodeSpec{PeerId: p, Types: []string{"tree"}})
		}
		return caseT{Nodes: nodes, Self: clientId, Path: "init", SpaceId: key}
	}
	if len(s) != want {
		c.Violation(fmt.Sprintf("responsible set has wrong size (%d sync nodes)", len(rr.sync)),
			fmt.Sprintf("sync-only configuration %v, client viewpoint, space id %q: responsible set %v has %d members, want min(%d, %d)",
				short(rr.sync), key, short(s), len(s), nodeconf.ReplicationFactor, len(rr.sync)), replay())
	}
	for i, m := range s {
		if i > 0 && s[i-1] == m {
			c.Violation("responsible set has duplicate members",
				fmt.Sprintf("sync-only configuration %v, client viewpoint, space id %q: responsible set %v repeats %s", short(rr.sync), key, short(s), short1(m)), replay())
		}
		if !contains(rr.sync, m) {
			c.Violation("responsible set contains a non-sync member",
				fmt.Sprintf("sync-only configuration %v, client viewpoint, space id %q: member %s is no sync node of the configuration", short(rr.sync), key, short1(m)), replay())
		}
	}
	rr.memo[key] = s
	return s
}

func contains(s []string, x string) bool {
	for _, v := range s {
		if v == x {
			return true
		}
	}
	return false
}

func without(s []string, x string) []string {
	out := make([]string, 0, len(s))
	for _, v := range s {
		if v != x {
			out = append(out, v)
		}
	}
	return out
}

func equalStr(a, b []string) bool {
	if len(a) != len(b) {
		return false
	}
	for i := range a {
		if a[i] != b[i] {
			return false
		}
	}
	return true
}

func short1(p string) string {
	if p == clientId {
		return "client"
	}
	for i, q := range peers {
		if p == q {
			return fmt.Sprintf("n%d", i)
		}
	}
	if len(p) > 8 {
		return "…" + p[len(p)-6:]
	}
	return p
}

func short(ps []string) []string {
	out := make([]string, len(ps))
	for i, p := range ps {
		out[i] = short1(p)
	}
	return out
}

func idForm(id string) string {
	dots := strings.Count(id, ".")
	switch {
	case dots == 0:
		return "no-dot"
	case strings.HasSuffix(id, "."):
		return "empty-suffix"
	case dots == 1:
		return "one-dot"
	default:
		return "multi-dot"
	}
}

// ---------------------------------------------------------------------------------------------------
// space ids

const (
	pfxA = "bafyreigdyrzt5sfp7udm7hu76uh7y26nf3efuylqabf3oclgtqy55fbzdi"
	pfxB = "bafyreifr2xskpmvgjd4yqzq3b7kzb5efwzu5gq4rh2yjzmxsl7uakz5h6m"
)

func spaceIds(c *vk.Ctx, probe nodeconf.NodeConf) []string {
	ids := []string{
		"", ".", "..", "...", "abc.", "a.b.", pfxA + ".",
		"abc", "space", pfxA,
		"1-1", "1-1.1-1", "a.1-1", "1", "1.1", "2.1", "1.2",
		".x", "x", "y.x", "a.b.x", "x.y", "x.y.z", "z", "y.z", "a..z", "a.b.c.d.e",
		pfxA + ".2lcu0r85yg10d", pfxB + ".2lcu0r85yg10d", "2lcu0r85yg10d", pfxA + "." + pfxB + ".2lcu0r85yg10d",
		pfxA + ".1k2j3h4g5f6d7", pfxA + ".35z7rglgss1ci",
		"a b.c d", "ü.ñ",
		"s.0", "s.1", "s.2", "s.3", "t.u.4", "t.u.5",
	}
	// replication keys landing in the first, second, middle and last partition of the ring (found with the real
	// Partition on a probe ring; used for id selection only, Partition is not part of the oracle)
	pc := probe.CHash().PartitionCount()
	for _, want := range []int{0, 1, pc / 2, pc - 1} {
		found := ""
		for i := 0; i < 400000; i++ {
			k := fmt.Sprintf("k%d", i)
			if probe.Partition(k) == want {
				found = k
				break
			}
		}
		if found == "" {
			c.Note("no replication key found for partition %d", want)
			continue
		}
		ids = append(ids, found, "p."+found, pfxB+".q."+found)
	}
	return ids
}

// ---------------------------------------------------------------------------------------------------
// evaluation

type stats struct {
	selecting     atomic.Bool // a configuration with more sync nodes than the replication factor was evaluated
	twoSets       atomic.Bool // two ids map to different responsible sets within one configuration
	syncInside    atomic.Bool // a sync node asked about a space it is responsible for
	syncOutside   atomic.Bool // a sync node asked about a space it is not responsible for
	nonSyncAsked  atomic.Bool // a non-sync node of the configuration asked
	clientAsked   atomic.Bool
	nonSyncInConf atomic.Bool // set determined although non-sync nodes are present
}

type evaluator struct {
	c     *vk.Ctx
	refs  *refStore
	ids   []string
	keys  []string // refReplKey of ids
	forms []string
	st    *stats

	seenDistinct map[uint64]struct{} // worker-local pre-filter for c.Distinct
	vioLocal     map[string]int
}

func (e *evaluator) violation(key string, what func() string, cs caseT) {
	e.vioLocal[key]++
	if e.vioLocal[key] > 3 {
		e.c.Count("violations_not_listed", 1)
		return
	}
	e.c.Violation(key, what(), cs)
}

// evalParticipant asks one participant about every space id.
func (e *evaluator) evalParticipant(nc nodeconf.NodeConf, rr *refRing, nodes []nodeSpec, self, path string) {
	viewKind := "client"
	for _, n := range nodes {
		if n.PeerId == self {
			if refIsSync(n.Types) {
				viewKind = "sync-node"
			} else {
				viewKind = "non-sync-node"
				e.st.nonSyncAsked.Store(true)
			}
		}
	}
	if viewKind == "client" {
		e.st.clientAsked.Store(true)
	}
	if len(rr.sync) > nodeconf.ReplicationFactor {
		e.st.selecting.Store(true)
	}
	if len(rr.sync) < len(nodes) {
		e.st.nonSyncInConf.Store(true)
	}
	cfgStr := func() string {
		var p []string
		for _, n := range nodes {
			p = append(p, short1(n.PeerId)+"{"+strings.Join(n.Types, ",")+"}")
		}
		return "[" + strings.Join(p, " ") + "]"
	}
	var firstWant []string
	for i, id := range e.ids {
		want := rr.memo[e.keys[i]]
		if i == 0 {
			firstWant = want
		} else if !equalStr(firstWant, want) {
			e.st.twoSets.Store(true)
		}
		var got []string
		var resp bool
		if panicked, what := vk.Recover(func() {
			got = nc.NodeIds(id)
			resp = nc.IsResponsible(id)
		}); panicked {
			e.violation("panic in NodeIds/IsResponsible", func() string { return what }, caseT{nodes, self, path, id})
			continue
		}
		inSet := contains(want, self)
		if viewKind == "sync-node" {
			if inSet {
				e.st.syncInside.Store(true)
			} else {
				e.st.syncOutside.Store(true)
			}
		}
		gs := append([]string{}, got...)
		sort.Strings(gs)
		ctxStr := func() string {
			return fmt.Sprintf("configuration %s, participant %s (%s, path %s), space id %q (replication key %q): NodeIds=%v IsResponsible=%v; "+
				"responsible set of the sync-node set %v for that key is %v",
				cfgStr(), short1(self), viewKind, path, id, e.keys[i], short(got), resp, short(rr.sync), short(want))
		}
		cls := fmt.Sprintf(" [asker=%s id=%s]", viewKind, e.forms[i])
		switch {
		case contains(got, self):
			e.violation("peer list contains the asking participant itself"+cls, ctxStr, caseT{nodes, self, path, id})
		case resp != inSet:
			e.violation("IsResponsible disagrees with membership in the responsible set"+cls, ctxStr, caseT{nodes, self, path, id})
		case !equalStr(gs, without(want, self)):
			e.violation("peer list is not the responsible set minus self"+cls, ctxStr, caseT{nodes, self, path, id})
		}
		h := vk.HashStr(strings.Join(rr.sync, ",") + "|" + e.keys[i] + "|" + strings.Join(want, ","))
		if _, ok := e.seenDistinct[h]; !ok {
			e.seenDistinct[h] = struct{}{}
			e.c.DistinctH("distinct", h)
			if len(rr.sync) > nodeconf.ReplicationFactor {
				e.c.DistinctH("ring_selected_sets", h)
			}
		}
	}
	e.c.Count("evaluations", int64(len(e.ids)))
}

// ---------------------------------------------------------------------------------------------------
// enumeration

func permutations(n int) [][]int {
	var out [][]int
	p := make([]int, n)
	for i := range p {
		p[i] = i
	}
	var rec func(k int)
	rec = func(k int) {
		if k == n {
			out = append(out, append([]int{}, p...))
			return
		}
		for i := k; i < n; i++ {
			p[k], p[i] = p[i], p[k]
			rec(k + 1)
			p[k], p[i] = p[i], p[k]
		}
	}
	rec(0)
	sort.Slice(out, func(a, b int) bool {
		for i := 0; i < n; i++ {
			if out[a][i] != out[b][i] {
				return out[a][i] < out[b][i]
			}
		}
		return false
	})
	return out // lexicographic: first = identity, last = reverse
}

// rotationsAndReverse: identity, all rotations, reverse
func rotationsAndReverse(n int) [][]int {
	var out [][]int
	for r := 0; r < n; r++ {
		p := make([]int, n)
		for i := range p {
			p[i] = (i + r) % n
		}
		out = append(out, p)
	}
	if n > 2 {
		p := make([]int, n)
		for i := range p {
			p[i] = n - 1 - i
		}
		out = append(out, p)
	}
	return out
}

type item struct {
	n      int
	assign []int
	perms  [][]int
}

func TestCheck(t *testing.T) {
	vk.Main(t, vk.Spec{
		Prop:  "C18",
		Level: "exploration",
		Rule: "exhaustive enumeration of network configurations: N nodes x one of 4 type sets per node ({tree},{file,tree},{file},{coordinator,consensus}) " +
			"x every order of the node list (thorough: N<=5, then N=6 with identity/rotations/reverse only; quick: N<=3, then N=4 with identity/rotations/reverse only) " +
			"x every asking identity (each node + one client) x 53 space-id forms; every case builds a fresh real nodeconf service (real go-chash ring, 3000 partitions, " +
			"replication factor 3) through its exported API; for the first and the last order the configuration additionally reaches the participant from the store " +
			"and as a runtime update from the configuration source. evaluations = (configuration, order, participant, path, space id) tuples; executions = real ring builds; " +
			"distinct_nontrivial = distinct (sync-node set, replication key, responsible set) triples; ring_selected_sets = those with more sync nodes than the replication factor",
		Assumptions: []string{
			"peer ids are 6 fixed ed25519-derived peer ids + 1 client id; node addresses do not vary",
			"the responsible set of a (sync-node set, replication key) pair is taken from the real ring built for the configuration holding only those sync nodes, asked by a client with the dot-free key (differential reference); size/distinctness/membership of that set are checked directly",
			"configurations with duplicate peer ids are outside the property (rejected by the ring)",
		},
		Budget: func(tier string) time.Duration {
			if tier == "quick" {
				return 75 * time.Second
			}
			return 25 * time.Minute
		},
		// ring builds are dominated by allocation / GC: 8 processes x 2 threads scale better than 1 x 16
		Shards:   func(string) int { return 8 },
		MaxProcs: 2,
	}, body)
}

func silence() {
	logger.SetDefault(zap.NewNop())
	logger.SetNamedLevels([]logger.NamedLevel{{Name: "*", Level: "fatal"}})
}

func body(c *vk.Ctx) {
	silence()
	refs := &refStore{rings: map[string]*refRing{}, c: c}
	if c.Replay != "" {
		replay(c, refs)
		return
	}
	debug.SetGCPercent(400)    // ring builds are allocation-heavy and short-lived
	maxAll := vk.Pick(c, 3, 5) // all orders of the node list up to this N
	maxSub := vk.Pick(c, 4, 6) // identity, rotations and reverse only for N in (maxAll, maxSub]
	c.Bound("max_nodes_all_orders", maxAll)
	c.Bound("max_nodes_rotations_and_reverse_only", maxSub)
	c.Bound("type_sets", typeSetNames)
	c.Bound("replication_factor", nodeconf.ReplicationFactor)
	c.Bound("paths", "init for every order; store, update and store-merge for the first and last order")

	// probe ring: all peers are sync nodes
	var all []nodeSpec
	for _, p := range peers[:maxSub] {
		all = append(all, nodeSpec{PeerId: p, Types: []string{"tree"}})
	}
	probe, err := refs.get(syncOf(all))
	if err != nil {
		c.Violation("configuration rejected", fmt.Sprintf("all-sync configuration of %d nodes: %v", maxSub, err), caseT{all, clientId, "init", "x"})
		return
	}
	ids := spaceIds(c, probe.nc)
	keys := make([]string, len(ids))
	forms := make([]string, len(ids))
	partitions := map[int]bool{}
	keySet := map[string]bool{}
	for i, id := range ids {
		keys[i] = refReplKey(id)
		forms[i] = idForm(id)
		partitions[probe.nc.Partition(keys[i])] = true
		keySet[keys[i]] = true
	}
	c.Bound("space_ids", len(ids))
	c.Bound("distinct_replication_keys", len(keySet))
	c.Bound("distinct_partitions_hit", len(partitions))
	c.Require(len(partitions) >= 20, "space ids hit only %d distinct partitions", len(partitions))
	c.Require(partitions[0] && partitions[probe.nc.CHash().PartitionCount()-1], "no space id in the first/last partition")

	// reference rings for every subset of peers, responsible sets for every key
	for mask := 0; mask < 1<<maxSub; mask++ {
		var s []string
		for i := 0; i < maxSub; i++ {
			if mask&(1<<i) != 0 {
				s = append(s, peers[i])
			}
		}
		sort.Strings(s)
		rr, err := refs.get(s)
		if err != nil {
			c.Violation("configuration rejected", fmt.Sprintf("sync-only configuration %v: %v", short(s), err), nil)
			return
		}
		for _, k := range keys {
			rr.set(c, k)
		}
		// the same sync-only configuration listed in the opposite order must give the same sets
		if len(s) >= 2 {
			var rev []nodeSpec
			for i := len(s) - 1; i >= 0; i-- {
				rev = append(rev, nodeSpec{PeerId: s[i], Types: []string{"tree"}})
			}
			svc, builds, closeFn, err := buildReal(rev, clientId, "init")
			if err != nil {
				c.Violation("configuration rejected", fmt.Sprintf("sync-only configuration %v: %v", short(s), err), caseT{rev, clientId, "init", ""})
				return
			}
			c.Count("executions", int64(builds))
			for _, k := range keys {
				got := append([]string{}, svc.NodeIds(k)...)
				sort.Strings(got)
				c.Count("evaluations", 1)
				if !equalStr(got, rr.memo[k]) {
					c.Violation("responsible set depends on the order of the node list [sync-only configuration, client]",
						fmt.Sprintf("sync nodes %v, client viewpoint, space id %q: listed ascending the responsible set is %v, listed descending it is %v",
							short(s), k, short(rr.memo[k]), short(got)), caseT{rev, clientId, "init", k})
				}
			}
			closeFn()
		}
	}

	// guards: the id forms discriminate between the replication key and other plausible keys
	firstDot, wholeId := false, false
	for _, rr := range refs.rings {
		if len(rr.sync) <= nodeconf.ReplicationFactor {
			continue
		}
		ch := rr.nc.CHash()
		for i, id := range ids {
			memb := func(k string) string {
				var m []string
				for _, x := range ch.GetMembers(k) {
					m = append(m, x.Id())
				}
				sort.Strings(m)
				return strings.Join(m, ",")
			}
			if j := strings.Index(id, "."); j >= 0 && strings.Count(id, ".") >= 2 {
				if memb(id[j+1:]) != memb(keys[i]) {
					firstDot = true
				}
			}
			if strings.Contains(id, ".") && memb(id) != memb(keys[i]) {
				wholeId = true
			}
		}
	}
	for _, rr := range refs.rings {
		rr.nc = nil // only the memoised sets are needed from here on
	}

	// work items
	var items []item
	for n := 1; n <= maxSub; n++ {
		perms := permutations(n)
		if n > maxAll {
			perms = rotationsAndReverse(n)
		}
		total := 1
		for i := 0; i < n; i++ {
			total *= len(typeSets)
		}
		for a := 0; a < total; a++ {
			assign := make([]int, n)
			x := a
			for i := 0; i < n; i++ {
				assign[i] = x % len(typeSets)
				x /= len(typeSets)
			}
			items = append(items, item{n: n, assign: assign, perms: perms})
		}
	}
	// biggest items first, within equal size the ones with most sync nodes first; dealt round-robin to the shard
	// processes, so that every shard gets its part of the all-sync configurations (deterministic)
	nSync := func(it item) int {
		k := 0
		for _, a := range it.assign {
			if refIsSync(typesOf(a)) {
				k++
			}
		}
		return k
	}
	sort.SliceStable(items, func(i, j int) bool {
		si, sj := len(items[i].perms)*items[i].n, len(items[j].perms)*items[j].n
		if si != sj {
			return si > sj
		}
		return nSync(items[i]) > nSync(items[j])
	})
	c.Bound("configurations_total", len(items))
	var mine []item
	for i, it := range items {
		if c.Mine(i) {
			mine = append(mine, it)
		}
	}
	items = mine

	st := &stats{}
	var configs, orders atomic.Int64
	var next atomic.Int64
	var wg sync.WaitGroup
	var timedOut atomic.Bool
	workers := runtime.GOMAXPROCS(0)
	for w := 0; w < workers; w++ {
		wg.Add(1)
		go func() {
			defer wg.Done()
			e := &evaluator{c: c, refs: refs, ids: ids, keys: keys, forms: forms, st: st,
				seenDistinct: map[uint64]struct{}{}, vioLocal: map[string]int{}}
			for {
				i := int(next.Add(1)) - 1
				if i >= len(items) {
					return
				}
				if c.TimeUp() {
					timedOut.Store(true)
					return
				}
				runItem(e, items[i])
				configs.Add(1)
				orders.Add(int64(len(items[i].perms)))
			}
		}()
	}
	wg.Wait()
	if timedOut.Load() {
		c.NotExhaustive("deadline reached before all configurations were evaluated")
	}
	c.Count("configurations", configs.Load())
	c.Count("ordered_configurations", orders.Load())

	// a few actual cases for the evidence (deterministic choice)
	if c.Shard == 0 {
		sampleCases(c, refs, ids, maxSub)
	}

	// vacuity guards (meaningless once the ring itself is shown to violate the property)
	if c.NViolations() > 0 {
		c.Note("shard %d: vacuity guards skipped, violations were found", c.Shard)
		return
	}
	c.Require(firstDot, "vacuity: no multi-dot id whose text after the FIRST dot maps to another member set than its replication key")
	c.Require(wholeId, "vacuity: no dotted id whose full text maps to another member set than its replication key")
	if !timedOut.Load() {
		c.Require(st.selecting.Load(), "vacuity: no configuration with more sync nodes than the replication factor")
		c.Require(st.twoSets.Load(), "vacuity: no configuration in which two space ids map to different responsible sets")
		c.Require(st.syncInside.Load(), "vacuity: no sync node asked about a space it is responsible for")
		c.Require(st.syncOutside.Load(), "vacuity: no sync node asked about a space it is not responsible for")
		c.Require(st.nonSyncAsked.Load() && st.clientAsked.Load(), "vacuity: non-sync node / client viewpoints missing")
		c.Require(st.nonSyncInConf.Load(), "vacuity: no configuration with non-sync nodes")
	}
}

func runItem(e *evaluator, it item) {
	base := make([]nodeSpec, it.n)
	for i := 0; i < it.n; i++ {
		base[i] = nodeSpec{PeerId: peers[i], Types: typesOf(it.assign[i])}
	}
	rr := e.refs.rings[strings.Join(syncOf(base), ",")] // prebuilt; read-only here
	for pi, perm := range it.perms {
		nodes := make([]nodeSpec, it.n)
		for k, src := range perm {
			nodes[k] = base[src]
		}
		usePaths := paths[:1]
		if pi == 0 || pi == len(it.perms)-1 {
			usePaths = paths
		}
		for v := 0; v <= it.n; v++ {
			self := clientId
			if v < it.n {
				self = peers[v]
			}
			for _, path := range usePaths {
				var svc nodeconf.Service
				var builds int
				var closeFn func()
				var err error
				var eff []nodeSpec
				if panicked, what := vk.Recover(func() { svc, builds, closeFn, eff, err = buildRealEff(nodes, self, path) }); panicked {
					e.violation("panic while building the participant's node configuration", func() string { return what }, caseT{nodes, self, path, ""})
					continue
				}
				if err != nil {
					if strings.HasPrefix(err.Error(), "harness:") {
						e.c.Broken("%v (nodes %v self %s path %s)", err, nodes, short1(self), path)
					} else {
						e.violation("configuration rejected", func() string {
							return fmt.Sprintf("nodes %v, participant %s, path %s: %v", nodes, short1(self), path, err)
						},
							caseT{nodes, self, path, ""})
					}
					continue
				}
				e.c.Count("executions", int64(builds))
				rrUse := rr
				if len(eff) != len(nodes) {
					if rrUse, err = e.refs.get(syncOf(eff)); err != nil {
						e.c.Broken("reference ring for the merged configuration: %v", err)
						closeFn()
						continue
					}
					e.fillMemo(rrUse)
				}
				e.evalParticipant(svc, rrUse, eff, self, path)
				closeFn()
			}
		}
	}
}

func sampleCases(c *vk.Ctx, refs *refStore, ids []string, n int) {
	nodes := make([]nodeSpec, n)
	for i := 0; i < n; i++ {
		nodes[i] = nodeSpec{PeerId: peers[i], Types: typesOf([]int{0, 1, 0, 0, 3, 2}[i])}
	}
	for _, self := range []string{peers[0], clientId} {
		svc, _, closeFn, err := buildReal(nodes, self, "init")
		if err != nil {
			continue
		}
		for _, id := range []string{"abc", pfxA + ".2lcu0r85yg10d", "x.y.z"} {
			c.Sample(map[string]any{"nodes": nodes, "self": short1(self), "spaceId": id, "replKey": refReplKey(id),
				"NodeIds": short(svc.NodeIds(id)), "IsResponsible": svc.IsResponsible(id), "Partition": svc.Partition(id)})
		}
		closeFn()
	}
}

// ---------------------------------------------------------------------------------------------------
// replay

func replay(c *vk.Ctx, refs *refStore) {
	var rf struct {
		Case caseT `json:"case"`
	}
	if err := vk.ReadJSON(c.Replay, &rf); err != nil {
		c.Broken("replay file: %v", err)
		return
	}
	cs := rf.Case
	if cs.Path == "" {
		cs.Path = "init"
	}
	svc, builds, closeFn, eff, err := buildRealEff(cs.Nodes, cs.Self, cs.Path)
	if err != nil {
		c.Violation("replayed: configuration rejected", err.Error(), cs)
		return
	}
	defer closeFn()
	// the reference is that of the configuration the participant reports (store-merge: possibly the merged one)
	rr, err := refs.get(syncOf(eff))
	if err != nil {
		c.Violation("replayed: configuration rejected", err.Error(), cs)
		return
	}
	key := refReplKey(cs.SpaceId)
	rr.set(c, key)
	c.Count("executions", int64(builds))
	st := &stats{}
	e := &evaluator{c: c, refs: refs, ids: []string{cs.SpaceId}, keys: []string{key}, forms: []string{idForm(cs.SpaceId)}, st: st,
		seenDistinct: map[uint64]struct{}{}, vioLocal: map[string]int{}}
	before := c.NViolations()
	e.evalParticipant(svc, rr, eff, cs.Self, cs.Path)
	if c.NViolations() == before {
		fmt.Println("replay: case no longer violates the property")
	}
}
