// C13 — Space id binds header, ACL root and settings root; 1-1 derivation is symmetric.
//
// Bounded exhaustive mutation enumeration on the real validators (spacepayloads.ValidateSpaceStorageCreatePayload,
// spacepayloads.ValidateSpaceHeader): seeds from every payload constructor, every single byte / single character /
// single field mutation of every one of the six parts, all truncations / extensions, all cross-splices of two valid
// spaces, and the one-to-one derivation for all ordered pairs of 8 seeded key pairs.
//
// The expected verdict of a mutant is computed by a small reference next to the check (seed.expect): a mutant must
// be rejected when a changed part's id is no longer the content hash of its bytes ("hash"), when signed bytes or a
// signature changed ("signature"), or when the part is pinned by another part ("cross-part"). The only mutants
// that are NOT required to be rejected are consistent re-encodings of an unsigned Raw* wrapper with the part's id
// recomputed where no other part pins that id (DESIGN, "consistent re-encoding" sub-family): they are counted as
// informational_malleable.
package c13

import (
	"bytes"
	"crypto/ed25519"
	"crypto/rand"
	"crypto/sha256"
	"encoding/binary"
	"errors"
	"fmt"
	"regexp"
	"sort"
	"strconv"
	"strings"
	"sync"
	"sync/atomic"
	"testing"
	"testing/synctest"
	"time"

	"context"

	"github.com/anyproto/any-sync/commonspace"
	"github.com/anyproto/any-sync/commonspace/object/acl/aclrecordproto"
	"github.com/anyproto/any-sync/commonspace/object/tree/objecttree"
	"github.com/anyproto/any-sync/commonspace/object/tree/treechangeproto"
	"github.com/anyproto/any-sync/commonspace/spacepayloads"
	"github.com/anyproto/any-sync/commonspace/spacestorage"
	"github.com/anyproto/any-sync/commonspace/spacesyncproto"
	"github.com/anyproto/any-sync/consensus/consensusproto"
	"github.com/anyproto/any-sync/util/cidutil"
	"github.com/anyproto/any-sync/util/crypto"
	"google.golang.org/protobuf/proto"

	"verif/lib/vk"
)

// ---------------------------------------------------------------------------------------------------------------
// payload parts

const (
	slotHdr = 0
	slotAcl = 1
	slotSet = 2
)

var slotName = [3]string{"hdr", "acl", "set"}

type parts struct {
	HdrRaw []byte `json:"hdr_raw"`
	HdrId  string `json:"hdr_id"`
	AclRaw []byte `json:"acl_raw"`
	AclId  string `json:"acl_id"`
	SetRaw []byte `json:"set_raw"`
	SetId  string `json:"set_id"`
}

func (p *parts) raw(slot int) *[]byte {
	switch slot {
	case slotHdr:
		return &p.HdrRaw
	case slotAcl:
		return &p.AclRaw
	}
	return &p.SetRaw
}

func (p *parts) id(slot int) *string {
	switch slot {
	case slotHdr:
		return &p.HdrId
	case slotAcl:
		return &p.AclId
	}
	return &p.SetId
}

func (p parts) equal(q parts) bool {
	return p.HdrId == q.HdrId && p.AclId == q.AclId && p.SetId == q.SetId &&
		bytes.Equal(p.HdrRaw, q.HdrRaw) && bytes.Equal(p.AclRaw, q.AclRaw) && bytes.Equal(p.SetRaw, q.SetRaw)
}

func (p parts) withRaw(slot int, b []byte) parts { *p.raw(slot) = b; return p }
func (p parts) withId(slot int, s string) parts  { *p.id(slot) = s; return p }

func (p parts) payload() spacestorage.SpaceStorageCreatePayload {
	return spacestorage.SpaceStorageCreatePayload{
		AclWithId:           &consensusproto.RawRecordWithId{Payload: p.AclRaw, Id: p.AclId},
		SpaceHeaderWithId:   &spacesyncproto.RawSpaceHeaderWithId{RawHeader: p.HdrRaw, Id: p.HdrId},
		SpaceSettingsWithId: &treechangeproto.RawTreeChangeWithId{RawChange: p.SetRaw, Id: p.SetId},
	}
}

func fromPayload(sp spacestorage.SpaceStorageCreatePayload) parts {
	return parts{
		HdrRaw: sp.SpaceHeaderWithId.RawHeader, HdrId: sp.SpaceHeaderWithId.Id,
		AclRaw: sp.AclWithId.Payload, AclId: sp.AclWithId.Id,
		SetRaw: sp.SpaceSettingsWithId.RawChange, SetId: sp.SpaceSettingsWithId.Id,
	}
}

func cidOf(b []byte) string {
	s, err := cidutil.NewCidFromBytes(b)
	if err != nil {
		panic(err)
	}
	return s
}

// splitWrapper decodes the unsigned outer wrapper of a part into (signed bytes, signature).
func splitWrapper(slot int, raw []byte) (signed, sig []byte, ok bool) {
	switch slot {
	case slotHdr:
		var w spacesyncproto.RawSpaceHeader
		if w.UnmarshalVT(raw) != nil {
			return nil, nil, false
		}
		return w.SpaceHeader, w.Signature, true
	case slotAcl:
		var w consensusproto.RawRecord
		if w.UnmarshalVT(raw) != nil {
			return nil, nil, false
		}
		return w.Payload, w.Signature, true
	default:
		var w treechangeproto.RawTreeChange
		if w.UnmarshalVT(raw) != nil {
			return nil, nil, false
		}
		return w.Payload, w.Signature, true
	}
}

// hdrIdFor is the space id a header with these bytes would have: CID + "." + base36(replication key in the header).
func hdrIdFor(raw []byte, fallbackRepKey uint64) string {
	rk := fallbackRepKey
	if signed, _, ok := splitWrapper(slotHdr, raw); ok {
		var h spacesyncproto.SpaceHeader
		if h.UnmarshalVT(signed) == nil {
			rk = h.ReplicationKey
		}
	}
	return cidOf(raw) + "." + strconv.FormatUint(rk, 36)
}

// ---------------------------------------------------------------------------------------------------------------
// seeds

type seed struct {
	Ctor    string `json:"ctor"`
	Variant string `json:"variant"`
	V1      bool   `json:"v1"`
	O2O     bool   `json:"o2o"`
	RepKey  uint64 `json:"rep_key"`
	Owner   []byte `json:"owner"` // marshalled identity of the header
	P       parts  `json:"parts"`

	owner  crypto.PubKey
	signed [3][]byte
	sig    [3][]byte
	// keys of the space's owner (family D re-signs with them); not part of a replay case
	signKey, masterKey crypto.PrivKey
}

func (s *seed) name() string { return s.Ctor + "/" + s.Variant }

// finish decodes what the reference needs from the seed bytes.
func (s *seed) finish() error {
	for sl := 0; sl < 3; sl++ {
		var ok bool
		s.signed[sl], s.sig[sl], ok = splitWrapper(sl, *s.P.raw(sl))
		if !ok {
			return fmt.Errorf("%s: wrapper of %s does not decode", s.name(), slotName[sl])
		}
	}
	var h spacesyncproto.SpaceHeader
	if err := h.UnmarshalVT(s.signed[slotHdr]); err != nil {
		return err
	}
	s.V1 = h.Version == spacesyncproto.SpaceHeaderVersion_SpaceHeaderVersion1
	s.O2O = spacepayloads.IsOneToOneType(h.SpaceType)
	s.RepKey = h.ReplicationKey
	s.Owner = h.Identity
	pk, err := crypto.UnmarshalEd25519PublicKeyProto(h.Identity)
	if err != nil {
		return err
	}
	s.owner = pk
	return nil
}

func (s *seed) idMatches(m parts, slot int) bool {
	if slot == slotHdr {
		return m.HdrId == hdrIdFor(m.HdrRaw, s.RepKey)
	}
	return *m.id(slot) == cidOf(*m.raw(slot))
}

func (s *seed) sameSigned(slot int, raw []byte) bool {
	signed, sig, ok := splitWrapper(slot, raw)
	return ok && bytes.Equal(signed, s.signed[slot]) && bytes.Equal(sig, s.sig[slot])
}

// pinned is the reference table of DESIGN: is the id of this part committed to by a *signed* field of another part?
func pinned(v1 bool, slot int) bool {
	switch slot {
	case slotHdr:
		return !v1 // v0: the ACL root and the settings root embed the space id
	case slotAcl:
		return true // v0: settings root's AclHeadId; v1: header embeds the bytes (and settings' AclHeadId)
	default:
		return v1 // v1: header embeds the bytes; v0: nothing names the settings id
	}
}

const (
	oSkip = iota
	oHard
	oInfo
)

// expect is the reference verdict for a mutant of this seed.
func (s *seed) expect(m parts) (oracle int, cat string) {
	nChanged := 0
	hashBad, signedChanged, pin := false, false, false
	for sl := 0; sl < 3; sl++ {
		rc := !bytes.Equal(*m.raw(sl), *s.P.raw(sl))
		ic := *m.id(sl) != *s.P.id(sl)
		if !rc && !ic {
			continue
		}
		nChanged++
		if !s.idMatches(m, sl) {
			hashBad = true
		}
		if rc && !s.sameSigned(sl, *m.raw(sl)) {
			signedChanged = true
		}
		if pinned(s.V1, sl) {
			pin = true
		}
	}
	switch {
	case nChanged == 0:
		return oSkip, ""
	case hashBad:
		return oHard, "hash"
	case signedChanged:
		return oHard, "signature"
	case pin:
		return oHard, "cross-part"
	}
	return oInfo, "re-encoding-unpinned"
}

// expectHeaderAlone is the reference verdict of ValidateSpaceHeader(header, identity, nil, nil).
func (s *seed) expectHeaderAlone(m parts) (oracle int, cat string) {
	rc := !bytes.Equal(m.HdrRaw, s.P.HdrRaw)
	ic := m.HdrId != s.P.HdrId
	switch {
	case !rc && !ic:
		return oSkip, ""
	case !s.idMatches(m, slotHdr):
		return oHard, "hash"
	case rc && !s.sameSigned(slotHdr, m.HdrRaw):
		return oHard, "signature"
	}
	return oInfo, "re-encoding-unpinned"
}

func detKey(label string) crypto.PrivKey {
	h := sha256.Sum256([]byte("verif-c13-key-" + label))
	return crypto.NewEd25519PrivKey(ed25519.NewKeyFromSeed(h[:]))
}

func detSym(label string) crypto.SymKey {
	h := sha256.Sum256([]byte("verif-c13-sym-" + label))
	k, err := crypto.DeriveSymmetricKey(h[:], crypto.AnysyncSpacePath)
	if err != nil {
		panic(err)
	}
	return k
}

// detReader is a deterministic byte stream (SHA-256 in counter mode) standing in for crypto/rand.Reader while the
// seeds are built, so that two runs enumerate exactly the same mutants.
type detReader struct {
	ctr uint64
	buf []byte
}

func (r *detReader) Read(p []byte) (int, error) {
	for i := range p {
		if len(r.buf) == 0 {
			var in [24]byte
			copy(in[:], "verif-c13-rand--")
			binary.BigEndian.PutUint64(in[16:], r.ctr)
			r.ctr++
			h := sha256.Sum256(in[:])
			r.buf = h[:]
		}
		p[i] = r.buf[0]
		r.buf = r.buf[1:]
	}
	return len(p), nil
}

var theT *testing.T

// deterministically runs f with crypto/rand.Reader replaced by a fixed stream and inside a synctest bubble (fake
// clock: time.Now() is 2000-01-01T00:00:00Z), single-threaded, before any worker goroutine exists.
func deterministically(f func()) {
	old := rand.Reader
	rand.Reader = &detReader{}
	defer func() { rand.Reader = old }()
	synctest.Test(theT, func(*testing.T) { f() })
}

var ctorNames = []string{"create_v0", "create_v1", "derive_v0", "derive_v1", "o2o_anytype", "o2o_any"}

// buildSeed builds variant a|b|c of a constructor's payload. a and c have the same owner keys (two spaces of one
// owner), b has other keys.
func buildSeed(ctor, variant string) (*seed, error) {
	owner := "owner1"
	if variant == "b" {
		owner = "owner2"
	}
	sign, master, meta := detKey(owner+"-sign"), detKey(owner+"-master"), detKey(owner+"-meta-"+variant)
	vn := map[string]uint64{"a": 1, "b": 2, "c": 3}[variant]
	var sp spacestorage.SpaceStorageCreatePayload
	var err error
	signKey, masterKey := sign, master
	switch ctor {
	case "create_v0", "create_v1":
		cp := spacepayloads.SpaceCreatePayload{
			SigningKey:     sign,
			SpaceType:      "verif.c13.space",
			ReplicationKey: 0x0123456789abcd00 + vn*0x1111,
			SpacePayload:   []byte("header payload " + variant),
			MasterKey:      master,
			ReadKey:        detSym(owner + variant),
			MetadataKey:    meta,
			Metadata:       []byte("owner metadata " + variant),
		}
		if variant != "b" {
			cp.Options = &aclrecordproto.AclSpaceOptions{DeleteRestricted: true}
			cp.FileProtoVersion = spacesyncproto.SpaceFileProtoVersion_SpaceFileProtoVersionV2
		}
		if ctor == "create_v0" {
			sp, err = spacepayloads.StoragePayloadForSpaceCreate(cp)
		} else {
			sp, err = spacepayloads.StoragePayloadForSpaceCreateV1(cp)
		}
	case "derive_v0", "derive_v1":
		dp := spacepayloads.SpaceDerivePayload{
			SigningKey:   sign,
			MasterKey:    master,
			SpaceType:    "verif.c13.derived." + variant,
			SpacePayload: []byte("derived payload " + variant),
		}
		if variant == "b" {
			dp.FileProtoVersion = spacesyncproto.SpaceFileProtoVersion_SpaceFileProtoVersionV2
		}
		if ctor == "derive_v0" {
			sp, err = spacepayloads.StoragePayloadForSpaceDerive(dp)
		} else {
			sp, err = spacepayloads.StoragePayloadForSpaceDeriveV1(dp)
		}
	case "o2o_anytype", "o2o_any":
		// a = (k0,k1), b = (k2,k3), c = (k0,k2)
		pair := map[string][2]int{"a": {0, 1}, "b": {2, 3}, "c": {0, 2}}[variant]
		x, y := o2oKey(pair[0]), o2oKey(pair[1])
		if signKey, err = crypto.GenerateSharedKey(x, y.GetPublic(), crypto.AnysyncOneToOneSpacePath); err != nil {
			return nil, err
		}
		masterKey = signKey
		if ctor == "o2o_anytype" {
			sp, err = spacepayloads.StoragePayloadForOneToOneSpace(x, y.GetPublic())
		} else {
			sp, err = spacepayloads.StoragePayloadForOneToOneSpaceWithType(x, y.GetPublic(), spacepayloads.SpaceTypeOneToOneAny)
		}
	default:
		return nil, fmt.Errorf("unknown constructor %q", ctor)
	}
	if err != nil {
		return nil, fmt.Errorf("%s/%s: %w", ctor, variant, err)
	}
	s := &seed{Ctor: ctor, Variant: variant, P: fromPayload(sp), signKey: signKey, masterKey: masterKey}
	if err := s.finish(); err != nil {
		return nil, err
	}
	return s, nil
}

// ---------------------------------------------------------------------------------------------------------------
// evaluation

var (
	reHex   = regexp.MustCompile(`[0-9a-fA-F]{8,}`)
	reDigit = regexp.MustCompile(`[0-9]+`)
)

// errClass maps an error of the validators to a loose class (used for coverage keys and vacuity guards only).
func errClass(err error) string {
	switch {
	case err == nil:
		return "accepted"
	case errors.Is(err, objecttree.ErrIncorrectCid):
		return "ErrIncorrectCid"
	case errors.Is(err, spacestorage.ErrIncorrectSpaceHeader):
		return "ErrIncorrectSpaceHeader"
	case errors.Is(err, spacepayloads.ErrIncorrectOneToOnePayload):
		return "ErrIncorrectOneToOnePayload"
	case errors.Is(err, spacepayloads.ErrIncorrectIdentity):
		return "ErrIncorrectIdentity"
	}
	s := err.Error()
	s = reHex.ReplaceAllString(s, "#")
	s = reDigit.ReplaceAllString(s, "#")
	if len(s) > 60 {
		s = s[:60]
	}
	return "other:" + s
}

type replayCase struct {
	Family    string `json:"family"` // mutant | splice | one2one | seed
	Kind      string `json:"kind,omitempty"`
	Part      string `json:"part,omitempty"`
	Desc      string `json:"desc,omitempty"`
	Validator string `json:"validator,omitempty"` // storage | header
	Seed      *seed  `json:"seed,omitempty"`
	Other     *seed  `json:"other,omitempty"` // second source of a splice
	Mutant    *parts `json:"mutant,omitempty"`
	// one-to-one
	A    int    `json:"a,omitempty"`
	B    int    `json:"b,omitempty"`
	C    int    `json:"c,omitempty"`
	Type string `json:"type,omitempty"`
}

type evaluator struct {
	c        *vk.Ctx
	mu       sync.Mutex
	info     map[string]map[string]int // class -> re-encoding -> count
	sampled  sync.Map
	nSamples atomic.Int64
	nForged  atomic.Int64
	nSplice  atomic.Int64
}

func (e *evaluator) informational(class, what string) {
	e.mu.Lock()
	defer e.mu.Unlock()
	if e.info == nil {
		e.info = map[string]map[string]int{}
	}
	if e.info[class] == nil {
		e.info[class] = map[string]int{}
	}
	e.info[class][what]++
}

func (e *evaluator) reportInformational() {
	var classes []string
	for k := range e.info {
		classes = append(classes, k)
	}
	sort.Strings(classes)
	for _, k := range classes {
		var ws []string
		n := 0
		for w, cnt := range e.info[k] {
			ws = append(ws, w)
			n += cnt
		}
		sort.Strings(ws)
		e.c.Note("informational, never flagged (outside the property's quantifier: every hash and signature verifies and no signed field of another part pins the edited id / field): %s — %d accepted: %s", k, n, strings.Join(ws, ", "))
	}
}

func validateStorage(p parts) (err error, panicked bool, what string) {
	panicked, what = vk.Recover(func() { err = spacepayloads.ValidateSpaceStorageCreatePayload(p.payload()) })
	if !panicked {
		// the same payload through the service's entry point for created / pushed / pulled payloads: same verdict,
		// and a refused payload must not have reached the storage provider
		prov := &recProvider{}
		var serr error
		if pp, pw := vk.Recover(func() { _, serr = commonspace.VerifCreateSpaceStorage(context.Background(), prov, p.payload()) }); pp {
			return err, true, "spaceService.createSpaceStorage: " + pw
		}
		switch {
		case (serr == nil) != (err == nil):
			svcVerdictDiffers.Add(1)
		case err != nil && prov.created > 0:
			svcStoredRefused.Add(1)
		}
		svcCalls.Add(1)
	}
	return
}

// svcStoredRefused counts refused payloads that nevertheless reached the storage provider (reported once per run).
var svcStoredRefused, svcVerdictDiffers, svcCalls atomic.Int64

// recProvider records what reaches the storage provider.
type recProvider struct {
	spacestorage.SpaceStorageProvider
	created int
}

func (r *recProvider) CreateSpaceStorage(ctx context.Context, payload spacestorage.SpaceStorageCreatePayload) (spacestorage.SpaceStorage, error) {
	r.created++
	return closeOnly{}, nil
}

// closeOnly is the storage handed back by recProvider: callers of createSpaceStorage may only close it.
type closeOnly struct{ spacestorage.SpaceStorage }

func (closeOnly) Close(context.Context) error { return nil }

func validateHeader(p parts, identity crypto.PubKey) (err error, panicked bool, what string) {
	panicked, what = vk.Recover(func() {
		_, err = spacepayloads.ValidateSpaceHeader(&spacesyncproto.RawSpaceHeaderWithId{RawHeader: p.HdrRaw, Id: p.HdrId}, identity, nil, nil)
	})
	return
}

func kindClass(kind string) string {
	// kinds may carry a "+cid" style suffix; the violation key keeps it (it is part of the input class)
	return kind
}

// eval runs both validators on one mutant of seed s and compares with the reference verdict.
func (e *evaluator) eval(s *seed, part, kind, desc string, m parts) {
	c := e.c
	oracle, cat := s.expect(m)
	if oracle == oSkip {
		c.Count("skipped_identical_to_seed", 1)
		return
	}
	err, panicked, what := validateStorage(m)
	c.Count("evaluations", 1)
	c.Count("executions", 1)
	cls := errClass(err)
	if panicked {
		cls = "panic"
	}
	c.Distinct("distinct", s.Ctor+"|"+part+"|"+kind+"|"+cat+"|"+cls)
	c.Distinct("error_class", cls)
	rc := func(validator string) replayCase {
		mm := m
		return replayCase{Family: "mutant", Kind: kind, Part: part, Desc: desc, Validator: validator, Seed: s, Mutant: &mm}
	}
	ver := "v0"
	if s.V1 {
		ver = "v1"
	}
	switch {
	case panicked:
		c.Violation(fmt.Sprintf("panic in ValidateSpaceStorageCreatePayload: ctor=%s part=%s kind=%s", s.Ctor, part, kindClass(kind)),
			fmt.Sprintf("%s %s %s [%s]: %s", s.name(), part, kind, desc, what), rc("storage"))
	case err == nil && oracle == oHard:
		c.Violation(fmt.Sprintf("mutant accepted: ctor=%s part=%s kind=%s must-fail=%s", s.Ctor, part, kindClass(kind), cat),
			fmt.Sprintf("ValidateSpaceStorageCreatePayload accepted a mutant of the %s payload (%s): part %s, %s [%s]; reference: must be rejected (%s)",
				s.name(), ver, part, kind, desc, cat), rc("storage"))
	case err == nil && oracle == oInfo:
		c.Count("informational_malleable", 1)
		k := fmt.Sprintf("storage-validator %s part=%s kind=%s %s", ver, part, kind, descClass(desc))
		c.Distinct("informational", k)
		e.informational(fmt.Sprintf("ValidateSpaceStorageCreatePayload, %s payloads, part %s", ver, part), kind+" "+descClass(desc))
	case oracle == oInfo:
		c.Count("informational_reencoding_rejected", 1)
	default:
		c.Count("rejected_"+cat, 1)
	}
	if _, seen := e.sampled.LoadOrStore(part+kind, true); !seen && oracle == oHard && err != nil && part != "hdr.raw" && e.nSamples.Add(1) <= 3 {
		c.Sample(map[string]any{"seed": s.name(), "part": part, "kind": kind, "mutation": desc, "must_fail": cat, "verdict": cls})
	}

	// ValidateSpaceHeader alone (the push/pull path validates a header together with the caller's identity)
	ho, hcat := s.expectHeaderAlone(m)
	if ho == oSkip {
		return
	}
	herr, hp, hwhat := validateHeader(m, s.owner)
	c.Count("evaluations", 1)
	c.Count("executions", 1)
	hcls := errClass(herr)
	if hp {
		hcls = "panic"
	}
	c.Distinct("distinct", s.Ctor+"|header-alone|"+part+"|"+kind+"|"+hcat+"|"+hcls)
	c.Distinct("error_class", hcls)
	switch {
	case hp:
		c.Violation(fmt.Sprintf("panic in ValidateSpaceHeader: ctor=%s part=%s kind=%s", s.Ctor, part, kindClass(kind)),
			fmt.Sprintf("%s %s %s [%s]: %s", s.name(), part, kind, desc, hwhat), rc("header"))
	case herr == nil && ho == oHard:
		c.Violation(fmt.Sprintf("mutant header accepted: ctor=%s part=%s kind=%s must-fail=%s", s.Ctor, part, kindClass(kind), hcat),
			fmt.Sprintf("ValidateSpaceHeader accepted a mutant header of the %s payload (%s): part %s, %s [%s]; reference: must be rejected (%s)",
				s.name(), ver, part, kind, desc, hcat), rc("header"))
	case herr == nil:
		c.Count("informational_malleable_header_alone", 1)
		k := fmt.Sprintf("header-validator %s part=%s kind=%s %s", ver, part, kind, descClass(desc))
		c.Distinct("informational", k)
		e.informational(fmt.Sprintf("ValidateSpaceHeader alone (yields another self-consistent space id for the same signed header), %s payloads, part %s", ver, part), kind+" "+descClass(desc))
	case ho == oHard:
		c.Count("header_alone_rejected_"+hcat, 1)
	}
}

var reOffset = regexp.MustCompile(`\[[0-9]+\]|@[0-9]+|=[0-9a-fx"\\]+`)

func descClass(desc string) string { return reOffset.ReplaceAllString(desc, "") }

// evalSplice: parts taken from two valid spaces. Must be rejected unless the result is one of the two sources.
func (e *evaluator) evalSplice(a, b *seed, mask int) {
	c := e.c
	m := a.P
	var from []string
	for sl := 0; sl < 3; sl++ {
		if mask&(1<<sl) != 0 {
			m = m.withRaw(sl, *b.P.raw(sl)).withId(sl, *b.P.id(sl))
			from = append(from, slotName[sl])
		}
	}
	desc := strings.Join(from, "+") + " from " + b.name() + ", rest from " + a.name()
	if m.equal(a.P) || m.equal(b.P) {
		c.Count("skipped_identical_to_seed", 1)
		return
	}
	err, panicked, what := validateStorage(m)
	c.Count("evaluations", 1)
	c.Count("executions", 1)
	cls := errClass(err)
	if panicked {
		cls = "panic"
	}
	c.Distinct("distinct", a.Ctor+"|"+b.Ctor+"/"+b.Variant+"|X|"+strings.Join(from, "+")+"|"+cls)
	c.Distinct("error_class", cls)
	mm := m
	rc := replayCase{Family: "splice", Kind: "X", Part: strings.Join(from, "+"), Desc: desc, Validator: "storage", Seed: a, Other: b, Mutant: &mm}
	owner := "other-owner"
	if b.Variant == "c" && !b.O2O && !a.O2O {
		owner = "same-owner"
	}
	switch {
	case panicked:
		c.Violation(fmt.Sprintf("panic in ValidateSpaceStorageCreatePayload: splice %s<-%s parts=%s", a.Ctor, b.Ctor, rc.Part), desc+": "+what, rc)
	case err == nil:
		c.Violation(fmt.Sprintf("cross-splice accepted: %s<-%s (%s) parts=%s", a.Ctor, b.Ctor, owner, rc.Part),
			"ValidateSpaceStorageCreatePayload accepted a payload combining parts of two different valid spaces: "+desc, rc)
	default:
		c.Count("rejected_cross-part", 1)
		c.Count("rejected_splices", 1)
		if mask == 2 && a.Ctor != b.Ctor && e.nSplice.Add(1) <= 1 {
			c.Sample(map[string]any{"seed": a.name(), "part": rc.Part, "kind": "X", "mutation": desc, "must_fail": "cross-part", "verdict": cls})
		}
	}
}

// ---------------------------------------------------------------------------------------------------------------
// enumeration

type job func()

func TestCheck(t *testing.T) {
	theT = t
	vk.Main(t, vk.Spec{
		Prop:  "C13",
		Level: "exploration",
		Rule: "seeds: every payload constructor (create v0/v1, derive v0/v1, one-to-one anytype/any) x 3 seeded key variants; " +
			"mutants of each of the 6 parts: B1 every byte offset x {^b,b^1,b^0x80,b+1,00,FF} (thorough: all 255 values), without and with the part's CID recomputed; " +
			"B2 every truncation length and 1 B / 1 KiB extension; every id character x 2 (thorough: 36) other characters, truncation, extension, " +
			"replication-key suffix/separator edits, ids exchanged; F1 every field of RawSpaceHeader/SpaceHeader/RawRecord/AclRoot/RawTreeChange/RootChange " +
			"(and of the payloads embedded in v1 headers) zeroed/flipped/replaced by the value of another valid space, re-marshalled without re-signing, id kept and id recomputed; " +
			"10 wire-level re-encodings of each unsigned wrapper; X all 6 cross-splices for every ordered constructor pair x {other owner, same owner}; " +
			"one-to-one: all ordered pairs of 8 key pairs x both types x every third party. " +
			"distinct_nontrivial = distinct (constructor, part, mutation kind, reference reason, validator error class) tuples, all non-trivial (every mutant differs from its seed)",
		Assumptions: []string{
			"Ed25519 / SHA-256 are not broken: a mutant that changes signed bytes or a signature cannot verify, a changed part cannot keep its CID",
			"constructors draw timestamps / random seeds / nonces internally; the seed bytes of a failing case are recorded in its replay file",
			"consistent re-encodings (unsigned wrapper edited AND id recomputed) are outside the property's quantifier; they must be rejected only where a signed field of another part pins the id (reference table pinned())",
		},
		Budget: func(tier string) time.Duration {
			if tier == "quick" {
				return 50 * time.Second
			}
			return 25 * time.Minute
		},
	}, body)
}

func body(c *vk.Ctx) {
	if c.Replay != "" {
		var rf struct {
			Case replayCase `json:"case"`
		}
		if err := vk.ReadJSON(c.Replay, &rf); err == nil && rf.Case.Family == "service" {
			// a statement about all payloads of a run: the run is repeated
			c.Replay = ""
		} else {
			replay(c)
			return
		}
	}
	all := !c.Quick()
	c.Bound("byte_values_per_offset", vk.Pick(c, 6, 255))
	c.Bound("id_char_values_per_position", vk.Pick(c, 2, 36))
	c.Bound("constructors", len(ctorNames))
	c.Bound("one_to_one_key_pairs", nO2OKeys)

	e := &evaluator{c: c}

	// seeds
	seeds := map[string]map[string]*seed{}
	var mutSeeds []*seed
	var buildErr error
	deterministically(func() {
		for _, ctor := range ctorNames {
			seeds[ctor] = map[string]*seed{}
			for _, v := range []string{"a", "b", "c"} {
				s, err := buildSeed(ctor, v)
				if err != nil {
					buildErr = err
					return
				}
				seeds[ctor][v] = s
			}
		}
	})
	if buildErr != nil {
		c.Broken("constructor failed: %v", buildErr)
		return
	}
	okSeeds := 0
	for _, ctor := range ctorNames {
		for _, v := range []string{"a", "b", "c"} {
			s := seeds[ctor][v]
			err, panicked, what := validateStorage(s.P)
			herr, hp, hwhat := validateHeader(s.P, s.owner)
			c.Count("evaluations", 2)
			c.Count("executions", 2)
			switch {
			case panicked || hp:
				c.Violation("panic on unmutated payload: ctor="+ctor, s.name()+": "+what+hwhat, replayCase{Family: "seed", Seed: s})
			case err != nil:
				c.Violation("valid payload rejected: ctor="+ctor+" validator=storage", fmt.Sprintf("%s: ValidateSpaceStorageCreatePayload rejects the constructor's own payload: %v", s.name(), err), replayCase{Family: "seed", Seed: s})
			case herr != nil:
				c.Violation("valid payload rejected: ctor="+ctor+" validator=header", fmt.Sprintf("%s: ValidateSpaceHeader rejects the constructor's own header with the owner's identity: %v", s.name(), herr), replayCase{Family: "seed", Seed: s})
			default:
				okSeeds++
				c.Distinct("distinct", ctor+"|seed|accepted")
				if v != "c" {
					mutSeeds = append(mutSeeds, s)
				}
			}
			// informational: a foreign identity on the header path (not part of the mutation quantifier)
			if !s.O2O {
				other := detKey("stranger").GetPublic()
				if oe, _, _ := validateHeader(s.P, other); oe != nil {
					c.Count("info_foreign_identity_rejected", 1)
				} else {
					c.Count("info_foreign_identity_accepted", 1)
				}
			}
		}
	}
	c.Bound("seeds", okSeeds)
	if c.NViolations() == 0 {
		c.Require(okSeeds == 3*len(ctorNames), "vacuity: only %d of %d seeds accepted", okSeeds, 3*len(ctorNames))
	}
	for _, s := range mutSeeds {
		sanity(c, s)
	}

	// jobs
	jobs := make(chan job, 256)
	var wg sync.WaitGroup
	var timedOut atomic.Bool
	for w := 0; w < 16; w++ {
		wg.Add(1)
		go func() {
			defer wg.Done()
			for j := range jobs {
				if timedOut.Load() {
					continue
				}
				if c.TimeUp() {
					timedOut.Store(true)
					continue
				}
				j()
			}
		}()
	}
	var reencOK atomic.Int64
	for _, s := range mutSeeds {
		donor := seeds[s.Ctor]["b"]
		if s.Variant == "b" {
			donor = seeds[s.Ctor]["a"]
		}
		genByteJobs(e, s, all, jobs)
		jobs <- func() { genIdMutants(e, s, donor, all) }
		jobs <- func() { genF1(e, s, donor, &reencOK) }
		jobs <- func() { genForged(e, s, donor) }
	}
	// cross-splices
	for _, ca := range ctorNames {
		for _, cb := range ctorNames {
			a := seeds[ca]["a"]
			for _, bv := range []string{"b", "c"} {
				b := seeds[cb][bv]
				jobs <- func() {
					for mask := 1; mask <= 6; mask++ {
						e.evalSplice(a, b, mask)
					}
				}
			}
		}
	}
	jobs <- func() { oneToOne(c) }
	close(jobs)
	wg.Wait()
	e.reportInformational()
	// the service's entry point for created / pushed / pulled payloads (every payload above also went through it)
	c.Count("service_entry_point_calls", svcCalls.Load())
	if n := svcVerdictDiffers.Load(); n > 0 {
		c.Violation("service entry point: verdict differs from the validator", fmt.Sprintf("spaceService.createSpaceStorage and ValidateSpaceStorageCreatePayload disagreed on %d payloads", n), replayCase{Family: "service"})
	}
	if n := svcStoredRefused.Load(); n > 0 {
		c.Violation("service entry point: refused payload reached the storage provider", fmt.Sprintf("%d payloads that spaceService.createSpaceStorage refused had already been handed to SpaceStorageProvider.CreateSpaceStorage (a refused space must not be stored under its id)", n), replayCase{Family: "service"})
	}
	if timedOut.Load() {
		c.NotExhaustive("deadline reached before all mutants were evaluated")
		return
	}

	// vacuity guards (loose, on the reference's reason classes — never an oracle)
	if c.NViolations() == 0 {
		get := func(n string) int64 { return c.Counter(n).Load() }
		c.Require(get("rejected_hash") >= 10000, "vacuity: only %d mutants rejected for a content-hash mismatch", get("rejected_hash"))
		c.Require(get("rejected_signature") >= 1000, "vacuity: only %d mutants with a valid CID rejected for changed signed bytes / signature", get("rejected_signature"))
		c.Require(get("rejected_cross-part") >= 100, "vacuity: only %d mutants / splices rejected by a cross-part check", get("rejected_cross-part"))
		c.Require(get("rejected_splices") >= 300, "vacuity: only %d splices rejected", get("rejected_splices"))
		c.Require(reencOK.Load() >= int64(3*10*len(mutSeeds)), "vacuity: only %d wrapper re-encodings decode to the same signed bytes and signature", reencOK.Load())
		c.Require(get("forged_controls_accepted") == int64(2*len(mutSeeds)), "vacuity: %d of %d family-D controls accepted", get("forged_controls_accepted"), 2*len(mutSeeds))
		c.Require(get("rejected_forged_single_defect") >= int64(10*len(mutSeeds)), "vacuity: only %d single-defect forgeries rejected", get("rejected_forged_single_defect"))
		c.Require(get("one_to_one_pairs") >= int64(nO2OKeys*(nO2OKeys-1)*2), "vacuity: only %d one-to-one pair derivations compared", get("one_to_one_pairs"))
	}
}

// sanity checks that the reference decodes the seed the way the constructors encoded it.
func sanity(c *vk.Ctx, s *seed) {
	for sl := 0; sl < 3; sl++ {
		c.Require(s.idMatches(s.P, sl), "%s: reference id of %s differs from the constructor's id", s.name(), slotName[sl])
	}
	var w spacesyncproto.RawSpaceHeader
	_ = w.UnmarshalVT(s.P.HdrRaw)
	b, _ := w.MarshalVT()
	c.Require(bytes.Equal(b, s.P.HdrRaw), "%s: RawSpaceHeader does not round-trip byte-identically", s.name())
	var h spacesyncproto.SpaceHeader
	_ = h.UnmarshalVT(w.SpaceHeader)
	b, _ = h.MarshalVT()
	c.Require(bytes.Equal(b, w.SpaceHeader), "%s: SpaceHeader does not round-trip byte-identically", s.name())
	if s.V1 {
		c.Require(bytes.Equal(h.AclPayload, s.P.AclRaw) && bytes.Equal(h.SettingPayload, s.P.SetRaw), "%s: v1 header does not embed the parts", s.name())
	} else {
		c.Require(len(h.AclPayload) == 0 && len(h.SettingPayload) == 0, "%s: v0 header embeds parts", s.name())
	}
}

// genByteJobs: B1, B1+cid, B2, B2+cid on the three byte parts.
func genByteJobs(e *evaluator, s *seed, all bool, jobs chan<- job) {
	const chunk = 32
	for sl := 0; sl < 3; sl++ {
		raw := *s.P.raw(sl)
		part := slotName[sl] + ".raw"
		for lo := 0; lo < len(raw); lo += chunk {
			hi := min(lo+chunk, len(raw))
			jobs <- func() {
				for off := lo; off < hi; off++ {
					for _, v := range byteValues(raw[off], all) {
						mb := append([]byte{}, raw...)
						mb[off] = v
						desc := fmt.Sprintf("byte@%d %02x->%02x", off, raw[off], v)
						e.eval(s, part, "B1", desc, s.P.withRaw(sl, mb))
						e.eval(s, part, "B1+cid", desc, s.withRecomputedId(s.P.withRaw(sl, mb), sl))
					}
				}
			}
		}
		jobs <- func() {
			for n := 0; n < len(raw); n++ {
				mb := append([]byte{}, raw[:n]...)
				desc := fmt.Sprintf("truncate@%d of %d", n, len(raw))
				e.eval(s, part, "B2", desc, s.P.withRaw(sl, mb))
				e.eval(s, part, "B2+cid", desc, s.withRecomputedId(s.P.withRaw(sl, mb), sl))
			}
			for _, ext := range []struct {
				d string
				b []byte
			}{{"extend-1B-00", []byte{0}}, {"extend-1B-ff", []byte{0xff}}, {"extend-1B-0a", []byte{0x0a}}, {"extend-1KiB-zero", make([]byte, 1024)}} {
				mb := append(append([]byte{}, raw...), ext.b...)
				e.eval(s, part, "B2", ext.d, s.P.withRaw(sl, mb))
				e.eval(s, part, "B2+cid", ext.d, s.withRecomputedId(s.P.withRaw(sl, mb), sl))
			}
		}
	}
}

// withRecomputedId recomputes the id of one part from its (mutated) bytes.
func (s *seed) withRecomputedId(m parts, slot int) parts {
	if slot == slotHdr {
		return m.withId(slot, hdrIdFor(m.HdrRaw, s.RepKey))
	}
	return m.withId(slot, cidOf(*m.raw(slot)))
}

func genIdMutants(e *evaluator, s, donor *seed, all bool) {
	for sl := 0; sl < 3; sl++ {
		part := slotName[sl] + ".id"
		id := *s.P.id(sl)
		for _, im := range idMutants(id, all) {
			e.eval(s, part, "ID", im.desc, s.P.withId(sl, im.val))
		}
		// another valid-looking id
		for o := 0; o < 3; o++ {
			if o != sl {
				e.eval(s, part, "ID-swap", "id of own "+slotName[o], s.P.withId(sl, *s.P.id(o)))
			}
			e.eval(s, part, "ID-swap", "id of donor's "+slotName[o], s.P.withId(sl, *donor.P.id(o)))
		}
	}
	// replication-key suffix and separator of the space id
	id := s.P.HdrId
	dot := strings.Index(id, ".")
	cidPart, suffix := id[:dot], id[dot+1:]
	dDot := strings.Index(donor.P.HdrId, ".")
	dCid, dSuffix := donor.P.HdrId[:dDot], donor.P.HdrId[dDot+1:]
	f36 := func(v uint64) string { return strconv.FormatUint(v, 36) }
	sm := []strMut{
		{"suffix-removed-with-dot", cidPart},
		{"suffix-empty", cidPart + "."},
		{"suffix-doubled", cidPart + "." + suffix + "." + suffix},
		{"suffix-doubled-nodot", cidPart + "." + suffix + suffix},
		{"suffix+1", cidPart + "." + f36(s.RepKey+1)},
		{"suffix-1", cidPart + "." + f36(s.RepKey-1)},
		{"suffix-zero", cidPart + ".0"},
		{"suffix-donor", cidPart + "." + dSuffix},
		{"cid-donor-own-suffix", dCid + "." + suffix},
		{"suffix-leading-zero", cidPart + ".0" + suffix},
		{"suffix-plus-sign", cidPart + ".+" + suffix},
		{"suffix-uppercase", cidPart + "." + strings.ToUpper(suffix)},
		{"suffix-decimal", cidPart + "." + strconv.FormatUint(s.RepKey, 10)},
		{"suffix-hex", cidPart + "." + strconv.FormatUint(s.RepKey, 16)},
		{"suffix-trailing-space", cidPart + "." + suffix + " "},
		{"suffix-leading-space", cidPart + ". " + suffix},
		{"suffix-trailing-dot", cidPart + "." + suffix + "."},
		{"separator-doubled", cidPart + ".." + suffix},
		{"separator-comma", cidPart + "," + suffix},
		{"separator-colon", cidPart + ":" + suffix},
		{"separator-missing", cidPart + suffix},
		{"leading-dot", "." + id},
		{"only-suffix", "." + suffix},
		{"only-dot", "."},
		{"suffix-first", suffix + "." + cidPart},
		{"suffix-wraps-uint64", cidPart + "." + suffix + "00000000000000"},
	}
	for _, m := range sm {
		e.eval(s, "hdr.id", "SUFFIX", m.desc, s.P.withId(slotHdr, m.val))
	}
}

// partAlts: structure aware alternatives of the bytes of one part (nothing is re-signed).
func partAlts(s, donor *seed, slot int) (alts []alt) {
	add := func(kind, desc string, mm vtMsg) {
		b, err := mm.MarshalVT()
		if err != nil {
			return
		}
		alts = append(alts, alt{kind, desc, b})
	}
	raw, draw := *s.P.raw(slot), *donor.P.raw(slot)
	var wrap func(signed []byte) vtMsg
	var w, dw vtMsg
	var inner, dinner vtMsg
	switch slot {
	case slotHdr:
		w, dw = &spacesyncproto.RawSpaceHeader{}, &spacesyncproto.RawSpaceHeader{}
		inner, dinner = &spacesyncproto.SpaceHeader{}, &spacesyncproto.SpaceHeader{}
		wrap = func(b []byte) vtMsg { return &spacesyncproto.RawSpaceHeader{SpaceHeader: b, Signature: s.sig[slot]} }
	case slotAcl:
		w, dw = &consensusproto.RawRecord{}, &consensusproto.RawRecord{}
		inner, dinner = &aclrecordproto.AclRoot{}, &aclrecordproto.AclRoot{}
		wrap = func(b []byte) vtMsg { return &consensusproto.RawRecord{Payload: b, Signature: s.sig[slot]} }
	default:
		w, dw = &treechangeproto.RawTreeChange{}, &treechangeproto.RawTreeChange{}
		inner, dinner = &treechangeproto.RootChange{}, &treechangeproto.RootChange{}
		wrap = func(b []byte) vtMsg { return &treechangeproto.RawTreeChange{Payload: b, Signature: s.sig[slot]} }
	}
	_ = w.UnmarshalVT(raw)
	_ = dw.UnmarshalVT(draw)
	_ = inner.UnmarshalVT(s.signed[slot])
	_ = dinner.UnmarshalVT(donor.signed[slot])
	// the unsigned wrapper: signed-bytes field, signature, (acceptor fields of RawRecord), unknown field
	mutateFields(w, dw, nil, slotName[slot]+"-wrapper.", func(desc string, mm vtMsg) { add("F1-wrapper", desc, mm) })
	// a valid signature of the same key over another message
	for o := 0; o < 3; o++ {
		if o != slot {
			alts = append(alts, alt{"F1-wrapper", "signature:=signature of own " + slotName[o], mustMarshal(wrapSig(slot, s.signed[slot], s.sig[o]))})
		}
	}
	// the signed message
	mutateFields(inner, dinner, nil, slotName[slot]+"-signed.", func(desc string, mm vtMsg) {
		b, err := mm.MarshalVT()
		if err != nil {
			return
		}
		add("F1-inner", desc, wrap(b))
	})
	// the donor's whole signed message under this signature, and this signed message under the donor's signature
	alts = append(alts, alt{"F1-inner", "signed:=donor's signed message", mustMarshal(wrapSig(slot, donor.signed[slot], s.sig[slot]))})
	// wire-level re-encodings of the wrapper
	alts = append(alts, reencodings(s.signed[slot], s.sig[slot])...)
	return
}

func wrapSig(slot int, signed, sig []byte) vtMsg {
	switch slot {
	case slotHdr:
		return &spacesyncproto.RawSpaceHeader{SpaceHeader: signed, Signature: sig}
	case slotAcl:
		return &consensusproto.RawRecord{Payload: signed, Signature: sig}
	}
	return &treechangeproto.RawTreeChange{Payload: signed, Signature: sig}
}

func mustMarshal(m vtMsg) []byte {
	b, err := m.MarshalVT()
	if err != nil {
		panic(err)
	}
	return b
}

// genF1: structure aware mutants of each part, id kept and id recomputed; for v1 also of the copies embedded in the header.
func genF1(e *evaluator, s, donor *seed, reencOK *atomic.Int64) {
	var byslot [3][]alt
	for sl := 0; sl < 3; sl++ {
		byslot[sl] = partAlts(s, donor, sl)
		part := slotName[sl] + ".raw"
		for _, a := range byslot[sl] {
			if a.kind == "RE" && s.sameSigned(sl, a.raw) && !bytes.Equal(a.raw, *s.P.raw(sl)) {
				reencOK.Add(1)
			}
			m := s.P.withRaw(sl, a.raw)
			e.eval(s, part, a.kind, a.desc, m)
			e.eval(s, part, a.kind+"+cid", a.desc, s.withRecomputedId(m, sl))
			if sl == slotHdr {
				// CID recomputed but the replication-key suffix kept (differs from the above only if the mutation changed the key)
				keep := m.withId(slotHdr, cidOf(a.raw)+"."+strconv.FormatUint(s.RepKey, 36))
				if keep.HdrId != s.withRecomputedId(m, sl).HdrId {
					e.eval(s, part, a.kind+"+cid-old-suffix", a.desc, keep)
				}
			}
		}
	}
	if !s.V1 {
		return
	}
	var h spacesyncproto.SpaceHeader
	if h.UnmarshalVT(s.signed[slotHdr]) != nil {
		return
	}
	for _, sl := range []int{slotAcl, slotSet} {
		for _, a := range byslot[sl] {
			hc := proto.Clone(&h).(*spacesyncproto.SpaceHeader)
			if sl == slotAcl {
				hc.AclPayload = a.raw
			} else {
				hc.SettingPayload = a.raw
			}
			hraw := mustMarshal(&spacesyncproto.RawSpaceHeader{SpaceHeader: mustMarshal(hc), Signature: s.sig[slotHdr]})
			desc := "embedded " + slotName[sl] + " payload: " + a.kind + " " + a.desc
			mh := s.P.withRaw(slotHdr, hraw)
			e.eval(s, "hdr.raw", "F1-embedded", desc, mh)
			e.eval(s, "hdr.raw", "F1-embedded+cid", desc, s.withRecomputedId(mh, slotHdr))
			// the same edit applied consistently to the header's embedded copy and to the part itself, all ids recomputed
			both := s.withRecomputedId(s.withRecomputedId(mh, slotHdr).withRaw(sl, a.raw), sl)
			e.eval(s, "hdr.raw+"+slotName[sl]+".raw", "F1-embedded-consistent+cid", desc, both)
			e.eval(s, "hdr.raw+"+slotName[sl]+".raw", "F1-embedded-consistent", desc, mh.withRaw(sl, a.raw))
		}
	}
}

// ---------------------------------------------------------------------------------------------------------------
// replay

func replay(c *vk.Ctx) {
	var rf struct {
		Case replayCase `json:"case"`
	}
	if err := vk.ReadJSON(c.Replay, &rf); err != nil {
		c.Broken("replay file: %v", err)
		return
	}
	rc := rf.Case
	c.Distinct("distinct", "replay")
	c.Distinct("distinct", "replay-2")
	switch rc.Family {
	case "one2one":
		oneToOnePair(c, rc.A, rc.B, rc.Type, nil)
		if c.NViolations() == 0 {
			fmt.Println("replay: the one-to-one pair no longer violates the property")
		}
	case "seed":
		err, p, what := validateStorage(rc.Seed.P)
		c.Count("evaluations", 1)
		c.Count("executions", 1)
		if p || err != nil {
			c.Violation("replayed: valid payload rejected", fmt.Sprintf("%v %s", err, what), rc)
			return
		}
		fmt.Println("replay: recorded seed is accepted now")
	case "mutant", "splice":
		if rc.Seed == nil || rc.Mutant == nil {
			c.Broken("replay file has no seed / mutant")
			return
		}
		if err := rc.Seed.finish(); err != nil {
			c.Broken("replay seed: %v", err)
			return
		}
		if err, _, _ := validateStorage(rc.Seed.P); err != nil {
			c.Broken("replay: recorded seed is rejected: %v", err)
			return
		}
		var err error
		var p bool
		var what string
		if rc.Validator == "header" {
			err, p, what = validateHeader(*rc.Mutant, rc.Seed.owner)
		} else {
			err, p, what = validateStorage(*rc.Mutant)
		}
		c.Count("evaluations", 1)
		c.Count("executions", 1)
		if p {
			c.Violation("replayed: panic", what, rc)
			return
		}
		if err == nil {
			c.Violation("replayed: mutant accepted", fmt.Sprintf("%s %s %s [%s] still accepted by the %s validator", rc.Seed.name(), rc.Part, rc.Kind, rc.Desc, rc.Validator), rc)
			return
		}
		fmt.Printf("replay: mutant is rejected now: %v\n", err)
	default:
		c.Broken("replay: unknown family %q", rc.Family)
	}
}
