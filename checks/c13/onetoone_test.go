package c13

// One-to-one family of C13: both parties derive the identical space id, ACL root, settings root and keys from
// their own private key and the other's public key; no other key pair derives them.

import (
	"bytes"
	"fmt"

	"github.com/anyproto/any-sync/commonspace/object/accountdata"
	"github.com/anyproto/any-sync/commonspace/object/acl/list"
	"github.com/anyproto/any-sync/commonspace/object/acl/recordverifier"
	"github.com/anyproto/any-sync/commonspace/spacepayloads"
	"github.com/anyproto/any-sync/commonspace/spacestorage"
	"github.com/anyproto/any-sync/consensus/consensusproto"
	"github.com/anyproto/any-sync/util/crypto"

	"verif/lib/vk"
)

const nO2OKeys = 8

func o2oKey(i int) crypto.PrivKey { return detKey(fmt.Sprintf("o2o-%d", i)) }

var o2oTypes = []string{spacepayloads.SpaceTypeOneToOne, spacepayloads.SpaceTypeOneToOneAny}

func o2oBuild(sk crypto.PrivKey, pk crypto.PubKey, typ string) (p parts, err error, panicked bool, what string) {
	panicked, what = vk.Recover(func() {
		var sp spacestorage.SpaceStorageCreatePayload
		if typ == spacepayloads.SpaceTypeOneToOne {
			sp, err = spacepayloads.StoragePayloadForOneToOneSpace(sk, pk)
		} else {
			sp, err = spacepayloads.StoragePayloadForOneToOneSpaceWithType(sk, pk, typ)
		}
		if err == nil {
			p = fromPayload(sp)
		}
	})
	return
}

type aclKeys struct {
	read, metaPriv []byte
	hasRead        bool
}

// aclView builds the account's ACL view over a storage holding only the root and extracts the keys it derives.
func aclView(sk crypto.PrivKey, rootRaw []byte, rootId string) (k aclKeys, err error, panicked bool, what string) {
	panicked, what = vk.Recover(func() {
		root := &consensusproto.RawRecordWithId{Payload: rootRaw, Id: rootId}
		st, e := list.NewInMemoryStorage(root.Id, []*consensusproto.RawRecordWithId{root})
		if e != nil {
			err = e
			return
		}
		acl, e := list.BuildAclListWithIdentity(accountdata.New(sk, sk), st, recordverifier.NewValidateFull())
		if e != nil {
			err = e
			return
		}
		state := acl.AclState()
		rk, e := state.CurrentReadKey()
		if e != nil || rk == nil {
			return
		}
		k.hasRead = true
		k.read, _ = rk.Raw()
		if ks, ok := state.Keys()[rootId]; ok && ks.MetadataPrivKey != nil {
			k.metaPriv, _ = ks.MetadataPrivKey.Raw()
		}
	})
	return
}

func oneToOne(c *vk.Ctx) {
	ids := map[string]string{}
	for _, typ := range o2oTypes {
		for a := 0; a < nO2OKeys; a++ {
			for b := 0; b < nO2OKeys; b++ {
				if a == b {
					continue
				}
				if c.TimeUp() {
					c.NotExhaustive("deadline in the one-to-one family")
					return
				}
				oneToOnePair(c, a, b, typ, ids)
			}
		}
	}
	c.Bound("one_to_one_distinct_space_ids", len(ids))
	if c.NViolations() == 0 {
		c.Require(len(ids) == len(o2oTypes)*nO2OKeys*(nO2OKeys-1)/2, "one-to-one: %d distinct ids for %d unordered pairs x types", len(ids), len(o2oTypes)*nO2OKeys*(nO2OKeys-1)/2)
	}
}

func unordered(a, b int) string {
	if a > b {
		a, b = b, a
	}
	return fmt.Sprintf("{%d,%d}", a, b)
}

func oneToOnePair(c *vk.Ctx, a, b int, typ string, ids map[string]string) {
	rc := replayCase{Family: "one2one", A: a, B: b, Type: typ}
	ska, skb := o2oKey(a), o2oKey(b)
	c.Count("one_to_one_pairs", 1)
	P, errP, pp, whatP := o2oBuild(ska, skb.GetPublic(), typ)
	Q, errQ, pq, whatQ := o2oBuild(skb, ska.GetPublic(), typ)
	c.Count("executions", 2)
	if pp || pq {
		c.Violation("one-to-one: constructor panics type="+typ, whatP+whatQ, rc)
		return
	}
	if errP != nil || errQ != nil {
		c.Violation("one-to-one: constructor fails for valid keys type="+typ, fmt.Sprintf("(%d,%d): %v / %v", a, b, errP, errQ), rc)
		return
	}
	// identical space id, ACL root, settings root
	var differs []string
	for sl := 0; sl < 3; sl++ {
		if *P.id(sl) != *Q.id(sl) {
			differs = append(differs, slotName[sl]+".id")
		}
		if !bytes.Equal(*P.raw(sl), *Q.raw(sl)) {
			differs = append(differs, slotName[sl]+".raw")
		}
		c.Count("evaluations", 2)
	}
	c.Distinct("distinct", fmt.Sprintf("o2o|%s|symmetric=%v", typ, len(differs) == 0))
	if len(differs) > 0 {
		c.Violation("one-to-one derivation asymmetric: type="+typ,
			fmt.Sprintf("party %d with %d's public key and party %d with %d's public key derive different %v (space ids %s vs %s)", a, b, b, a, differs, P.HdrId, Q.HdrId), rc)
	}
	for _, x := range []parts{P, Q} {
		err, pn, what := validateStorage(x)
		c.Count("evaluations", 1)
		c.Count("executions", 1)
		if pn || err != nil {
			c.Violation("valid payload rejected: ctor=one-to-one validator=storage", fmt.Sprintf("(%d,%d) %s: %v %s", a, b, typ, err, what), rc)
		}
	}
	// the derived space key itself
	sharedA, e1 := crypto.GenerateSharedKey(ska, skb.GetPublic(), crypto.AnysyncOneToOneSpacePath)
	sharedB, e2 := crypto.GenerateSharedKey(skb, ska.GetPublic(), crypto.AnysyncOneToOneSpacePath)
	c.Count("executions", 2)
	c.Count("evaluations", 1)
	var sharedRaw []byte
	if e1 != nil || e2 != nil {
		c.Violation("one-to-one: shared key derivation fails", fmt.Sprintf("(%d,%d): %v / %v", a, b, e1, e2), rc)
	} else {
		ra, _ := sharedA.Raw()
		rb, _ := sharedB.Raw()
		sharedRaw = ra
		if !bytes.Equal(ra, rb) {
			c.Violation("one-to-one shared key asymmetric", fmt.Sprintf("GenerateSharedKey(%d,%d) != GenerateSharedKey(%d,%d)", a, b, b, a), rc)
		}
	}
	// another identity must not lead to the same key: the peer's public key with the sign bit of x flipped is a
	// different Ed25519 identity that maps to the same Curve25519 point ("no other key pair derives them")
	if rawB, err := skb.GetPublic().Raw(); err == nil && len(rawB) == 32 && sharedRaw != nil {
		twin := append([]byte{}, rawB...)
		twin[31] ^= 0x80
		if tp, err := crypto.UnmarshalEd25519PublicKey(twin); err == nil {
			st, e := crypto.GenerateSharedKey(ska, tp, crypto.AnysyncOneToOneSpacePath)
			c.Count("executions", 1)
			c.Count("evaluations", 1)
			if e == nil {
				rt, _ := st.Raw()
				c.Distinct("distinct", fmt.Sprintf("o2o|twin-identity|same=%v", bytes.Equal(rt, sharedRaw)))
				if bytes.Equal(rt, sharedRaw) {
					c.Violation("one-to-one shared key derived by another identity pair", fmt.Sprintf("GenerateSharedKey(%d, sign-flipped twin of %d) equals GenerateSharedKey(%d,%d)", a, b, a, b), rc)
				}
			}
		}
	}
	// both parties' ACL views derive the same keys (each over the root it built, and over the other's root)
	ka, erra, pna, wa := aclView(ska, P.AclRaw, P.AclId)
	kb, errb, pnb, wb := aclView(skb, Q.AclRaw, Q.AclId)
	c.Count("executions", 2)
	c.Count("evaluations", 2)
	switch {
	case pna || pnb:
		c.Violation("one-to-one: ACL view panics", wa+wb, rc)
	case erra != nil || errb != nil:
		c.Violation("one-to-one: a party cannot build its ACL view", fmt.Sprintf("(%d,%d) %s: %v / %v", a, b, typ, erra, errb), rc)
	case !ka.hasRead || !kb.hasRead:
		c.Violation("one-to-one: a party derives no read key", fmt.Sprintf("(%d,%d) %s: a has key %v, b has key %v", a, b, typ, ka.hasRead, kb.hasRead), rc)
	case !bytes.Equal(ka.read, kb.read) || !bytes.Equal(ka.metaPriv, kb.metaPriv) || len(ka.read) == 0 || len(ka.metaPriv) == 0:
		c.Violation("one-to-one keys differ between the parties", fmt.Sprintf("(%d,%d) %s: read keys equal=%v metadata keys equal=%v", a, b, typ, bytes.Equal(ka.read, kb.read), bytes.Equal(ka.metaPriv, kb.metaPriv)), rc)
	}
	if kx, errx, pnx, _ := aclView(ska, Q.AclRaw, Q.AclId); !pnx && errx == nil && ka.hasRead {
		c.Count("executions", 1)
		c.Count("evaluations", 1)
		if !kx.hasRead || !bytes.Equal(kx.read, ka.read) {
			c.Violation("one-to-one keys differ between the parties", fmt.Sprintf("(%d,%d) %s: party %d derives another read key from the root built by party %d", a, b, typ, a, b), rc)
		}
	}
	// distinct unordered pairs => distinct ids
	if ids != nil {
		for _, k := range []string{typ + "|space|" + P.HdrId, typ + "|acl|" + P.AclId, typ + "|settings|" + P.SetId} {
			c.Count("evaluations", 1)
			if prev, ok := ids[k]; ok && prev != unordered(a, b) {
				c.Violation("one-to-one id collision between distinct pairs", fmt.Sprintf("%s derived by %s and %s", k, prev, unordered(a, b)), rc)
			}
		}
		ids[typ+"|space|"+P.HdrId] = unordered(a, b)
	}
	// no other key pair derives them
	for t := 0; t < nO2OKeys; t++ {
		if t == a || t == b {
			continue
		}
		skc := o2oKey(t)
		rc3 := rc
		rc3.C = t
		for _, peer := range []crypto.PrivKey{ska, skb} {
			R, errR, pr, whatR := o2oBuild(skc, peer.GetPublic(), typ)
			c.Count("executions", 1)
			c.Count("evaluations", 3)
			if pr || errR != nil {
				c.Violation("one-to-one: constructor fails for valid keys type="+typ, fmt.Sprintf("third party %d: %v %s", t, errR, whatR), rc3)
				continue
			}
			if R.HdrId == P.HdrId || R.AclId == P.AclId || R.SetId == P.SetId {
				c.Violation("one-to-one: a third key pair derives the same ids", fmt.Sprintf("third party %d with a public key of pair (%d,%d) derives space=%v acl=%v settings=%v", t, a, b, R.HdrId == P.HdrId, R.AclId == P.AclId, R.SetId == P.SetId), rc3)
			}
			sh, e := crypto.GenerateSharedKey(skc, peer.GetPublic(), crypto.AnysyncOneToOneSpacePath)
			c.Count("executions", 1)
			c.Count("evaluations", 1)
			if e == nil && sharedRaw != nil {
				if r, _ := sh.Raw(); bytes.Equal(r, sharedRaw) {
					c.Violation("one-to-one: a third key pair derives the shared key", fmt.Sprintf("third party %d derives the space key of pair (%d,%d)", t, a, b), rc3)
				}
			}
		}
		kc, errc, pnc, wc := aclView(skc, P.AclRaw, P.AclId)
		c.Count("executions", 1)
		c.Count("evaluations", 1)
		c.Distinct("distinct", fmt.Sprintf("o2o|%s|third-party-view err=%v hasRead=%v", typ, errc != nil, kc.hasRead))
		switch {
		case pnc:
			c.Violation("one-to-one: ACL view panics", wc, rc3)
		case errc == nil && kc.hasRead && ka.hasRead && bytes.Equal(kc.read, ka.read):
			c.Violation("one-to-one: a third key pair derives the shared key", fmt.Sprintf("third party %d obtains the read key of the space of pair (%d,%d) from its ACL root", t, a, b), rc3)
		}
	}
}
