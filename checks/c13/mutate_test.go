package c13

// Mutation generators of the C13 check: byte level (B1/B2), id strings, structure aware (F1) through protobuf
// reflection, and wire level re-encodings of the unsigned Raw* wrappers.

import (
	"bytes"
	"fmt"

	"google.golang.org/protobuf/encoding/protowire"
	"google.golang.org/protobuf/proto"
	"google.golang.org/protobuf/reflect/protoreflect"
)

// vtMsg is what every message of the repo implements (vtprotobuf marshalling on protoimpl messages).
type vtMsg interface {
	proto.Message
	MarshalVT() ([]byte, error)
	UnmarshalVT([]byte) error
}

// byteValues returns the replacement values for byte b (never b itself), deduplicated, in a fixed order.
func byteValues(b byte, all bool) []byte {
	if all {
		out := make([]byte, 0, 255)
		for v := 0; v < 256; v++ {
			if byte(v) != b {
				out = append(out, byte(v))
			}
		}
		return out
	}
	cand := []byte{^b, b ^ 1, b ^ 0x80, b + 1, 0x00, 0xFF}
	out := cand[:0:0]
	for _, v := range cand {
		if v == b || bytes.IndexByte(out, v) >= 0 {
			continue
		}
		out = append(out, v)
	}
	return out
}

const idAlphabet = "abcdefghijklmnopqrstuvwxyz234567"

// charValues returns replacement characters for ch in an id string.
func charValues(ch byte, all bool) []byte {
	var out []byte
	add := func(v byte) {
		if v != ch && bytes.IndexByte(out, v) < 0 {
			out = append(out, v)
		}
	}
	if all {
		for i := 0; i < len(idAlphabet); i++ {
			add(idAlphabet[i])
		}
		add(ch ^ 0x20)
		add('.')
		add('0')
		add('1')
		return out
	}
	idx := bytes.IndexByte([]byte(idAlphabet), ch)
	if idx >= 0 {
		add(idAlphabet[(idx+1)%len(idAlphabet)])
		add(ch ^ 0x20) // other case / neighbouring symbol
	} else {
		add('a')
		add('7')
	}
	return out
}

type strMut struct{ desc, val string }

// idMutants: every character replaced, truncations, extensions.
func idMutants(id string, all bool) (out []strMut) {
	for i := 0; i < len(id); i++ {
		for _, v := range charValues(id[i], all) {
			b := []byte(id)
			b[i] = v
			out = append(out, strMut{fmt.Sprintf("char[%d]=%q", i, v), string(b)})
		}
	}
	if len(id) > 0 {
		out = append(out,
			strMut{"truncate-last", id[:len(id)-1]},
			strMut{"truncate-first", id[1:]},
		)
	}
	out = append(out,
		strMut{"append-char", id + "a"},
		strMut{"prepend-char", "b" + id},
		strMut{"append-nul", id + "\x00"},
		strMut{"append-space", id + " "},
		strMut{"empty", ""},
		strMut{"doubled", id + id},
	)
	return
}

type alt struct {
	kind string // F1-wrapper | F1-inner | RE
	desc string
	raw  []byte
}

type path []protoreflect.FieldDescriptor

func navRO(m protoreflect.Message, p path) (protoreflect.Message, bool) {
	for _, fd := range p {
		if !m.Has(fd) {
			return nil, false
		}
		m = m.Get(fd).Message()
	}
	return m, true
}

func navRW(m protoreflect.Message, p path) protoreflect.Message {
	for _, fd := range p {
		m = m.Mutable(fd).Message()
	}
	return m
}

func bytesVariants(b []byte) (out []struct {
	desc string
	v    []byte
}) {
	add := func(d string, v []byte) {
		out = append(out, struct {
			desc string
			v    []byte
		}{d, v})
	}
	if len(b) == 0 {
		add("set-01", []byte{1})
		add("set-32zero", make([]byte, 32))
		return
	}
	c := func() []byte { return append([]byte{}, b...) }
	v := c()
	v[0] ^= 1
	add("flip-first", v)
	v = c()
	v[len(v)-1] ^= 0x80
	add("flip-last", v)
	v = c()
	v[len(v)/2] ^= 0x10
	add("flip-middle", v)
	add("append-00", append(c(), 0))
	add("drop-last", c()[:len(b)-1])
	add("drop-first", c()[1:])
	z := make([]byte, len(b))
	add("all-zero", z)
	return
}

func stringVariants(s string) (out []strMut) {
	if s == "" {
		return []strMut{{"set-x", "x"}}
	}
	b := []byte(s)
	b[0] = charValues(b[0], false)[0]
	out = append(out, strMut{"change-first", string(b)})
	b = []byte(s)
	b[len(b)-1] = charValues(b[len(b)-1], false)[0]
	out = append(out, strMut{"change-last", string(b)})
	out = append(out, strMut{"append-x", s + "x"}, strMut{"drop-last", s[:len(s)-1]})
	return
}

// mutateFields emits, for every field of the message reached from root through p (recursively into set
// sub-messages), clones of root with exactly that field zeroed / flipped / replaced by another valid-looking
// value (the donor's value of the same field, where there is a donor).
func mutateFields(root, donor vtMsg, p path, prefix string, emit func(desc string, mm vtMsg)) {
	cur, ok := navRO(root.ProtoReflect(), p)
	if !ok {
		return
	}
	var dcur protoreflect.Message
	hasDonor := false
	if donor != nil {
		dcur, hasDonor = navRO(donor.ProtoReflect(), p)
	}
	fds := cur.Descriptor().Fields()
	for i := 0; i < fds.Len(); i++ {
		fd := fds.Get(i)
		name := prefix + string(fd.Name())
		apply := func(desc string, f func(r protoreflect.Message)) {
			cl := proto.Clone(root).(vtMsg)
			f(navRW(cl.ProtoReflect(), p))
			emit(name+":"+desc, cl)
		}
		has := cur.Has(fd)
		if has {
			apply("clear", func(r protoreflect.Message) { r.Clear(fd) })
		}
		switch {
		case fd.IsMap():
			// no map fields in the messages under test
		case fd.IsList():
			l := cur.Get(fd).List()
			n := l.Len()
			if fd.Kind() != protoreflect.BytesKind {
				continue
			}
			if n >= 2 {
				apply("swap-first-two", func(r protoreflect.Message) {
					ml := r.Mutable(fd).List()
					a, b := ml.Get(0), ml.Get(1)
					ml.Set(0, b)
					ml.Set(1, a)
				})
			}
			if n >= 1 {
				apply("drop-last", func(r protoreflect.Message) { r.Mutable(fd).List().Truncate(n - 1) })
				apply("duplicate-first", func(r protoreflect.Message) {
					ml := r.Mutable(fd).List()
					ml.Append(protoreflect.ValueOfBytes(append([]byte{}, ml.Get(0).Bytes()...)))
				})
				for k := 0; k < n; k++ {
					for _, bv := range bytesVariants(l.Get(k).Bytes()) {
						apply(fmt.Sprintf("[%d]:%s", k, bv.desc), func(r protoreflect.Message) {
							r.Mutable(fd).List().Set(k, protoreflect.ValueOfBytes(bv.v))
						})
					}
				}
			}
			apply("append-elem", func(r protoreflect.Message) {
				r.Mutable(fd).List().Append(protoreflect.ValueOfBytes([]byte{8, 1}))
			})
			if hasDonor {
				dl := dcur.Get(fd).List()
				for k := 0; k < dl.Len(); k++ {
					dv := append([]byte{}, dl.Get(k).Bytes()...)
					if n > 0 {
						apply(fmt.Sprintf("[0]:donor[%d]", k), func(r protoreflect.Message) {
							r.Mutable(fd).List().Set(0, protoreflect.ValueOfBytes(dv))
						})
					}
				}
			}
		case fd.Kind() == protoreflect.BytesKind:
			for _, bv := range bytesVariants(cur.Get(fd).Bytes()) {
				apply(bv.desc, func(r protoreflect.Message) { r.Set(fd, protoreflect.ValueOfBytes(bv.v)) })
			}
			if hasDonor {
				dv := append([]byte{}, dcur.Get(fd).Bytes()...)
				apply("donor", func(r protoreflect.Message) { r.Set(fd, protoreflect.ValueOfBytes(dv)) })
			}
		case fd.Kind() == protoreflect.StringKind:
			for _, sv := range stringVariants(cur.Get(fd).String()) {
				apply(sv.desc, func(r protoreflect.Message) { r.Set(fd, protoreflect.ValueOfString(sv.val)) })
			}
			if hasDonor {
				dv := dcur.Get(fd).String()
				apply("donor", func(r protoreflect.Message) { r.Set(fd, protoreflect.ValueOfString(dv)) })
			}
		case fd.Kind() == protoreflect.Int64Kind || fd.Kind() == protoreflect.Sint64Kind || fd.Kind() == protoreflect.Sfixed64Kind:
			v := cur.Get(fd).Int()
			vals := []int64{v + 1, v - 1, v ^ 1, ^v, v ^ (1 << 40)}
			if hasDonor {
				vals = append(vals, dcur.Get(fd).Int())
			}
			for k, nv := range vals {
				apply(fmt.Sprintf("alt%d", k), func(r protoreflect.Message) { r.Set(fd, protoreflect.ValueOfInt64(nv)) })
			}
		case fd.Kind() == protoreflect.Uint64Kind || fd.Kind() == protoreflect.Fixed64Kind:
			v := cur.Get(fd).Uint()
			vals := []uint64{v + 1, v - 1, v ^ 1, ^v, v ^ (1 << 40), v * 36, v / 36}
			if hasDonor {
				vals = append(vals, dcur.Get(fd).Uint())
			}
			for k, nv := range vals {
				apply(fmt.Sprintf("alt%d", k), func(r protoreflect.Message) { r.Set(fd, protoreflect.ValueOfUint64(nv)) })
			}
		case fd.Kind() == protoreflect.Int32Kind || fd.Kind() == protoreflect.Sint32Kind || fd.Kind() == protoreflect.Sfixed32Kind:
			v := int32(cur.Get(fd).Int())
			for k, nv := range []int32{v + 1, v - 1, ^v} {
				apply(fmt.Sprintf("alt%d", k), func(r protoreflect.Message) { r.Set(fd, protoreflect.ValueOfInt32(nv)) })
			}
		case fd.Kind() == protoreflect.Uint32Kind || fd.Kind() == protoreflect.Fixed32Kind:
			v := uint32(cur.Get(fd).Uint())
			for k, nv := range []uint32{v + 1, v - 1, ^v} {
				apply(fmt.Sprintf("alt%d", k), func(r protoreflect.Message) { r.Set(fd, protoreflect.ValueOfUint32(nv)) })
			}
		case fd.Kind() == protoreflect.EnumKind:
			v := cur.Get(fd).Enum()
			for nv := protoreflect.EnumNumber(0); nv <= 3; nv++ {
				if nv == v {
					continue
				}
				apply(fmt.Sprintf("enum=%d", nv), func(r protoreflect.Message) { r.Set(fd, protoreflect.ValueOfEnum(nv)) })
			}
			apply("enum=100", func(r protoreflect.Message) { r.Set(fd, protoreflect.ValueOfEnum(100)) })
		case fd.Kind() == protoreflect.BoolKind:
			v := cur.Get(fd).Bool()
			apply("flip", func(r protoreflect.Message) { r.Set(fd, protoreflect.ValueOfBool(!v)) })
		case fd.Kind() == protoreflect.MessageKind:
			if !has {
				apply("set-empty", func(r protoreflect.Message) { r.Set(fd, protoreflect.ValueOfMessage(r.NewField(fd).Message())) })
			}
			if hasDonor && dcur.Has(fd) {
				dm := proto.Clone(dcur.Get(fd).Message().Interface())
				apply("donor", func(r protoreflect.Message) { r.Set(fd, protoreflect.ValueOfMessage(dm.ProtoReflect())) })
			}
			if has {
				mutateFields(root, donor, append(append(path{}, p...), fd), name+".", emit)
			}
		}
	}
	// an unknown field inside this (signed) message
	{
		cl := proto.Clone(root).(vtMsg)
		r := navRW(cl.ProtoReflect(), p)
		r.SetUnknown(append(append(protoreflect.RawFields{}, r.GetUnknown()...), unknownVarintField()...))
		emit(prefix+"<unknown-field-appended>", cl)
	}
}

func unknownVarintField() []byte {
	return protowire.AppendVarint(protowire.AppendTag(nil, 15, protowire.VarintType), 1)
}

func nonMinimalVarint(v uint64) []byte {
	b := protowire.AppendVarint(nil, v)
	b[len(b)-1] |= 0x80
	return append(b, 0x00)
}

// reencodings returns wire level re-encodings of a two-field wrapper {bytes signed = 1; bytes sig = 2} that decode
// (proto3 rules: unknown fields skipped, field order free, last one wins, varints need not be minimal) to the
// same two values. None touches signed bytes or the signature.
func reencodings(signed, sig []byte) []alt {
	f := func(num protowire.Number, v []byte) []byte {
		return protowire.AppendBytes(protowire.AppendTag(nil, num, protowire.BytesType), v)
	}
	cat := func(bs ...[]byte) []byte {
		var o []byte
		for _, b := range bs {
			o = append(o, b...)
		}
		return o
	}
	f1, f2 := f(1, signed), f(2, sig)
	unk := unknownVarintField()
	unkBytes := f(1000, []byte("verif"))
	nmLen := cat(protowire.AppendTag(nil, 1, protowire.BytesType), nonMinimalVarint(uint64(len(signed))), signed)
	nmTag := cat(nonMinimalVarint(protowire.EncodeTag(1, protowire.BytesType)), protowire.AppendVarint(nil, uint64(len(signed))), signed)
	nmSigLen := cat(protowire.AppendTag(nil, 2, protowire.BytesType), nonMinimalVarint(uint64(len(sig))), sig)
	return []alt{
		{"RE", "unknown-varint-appended", cat(f1, f2, unk)},
		{"RE", "unknown-varint-prepended", cat(unk, f1, f2)},
		{"RE", "unknown-varint-between", cat(f1, unk, f2)},
		{"RE", "unknown-bytes-appended", cat(f1, f2, unkBytes)},
		{"RE", "fields-swapped", cat(f2, f1)},
		{"RE", "nonminimal-length-of-signed", cat(nmLen, f2)},
		{"RE", "nonminimal-length-of-signature", cat(f1, nmSigLen)},
		{"RE", "nonminimal-tag", cat(nmTag, f2)},
		{"RE", "overridden-duplicate-signed-first", cat(f(1, []byte{0}), f1, f2)},
		{"RE", "overridden-duplicate-signature-first", cat(f(2, []byte{0}), f1, f2)},
	}
}
