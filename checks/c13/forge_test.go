package c13

// Family D ("single-defect forgeries"): the payload is rebuilt from the seed's decoded messages with the seed's own
// keys — every message re-signed, every dependent id / embedded copy propagated — so that all hashes and all record
// signatures verify, and then exactly ONE binding between the parts (or one inner signature) is broken. This is the
// only way to exercise a cross-part check in isolation: without re-signing, a signature or hash check always fires
// first. Expected verdicts are stated per defect from the property text ("every signature verifies", "all parts name
// the same space", "the header commits to exactly one ACL root and one settings root"). Controls (no defect, or a
// harmless edit propagated everywhere) must be accepted: they prove that the assembler builds valid payloads, i.e.
// that the single defect is the only possible reason for a rejection.

import (
	"bytes"
	"fmt"

	"github.com/anyproto/any-sync/commonspace/object/acl/aclrecordproto"
	"github.com/anyproto/any-sync/commonspace/object/tree/treechangeproto"
	"github.com/anyproto/any-sync/commonspace/spacesyncproto"
	"github.com/anyproto/any-sync/util/crypto"
	"google.golang.org/protobuf/proto"
)

const oAccept = 3

type fctx struct {
	s, donor *seed
	spaceId  string // v0: known before the roots are built
	aclId    string
	aclRaw   []byte
	setRaw   []byte
}

type forge struct {
	name   string
	expect int
	only   string // "" | "v0" | "v1"
	hdr    func(h *spacesyncproto.SpaceHeader, x *fctx)
	acl    func(a *aclrecordproto.AclRoot, x *fctx)
	set    func(r *treechangeproto.RootChange, x *fctx)
}

func mustSign(k crypto.PrivKey, b []byte) []byte {
	sig, err := k.Sign(b)
	if err != nil {
		panic(err)
	}
	return sig
}

func changeChar(s string, i int) string {
	if len(s) == 0 {
		return "x"
	}
	if i < 0 {
		i += len(s)
	}
	b := []byte(s)
	b[i] = charValues(b[i], false)[0]
	return string(b)
}

func rawIdentityOf(k crypto.PrivKey) []byte {
	b, err := k.GetPublic().Raw()
	if err != nil {
		panic(err)
	}
	return b
}

func protoIdentityOf(k crypto.PrivKey) []byte {
	b, err := k.GetPublic().Marshall()
	if err != nil {
		panic(err)
	}
	return b
}

// assemble rebuilds the payload of s with one forge applied.
func assemble(s, donor *seed, f forge) parts {
	var H spacesyncproto.SpaceHeader
	var A aclrecordproto.AclRoot
	var S treechangeproto.RootChange
	if H.UnmarshalVT(s.signed[slotHdr]) != nil || A.UnmarshalVT(s.signed[slotAcl]) != nil || S.UnmarshalVT(s.signed[slotSet]) != nil {
		panic("seed does not decode")
	}
	x := &fctx{s: s, donor: donor}
	h := proto.Clone(&H).(*spacesyncproto.SpaceHeader)
	a := proto.Clone(&A).(*aclrecordproto.AclRoot)
	r := proto.Clone(&S).(*treechangeproto.RootChange)
	var p parts
	signHdr := func() {
		hb := mustMarshal(h)
		p.HdrRaw = mustMarshal(&spacesyncproto.RawSpaceHeader{SpaceHeader: hb, Signature: mustSign(s.signKey, hb)})
		p.HdrId = hdrIdFor(p.HdrRaw, h.ReplicationKey)
	}
	signAcl := func() {
		ab := mustMarshal(a)
		p.AclRaw = mustMarshal(wrapSig(slotAcl, ab, mustSign(s.signKey, ab)))
		p.AclId = cidOf(p.AclRaw)
		x.aclId, x.aclRaw = p.AclId, p.AclRaw
	}
	signSet := func() {
		rb := mustMarshal(r)
		p.SetRaw = mustMarshal(wrapSig(slotSet, rb, mustSign(s.signKey, rb)))
		p.SetId = cidOf(p.SetRaw)
		x.setRaw = p.SetRaw
	}
	if !s.V1 {
		if f.hdr != nil {
			f.hdr(h, x)
		}
		signHdr()
		x.spaceId = p.HdrId
		a.SpaceId = x.spaceId
		if f.acl != nil {
			f.acl(a, x)
		}
		signAcl()
		r.SpaceId, r.AclHeadId = x.spaceId, x.aclId
		if f.set != nil {
			f.set(r, x)
		}
		signSet()
		return p
	}
	if f.acl != nil {
		f.acl(a, x)
	}
	signAcl()
	r.AclHeadId = x.aclId
	if f.set != nil {
		f.set(r, x)
	}
	signSet()
	h.AclPayload, h.SettingPayload = p.AclRaw, p.SetRaw
	if f.hdr != nil {
		f.hdr(h, x)
	}
	signHdr()
	return p
}

func forges() []forge {
	stranger := detKey("stranger")
	otherAcl := func(x *fctx) []byte { // another valid ACL root of the same owner
		var A aclrecordproto.AclRoot
		_ = A.UnmarshalVT(x.s.signed[slotAcl])
		A.Timestamp += 7
		ab := mustMarshal(&A)
		return mustMarshal(wrapSig(slotAcl, ab, mustSign(x.s.signKey, ab)))
	}
	otherSet := func(x *fctx) []byte { // another valid settings root of the same owner for the same ACL head
		var S treechangeproto.RootChange
		_, _, _ = splitWrapper(slotSet, x.setRaw)
		signed, _, _ := splitWrapper(slotSet, x.setRaw)
		_ = S.UnmarshalVT(signed)
		S.Timestamp += 7
		rb := mustMarshal(&S)
		return mustMarshal(wrapSig(slotSet, rb, mustSign(x.s.signKey, rb)))
	}
	reenc := func(slot int, raw []byte) []byte { return append(append([]byte{}, raw...), unknownVarintField()...) }
	fs := []forge{
		// controls
		{name: "control: rebuilt without any edit", expect: oAccept},
		{name: "control: timestamps of all three messages changed, re-signed, propagated", expect: oAccept,
			hdr: func(h *spacesyncproto.SpaceHeader, x *fctx) { h.Timestamp += 3 },
			acl: func(a *aclrecordproto.AclRoot, x *fctx) { a.Timestamp += 3 },
			set: func(r *treechangeproto.RootChange, x *fctx) { r.Timestamp += 3 }},

		// every signature verifies: the master key's signature over the identity inside the ACL root
		{name: "acl.identitySignature: one bit flipped", expect: oHard,
			acl: func(a *aclrecordproto.AclRoot, x *fctx) {
				a.IdentitySignature = append([]byte{}, a.IdentitySignature...)
				a.IdentitySignature[0] ^= 1
			}},
		{name: "acl.identitySignature: cleared", expect: oHard,
			acl: func(a *aclrecordproto.AclRoot, x *fctx) { a.IdentitySignature = nil }},
		{name: "acl.identitySignature: made by another key than masterKey", expect: oHard,
			acl: func(a *aclrecordproto.AclRoot, x *fctx) {
				a.IdentitySignature = mustSign(stranger, rawIdentityOf(x.s.signKey))
			}},
		{name: "acl.identitySignature: master key's signature over another identity", expect: oHard,
			acl: func(a *aclrecordproto.AclRoot, x *fctx) {
				a.IdentitySignature = mustSign(x.s.masterKey, rawIdentityOf(stranger))
			}},
		{name: "acl.masterKey: replaced by another key (identity signature not its)", expect: oHard,
			acl: func(a *aclrecordproto.AclRoot, x *fctx) { a.MasterKey = protoIdentityOf(stranger) }},

		// v0: both roots name the space
		{name: "acl.spaceId: another valid space's id", expect: oHard, only: "v0",
			acl: func(a *aclrecordproto.AclRoot, x *fctx) { a.SpaceId = x.donor.P.HdrId }},
		{name: "acl.spaceId: one character of the CID changed", expect: oHard, only: "v0",
			acl: func(a *aclrecordproto.AclRoot, x *fctx) { a.SpaceId = changeChar(a.SpaceId, 10) }},
		{name: "acl.spaceId: last character of the replication-key suffix changed", expect: oHard, only: "v0",
			acl: func(a *aclrecordproto.AclRoot, x *fctx) { a.SpaceId = changeChar(a.SpaceId, -1) }},
		{name: "acl.spaceId: cleared", expect: oHard, only: "v0",
			acl: func(a *aclrecordproto.AclRoot, x *fctx) { a.SpaceId = "" }},
		{name: "settings.spaceId: another valid space's id", expect: oHard, only: "v0",
			set: func(r *treechangeproto.RootChange, x *fctx) { r.SpaceId = x.donor.P.HdrId }},
		{name: "settings.spaceId: one character of the CID changed", expect: oHard, only: "v0",
			set: func(r *treechangeproto.RootChange, x *fctx) { r.SpaceId = changeChar(r.SpaceId, 10) }},
		{name: "settings.spaceId: last character of the replication-key suffix changed", expect: oHard, only: "v0",
			set: func(r *treechangeproto.RootChange, x *fctx) { r.SpaceId = changeChar(r.SpaceId, -1) }},
		{name: "settings.spaceId: cleared", expect: oHard, only: "v0",
			set: func(r *treechangeproto.RootChange, x *fctx) { r.SpaceId = "" }},
		{name: "acl.spaceId and settings.spaceId: both name another valid space", expect: oHard, only: "v0",
			acl: func(a *aclrecordproto.AclRoot, x *fctx) { a.SpaceId = x.donor.P.HdrId },
			set: func(r *treechangeproto.RootChange, x *fctx) { r.SpaceId = x.donor.P.HdrId }},
		{name: "acl.spaceId and settings.spaceId: both cleared", expect: oHard, only: "v0",
			acl: func(a *aclrecordproto.AclRoot, x *fctx) { a.SpaceId = "" },
			set: func(r *treechangeproto.RootChange, x *fctx) { r.SpaceId = "" }},
		// v0: the settings root commits to the ACL root (DESIGN reference table)
		{name: "settings.aclHeadId: another valid space's ACL root id", expect: oHard, only: "v0",
			set: func(r *treechangeproto.RootChange, x *fctx) { r.AclHeadId = x.donor.P.AclId }},
		{name: "settings.aclHeadId: one character changed", expect: oHard, only: "v0",
			set: func(r *treechangeproto.RootChange, x *fctx) { r.AclHeadId = changeChar(r.AclHeadId, 10) }},
		{name: "settings.aclHeadId: cleared", expect: oHard, only: "v0",
			set: func(r *treechangeproto.RootChange, x *fctx) { r.AclHeadId = "" }},
		{name: "header.version: 1 without embedded payloads", expect: oHard, only: "v0",
			hdr: func(h *spacesyncproto.SpaceHeader, x *fctx) {
				h.Version = spacesyncproto.SpaceHeaderVersion_SpaceHeaderVersion1
			}},

		// v1: the header commits to exactly one ACL root and one settings root
		{name: "header.aclPayload: another valid space's ACL root", expect: oHard, only: "v1",
			hdr: func(h *spacesyncproto.SpaceHeader, x *fctx) { h.AclPayload = x.donor.P.AclRaw }},
		{name: "header.aclPayload: another valid ACL root of the same owner", expect: oHard, only: "v1",
			hdr: func(h *spacesyncproto.SpaceHeader, x *fctx) { h.AclPayload = otherAcl(x) }},
		{name: "header.aclPayload: cleared", expect: oHard, only: "v1",
			hdr: func(h *spacesyncproto.SpaceHeader, x *fctx) { h.AclPayload = []byte{} }},
		{name: "header.aclPayload: re-encoding of the ACL root", expect: oHard, only: "v1",
			hdr: func(h *spacesyncproto.SpaceHeader, x *fctx) { h.AclPayload = reenc(slotAcl, x.aclRaw) }},
		{name: "header.aclPayload: ACL root truncated by one byte", expect: oHard, only: "v1",
			hdr: func(h *spacesyncproto.SpaceHeader, x *fctx) { h.AclPayload = x.aclRaw[:len(x.aclRaw)-1] }},
		{name: "header.settingPayload: another valid space's settings root", expect: oHard, only: "v1",
			hdr: func(h *spacesyncproto.SpaceHeader, x *fctx) { h.SettingPayload = x.donor.P.SetRaw }},
		{name: "header.settingPayload: another valid settings root of the same owner", expect: oHard, only: "v1",
			hdr: func(h *spacesyncproto.SpaceHeader, x *fctx) { h.SettingPayload = otherSet(x) }},
		{name: "header.settingPayload: cleared", expect: oHard, only: "v1",
			hdr: func(h *spacesyncproto.SpaceHeader, x *fctx) { h.SettingPayload = []byte{} }},
		{name: "header.settingPayload: re-encoding of the settings root", expect: oHard, only: "v1",
			hdr: func(h *spacesyncproto.SpaceHeader, x *fctx) { h.SettingPayload = reenc(slotSet, x.setRaw) }},
		{name: "header.settingPayload: settings root truncated by one byte", expect: oHard, only: "v1",
			hdr: func(h *spacesyncproto.SpaceHeader, x *fctx) { h.SettingPayload = x.setRaw[:len(x.setRaw)-1] }},
		{name: "header.aclPayload and header.settingPayload exchanged", expect: oHard, only: "v1",
			hdr: func(h *spacesyncproto.SpaceHeader, x *fctx) {
				h.AclPayload, h.SettingPayload = h.SettingPayload, h.AclPayload
			}},
		{name: "header.version: 0 although the roots carry no space id", expect: oHard, only: "v1",
			hdr: func(h *spacesyncproto.SpaceHeader, x *fctx) {
				h.Version = spacesyncproto.SpaceHeaderVersion_SpaceHeaderVersion0
			}},

	}
	// a header version this code does not know must not switch the binding checks off: whatever such a header is taken
	// for, it still has to commit to these two roots (the version alone, everything else consistent, is informational)
	for _, v := range []spacesyncproto.SpaceHeaderVersion{2, 3, 100} {
		v := v
		setV := func(h *spacesyncproto.SpaceHeader, x *fctx) { h.Version = v }
		tag := fmt.Sprintf("header.version: unknown value %d", v)
		fs = append(fs,
			forge{name: tag + ", everything else consistent", expect: oInfo, hdr: setV},
			forge{name: tag + " and acl.spaceId + settings.spaceId name another valid space", expect: oHard, only: "v0", hdr: setV,
				acl: func(a *aclrecordproto.AclRoot, x *fctx) { a.SpaceId = x.donor.P.HdrId },
				set: func(r *treechangeproto.RootChange, x *fctx) { r.SpaceId = x.donor.P.HdrId }},
			forge{name: tag + " and acl.spaceId names another valid space", expect: oHard, only: "v0", hdr: setV,
				acl: func(a *aclrecordproto.AclRoot, x *fctx) { a.SpaceId = x.donor.P.HdrId }},
			forge{name: tag + " and settings.spaceId names another valid space", expect: oHard, only: "v0", hdr: setV,
				set: func(r *treechangeproto.RootChange, x *fctx) { r.SpaceId = x.donor.P.HdrId }},
			forge{name: tag + " and header.aclPayload is another valid space's ACL root", expect: oHard, only: "v1",
				hdr: func(h *spacesyncproto.SpaceHeader, x *fctx) { h.Version = v; h.AclPayload = x.donor.P.AclRaw }},
			forge{name: tag + " and header.settingPayload is another valid space's settings root", expect: oHard, only: "v1",
				hdr: func(h *spacesyncproto.SpaceHeader, x *fctx) { h.Version = v; h.SettingPayload = x.donor.P.SetRaw }},
			forge{name: tag + " and both embedded payloads are another valid space's roots", expect: oHard, only: "v1",
				hdr: func(h *spacesyncproto.SpaceHeader, x *fctx) {
					h.Version = v
					h.AclPayload, h.SettingPayload = x.donor.P.AclRaw, x.donor.P.SetRaw
				}},
		)
	}
	fs = append(fs, []forge{
		// v1, where the property is silent (the header embeds both roots byte for byte): never flagged
		{name: "settings.aclHeadId: another valid space's ACL root id (header embeds both roots)", expect: oInfo, only: "v1",
			set: func(r *treechangeproto.RootChange, x *fctx) { r.AclHeadId = x.donor.P.AclId }},
		{name: "acl.spaceId: names another valid space (header embeds the root)", expect: oInfo, only: "v1",
			acl: func(a *aclrecordproto.AclRoot, x *fctx) { a.SpaceId = x.donor.P.HdrId }},
		{name: "settings.spaceId: names another valid space (header embeds the root)", expect: oInfo, only: "v1",
			set: func(r *treechangeproto.RootChange, x *fctx) { r.SpaceId = x.donor.P.HdrId }},
	}...)
	return fs
}

// genForged evaluates family D for one seed. Returns false if the assembler's controls failed.
func genForged(e *evaluator, s, donor *seed) {
	c := e.c
	ver := "v0"
	if s.V1 {
		ver = "v1"
	}
	for _, f := range forges() {
		if f.only != "" && f.only != ver {
			continue
		}
		var m parts
		if p, what := vkRecover(func() { m = assemble(s, donor, f) }); p {
			c.Broken("family D: assembler panicked for %s / %s: %s", s.name(), f.name, what)
			continue
		}
		if f.expect != oAccept && m.equal(s.P) {
			c.Count("skipped_identical_to_seed", 1)
			continue
		}
		err, panicked, what := validateStorage(m)
		c.Count("evaluations", 1)
		c.Count("executions", 1)
		cls := errClass(err)
		if panicked {
			cls = "panic"
		}
		c.Distinct("distinct", s.Ctor+"|D|"+f.name+"|"+cls)
		c.Distinct("error_class", cls)
		mm := m
		rc := replayCase{Family: "mutant", Kind: "D", Part: "all (re-signed)", Desc: f.name, Validator: "storage", Seed: s, Mutant: &mm}
		switch {
		case panicked:
			c.Violation(fmt.Sprintf("panic in ValidateSpaceStorageCreatePayload: ctor=%s part=forged kind=D", s.Ctor), s.name()+" "+f.name+": "+what, rc)
		case f.expect == oAccept:
			if f.hdr == nil && f.acl == nil && f.set == nil {
				c.Require(m.equal(s.P), "family D: %s rebuilt without edits is not byte-identical to the constructor's payload", s.name())
			}
			c.Require(err == nil, "family D: control payload of %s rejected (%s): %v — the assembler does not build valid payloads", s.name(), f.name, err)
			if err == nil {
				c.Count("forged_controls_accepted", 1)
			}
		case err == nil && f.expect == oHard:
			c.Violation(fmt.Sprintf("single-defect forgery accepted: ctor=%s defect=%s", s.Ctor, f.name),
				fmt.Sprintf("ValidateSpaceStorageCreatePayload accepted a %s payload rebuilt from %s with valid hashes and record signatures but with this single defect: %s", ver, s.name(), f.name), rc)
		case err == nil:
			c.Count("informational_unbound_accepted", 1)
			e.informational("ValidateSpaceStorageCreatePayload, "+ver+" payloads re-signed by the owner (property silent: the v1 header embeds both roots byte for byte)", f.name)
		case f.expect == oHard:
			c.Count("rejected_forged_single_defect", 1)
			c.Count("rejected_cross-part", 1)
			if f.only != "" && e.nForged.Add(1) <= 2 {
				c.Sample(map[string]any{"seed": s.name(), "part": "all parts re-signed and consistent", "kind": "D", "mutation": f.name, "must_fail": "single defect", "verdict": cls})
			}
		default:
			c.Count("informational_unbound_rejected", 1)
		}
	}
}

func vkRecover(f func()) (panicked bool, what string) {
	defer func() {
		if r := recover(); r != nil {
			panicked, what = true, fmt.Sprint(r)
		}
	}()
	f()
	return
}

var _ = bytes.Equal
